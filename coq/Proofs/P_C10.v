(** C10 — Into returns the designated field for every requested target type. *)
From Educe.Spec Require Export SpecInto.
From Educe.Proofs Require Export P_C09a.

(** ** selection: [into_select] is "marked, else sole, else unique same-typed" *)
Definition to_if (x : nat * (field * into_fattr)) : ifield :=
  mk_ifield (fst x) (fst (snd x)) (snd (snd x)).
Definition ifs_from (k : nat) (fs : list (field * into_fattr)) : list ifield :=
  map to_if (index_from k fs).
Definition ifs (fs : list (field * into_fattr)) : list ifield := ifs_from 0 fs.

Lemma filter_map_comm {A B} (p : B -> bool) (g : A -> B) (xs : list A) :
  filter p (map g xs) = map g (filter (fun x => p (g x)) xs).
Proof.
  induction xs as [|x xs IH]; cbn; [reflexivity|].
  destruct (p (g x)); cbn; rewrite IH; reflexivity.
Qed.

Section Select.
  Variable T : toks.

  Definition choice_of (x : nat * (field * into_fattr)) : into_choice :=
    (fst x, fst (snd x), into_method T (to_if x)).
  Definition choice_none (x : nat * (field * into_fattr)) : into_choice :=
    (fst x, fst (snd x), None).

  Lemma flagged_filter fs :
    into_flagged T fs = map choice_of (filter (fun x => marked T (to_if x)) (indexed fs)).
  Proof.
    unfold into_flagged. generalize (indexed fs) as xs.
    induction xs as [|[i [f fa]] xs IH]; cbn [flat_map filter map]; [reflexivity|].
    unfold marked at 1, ty_mem, to_if at 1. cbn [fst snd mk_ifield if_marks].
    destruct (ty_lookup T fa) as [m|] eqn:E.
    - cbn [app map]. rewrite IH. f_equal.
      unfold choice_of, into_method, to_if. cbn [fst snd mk_ifield if_marks]. rewrite E. reflexivity.
    - cbn [app]. exact IH.
  Qed.

  Lemma same_typed_filter fs :
    into_same_typed T fs = map choice_none (filter (fun x => same_type T (to_if x)) (indexed fs)).
  Proof.
    unfold into_same_typed. generalize (indexed fs) as xs.
    induction xs as [|[i [f fa]] xs IH]; cbn [flat_map filter map]; [reflexivity|].
    unfold same_type at 1, to_if at 1. cbn [fst snd mk_ifield if_ty].
    destruct (flat_eqb T (hash_type (f_ty f))).
    - cbn [app map]. rewrite IH. reflexivity.
    - cbn [app]. exact IH.
  Qed.

  Lemma into_select_multi fs :
    List.length fs <> 1 ->
    into_select T fs =
    match into_flagged T fs with
    | _ :: _ :: _ => Err E_into_multi
    | [c] => Ok c
    | [] => match into_same_typed T fs with
            | [c] => Ok c
            | _ => Err E_into_no_field
            end
    end.
  Proof.
    intros H. destruct fs as [|[f fa] [|y r]]; try reflexivity. cbn in H. congruence.
  Qed.

  Lemma spec_select_multi (l : list ifield) :
    List.length l <> 1 ->
    spec_into_select T l =
    match filter (marked T) l with
    | [f] => Ok f
    | _ :: _ :: _ => Err E_into_multi
    | [] => match filter (same_type T) l with
            | [f] => Ok f
            | _ => Err E_into_no_field
            end
    end.
  Proof.
    intros H. destruct l as [|a [|b r]]; try reflexivity. cbn in H. congruence.
  Qed.

  Lemma ifs_length fs : List.length (ifs fs) = List.length fs.
  Proof. unfold ifs, ifs_from. rewrite map_length. apply index_from_length. Qed.

  Lemma in_filter_indexed (p : nat * (field * into_fattr) -> bool) fs i f fa :
    In (i, (f, fa)) (filter p (indexed fs)) -> nth_error fs i = Some (f, fa).
  Proof.
    intros H. apply filter_In in H. destruct H as [H _].
    apply in_index_from in H. destruct H as [_ H]. replace (i - 0) with i in H by lia. exact H.
  Qed.

  (** the analysis returns exactly what the rule says: the same field (index,
      field, and it is the i-th, with the method registered for T) or the same error *)
  Theorem into_select_spec fs :
    match into_select T fs with
    | Ok (i, f, m) =>
        exists fa, nth_error fs i = Some (f, fa) /\
                   spec_into_select T (ifs fs) = Ok (mk_ifield i f fa) /\
                   m = into_method T (mk_ifield i f fa)
    | Err e => spec_into_select T (ifs fs) = Err e
    | _ => False
    end.
  Proof.
    destruct (Nat.eq_dec (List.length fs) 1) as [H1|H1].
    - destruct fs as [|[f fa] [|y r]]; cbn in H1; try lia.
      cbn [into_select]. exists fa. split; [reflexivity|]. split; reflexivity.
    - rewrite (into_select_multi fs H1).
      rewrite (spec_select_multi (ifs fs)) by (rewrite ifs_length; exact H1).
      unfold ifs, ifs_from. fold (indexed fs). rewrite !filter_map_comm.
      rewrite flagged_filter, same_typed_filter.
      destruct (filter (fun x => marked T (to_if x)) (indexed fs)) as [|[i [f fa]] [|y r]] eqn:Em;
        cbn [map].
      + destruct (filter (fun x => same_type T (to_if x)) (indexed fs)) as [|[i [f fa]] [|y r]] eqn:Es;
          cbn [map]; try reflexivity.
        unfold choice_none. cbn [fst snd]. exists fa.
        split; [apply (in_filter_indexed (fun x => same_type T (to_if x))); rewrite Es; left; reflexivity|].
        split; [reflexivity|].
        (* no mark for T on this field: it is not in the marked filter *)
        assert (Hin : In (i, (f, fa)) (indexed fs)).
        { assert (H : In (i, (f, fa)) (filter (fun x => same_type T (to_if x)) (indexed fs)))
            by (rewrite Es; left; reflexivity).
          apply filter_In in H. tauto. }
        assert (Hnm : marked T (to_if (i, (f, fa))) = false).
        { destruct (marked T (to_if (i, (f, fa)))) eqn:E; [|reflexivity].
          assert (H : In (i, (f, fa)) (filter (fun x => marked T (to_if x)) (indexed fs)))
            by (apply filter_In; split; assumption).
          rewrite Em in H. destruct H. }
        unfold marked, ty_mem, to_if in Hnm. cbn [fst snd mk_ifield if_marks] in Hnm.
        unfold into_method. cbn [mk_ifield if_marks].
        destruct (ty_lookup T fa); [discriminate Hnm|reflexivity].
      + unfold choice_of. cbn [fst snd]. exists fa.
        split; [apply (in_filter_indexed (fun x => marked T (to_if x))); rewrite Em; left; reflexivity|].
        split; reflexivity.
      + reflexivity.
  Qed.

  (** the error cases spelled out *)
  Lemma select_two_marked fs :
    List.length fs <> 1 -> 2 <= List.length (filter (marked T) (ifs fs)) ->
    into_select T fs = Err E_into_multi.
  Proof.
    intros H1 H2. pose proof (into_select_spec fs) as Hs.
    assert (Hsp : spec_into_select T (ifs fs) = Err E_into_multi).
    { rewrite spec_select_multi by (rewrite ifs_length; exact H1).
      destruct (filter (marked T) (ifs fs)) as [|a [|b r]]; cbn in H2; try lia. reflexivity. }
    destruct (into_select T fs) as [[[i f] m]|e| |]; try contradiction.
    - destruct Hs as [fa [_ [Hs _]]]. congruence.
    - congruence.
  Qed.

  Lemma select_none_determinable fs :
    List.length fs <> 1 -> filter (marked T) (ifs fs) = [] ->
    List.length (filter (same_type T) (ifs fs)) <> 1 ->
    into_select T fs = Err E_into_no_field.
  Proof.
    intros H1 H2 H3. pose proof (into_select_spec fs) as Hs.
    assert (Hsp : spec_into_select T (ifs fs) = Err E_into_no_field).
    { rewrite spec_select_multi by (rewrite ifs_length; exact H1). rewrite H2.
      destruct (filter (same_type T) (ifs fs)) as [|a [|b r]]; cbn in H3; try reflexivity. lia. }
    destruct (into_select T fs) as [[[i f] m]|e| |]; try contradiction.
    - destruct Hs as [fa [_ [Hs _]]]. congruence.
    - congruence.
  Qed.
End Select.

(** ** field attributes: the request's fields are the analysed ones *)
Section Attrs.
  Variable F : features.
  Variable traits : list trait.
  Variable targets : into_targets.

  Lemma into_field_attr_inv f y :
    into_field_attr F traits targets f = Ok y ->
    fst y = f /\ forallb (fun '(k, _) => ty_mem k targets) (snd y) = true.
  Proof.
    unfold into_field_attr. intros H. inv_bind H. inv_bind H.
    destruct (forallb (fun '(k, _) => ty_mem k targets) a0) eqn:E; [|discriminate H].
    inversion H; subst. split; [reflexivity|exact E].
  Qed.

  (** a field-level target that is not requested at type level is refused *)
  Lemma into_field_attr_no_impl f ms fa :
    into_collect F traits (f_attrs f) = Ok ms ->
    foldM into_field_meta [] ms = Ok fa ->
    (exists k m, In (k, m) fa /\ ty_mem k targets = false) ->
    into_field_attr F traits targets f = Err E_into_no_impl.
  Proof.
    intros Hc Hf [k [m [Hin Hk]]]. unfold into_field_attr. rewrite Hc. cbn [bind]. rewrite Hf. cbn [bind].
    destruct (forallb (fun '(k, _) => ty_mem k targets) fa) eqn:E; [|reflexivity].
    rewrite forallb_forall in E. specialize (E _ Hin). cbn in E. congruence.
  Qed.

  Lemma ifields_of_attrs fs : forall k fl,
    mapM (into_field_attr F traits targets) fs = Ok fl ->
    mapM (into_ifield F traits targets) (index_from k fs) = Ok (ifs_from k fl) /\ map fst fl = fs.
  Proof.
    induction fs as [|f fs IH]; intros k fl H; cbn [mapM index_from] in *.
    - inversion H; subst. split; reflexivity.
    - inv_bind H. inv_bind H. inversion H; subst. clear H.
      destruct (IH (S k) _ Hb0) as [H1 H2].
      unfold into_ifield at 1. cbn [fst snd]. rewrite Hb. cbn [bind]. rewrite H1. cbn [bind].
      destruct (into_field_attr_inv _ _ Hb) as [Hf _].
      split.
      + unfold ifs_from. cbn [index_from map]. unfold to_if at 2. cbn [fst snd]. rewrite Hf. reflexivity.
      + cbn [map]. rewrite Hf, H2. reflexivity.
  Qed.

  Lemma ifs_keys fl : forall k,
    map if_key (ifs_from k fl) = map (fun x => field_key (fst x) (snd x)) (index_from k (map fst fl)).
  Proof.
    induction fl as [|[f fa] fl IH]; intros k; [reflexivity|].
    unfold ifs_from. cbn [index_from map fst snd to_if mk_ifield if_key]. f_equal. apply IH.
  Qed.

  (** every mark of the request is one of the targets *)
  Lemma ifields_marks fs l :
    into_ifields F traits targets fs = Ok l ->
    forall f k m, In f l -> In (k, m) (if_marks f) -> ty_mem k targets = true.
  Proof.
    unfold into_ifields. generalize (indexed fs) as xs. intros xs. revert l.
    induction xs as [|x xs IH]; intros l H f k m Hf Hk; cbn [mapM] in H.
    - inversion H; subst. destruct Hf.
    - inv_bind H. inv_bind H. inversion H; subst. clear H.
      destruct Hf as [Hf|Hf]; [|eapply IH; eassumption].
      subst f. unfold into_ifield in Hb. inv_bind Hb. inversion Hb; subst. cbn [mk_ifield if_marks] in Hk.
      destruct (into_field_attr_inv _ _ Hb1) as [_ Hall].
      rewrite forallb_forall in Hall. specialize (Hall _ Hk). exact Hall.
  Qed.
End Attrs.

(** ** running the emitted bodies *)
Section Run.
  Variable I : interp.
  Variable conv : toks -> value -> value.
  Variable T : toks.
  Let I' := with_into I (conv T).

  (** the meaning of the conversion of a field holding [v] *)
  Definition conv_result (m : option toks) (ty : toks) (v : value) (s : state) : res * state :=
    match m with
    | Some p => match strip (st_store s) v with
                | Some w => (RVal (i_user I p [w]), log (EvUser p [w]) s)
                | None => (RStuck, s)
                end
    | None => if flat_eqb T (hash_type ty) then (RVal v, s) else (RVal (conv T v), s)
    end.

  Lemma eval_into_conv en i f m operand v s :
    eval I' en operand s = (RVal v, s) ->
    eval I' en (into_conv T (i, f, m) operand) s = conv_result m (f_ty f) v s.
  Proof.
    intros Hop. unfold into_conv, conv_result. destruct m as [p|].
    - cbn [eval eval_args]. rewrite Hop. cbn [apply_path]. unfold call_user. cbn [strip_all].
      destruct (strip (st_store s) v); reflexivity.
    - destruct (flat_eqb T (hash_type (f_ty f))); [exact Hop|].
      cbn [eval eval_args]. rewrite Hop. reflexivity.
  Qed.

  Lemma into_conv_no_let c operand : no_let operand = true -> no_let (into_conv T c operand) = true.
  Proof.
    destruct c as [[i f] m]. unfold into_conv. intros H. destruct m; [reflexivity|].
    destruct (flat_eqb T (hash_type (f_ty f))); [exact H|reflexivity].
  Qed.

  (** struct: `conv(self.f)` *)
  Lemma run_struct_into i f m vn xs st v :
    lookup (field_member f i) xs = Some v ->
    run_body I' (into_env (VData vn xs))
             [into_conv T (i, f, m) (EField (EVar "self") (field_member f i))] (into_state st) =
    conv_result m (f_ty f) v (into_state st).
  Proof.
    intros Hv. unfold run_body.
    rewrite eval_block_cons by (apply into_conv_no_let; reflexivity).
    rewrite (eval_into_conv _ i f m _ v).
    - cbn [is_nil]. unfold conv_result.
      destruct m as [p|]; [destruct (strip _ v); reflexivity|].
      destruct (flat_eqb T (hash_type (f_ty f))); reflexivity.
    - cbn [eval place_of into_env lookup String.eqb Ascii.eqb Bool.eqb project]. rewrite Hv. reflexivity.
  Qed.

  Lemma into_arm_eq v i f m :
    into_arm T (v, (i, f, m)) = (arm_pat v i f, into_conv T (i, f, m) (EVar (arm_var i f))).
  Proof. unfold into_arm, arm_pat, arm_var. destruct (f_name f); reflexivity. Qed.

  (** enum: relation between the request's variants and the plan for T *)
  Definition iplan_rel (ce : option string * list ifield) (pe : string * into_choice) : Prop :=
    fst ce = Some (fst pe) /\
    (exists fa, spec_into_select T (snd ce) = Ok (mk_ifield (fst (fst (snd pe))) (snd (fst (snd pe))) fa) /\
                snd (snd pe) = into_method T (mk_ifield (fst (fst (snd pe))) (snd (fst (snd pe))) fa)) /\
    arm_keys_ok_k (fst (fst (snd pe))) (snd (fst (snd pe))) (map if_key (snd ce)).

  Lemma ivget_none_enum c plan :
    Forall2 iplan_rel c plan -> vget (A := list ifield) None c = None.
  Proof.
    induction 1 as [|[k l] pe c plan [Hk _] _ IH]; [reflexivity|].
    cbn [fst] in Hk. subst k. cbn [vget]. exact IH.
  Qed.

  Lemma eval_into_arms vn xs st : forall c plan l,
    Forall2 iplan_rel c plan ->
    vget (Some vn) c = Some l -> map if_key l = map fst xs ->
    exists fd v, spec_into_select T l = Ok fd /\ lookup (if_key fd) xs = Some v /\
      eval_arms (eval I') (into_env (VData (Some vn) xs)) (VData (Some vn) xs)
                (map (into_arm T) plan) (into_state st) =
      conv_result (into_method T fd) (if_ty fd) v (into_state st).
  Proof.
    intros c plan l Hrel. revert l.
    induction Hrel as [|[k l0] [v [[i f] m]] c plan [Hk [[fa [Hsel Hm]] Hkeys]] _ IH]; intros l Hget Hmap.
    - cbn in Hget. discriminate Hget.
    - cbn [fst snd] in *. subst k m. cbn [vget] in Hget. cbn [map]. rewrite into_arm_eq.
      destruct (String.eqb vn v) eqn:E.
      + apply String.eqb_eq in E. subst v. inversion Hget; subst l0. clear Hget.
        destruct (arm_keys_value_gen _ _ _ _ Hkeys Hmap) as [[w Hw] Hun].
        exists (mk_ifield i f fa), w. split; [exact Hsel|]. split; [exact Hw|].
        rewrite (eval_arms_hit I' _ (VData (Some vn) xs) vn xs (fun _ u => u) i f w).
        * apply eval_into_conv. cbn [eval app lookup]. rewrite String.eqb_refl. reflexivity.
        * reflexivity.
        * intros k u Hu. cbn [sub_scrut project]. exact Hu.
        * exact Hw.
        * exact Hun.
      + rewrite (eval_arms_skip I' _ (VData (Some vn) xs) vn xs) by (try reflexivity; exact E).
        apply IH; assumption.
  Qed.

  Lemma run_enum_into vn xs st c plan l :
    Forall2 iplan_rel c plan ->
    vget (Some vn) c = Some l -> map if_key l = map fst xs ->
    exists fd v, spec_into_select T l = Ok fd /\ lookup (if_key fd) xs = Some v /\
      run_body I' (into_env (VData (Some vn) xs)) [EMatch (EVar "self") (map (into_arm T) plan)]
               (into_state st) =
      conv_result (into_method T fd) (if_ty fd) v (into_state st).
  Proof.
    intros Hrel Hget Hmap.
    destruct (eval_into_arms vn xs st c plan l Hrel Hget Hmap) as [fd [v [Hsel [Hv Hev]]]].
    exists fd, v. split; [exact Hsel|]. split; [exact Hv|].
    unfold run_body. cbn [eval_block is_nil eval into_env lookup String.eqb Ascii.eqb Bool.eqb].
    change [("self", VData (Some vn) xs)] with (into_env (VData (Some vn) xs)).
    rewrite Hev.
    unfold conv_result.
    destruct (into_method T fd) as [p|]; [destruct (strip _ v); reflexivity|].
    destruct (flat_eqb T (hash_type (if_ty fd))); reflexivity.
  Qed.

  (** what the spec says, in terms of [conv_result] *)
  Lemma spec_into_conv_result c vn xs l fd v st :
    vget vn c = Some l -> spec_into_select T l = Ok fd -> lookup (if_key fd) xs = Some v ->
    spec_into I conv st c T (VData vn xs) =
    match conv_result (into_method T fd) (if_ty fd) v (into_state st) with
    | (RVal r, s) => Some (r, st_trace s)
    | _ => None
    end.
  Proof.
    intros Hget Hsel Hv. unfold spec_into, into_designated. rewrite Hget, Hsel, Hv.
    unfold conv_result, same_type. cbn [into_state st_store].
    destruct (into_method T fd) as [p|].
    - destruct (strip st v); reflexivity.
    - destruct (flat_eqb T (hash_type (if_ty fd))); reflexivity.
  Qed.
End Run.
