(** C16 / C18 — congruence of the analysis stage.

    Every handler [h F traits d m] reads its arguments [F] (enabled features) and [traits]
    (the educed traits, in the real macro the keys of a HashMap in random order) only through
      - [has_trait t traits]                         (membership),
      - [has_trait t F && has_trait t traits]        (the documented couplings),
      - [trait_from_path F (meta_path m)]            for the metas [m] of the attributes it scans,
      - (Ord only) [has_trait TPartialOrd F && negb (has_trait TPartialOrd traits)].
    This file proves it function by function: two pairs (F, traits), (F', traits') that agree on
    these queries give the same outcome — the same items, the same error, the same OutOfDomain.

    Instances: F = F' and traits' a permutation of traits (C16, Proofs/P_C16b.v);
               traits = traits' and F' = all_traits (C18, Proofs/P_C18.v). *)
From Educe.Model Require Export Driver.

(** * the outcome monad *)
Lemma cg_bind {A B} (m m' : outcome A) (f f' : A -> outcome B) :
  m = m' -> (forall a, f a = f' a) -> bind m f = bind m' f'.
Proof. intros <- H. destruct m; cbn [bind]; auto. Qed.

Lemma cg_bind_r {A B} (m : outcome A) (f f' : A -> outcome B) :
  (forall a, f a = f' a) -> bind m f = bind m f'.
Proof. intros H. apply cg_bind; auto. Qed.

Lemma cg_bind_ok {A B} (m : outcome A) (f : A -> outcome B) (b : B) :
  bind m f = Ok b -> exists a, m = Ok a /\ f a = Ok b.
Proof. destruct m; cbn; intros H; try discriminate; eauto. Qed.

Lemma cg_mapM {A B} (f g : A -> outcome B) l :
  Forall (fun x => f x = g x) l -> mapM f l = mapM g l.
Proof.
  induction 1 as [|x r Hx Hr IH]; cbn [mapM]; [reflexivity|].
  rewrite Hx, IH. reflexivity.
Qed.

Lemma cg_foldM {A S} (f g : S -> A -> outcome S) l :
  Forall (fun x => forall s, f s x = g s x) l -> forall s, foldM f s l = foldM g s l.
Proof.
  induction 1 as [|x r Hx Hr IH]; intros s; cbn [foldM]; [reflexivity|].
  rewrite Hx. apply cg_bind_r. exact IH.
Qed.

Lemma Forall_all {A} (P : A -> Prop) l : (forall x, P x) -> Forall P l.
Proof. intros H. induction l; constructor; auto. Qed.

Lemma Forall_index_from {A} (P : A -> Prop) l : forall i,
  Forall P l -> Forall (fun x => P (snd x)) (index_from i l).
Proof.
  induction l as [|x r IH]; intros i H; cbn [index_from]; [constructor|].
  inversion H; subst. constructor; [assumption|]. apply IH. assumption.
Qed.
Lemma Forall_indexed {A} (P : A -> Prop) l :
  Forall P l -> Forall (fun x => P (snd x)) (indexed l).
Proof. apply Forall_index_from. Qed.

(** * the metas an attribute scan looks at *)

(** the metas of the `#[educe(...)]` list attributes of one item whose argument parses *)
Definition attr_metas (a : attr) : list meta :=
  if is_educe a then
    match a_meta a with
    | AMList _ ts => match parse_metas ts with Ok ms => ms | _ => [] end
    | _ => []
    end
  else [].
Definition attrs_metas (attrs : list attr) : list meta := flat_map attr_metas attrs.

Definition attrs_ok (P : meta -> Prop) (attrs : list attr) : Prop :=
  Forall P (attrs_metas attrs).
Definition field_ok (P : meta -> Prop) (f : field) : Prop := attrs_ok P (f_attrs f).
Definition variant_ok (P : meta -> Prop) (v : variant) : Prop :=
  attrs_ok P (v_attrs v) /\ Forall (field_ok P) (fields_list (v_fields v)).
(** every variant- and field-level attribute list of the item *)
Definition data_ok (P : meta -> Prop) (dd : data) : Prop :=
  match dd with
  | DStruct fs => Forall (field_ok P) (fields_list fs)
  | DEnum vs => Forall (variant_ok P) vs
  | DUnion fs => Forall (field_ok P) fs
  end.

Lemma attrs_ok_cons P a r : attrs_ok P (a :: r) -> Forall P (attr_metas a) /\ attrs_ok P r.
Proof. unfold attrs_ok. cbn [attrs_metas flat_map]. rewrite Forall_app. auto. Qed.

(** a fold over the attributes of one item whose step is a fold over the parsed metas
    (the shape of [scan_attrs], [into_collect] and [collect_attr]) *)
Lemma cg_attr_fold {S} (step step' : S -> meta -> outcome S) (other : S -> outcome S)
      (Q : meta -> Prop) :
  (forall m, Q m -> forall s, step s m = step' s m) ->
  forall attrs, attrs_ok Q attrs ->
  forall s,
    foldM (fun s a => if is_educe a then
                        match a_meta a with
                        | AMList _ ts => let* ms := parse_metas ts in foldM step s ms
                        | _ => other s
                        end
                      else Ok s) s attrs
    = foldM (fun s a => if is_educe a then
                          match a_meta a with
                          | AMList _ ts => let* ms := parse_metas ts in foldM step' s ms
                          | _ => other s
                          end
                        else Ok s) s attrs.
Proof.
  intros Hstep. induction attrs as [|a r IH]; intros Hok s; cbn [foldM]; [reflexivity|].
  apply attrs_ok_cons in Hok as [Ha Hr].
  apply cg_bind; [|intros s'; apply IH; exact Hr].
  unfold attr_metas in Ha. destruct (is_educe a); [|reflexivity].
  destruct (a_meta a) as [| |dl ts]; try reflexivity.
  destruct (parse_metas ts) as [ms| | |]; cbn [bind]; try reflexivity.
  apply cg_foldM. eapply Forall_impl; [|exact Ha]. intros m Hm s'. apply Hstep. exact Hm.
Qed.

(** * two views (F, tr) and (F', tr') that agree on the queries *)
Section Cong.
  Variables (F F' : features) (tr tr' : list trait).
  Hypothesis Htr : forall t, has_trait t tr = has_trait t tr'.
  Hypothesis HF : forall t, has_trait t tr = true -> has_trait t F = has_trait t F'.

  (** the condition on the scanned metas: both feature sets resolve the path alike *)
  Definition path_agree (m : meta) : Prop :=
    trait_from_path F (meta_path m) = trait_from_path F' (meta_path m).

  (** the documented couplings *)
  Lemma cg_coupling t : has_trait t F && has_trait t tr = has_trait t F' && has_trait t tr'.
  Proof.
    rewrite <- Htr. destruct (has_trait t tr) eqn:E; [|rewrite !andb_false_r; reflexivity].
    rewrite (HF t E). reflexivity.
  Qed.

  Lemma cg_scan_meta {A} own own' (build : meta -> outcome A) m :
    (forall t, own t = own' t) -> path_agree m ->
    forall acc, scan_meta F own build tr acc m = scan_meta F' own' build tr' acc m.
  Proof.
    intros Hown Hm acc. unfold scan_meta. rewrite Hm.
    destruct (trait_from_path F' (meta_path m)) as [t|]; [|reflexivity].
    rewrite Htr, Hown. reflexivity.
  Qed.

  Lemma cg_scan {A} own own' (build : meta -> outcome A) attrs :
    (forall t, own t = own' t) -> attrs_ok path_agree attrs ->
    scan_attrs F own build tr attrs = scan_attrs F' own' build tr' attrs.
  Proof.
    intros Hown Hok. unfold scan_attrs, scan_attr.
    apply (cg_attr_fold (scan_meta F own build tr) (scan_meta F' own' build tr')
                        (fun s => Ok s) path_agree); [|exact Hok].
    intros m Hm s. apply cg_scan_meta; assumption.
  Qed.

  Lemma cg_scan_same {A} own (build : meta -> outcome A) attrs :
    attrs_ok path_agree attrs ->
    scan_attrs F own build tr attrs = scan_attrs F' own build tr' attrs.
  Proof. apply cg_scan. reflexivity. Qed.

  Lemma cg_into_collect attrs :
    attrs_ok path_agree attrs -> into_collect F tr attrs = into_collect F' tr' attrs.
  Proof.
    intros Hok. unfold into_collect, into_collect_attr.
    apply (cg_attr_fold (into_collect_meta F tr) (into_collect_meta F' tr')
                        (fun s => Ok s) path_agree); [|exact Hok].
    intros m Hm s. unfold into_collect_meta. rewrite Hm.
    destruct (trait_from_path F' (meta_path m)) as [t|]; [|reflexivity].
    rewrite Htr. reflexivity.
  Qed.

  Ltac fields_step H :=
    apply cg_mapM; eapply Forall_impl; [|exact H]; cbv beta; intros ? ?.

  (** ** PartialEq *)
  Lemma cg_own_partial_eq t : own_partial_eq tr t = own_partial_eq tr' t.
  Proof. unfold own_partial_eq. rewrite Htr. reflexivity. Qed.

  Lemma cg_peq_type_attr attrs : attrs_ok path_agree attrs ->
    peq_type_attr F tr attrs = peq_type_attr F' tr' attrs.
  Proof. intros H. unfold peq_type_attr. rewrite (cg_scan _ _ _ _ cg_own_partial_eq H). reflexivity. Qed.

  Lemma cg_peq_field_attr ei em attrs : attrs_ok path_agree attrs ->
    peq_field_attr F tr ei em attrs = peq_field_attr F' tr' ei em attrs.
  Proof. intros H. unfold peq_field_attr. rewrite (cg_scan _ _ _ _ cg_own_partial_eq H). reflexivity. Qed.

  Lemma cg_field_attrs fs : Forall (field_ok path_agree) fs ->
    field_attrs F tr fs = field_attrs F' tr' fs.
  Proof.
    intros H. unfold field_attrs. fields_step H.
    rewrite (cg_peq_field_attr true true _ H0). reflexivity.
  Qed.

  Lemma cg_peq_variant v : variant_ok path_agree v ->
    peq_variant F tr v = peq_variant F' tr' v.
  Proof.
    intros [Ha Hf]. unfold peq_variant. rewrite (cg_peq_type_attr _ Ha).
    apply cg_bind_r; intros _.
    destruct (v_fields v); cbn [fields_list] in Hf; try rewrite (cg_field_attrs _ Hf); reflexivity.
  Qed.

  Lemma cg_peq_items d g body : peq_items tr F d g body = peq_items tr' F' d g body.
  Proof. unfold peq_items. rewrite (cg_coupling TEq). reflexivity. Qed.

  Theorem cg_expand_partial_eq d m : data_ok path_agree (d_data d) ->
    expand_partial_eq F tr d m = expand_partial_eq F' tr' d m.
  Proof.
    intros Hd. unfold expand_partial_eq. destruct (d_data d) as [fs|vs|fs]; cbn [data_ok] in Hd.
    - apply cg_bind_r; intros ta. rewrite (cg_field_attrs _ Hd).
      apply cg_bind_r; intros l. rewrite cg_peq_items. reflexivity.
    - apply cg_bind_r; intros ta.
      apply cg_bind.
      + fields_step Hd. apply cg_peq_variant. assumption.
      + intros arms. rewrite cg_peq_items. reflexivity.
    - apply cg_bind_r; intros ta. destruct (negb (ta_unsafe ta)); [reflexivity|].
      apply cg_bind.
      + fields_step Hd. apply cg_peq_field_attr. assumption.
      + intros _. rewrite (cg_coupling TEq). reflexivity.
  Qed.

  (** ** Eq, Copy (the marker scanners) *)
  Lemma cg_marker_field_attr own attrs : attrs_ok path_agree attrs ->
    marker_field_attr F own tr attrs = marker_field_attr F' own tr' attrs.
  Proof. intros H. unfold marker_field_attr. rewrite (cg_scan_same _ _ _ H). reflexivity. Qed.

  Lemma cg_marker_variant_attr own attrs : attrs_ok path_agree attrs ->
    marker_variant_attr F own tr attrs = marker_variant_attr F' own tr' attrs.
  Proof. intros H. unfold marker_variant_attr. rewrite (cg_scan_same _ _ _ H). reflexivity. Qed.

  Lemma cg_marker_fields own fs : Forall (field_ok path_agree) fs ->
    mapM (fun f => let* _ := marker_field_attr F own tr (f_attrs f) in Ok (f_ty f)) fs
    = mapM (fun f => let* _ := marker_field_attr F' own tr' (f_attrs f) in Ok (f_ty f)) fs.
  Proof. intros H. fields_step H. rewrite (cg_marker_field_attr own _ H0). reflexivity. Qed.

  Lemma cg_all_field_types own dd : data_ok path_agree dd ->
    all_field_types F own tr dd = all_field_types F' own tr' dd.
  Proof.
    intros Hd. unfold all_field_types. destruct dd as [fs|vs|fs]; cbn [data_ok] in Hd.
    - apply cg_marker_fields; assumption.
    - apply cg_bind; [|reflexivity]. fields_step Hd. destruct H as [Ha Hf].
      rewrite (cg_marker_variant_attr own _ Ha). apply cg_bind_r; intros _.
      apply cg_marker_fields; assumption.
    - apply cg_marker_fields; assumption.
  Qed.

  Theorem cg_expand_eq d m : data_ok path_agree (d_data d) ->
    expand_eq F tr d m = expand_eq F' tr' d m.
  Proof.
    intros Hd. unfold expand_eq. rewrite (cg_coupling TPartialEq).
    apply cg_bind_r; intros ta.
    destruct (has_trait TPartialEq F' && has_trait TPartialEq tr'); [reflexivity|].
    rewrite (cg_all_field_types _ _ Hd). reflexivity.
  Qed.

  Theorem cg_expand_copy d m : data_ok path_agree (d_data d) ->
    expand_copy F tr d m = expand_copy F' tr' d m.
  Proof.
    intros Hd. unfold expand_copy. rewrite (cg_coupling TClone).
    apply cg_bind_r; intros ta.
    destruct (has_trait TClone F' && has_trait TClone tr'); [reflexivity|].
    rewrite (cg_all_field_types _ _ Hd). reflexivity.
  Qed.

  (** ** Hash *)
  Lemma cg_hash_type_attr attrs : attrs_ok path_agree attrs ->
    hash_type_attr F tr attrs = hash_type_attr F' tr' attrs.
  Proof. intros H. unfold hash_type_attr. rewrite (cg_scan_same _ _ _ H). reflexivity. Qed.

  Lemma cg_hash_field_attr ei em attrs : attrs_ok path_agree attrs ->
    hash_field_attr F tr ei em attrs = hash_field_attr F' tr' ei em attrs.
  Proof. intros H. unfold hash_field_attr. rewrite (cg_scan_same _ _ _ H). reflexivity. Qed.

  Lemma cg_hash_field_attrs fs : Forall (field_ok path_agree) fs ->
    hash_field_attrs F tr fs = hash_field_attrs F' tr' fs.
  Proof.
    intros H. unfold hash_field_attrs. fields_step H.
    rewrite (cg_hash_field_attr true true _ H0). reflexivity.
  Qed.

  Lemma cg_hash_variant iv : variant_ok path_agree (snd iv) ->
    hash_variant F tr iv = hash_variant F' tr' iv.
  Proof.
    destruct iv as [vi v]. cbn [snd]. intros [Ha Hf]. unfold hash_variant.
    rewrite (cg_hash_type_attr _ Ha), (cg_hash_field_attrs _ Hf). reflexivity.
  Qed.

  Theorem cg_expand_hash d m : data_ok path_agree (d_data d) ->
    expand_hash F tr d m = expand_hash F' tr' d m.
  Proof.
    intros Hd. unfold expand_hash. destruct (d_data d) as [fs|vs|fs]; cbn [data_ok] in Hd.
    - rewrite (cg_hash_field_attrs _ Hd). reflexivity.
    - apply cg_bind_r; intros ta. apply cg_bind; [|reflexivity].
      apply cg_mapM. eapply Forall_impl; [|apply Forall_indexed; exact Hd].
      cbv beta. intros iv Hv. apply cg_hash_variant. exact Hv.
    - apply cg_bind_r; intros ta. destruct (negb (ta_unsafe ta)); [reflexivity|].
      apply cg_bind; [|reflexivity]. fields_step Hd. apply cg_hash_field_attr. assumption.
  Qed.

  (** ** Clone *)
  Lemma cg_clone_field_attr em attrs : attrs_ok path_agree attrs ->
    clone_field_attr F tr em attrs = clone_field_attr F' tr' em attrs.
  Proof. intros H. unfold clone_field_attr. rewrite (cg_scan_same _ _ _ H). reflexivity. Qed.

  Lemma cg_clone_variant_attr attrs : attrs_ok path_agree attrs ->
    clone_variant_attr F tr attrs = clone_variant_attr F' tr' attrs.
  Proof. intros H. unfold clone_variant_attr. rewrite (cg_scan_same _ _ _ H). reflexivity. Qed.

  Lemma cg_clone_field_attrs em fs : Forall (field_ok path_agree) fs ->
    clone_field_attrs F tr em fs = clone_field_attrs F' tr' em fs.
  Proof.
    intros H. unfold clone_field_attrs. fields_step H.
    rewrite (cg_clone_field_attr em _ H0). reflexivity.
  Qed.

  Lemma cg_clone_variant v : variant_ok path_agree v ->
    clone_variant F tr v = clone_variant F' tr' v.
  Proof.
    intros [Ha Hf]. unfold clone_variant.
    rewrite (cg_clone_variant_attr _ Ha), (cg_clone_field_attrs true _ Hf). reflexivity.
  Qed.

  Theorem cg_expand_clone d m : data_ok path_agree (d_data d) ->
    expand_clone F tr d m = expand_clone F' tr' d m.
  Proof.
    intros Hd. unfold expand_clone. rewrite (cg_coupling TCopy).
    apply cg_bind_r; intros ta. destruct (d_data d) as [fs|vs|fs]; cbn [data_ok] in Hd.
    - rewrite (cg_clone_field_attrs _ _ Hd). reflexivity.
    - apply cg_bind; [|reflexivity]. fields_step Hd. apply cg_clone_variant. assumption.
    - rewrite (cg_clone_field_attrs _ _ Hd). reflexivity.
  Qed.

  (** ** Debug *)
  Lemma cg_debug_variant_attr b attrs : attrs_ok path_agree attrs ->
    debug_variant_attr F tr b attrs = debug_variant_attr F' tr' b attrs.
  Proof. intros H. unfold debug_variant_attr. rewrite (cg_scan_same _ _ _ H). reflexivity. Qed.

  Lemma cg_debug_field_attr a b c attrs : attrs_ok path_agree attrs ->
    debug_field_attr F tr a b c attrs = debug_field_attr F' tr' a b c attrs.
  Proof. intros H. unfold debug_field_attr. rewrite (cg_scan_same _ _ _ H). reflexivity. Qed.

  Lemma cg_debug_field_attrs en fs : Forall (field_ok path_agree) fs ->
    debug_field_attrs F tr en fs = debug_field_attrs F' tr' en fs.
  Proof.
    intros H. unfold debug_field_attrs. apply cg_bind; [|reflexivity]. fields_step H.
    rewrite (cg_debug_field_attr en true true _ H0). reflexivity.
  Qed.

  Lemma cg_debug_variant name v : variant_ok path_agree v ->
    debug_variant F tr name v = debug_variant F' tr' name v.
  Proof.
    intros [Ha Hf]. unfold debug_variant. rewrite (cg_debug_variant_attr _ _ Ha).
    apply cg_bind_r; intros ta.
    destruct (v_fields v); cbn [fields_list] in Hf |- *;
      try rewrite (cg_debug_field_attrs _ _ Hf); reflexivity.
  Qed.

  Theorem cg_expand_debug d m : data_ok path_agree (d_data d) ->
    expand_debug F tr d m = expand_debug F' tr' d m.
  Proof.
    intros Hd. unfold expand_debug. destruct (d_data d) as [fs|vs|fs]; cbn [data_ok] in Hd.
    - apply cg_bind_r; intros ta. rewrite (cg_debug_field_attrs _ _ Hd). reflexivity.
    - apply cg_bind_r; intros ta. apply cg_bind; [|reflexivity].
      fields_step Hd. apply cg_debug_variant. assumption.
    - apply cg_bind_r; intros ta. destruct (negb (dt_unsafe ta)); [reflexivity|].
      apply cg_bind; [|reflexivity]. fields_step Hd. apply cg_debug_field_attr. assumption.
  Qed.

  (** ** PartialOrd, Ord *)
  Lemma cg_ord_field_attr own own' i attrs :
    (forall t, own t = own' t) -> attrs_ok path_agree attrs ->
    ord_field_attr F own tr i attrs = ord_field_attr F' own' tr' i attrs.
  Proof. intros Ho H. unfold ord_field_attr. rewrite (cg_scan _ _ _ _ Ho H). reflexivity. Qed.

  Lemma cg_ord_variant_attr own own' attrs :
    (forall t, own t = own' t) -> attrs_ok path_agree attrs ->
    ord_variant_attr F own tr attrs = ord_variant_attr F' own' tr' attrs.
  Proof. intros Ho H. unfold ord_variant_attr. rewrite (cg_scan _ _ _ _ Ho H). reflexivity. Qed.

  Lemma cg_plan_fields own own' fs :
    (forall t, own t = own' t) -> Forall (field_ok path_agree) fs ->
    plan_fields F own tr fs = plan_fields F' own' tr' fs.
  Proof.
    intros Ho H. unfold plan_fields. apply cg_foldM.
    eapply Forall_impl; [|apply Forall_indexed; exact H]. cbv beta.
    intros [i f] Hf p. unfold plan_field. cbn [snd] in Hf.
    rewrite (cg_ord_field_attr _ _ i _ Ho Hf). reflexivity.
  Qed.

  Lemma cg_plan_variant own own' v :
    (forall t, own t = own' t) -> variant_ok path_agree v ->
    plan_variant F own tr v = plan_variant F' own' tr' v.
  Proof.
    intros Ho [Ha Hf]. unfold plan_variant. rewrite (cg_ord_variant_attr _ _ _ Ho Ha).
    apply cg_bind_r; intros _.
    destruct (v_fields v); cbn [fields_list] in Hf;
      try rewrite (cg_plan_fields _ _ _ Ho Hf); reflexivity.
  Qed.

  Theorem cg_expand_partial_ord d m : data_ok path_agree (d_data d) ->
    expand_partial_ord F tr d m = expand_partial_ord F' tr' d m.
  Proof.
    intros Hd. unfold expand_partial_ord. rewrite (cg_coupling TOrd).
    destruct (has_trait TOrd F' && has_trait TOrd tr'); [reflexivity|].
    destruct (d_data d) as [fs|vs|fs]; cbn [data_ok] in Hd.
    - apply cg_bind_r; intros ta.
      rewrite (cg_plan_fields (trait_eqb TPartialOrd) _ _ (fun _ => eq_refl) Hd). reflexivity.
    - apply cg_bind_r; intros ta. apply cg_bind_r; intros ty. apply cg_bind; [|reflexivity].
      fields_step Hd. apply cg_plan_variant; [reflexivity|assumption].
    - reflexivity.
  Qed.

  Lemma cg_own_ord t : own_ord F tr t = own_ord F' tr' t.
  Proof. unfold own_ord. rewrite (cg_coupling TPartialOrd). reflexivity. Qed.

  Lemma cg_ord_items d g body : ord_items F tr d g body = ord_items F' tr' d g body.
  Proof. unfold ord_items. rewrite (cg_coupling TPartialOrd). reflexivity. Qed.

  (** The Ord handler is the one place where a FEATURE is consulted for a trait that is not
      educed: `Self: PartialOrd` is added to the automatic bound when the feature PartialOrd is
      enabled and PartialOrd is not educed (ord/mod.rs, `#[cfg(feature = "PartialOrd")]`). *)
  Definition ord_feature_agree : Prop :=
    has_trait TPartialOrd tr = false -> has_trait TPartialOrd F = has_trait TPartialOrd F'.

  Lemma cg_ord_supertraits : ord_feature_agree -> ord_supertraits F tr = ord_supertraits F' tr'.
  Proof.
    intros H. unfold ord_supertraits. rewrite <- Htr.
    destruct (has_trait TPartialOrd tr) eqn:E; cbn [negb]; [rewrite !andb_false_r; reflexivity|].
    rewrite (H E). reflexivity.
  Qed.

  Theorem cg_expand_ord d m : ord_feature_agree -> data_ok path_agree (d_data d) ->
    expand_ord F tr d m = expand_ord F' tr' d m.
  Proof.
    intros Hs Hd. unfold expand_ord. rewrite (cg_ord_supertraits Hs).
    destruct (d_data d) as [fs|vs|fs]; cbn [data_ok] in Hd.
    - apply cg_bind_r; intros ta.
      rewrite (cg_plan_fields _ _ _ cg_own_ord Hd). apply cg_bind_r; intros p.
      rewrite cg_ord_items. reflexivity.
    - apply cg_bind_r; intros ta. apply cg_bind_r; intros ty. apply cg_bind.
      + fields_step Hd. apply cg_plan_variant; [exact cg_own_ord|assumption].
      + intros vps. rewrite cg_ord_items. reflexivity.
    - reflexivity.
  Qed.

  (** ** Default *)
  Lemma cg_default_variant_attr fl attrs : attrs_ok path_agree attrs ->
    default_variant_attr F tr fl attrs = default_variant_attr F' tr' fl attrs.
  Proof. intros H. unfold default_variant_attr. rewrite (cg_scan_same _ _ _ H). reflexivity. Qed.

  Lemma cg_default_field_attr a b f : field_ok path_agree f ->
    default_field_attr F tr a b f = default_field_attr F' tr' a b f.
  Proof. intros H. unfold default_field_attr. rewrite (cg_scan_same _ _ _ H). reflexivity. Qed.

  Lemma cg_ensure_no_attribute fs : Forall (field_ok path_agree) fs ->
    ensure_no_attribute F tr fs = ensure_no_attribute F' tr' fs.
  Proof.
    intros H. unfold ensure_no_attribute. apply cg_bind; [|reflexivity].
    fields_step H. apply cg_default_field_attr. assumption.
  Qed.

  Lemma cg_default_field_value f : field_ok path_agree f ->
    default_field_value F tr f = default_field_value F' tr' f.
  Proof. intros H. unfold default_field_value. rewrite (cg_default_field_attr _ _ _ H). reflexivity. Qed.

  Lemma cg_default_fields_body p fs : Forall (field_ok path_agree) (fields_list fs) ->
    default_fields_body F tr p fs = default_fields_body F' tr' p fs.
  Proof.
    intros H. unfold default_fields_body. destruct fs as [l|l|]; cbn [fields_list] in H; [| |reflexivity].
    - apply cg_bind; [|reflexivity]. fields_step H. rewrite (cg_default_field_value _ H0). reflexivity.
    - apply cg_bind; [|reflexivity]. fields_step H. apply cg_default_field_value. assumption.
  Qed.

  Lemma cg_select_variant vs : Forall (variant_ok path_agree) vs ->
    select_variant F tr vs = select_variant F' tr' vs.
  Proof.
    intros H. unfold select_variant.
    assert (Hfold : foldM (select_variant_step F tr) None vs = foldM (select_variant_step F' tr') None vs).
    { apply cg_foldM. eapply Forall_impl; [|exact H]. cbv beta. intros v [Ha Hf] acc.
      unfold select_variant_step. rewrite (cg_default_variant_attr _ _ Ha).
      apply cg_bind_r; intros ta. rewrite (cg_ensure_no_attribute _ Hf). reflexivity. }
    destruct vs as [|v [|v2 r]]; try (rewrite Hfold; reflexivity).
    inversion H as [|? ? [Ha _] _]; subst. rewrite (cg_default_variant_attr _ _ Ha). reflexivity.
  Qed.

  Lemma cg_select_field fs : Forall (field_ok path_agree) fs ->
    select_field F tr fs = select_field F' tr' fs.
  Proof.
    intros H. unfold select_field.
    assert (Hfold : foldM (select_field_step F tr) None fs = foldM (select_field_step F' tr') None fs).
    { apply cg_foldM. eapply Forall_impl; [|exact H]. cbv beta. intros f Hf acc.
      unfold select_field_step. rewrite (cg_default_field_attr _ _ _ Hf). reflexivity. }
    destruct fs as [|f [|f2 r]]; try (rewrite Hfold; reflexivity).
    inversion H; subst. rewrite (cg_default_field_attr _ _ f); [reflexivity|assumption].
  Qed.

  Lemma variant_ok_fields vs v : Forall (variant_ok path_agree) vs -> In v vs ->
    Forall (field_ok path_agree) (fields_list (v_fields v)).
  Proof. intros H Hin. rewrite Forall_forall in H. exact (proj2 (H v Hin)). Qed.

  Lemma select_variant_in FF tt vs v : select_variant FF tt vs = Ok v -> In v vs.
  Proof.
    unfold select_variant. intros H.
    assert (Hfold : forall l acc o, foldM (select_variant_step FF tt) acc l = Ok o ->
                                    forall x, o = Some x -> acc = Some x \/ In x l).
    { induction l as [|y r IH]; intros acc o Hf x Hx; cbn [foldM] in Hf.
      - inversion Hf; subst. left. reflexivity.
      - apply cg_bind_ok in Hf as [acc' [Hs Hf]]. specialize (IH _ _ Hf x Hx).
        destruct IH as [IH|IH]; [|right; right; exact IH].
        unfold select_variant_step in Hs. apply cg_bind_ok in Hs as [ta [_ Hs]].
        destruct (dt_flag ta).
        + destruct acc; [discriminate|]. rewrite IH in Hs. injection Hs as Hs. right; left; exact Hs.
        + apply cg_bind_ok in Hs as [u [_ Hs]]. rewrite IH in Hs. injection Hs as Hs. left. exact Hs. }
    destruct vs as [|v1 [|v2 r]].
    - cbn in H. discriminate.
    - apply cg_bind_ok in H as [_ [_ H]]. inversion H; subst. left; reflexivity.
    - apply cg_bind_ok in H as [o [Hf H]]. destruct o as [x|]; [|discriminate].
      inversion H; subst. destruct (Hfold _ _ _ Hf v eq_refl) as [E|E]; [discriminate|exact E].
  Qed.

  Lemma cg_default_plan d m : data_ok path_agree (d_data d) ->
    default_plan F tr d m = default_plan F' tr' d m.
  Proof.
    intros Hd. unfold default_plan. apply cg_bind_r; intros ta. apply cg_bind; [|reflexivity].
    destruct (d_data d) as [fs|vs|fs]; cbn [data_ok] in Hd.
    - destruct (dt_expr ta).
      + rewrite (cg_ensure_no_attribute _ Hd). reflexivity.
      + apply cg_default_fields_body. assumption.
    - destruct (dt_expr ta).
      + apply cg_bind; [|reflexivity]. fields_step Hd. destruct H as [Ha Hf].
        rewrite (cg_default_variant_attr _ _ Ha). apply cg_bind_r; intros _.
        apply cg_ensure_no_attribute. assumption.
      + rewrite (cg_select_variant _ Hd).
        destruct (select_variant F' tr' vs) as [v| | |] eqn:E; cbn [bind]; try reflexivity.
        apply cg_default_fields_body. eapply variant_ok_fields; [exact Hd|].
        eapply select_variant_in. exact E.
    - destruct (dt_expr ta).
      + rewrite (cg_ensure_no_attribute _ Hd). reflexivity.
      + rewrite (cg_select_field _ Hd). reflexivity.
  Qed.

  Theorem cg_expand_default d m : data_ok path_agree (d_data d) ->
    expand_default F tr d m = expand_default F' tr' d m.
  Proof. intros Hd. unfold expand_default. rewrite (cg_default_plan _ _ Hd). reflexivity. Qed.

  (** ** Deref, DerefMut *)
  Lemma cg_deref_field_flag own attrs : attrs_ok path_agree attrs ->
    deref_field_flag F own tr attrs = deref_field_flag F' own tr' attrs.
  Proof. intros H. unfold deref_field_flag. rewrite (cg_scan_same _ _ _ H). reflexivity. Qed.

  Lemma cg_deref_variant_attr own attrs : attrs_ok path_agree attrs ->
    deref_variant_attr F own tr attrs = deref_variant_attr F' own tr' attrs.
  Proof. intros H. unfold deref_variant_attr. rewrite (cg_scan_same _ _ _ H). reflexivity. Qed.

  Lemma cg_deref_select own fs : Forall (field_ok path_agree) fs ->
    deref_select F own tr fs = deref_select F' own tr' fs.
  Proof.
    intros H. unfold deref_select.
    assert (Hfold : forall acc, foldM (deref_pick F own tr) acc (indexed fs)
                                = foldM (deref_pick F' own tr') acc (indexed fs)).
    { apply cg_foldM. eapply Forall_impl; [|apply Forall_indexed; exact H]. cbv beta.
      intros x Hx acc. unfold deref_pick. rewrite (cg_deref_field_flag own _ Hx). reflexivity. }
    destruct fs as [|f [|f2 r]]; try (rewrite Hfold; reflexivity).
    inversion H; subst. rewrite (cg_deref_field_flag own (f_attrs f)); [reflexivity|assumption].
  Qed.

  Lemma cg_deref_variant own v : variant_ok path_agree v ->
    deref_variant F own tr v = deref_variant F' own tr' v.
  Proof.
    intros [Ha Hf]. unfold deref_variant. rewrite (cg_deref_variant_attr own _ Ha).
    apply cg_bind_r; intros _.
    destruct (v_fields v); cbn [fields_list] in Hf |- *;
      try rewrite (cg_deref_select own _ Hf); reflexivity.
  Qed.

  Lemma cg_deref_analyse own d m : data_ok path_agree (d_data d) ->
    deref_analyse F own tr d m = deref_analyse F' own tr' d m.
  Proof.
    intros Hd. unfold deref_analyse. destruct (d_data d) as [fs|vs|fs]; cbn [data_ok] in Hd.
    - rewrite (cg_deref_select own _ Hd). reflexivity.
    - apply cg_bind_r; intros _. apply cg_bind; [|reflexivity].
      fields_step Hd. apply cg_deref_variant. assumption.
    - reflexivity.
  Qed.

  Theorem cg_expand_deref d m : data_ok path_agree (d_data d) ->
    expand_deref F tr d m = expand_deref F' tr' d m.
  Proof. intros Hd. unfold expand_deref. rewrite (cg_deref_analyse _ _ _ Hd). reflexivity. Qed.

  Theorem cg_expand_deref_mut d m : data_ok path_agree (d_data d) ->
    expand_deref_mut F tr d m = expand_deref_mut F' tr' d m.
  Proof. intros Hd. unfold expand_deref_mut. rewrite (cg_deref_analyse _ _ _ Hd). reflexivity. Qed.

  (** ** Into *)
  Lemma cg_into_variant_attr attrs : attrs_ok path_agree attrs ->
    into_variant_attr F tr attrs = into_variant_attr F' tr' attrs.
  Proof. intros H. unfold into_variant_attr. rewrite (cg_into_collect _ H). reflexivity. Qed.

  Lemma cg_into_field_attr targets f : field_ok path_agree f ->
    into_field_attr F tr targets f = into_field_attr F' tr' targets f.
  Proof. intros H. unfold into_field_attr. rewrite (cg_into_collect _ H). reflexivity. Qed.

  Lemma cg_into_results d ms : data_ok path_agree (d_data d) ->
    into_results F tr d ms = into_results F' tr' d ms.
  Proof.
    intros Hd. unfold into_results. destruct (d_data d) as [fs|vs|fs]; cbn [data_ok] in Hd.
    - apply cg_bind_r; intros targets. apply cg_bind; [|reflexivity].
      fields_step Hd. apply cg_into_field_attr. assumption.
    - apply cg_bind_r; intros targets. apply cg_bind; [|reflexivity].
      fields_step Hd. destruct H as [Ha Hf]. rewrite (cg_into_variant_attr _ Ha).
      apply cg_bind_r; intros _. apply cg_bind; [|reflexivity].
      fields_step Hf. apply cg_into_field_attr. assumption.
    - reflexivity.
  Qed.

  Theorem cg_expand_into d ms : data_ok path_agree (d_data d) ->
    expand_into F tr d ms = expand_into F' tr' d ms.
  Proof.
    intros Hd. unfold expand_into, into_analyse. rewrite (cg_into_results _ _ Hd). reflexivity.
  Qed.

  Theorem cg_into_alt_errs d ms : data_ok path_agree (d_data d) ->
    into_alt_errs F tr d ms = into_alt_errs F' tr' d ms.
  Proof. intros Hd. unfold into_alt_errs. rewrite (cg_into_results _ _ Hd). reflexivity. Qed.

  (** ** all the single-meta handlers of [Driver.handlers] *)
  Theorem cg_handlers_gen d : data_ok path_agree (d_data d) ->
    Forall (fun th => (fst th = TOrd -> ord_feature_agree) ->
                      forall m, snd th F tr d m = snd th F' tr' d m) handlers.
  Proof.
    intros Hd. unfold handlers.
    repeat (constructor; [cbn [fst snd]; intros Hs m|]); [..|constructor].
    - apply cg_expand_debug; assumption.
    - apply cg_expand_clone; assumption.
    - apply cg_expand_copy; assumption.
    - apply cg_expand_partial_eq; assumption.
    - apply cg_expand_eq; assumption.
    - apply cg_expand_partial_ord; assumption.
    - apply cg_expand_ord; [apply Hs; reflexivity|assumption].
    - apply cg_expand_hash; assumption.
    - apply cg_expand_default; assumption.
    - apply cg_expand_deref; assumption.
    - apply cg_expand_deref_mut; assumption.
  Qed.

  Theorem cg_handlers d : ord_feature_agree -> data_ok path_agree (d_data d) ->
    Forall (fun th => forall m, snd th F tr d m = snd th F' tr' d m) handlers.
  Proof.
    intros Hs Hd. eapply Forall_impl; [|apply (cg_handlers_gen d Hd)]. cbv beta.
    intros th H. apply H. intros _. exact Hs.
  Qed.
End Cong.
