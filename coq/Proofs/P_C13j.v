(** C13 — R3: two compared fields of one struct / variant with the same explicit rank. *)
From Educe.Proofs Require Export P_C13i.

Lemma key_rank_name m : key_is "rank" m = true -> param_name m = Some "rank".
Proof.
  unfold key_is, param_key. destruct (param_name m) as [s|]; [|discriminate]. cbn [option_map].
  unfold canon. destruct (String.eqb s "rename"); [discriminate|].
  destruct (String.eqb s "expr"); [discriminate|]. intros H. apply String.eqb_eq in H. congruence.
Qed.

Lemma key_ignore_of_param_is m : param_is m ["ignore"] = true -> key_is "ignore" m = true.
Proof. intros H. apply (key_is_of_param_is _ _ "ignore" H). canon_names. Qed.
Lemma key_rank_of_param_is m : param_is m ["rank"] = true -> key_is "rank" m = true.
Proof. intros H. apply (key_is_of_param_is _ _ "rank" H). canon_names. Qed.

(** once the rank is set it cannot change *)
Lemma os_rank_frozen ei em er ms : forall s s',
  run_params (ord_param ei em er) s ms = Ok s' -> os_rank_set s = true -> os_rank s' = os_rank s.
Proof.
  induction ms as [|m r IH]; intros s s' H Hset.
  - inversion H; subst. reflexivity.
  - unfold run_params in H. cbn [foldM] in H. inv_bind H. fold (run_params (ord_param ei em er) a r) in H.
    unfold run_param in Hb. inv_bind Hb. destruct a0 as [s1|]; [|discriminate Hb]. inversion Hb; subst a.
    assert (Hs1 : os_rank s1 = os_rank s /\ os_rank_set s1 = true).
    { unfold ord_param in Hb0. destruct (param_is m ["ignore"]).
      { destruct (negb ei); [discriminate Hb0|]. inv_bind Hb0.
        destruct (os_ignore_set s); [discriminate Hb0|]. inversion Hb0; subst s1. auto. }
      destruct (param_is m ["method"]).
      { destruct (negb em); [discriminate Hb0|]. inv_bind Hb0.
        destruct (os_method_set s); [discriminate Hb0|]. inversion Hb0; subst s1. auto. }
      destruct (param_is m ["rank"]); [|discriminate Hb0].
      destruct (negb er); [discriminate Hb0|]. inv_bind Hb0. rewrite Hset in Hb0. discriminate Hb0. }
    destruct Hs1 as [Hn Hs]. rewrite (IH _ _ H Hs). exact Hn.
Qed.

Lemma os_rank_first ei em er ms : forall s s' z,
  run_params (ord_param ei em er) s ms = Ok s' -> os_rank_set s = false ->
  first_rank ms = Some z -> os_rank s' = z.
Proof.
  induction ms as [|m r IH]; intros s s' z H Hset Hfr; [discriminate Hfr|].
  unfold run_params in H. cbn [foldM] in H. inv_bind H. fold (run_params (ord_param ei em er) a r) in H.
  unfold run_param in Hb. inv_bind Hb. destruct a0 as [s1|]; [|discriminate Hb]. inversion Hb; subst a.
  cbn [first_rank] in Hfr. destruct (key_is "rank" m) eqn:Hk.
  - pose proof (key_rank_name _ Hk) as Hn. unfold ord_param, param_is in Hb0. rewrite Hn in Hb0.
    cbn [mem_str existsb String.eqb Ascii.eqb Bool.eqb orb] in Hb0.
    destruct (negb er); [discriminate Hb0|]. inv_bind Hb0. rewrite Hset in Hb0. inversion Hb0; subst s1.
    rewrite Hb1 in Hfr. inversion Hfr; subst z.
    rewrite (os_rank_frozen _ _ _ _ _ _ H eq_refl). reflexivity.
  - apply (IH _ _ _ H); [|exact Hfr]. unfold ord_param in Hb0. destruct (param_is m ["ignore"]).
    { destruct (negb ei); [discriminate Hb0|]. inv_bind Hb0.
      destruct (os_ignore_set s); [discriminate Hb0|]. inversion Hb0; subst s1. exact Hset. }
    destruct (param_is m ["method"]).
    { destruct (negb em); [discriminate Hb0|]. inv_bind Hb0.
      destruct (os_method_set s); [discriminate Hb0|]. inversion Hb0; subst s1. exact Hset. }
    destruct (param_is m ["rank"]) eqn:Hr; [|discriminate Hb0].
    rewrite (key_rank_of_param_is _ Hr) in Hk. discriminate Hk.
Qed.

Lemma os_ignore_unset ei em er ms s s' :
  run_params (ord_param ei em er) s ms = Ok s' -> existsb (key_is "ignore") ms = false ->
  os_ignore s' = os_ignore s.
Proof.
  intros H Hex. apply forallb_negb_existsb in Hex.
  refine (run_params_inv _ (fun x => os_ignore x = os_ignore s) (fun x => negb (key_is "ignore" x)) _ _ _ _ H Hex eq_refl).
  clear. intros s0 m s' Hs Hok Hi. unfold ord_param in Hs.
  destruct (param_is m ["ignore"]) eqn:Hq.
  { rewrite (key_ignore_of_param_is _ Hq) in Hok. discriminate Hok. }
  destruct (param_is m ["method"]).
  { destruct (negb em); [discriminate Hs|]. inv_bind Hs.
    destruct (os_method_set s0); [discriminate Hs|]. inversion Hs; subst s'. exact Hi. }
  destruct (param_is m ["rank"]); [|discriminate Hs].
  destruct (negb er); [discriminate Hs|]. inv_bind Hs.
  destruct (os_rank_set s0); [discriminate Hs|]. inversion Hs; subst s'. exact Hi.
Qed.

(** the analysed attribute of a field with an explicit rank *)
Lemma ord_field_attr_rank F own traits index f fa z :
  ord_field_attr F own traits index (f_attrs f) = Ok fa ->
  field_rank F own f = Some z -> oa_ignore fa = false /\ oa_rank fa = z.
Proof.
  intros H Hr. unfold ord_field_attr in H. inv_bind H. apply scan_attrs_scanned in Hb. destruct Hb as [_ Hb].
  unfold field_rank in Hr.
  destruct (filter (own_meta F own) (educe_metas (f_attrs f))) as [|m [|m2 r]]; [discriminate Hr| |discriminate Hr].
  destruct Hb as [x [Hx ->]]. inversion H; subst fa.
  destruct m as [p|p v|p dl ts]; [discriminate Hr|discriminate Hr|].
  destruct (existsb (key_is "ignore") (params LPlain (MList p dl ts))) eqn:Hig; [discriminate Hr|].
  unfold build_ofattr in Hx. inv_bind Hx. inv_bind Hx. inversion Hx; subst x. cbn [oa_ignore oa_rank].
  cbn [params] in Hig, Hr. rewrite Hb in Hig, Hr. split.
  - rewrite (os_ignore_unset _ _ _ _ _ _ Hb0 Hig). reflexivity.
  - exact (os_rank_first _ _ _ _ _ _ _ Hb0 eq_refl Hr).
Qed.

(** the rank map *)
Lemma rank_mem_insert {A} k k' (x : A) m :
  rank_mem k (rank_insert k' x m) = Z.eqb k k' || rank_mem k m.
Proof.
  induction m as [|[k2 y] r IH]; cbn [rank_insert rank_mem]; [reflexivity|].
  destruct (Z.ltb k' k2); cbn [rank_mem]; [reflexivity|]. rewrite IH.
  destruct (Z.eqb k k2), (Z.eqb k k'); reflexivity.
Qed.

Lemma dup_Z_snoc l k : dup_Z (l ++ [k]) = dup_Z l || existsb (fun x => Z.eqb x k) l.
Proof.
  induction l as [|x r IH]; [reflexivity|]. cbn [app dup_Z existsb]. rewrite IH, existsb_app.
  cbn [existsb]. rewrite orb_false_r.
  destruct (existsb (Z.eqb x) r), (Z.eqb x k), (dup_Z r), (existsb (fun x0 => Z.eqb x0 k) r); reflexivity.
Qed.

Definition opt_list {A} (o : option A) : list A := match o with Some z => [z] | None => [] end.

Lemma plan_fields_ranks F own traits fs p :
  plan_fields F own traits fs = Ok p -> dup_Z (group_ranks F own fs) = false.
Proof.
  intros H. unfold plan_fields in H.
  set (R := fun l : list (nat * field) => flat_map (fun x => opt_list (field_rank F own (snd x))) l).
  assert (HQ : (forall z, In z (R (indexed fs)) -> rank_mem z (fp_sorted p) = true) /\
               dup_Z (R (indexed fs)) = false).
  { apply (foldM_hist (plan_field F own traits)
             (fun p l => (forall z, In z (R l) -> rank_mem z (fp_sorted p) = true) /\ dup_Z (R l) = false))
      with (l1 := []) (s := fplan_empty) in H; [exact H| |split; [intros z []|reflexivity]].
    clear. intros p l [i f] p' [Hmem Hdup] Hs. unfold plan_field in Hs. inv_bind Hs.
    unfold R. rewrite flat_map_app. cbn [flat_map snd]. rewrite app_nil_r. fold (R l).
    assert (Hmono : forall z, rank_mem z (fp_sorted p) = true -> rank_mem z (fp_sorted p') = true).
    { intros z Hz. destruct (oa_ignore a); [inversion Hs; subst p'; exact Hz|].
      destruct (rank_mem (oa_rank a) (fp_sorted p)); [discriminate Hs|]. inversion Hs; subst p'.
      cbn [fp_sorted]. rewrite rank_mem_insert, Hz. apply orb_true_r. }
    destruct (field_rank F own f) as [z|] eqn:Hr; cbn [opt_list].
    - destruct (ord_field_attr_rank _ _ _ _ _ _ _ Hb Hr) as [Hi Hz]. rewrite Hi in Hs.
      destruct (rank_mem (oa_rank a) (fp_sorted p)) eqn:Hrm; [discriminate Hs|]. inversion Hs; subst p'.
      rewrite Hz in *. split.
      + intros z' Hin. apply in_app_or in Hin. cbn [fp_sorted]. rewrite rank_mem_insert.
        destruct Hin as [Hin|[<-|[]]]; [rewrite (Hmem _ Hin); apply orb_true_r|rewrite Z.eqb_refl; reflexivity].
      + rewrite dup_Z_snoc, Hdup. cbn [orb]. apply existsb_false. intros x Hx.
        destruct (Z.eqb x z) eqn:E; [|reflexivity]. apply Z.eqb_eq in E. subst x.
        rewrite (Hmem _ Hx) in Hrm. discriminate Hrm.
    - rewrite app_nil_r. split; [|exact Hdup]. intros z Hin. exact (Hmono _ (Hmem _ Hin)). }
  destruct HQ as [_ HQ]. unfold group_ranks.
  assert (E : R (indexed fs) = flat_map (fun f => opt_list (field_rank F own f)) fs).
  { unfold R. rewrite <- (map_snd_index_from 0 fs) at 2. unfold indexed.
    generalize (index_from 0 fs). intros l. induction l as [|x r IH]; [reflexivity|].
    cbn [flat_map map]. rewrite IH. reflexivity. }
  rewrite E in HQ. exact HQ.
Qed.

Lemma ord_groups_ranks F own traits d :
  (match d_data d with
   | DStruct fs => exists p, plan_fields F own traits (fields_list fs) = Ok p
   | DEnum vs => exists vps, mapM (plan_variant F own traits) vs = Ok vps
   | DUnion _ => False
   end) ->
  existsb (fun g => dup_Z (group_ranks F own g)) (field_groups d) = false.
Proof.
  intros H. unfold field_groups. destruct (d_data d) as [fs|vs|fs]; [| |destruct H].
  - destruct H as [p Hp]. cbn [existsb]. rewrite (plan_fields_ranks _ _ _ _ _ Hp). reflexivity.
  - destruct H as [vps Hv]. apply existsb_false. intros g Hg. apply in_map_iff in Hg.
    destruct Hg as [v [<- Hin]]. destruct (mapM_In_ok _ _ _ _ Hv Hin) as [y Hy].
    unfold plan_variant in Hy. inv_bind Hy.
    destruct (v_fields v) as [l|l|]; cbn [fields_list]; [| |reflexivity]; inv_bind Hy;
      exact (plan_fields_ranks _ _ _ _ _ Hb0).
Qed.

Lemma group_ranks_ext F own own' g :
  (forall t, own t = own' t) -> group_ranks F own g = group_ranks F own' g.
Proof.
  intros H. unfold group_ranks. apply flat_map_ext. intros f. unfold field_rank.
  rewrite (filter_ext_eq (own_meta F own) (own_meta F own')); [reflexivity|].
  intros m. unfold own_meta. destruct (meta_trait F m); [apply H|reflexivity].
Qed.

Lemma existsb_ext' {A} (p q : A -> bool) l : (forall x, p x = q x) -> existsb p l = existsb q l.
Proof. intros H. induction l as [|x r IH]; [reflexivity|]. cbn. rewrite H, IH. reflexivity. Qed.

Theorem R3_rank_twice F d its : expand F d = Ok its -> invalid_rank_twice F d = false.
Proof.
  intros H. unfold invalid_rank_twice.
  destruct (educed F TOrd d || educed F TPartialOrd d) eqn:He; [|reflexivity]. cbn [andb].
  destruct (expand_run_facts _ _ _ H) as [traits [Hag [Hh _]]].
  destruct (educed F TOrd d) eqn:Eo.
  - destruct (educed_type_meta _ _ _ Eo) as [m Hm].
    destruct (Hh TOrd expand_ord m ltac:(in_handlers) Hm) as [l Hl].
    assert (Hext : forall t, ord_own F d t = own_ord F traits t).
    { intros t. unfold ord_own, own_ord. rewrite Eo, (contains_educed _ _ _ _ Hag). reflexivity. }
    rewrite (existsb_ext' _ (fun g => dup_Z (group_ranks F (own_ord F traits) g)));
      [|intros g; rewrite (group_ranks_ext F _ _ g Hext); reflexivity].
    apply (ord_groups_ranks F (own_ord F traits) traits d).
    unfold expand_ord in Hl. destruct (d_data d); [| |discriminate Hl].
    + inv_bind Hl. inv_bind Hl. eauto.
    + inv_bind Hl. inv_bind Hl. inv_bind Hl. eauto.
  - cbn [orb] in He. destruct (educed_type_meta _ _ _ He) as [m Hm].
    destruct (Hh TPartialOrd expand_partial_ord m ltac:(in_handlers) Hm) as [l Hl].
    assert (Hext : forall t, ord_own F d t = trait_eqb TPartialOrd t).
    { intros t. unfold ord_own. rewrite Eo. reflexivity. }
    rewrite (existsb_ext' _ (fun g => dup_Z (group_ranks F (trait_eqb TPartialOrd) g)));
      [|intros g; rewrite (group_ranks_ext F _ _ g Hext); reflexivity].
    apply (ord_groups_ranks F (trait_eqb TPartialOrd) traits d).
    unfold expand_partial_ord in Hl. rewrite (contains_educed _ _ _ _ Hag), Eo in Hl.
    destruct (d_data d); [| |discriminate Hl].
    + inv_bind Hl. inv_bind Hl. eauto.
    + inv_bind Hl. inv_bind Hl. inv_bind Hl. eauto.
Qed.
