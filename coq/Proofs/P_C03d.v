(** C03 / C04 — every enum arm, the whole enum body. *)
From Educe.Proofs Require Export P_C03c.

Lemma project_path_snoc l : forall v k,
  project_path v (l ++ [k]) = match project_path v l with Some w => project w k | None => None end.
Proof.
  induction l as [|a r IH]; intros v k; cbn [app project_path].
  - destruct (project v k); reflexivity.
  - destruct (project v a); [apply IH|reflexivity].
Qed.

Lemma load_sub st p w zs k : load st p = Some (VData w zs) -> load st (sub p k) = lookup k zs.
Proof.
  unfold load, sub. cbn [pl_root pl_path]. destruct (lookup (pl_root p) st) as [v|]; [|discriminate].
  intros H. rewrite project_path_snoc, H. reflexivity.
Qed.

(** ** the two arm shapes in terms of binder descriptions *)
Definition named_trips (l : list ofield) : list btrip :=
  map (fun '(_, f, fa) => (unraw (named_of f), named_of f, oa_ignore fa)) l.
Definition unnamed_trips (l : list ofield) : list btrip :=
  map (fun '(i, _, fa) => (dec i, dec i, oa_ignore fa)) l.
Definition named_quads (l : list ofield) : list quad :=
  map (fun '(_, f, fa) => (named_of f, fa, EVar ("_s_" ^^ unraw (named_of f)),
                           EVar ("_o_" ^^ unraw (named_of f)))) l.
Definition unnamed_quads (l : list ofield) : list quad :=
  map (fun '(i, _, fa) => (dec i, fa, EVar ("_" ^^ dec i), EVar ("__" ^^ dec i))) l.

Definition pat_named (n : string) (trips : list btrip) (pre : string) : pat :=
  PStruct (RSelfV n) (opats_named pre trips) true false.
Definition pat_unnamed (n : string) (trips : list btrip) (pre : string) : pat :=
  PTuple (RSelfV n) (opats_unnamed pre trips) true false.

Lemma cmp_arm_named_eq partial v p :
  cmp_arm_named partial v p =
  (pat_named v (named_trips (fp_declared p)) "_s_",
   EBlock [EIfLet (pat_named v (named_trips (fp_declared p)) "_o_") (EVar "other")
             (map (quad_step partial) (named_quads (sorted_fields p))) None]).
Proof.
  unfold cmp_arm_named, pat_named, opats_named, named_trips, named_quads.
  rewrite !map_map.
  f_equal; [f_equal; apply map_ext; intros [[i f] fa]; reflexivity|].
  f_equal. f_equal. f_equal.
  - f_equal. apply map_ext. intros [[i f] fa]. reflexivity.
  - apply map_ext. intros [[i f] fa]. reflexivity.
Qed.

Lemma cmp_arm_unnamed_eq partial v p :
  cmp_arm_unnamed partial v p =
  (pat_unnamed v (unnamed_trips (fp_declared p)) "_",
   EBlock [EIfLet (pat_unnamed v (unnamed_trips (fp_declared p)) "__") (EVar "other")
             (map (quad_step partial) (unnamed_quads (sorted_fields p))) None]).
Proof.
  unfold cmp_arm_unnamed, pat_unnamed, opats_unnamed, unnamed_trips, unnamed_quads.
  rewrite !map_map.
  f_equal; [f_equal; apply map_ext; intros [[i f] fa]; reflexivity|].
  f_equal. f_equal. f_equal.
  - f_equal. apply map_ext. intros [[i f] fa]. reflexivity.
  - apply map_ext. intros [[i f] fa]. reflexivity.
Qed.

Lemma opats_named_length pre l : List.length (opats_named pre l) = List.length l.
Proof. apply map_length. Qed.
Lemma opats_unnamed_length pre l : List.length (opats_unnamed pre l) = List.length l.
Proof. apply map_length. Qed.

Lemma keys_loads st p w zs trips :
  load st p = Some (VData w zs) -> map bt_key trips = map fst zs ->
  forall t, In t trips -> load st (sub p (bt_key t)) <> None.
Proof.
  intros Hl Hk t Hin. rewrite (load_sub st p w zs _ Hl). apply in_fst_lookup.
  rewrite <- Hk. apply in_map. exact Hin.
Qed.

Lemma keys_length (trips : list btrip) (zs : list (string * value)) :
  map bt_key trips = map fst zs -> List.length trips = List.length zs.
Proof. intros H. rewrite <- (map_length bt_key trips), H, map_length. reflexivity. Qed.

(** matching `Self::n { .. }` / `Self::n ( .. )` through a reference to a place holding variant [w] *)
Lemma match_pat_named st p pre n w zs trips :
  load st p = Some (VData (Some w) zs) ->
  (String.eqb w n = true -> map bt_key trips = map fst zs) ->
  match_pat st (pat_named n trips pre) (VRef p) =
  if String.eqb w n then Some (obinds pre p trips) else None.
Proof.
  intros Hl Hk. unfold pat_named. cbn [match_pat strip]. rewrite Hl.
  destruct (String.eqb w n); [|reflexivity]. specialize (Hk eq_refl).
  rewrite opats_named_length, (keys_length _ _ Hk), Nat.eqb_refl. cbn [orb andb].
  apply omatch_named. exact (keys_loads st p _ zs trips Hl Hk).
Qed.

Lemma match_pat_unnamed st p pre n w zs trips :
  map bt_key trips = map dec (seq 0 (List.length trips)) ->
  load st p = Some (VData (Some w) zs) ->
  (String.eqb w n = true -> map bt_key trips = map fst zs) ->
  match_pat st (pat_unnamed n trips pre) (VRef p) =
  if String.eqb w n then Some (obinds pre p trips) else None.
Proof.
  intros Hidx Hl Hk. unfold pat_unnamed. cbn [match_pat strip is_some_path]. rewrite Hl.
  destruct (String.eqb w n); [|reflexivity]. specialize (Hk eq_refl).
  rewrite opats_unnamed_length, (keys_length _ _ Hk), Nat.eqb_refl. cbn [andb].
  apply omatch_unnamed; [exact (keys_loads st p _ zs trips Hl Hk)|exact Hidx].
Qed.

Lemma visit_order_in l t : In t (visit_order l) -> In t l.
Proof.
  intros H. apply (Permutation_in _ (visit_order_perm l)) in H. apply filter_In in H. apply H.
Qed.

Section ArmOk.
  Variable I : interp.

  (** what is needed of one arm: it is skipped when `self` is another
      variant; otherwise its pattern binds and its body leaves the
      lexicographic result of this variant's request [l] *)
  Definition arm_ok (partial : bool) (n : string) (arm : pat * expr) (l : list request) : Prop :=
    forall va xs vb ys s,
      st_store s = [("self", VData (Some va) xs); ("other", VData (Some vb) ys)] ->
      (String.eqb va n = false -> match_pat (st_store s) (fst arm) (VRef self_place) = None) /\
      (String.eqb va n = true -> map fst l = map fst xs ->
       (String.eqb vb n = true -> map fst l = map fst ys) ->
       reqs_typed partial I l ->
       exists binds r s',
         match_pat (st_store s) (fst arm) (VRef self_place) = Some binds /\
         same_store s s' /\ eval I (binds ++ eq_env) (snd arm) s = (r, s') /\
         arm_outcome partial (if String.eqb vb n then lex_o partial I (visit_order l) xs ys
                              else Some Eq) r).

  Lemma arm_ok_generic partial pre_s pre_o n (mkpat : string -> pat) trips (quads : list quad)
        (l : list request) :
    (forall st p pre w zs,
        load st p = Some (VData (Some w) zs) ->
        (String.eqb w n = true -> map bt_key trips = map fst zs) ->
        match_pat st (mkpat pre) (VRef p) = if String.eqb w n then Some (obinds pre p trips) else None) ->
    map bt_key trips = map fst l ->
    (forall t t', In t trips -> In t' trips -> bt_var t = bt_var t' -> bt_key t = bt_key t') ->
    (forall t t', In t trips -> In t' trips ->
                  String.eqb (pre_s ^^ bt_var t) (pre_o ^^ bt_var t') = false) ->
    (forall t, In t trips -> String.eqb "other" (pre_s ^^ bt_var t) = false) ->
    Forall (fun '(k, fa, ea, eb) =>
              exists u, In (u, k, false) trips /\ ea = EVar (pre_s ^^ u) /\ eb = EVar (pre_o ^^ u))
           quads ->
    map quad_req quads = visit_order l ->
    arm_ok partial n
           (mkpat pre_s,
            EBlock [EIfLet (mkpat pre_o) (EVar "other") (map (quad_step partial) quads) None]) l.
  Proof.
    intros Hpat Hkeys Hfun Hsep Hother Hq Hreq va xs vb ys s Hs. cbn [fst snd].
    assert (Hself : load (st_store s) self_place = Some (VData (Some va) xs)) by (rewrite Hs; reflexivity).
    assert (Hoth : load (st_store s) other_place = Some (VData (Some vb) ys)) by (rewrite Hs; reflexivity).
    split.
    - intros En. rewrite (Hpat _ _ pre_s va xs Hself) by (rewrite En; discriminate).
      rewrite En. reflexivity.
    - intros En Hx Hy Hm.
      rewrite (Hpat _ _ pre_s va xs Hself) by (intros _; rewrite Hkeys; exact Hx). rewrite En.
      destruct (arm_generic I partial pre_s pre_o n mkpat trips quads l va xs vb ys s Hs)
        as [r [s' [Hs' [Hev Hout]]]].
      + apply (Hpat _ _ pre_o vb ys Hoth). intros Evb. rewrite Hkeys. exact (Hy Evb).
      + exact Hother.
      + intros Evb. apply (arm_quads_ok I partial pre_s pre_o trips quads xs ys Hfun Hsep).
        apply Forall_forall. intros [[[k fa] ea] eb] Hin.
        rewrite Forall_forall in Hq. specialize (Hq _ Hin). cbn beta iota in Hq.
        split; [exact Hq|].
        assert (Hl : In (k, fa) l).
        { apply visit_order_in. rewrite <- Hreq.
          apply (in_map quad_req) in Hin. exact Hin. }
        assert (Hk : In k (map fst l)) by (apply (in_map fst) in Hl; exact Hl).
        destruct (lookup_some_of_keys k xs) as [x Hxx]; [rewrite <- Hx; exact Hk|].
        destruct (lookup_some_of_keys k ys) as [y Hyy]; [rewrite <- (Hy Evb); exact Hk|].
        exists x, y. repeat split; try assumption. exact (Hm k fa x y Hl).
      + exact Hreq.
      + exists (obinds pre_s self_place trips), r, s'. repeat split; assumption.
  Qed.

  Lemma arm_ok_unit partial n : arm_ok partial n (cmp_arm_unit partial n) [].
  Proof.
    intros va xs vb ys s Hs. unfold cmp_arm_unit. cbn [fst snd].
    assert (Hself : load (st_store s) self_place = Some (VData (Some va) xs)) by (rewrite Hs; reflexivity).
    rewrite (match_unit_pat (st_store s) self_place n va xs Hself).
    split; [intros ->; reflexivity|]. intros -> _ _ _.
    exists [], (RRet (enc partial (Some Eq))), s. split; [reflexivity|]. split; [reflexivity|].
    split.
    - cbn [app eval]. rewrite eval_block_single by reflexivity.
      cbn [eval]. rewrite eval_ord_equal. reflexivity.
    - change (visit_order []) with (@nil request). rewrite lex_o_nil.
      destruct (String.eqb vb n); right; reflexivity.
  Qed.
End ArmOk.

(** ** each variant's arm, from the analysis *)
Section Variants.
  Variable I : interp.
  Variables (F : features) (own : trait -> bool) (traits : list trait).

  Lemma declared_field_in fs p t :
    map opos (fp_declared p) = indexed fs -> In t (fp_declared p) -> In (snd (fst t)) fs.
  Proof.
    intros Hpos Hin. apply (in_map opos) in Hin. rewrite Hpos in Hin.
    destruct t as [[i f] fa]. cbn [opos fst snd] in *. eapply index_from_in. exact Hin.
  Qed.

  Lemma declared_fields fs p :
    map opos (fp_declared p) = indexed fs -> map (fun t : ofield => snd (fst t)) (fp_declared p) = fs.
  Proof.
    intros Hpos. rewrite <- (index_from_snd fs 0). fold (indexed fs). rewrite <- Hpos.
    rewrite map_map. reflexivity.
  Qed.

  Lemma declared_indices fs p :
    map opos (fp_declared p) = indexed fs ->
    map (fun t : ofield => fst (fst t)) (fp_declared p) = seq 0 (List.length (fp_declared p)).
  Proof.
    intros Hpos.
    assert (Hlen : List.length (fp_declared p) = List.length fs).
    { rewrite <- (map_length opos), Hpos. unfold indexed. apply index_from_length. }
    rewrite Hlen. rewrite <- (index_from_fst 0 fs). fold (indexed fs). rewrite <- Hpos.
    rewrite map_map. reflexivity.
  Qed.

  Lemma sorted_not_ignored p i f fa :
    plan_inv F own traits p -> In (i, f, fa) (sorted_fields p) ->
    In (i, f, fa) (fp_declared p) /\ oa_ignore fa = false.
  Proof.
    intros Hi Hin. destruct (sorted_in_declared F own traits p _ Hi Hin) as [Hd Hn].
    split; [exact Hd|]. cbn [nonign] in Hn. destruct (oa_ignore fa); [discriminate Hn|reflexivity].
  Qed.

  Lemma arm_ok_named partial n fs p :
    plan_fields F own traits fs = Ok p -> fields_wf (FNamed fs) ->
    arm_ok I partial n (cmp_arm_named partial n p) (map okey (fp_declared p)).
  Proof.
    intros Hp [Hnames Hnd]. destruct (plan_fields_inv F own traits fs p Hp) as [Hi Hpos].
    rewrite cmp_arm_named_eq.
    assert (Hkey : forall t, In t (fp_declared p) ->
                             okey t = (named_of (snd (fst t)), snd t)).
    { intros [[i f] fa] Hin. cbn [okey fst snd]. f_equal.
      pose proof (Hnames f (declared_field_in fs p _ Hpos Hin)) as Hne. cbn [fst snd] in Hne.
      unfold field_key, named_of. destruct (f_name f); [reflexivity|congruence]. }
    apply (arm_ok_generic I partial "_s_" "_o_" n (pat_named n (named_trips (fp_declared p)))
                          (named_trips (fp_declared p)) (named_quads (sorted_fields p))).
    - intros st pl pre w zs. apply match_pat_named.
    - unfold named_trips. rewrite !map_map. apply map_ext_in. intros [[i f] fa] Hin.
      rewrite (Hkey _ Hin). reflexivity.
    - assert (Hvars : NoDup (map bt_var (named_trips (fp_declared p)))).
      { unfold named_trips. rewrite map_map.
        rewrite (map_ext _ (fun t : ofield => unraw (named_of (snd (fst t)))))
          by (intros [[i f] fa]; reflexivity).
        rewrite <- (map_map (fun t : ofield => snd (fst t)) (fun f => unraw (named_of f))).
        rewrite (declared_fields fs p Hpos). exact Hnd. }
      intros t t' Ht Ht' Hv. rewrite (nodup_map_inj bt_var _ t t' Hvars Ht Ht' Hv). reflexivity.
    - intros t t' _ _. reflexivity.
    - intros t _. reflexivity.
    - unfold named_quads. apply Forall_forall. intros q Hq.
      apply in_map_iff in Hq as [[[i f] fa] [<- Hin]].
      destruct (sorted_not_ignored p i f fa Hi Hin) as [Hd Hig].
      exists (unraw (named_of f)). split; [|split; reflexivity].
      unfold named_trips. apply in_map_iff. exists (i, f, fa). rewrite Hig. split; [reflexivity|exact Hd].
    - rewrite <- (sorted_fields_visit F own traits p Hi). unfold named_quads. rewrite map_map.
      apply map_ext_in. intros [[i f] fa] Hin.
      destruct (sorted_not_ignored p i f fa Hi Hin) as [Hd _]. rewrite (Hkey _ Hd). reflexivity.
  Qed.

  Lemma arm_ok_unnamed partial n fs p :
    plan_fields F own traits fs = Ok p -> fields_wf (FUnnamed fs) ->
    arm_ok I partial n (cmp_arm_unnamed partial n p) (map okey (fp_declared p)).
  Proof.
    intros Hp Hun. cbn [fields_wf] in Hun.
    destruct (plan_fields_inv F own traits fs p Hp) as [Hi Hpos].
    rewrite cmp_arm_unnamed_eq.
    assert (Hkey : forall t, In t (fp_declared p) -> okey t = (dec (fst (fst t)), snd t)).
    { intros [[i f] fa] Hin. cbn [okey fst snd]. f_equal.
      pose proof (Hun f (declared_field_in fs p _ Hpos Hin)) as Hne.
      unfold field_key. rewrite Hne. reflexivity. }
    assert (Hidx : map bt_key (unnamed_trips (fp_declared p))
                   = map dec (seq 0 (List.length (unnamed_trips (fp_declared p))))).
    { unfold unnamed_trips. rewrite map_length, map_map.
      transitivity (map dec (map (fun t : ofield => fst (fst t)) (fp_declared p))).
      - rewrite map_map. apply map_ext. intros [[i f] fa]. reflexivity.
      - f_equal. exact (declared_indices fs p Hpos). }
    assert (Hdec : forall t, In t (unnamed_trips (fp_declared p)) -> exists i, bt_var t = dec i /\ bt_key t = dec i).
    { intros t Ht. unfold unnamed_trips in Ht. apply in_map_iff in Ht as [[[i f] fa] [<- _]].
      exists i. split; reflexivity. }
    apply (arm_ok_generic I partial "_" "__" n (pat_unnamed n (unnamed_trips (fp_declared p)))
                          (unnamed_trips (fp_declared p)) (unnamed_quads (sorted_fields p))).
    - intros st pl pre w zs. apply match_pat_unnamed. exact Hidx.
    - unfold unnamed_trips. rewrite !map_map. apply map_ext_in. intros [[i f] fa] Hin.
      rewrite (Hkey _ Hin). reflexivity.
    - intros t t' Ht Ht' Hv. destruct (Hdec t Ht) as [i [Hv1 Hk1]]. destruct (Hdec t' Ht') as [j [Hv2 Hk2]].
      congruence.
    - intros t t' Ht Ht'. destruct (Hdec t Ht) as [i [-> _]]. destruct (Hdec t' Ht') as [j [-> _]].
      apply underscore_dec_neq.
    - intros t _. reflexivity.
    - unfold unnamed_quads. apply Forall_forall. intros q Hq.
      apply in_map_iff in Hq as [[[i f] fa] [<- Hin]].
      destruct (sorted_not_ignored p i f fa Hi Hin) as [Hd Hig].
      exists (dec i). split; [|split; reflexivity].
      unfold unnamed_trips. apply in_map_iff. exists (i, f, fa). rewrite Hig. split; [reflexivity|exact Hd].
    - rewrite <- (sorted_fields_visit F own traits p Hi). unfold unnamed_quads. rewrite map_map.
      apply map_ext_in. intros [[i f] fa] Hin.
      destruct (sorted_not_ignored p i f fa Hi Hin) as [Hd _]. rewrite (Hkey _ Hd). reflexivity.
  Qed.

  Definition vplan_name (vp : vplan) : string :=
    match vp with VPUnit n | VPNamed n _ | VPUnnamed n _ => n end.

  Definition variant_keyed (v : variant) : outcome (list request) :=
    ord_keyed F own traits (fields_list (v_fields v)).

  Lemma plan_variant_arm_ok partial v vp l :
    plan_variant F own traits v = Ok vp -> variant_keyed v = Ok l -> fields_wf (v_fields v) ->
    arm_ok I partial (v_name v) (cmp_arm partial vp) l /\ (vplan_is_unit vp = true -> l = []).
  Proof.
    intros Hv Hl Hwf. unfold plan_variant in Hv. apply bind_ok in Hv as [u [_ Hv]].
    unfold variant_keyed in Hl.
    destruct (v_fields v) as [fs|fs|]; cbn [fields_list] in Hl.
    - apply bind_ok in Hv as [p [Hp Hv]]. inversion Hv; subst vp; clear Hv.
      rewrite (plan_keyed F own traits fs p Hp) in Hl. inversion Hl; subst l.
      split; [|discriminate]. cbn [cmp_arm]. apply (arm_ok_named partial _ fs p Hp Hwf).
    - apply bind_ok in Hv as [p [Hp Hv]]. inversion Hv; subst vp; clear Hv.
      rewrite (plan_keyed F own traits fs p Hp) in Hl. inversion Hl; subst l.
      split; [|discriminate]. cbn [cmp_arm]. apply (arm_ok_unnamed partial _ fs p Hp Hwf).
    - inversion Hv; subst vp. cbn in Hl. inversion Hl; subst l.
      split; [|reflexivity]. cbn [cmp_arm]. apply arm_ok_unit.
  Qed.

  (** ** all the arms *)
  Lemma arms_eval partial : forall vs ds vps ls,
    map fst ds = map v_name vs ->
    mapM (plan_variant F own traits) vs = Ok vps ->
    mapM variant_keyed vs = Ok ls ->
    (forall v, In v vs -> fields_wf (v_fields v)) ->
    omethods_typed partial I (zip_cfg ds ls) ->
    forall va xs vb ys s da la,
      st_store s = [("self", VData (Some va) xs); ("other", VData (Some vb) ys)] ->
      oc_get (Some va) (zip_cfg ds ls) = Some (da, la) ->
      map fst la = map fst xs ->
      (String.eqb va vb = true -> map fst la = map fst ys) ->
      exists r s', same_store s s' /\
        eval_arms (eval I) eq_env (VRef self_place) (map (cmp_arm partial) vps) s = (r, s') /\
        arm_outcome partial (if String.eqb va vb then lex_o partial I (visit_order la) xs ys
                             else Some Eq) r.
  Proof.
    induction vs as [|v vs IH]; intros ds vps ls Hds Hvps Hls Hwf Hm va xs vb ys s da la Hs Hget Hx Hy.
    - destruct ds; [|discriminate Hds]. cbn in Hget. discriminate Hget.
    - destruct ds as [|[n z] ds]; [discriminate Hds|]. cbn [map fst] in Hds.
      inversion Hds as [[Hn Hds']]. subst n.
      cbn [mapM] in Hvps, Hls.
      apply bind_ok in Hvps as [vp [Hvp Hvps]]. apply bind_ok in Hvps as [vps' [Hvps' Hvps]].
      inversion Hvps; subst vps; clear Hvps.
      apply bind_ok in Hls as [l [Hl Hls]]. apply bind_ok in Hls as [ls' [Hls' Hls]].
      inversion Hls; subst ls; clear Hls.
      cbn [zip_cfg oc_get] in Hget. cbn [map eval_arms].
      destruct (plan_variant_arm_ok partial v vp l Hvp Hl (Hwf v (or_introl eq_refl))) as [Hok _].
      destruct (Hok va xs vb ys s Hs) as [Hskip Htake].
      destruct (cmp_arm partial vp) as [ap ab] eqn:Earm. cbn [fst snd] in Hskip, Htake.
      destruct (String.eqb va (v_name v)) eqn:En.
      + inversion Hget; subst da la; clear Hget.
        assert (Hsame : String.eqb va vb = String.eqb vb (v_name v)).
        { apply String.eqb_eq in En. subst va. apply String.eqb_sym. }
        destruct (Htake eq_refl Hx) as [binds [r [s' [Hmatch [Hs' [Hev Hout]]]]]].
        * intros Evb. apply Hy. rewrite Hsame. exact Evb.
        * apply (Hm (Some (v_name v)) z l). cbn [zip_cfg]. left. reflexivity.
        * rewrite Hmatch. exists r, s'. split; [exact Hs'|]. split; [exact Hev|].
          rewrite Hsame. exact Hout.
      + rewrite (Hskip eq_refl).
        assert (Hwf' : forall w, In w vs -> fields_wf (v_fields w))
          by (intros w Hw; apply Hwf; right; exact Hw).
        assert (Hm' : omethods_typed partial I (zip_cfg ds ls'))
          by (intros vn d l0 Hin; apply (Hm vn d l0); cbn [zip_cfg]; right; exact Hin).
        exact (IH ds vps' ls' Hds' Hvps' Hls' Hwf' Hm' va xs vb ys s da la Hs Hget Hx Hy).
  Qed.

  Lemma all_unit_requests : forall vs vps ls,
    mapM (plan_variant F own traits) vs = Ok vps -> mapM variant_keyed vs = Ok ls ->
    (forall v, In v vs -> fields_wf (v_fields v)) ->
    forallb vplan_is_unit vps = true -> Forall (fun l => l = []) ls.
  Proof.
    induction vs as [|v vs IH]; intros vps ls Hvps Hls Hwf Hall.
    - cbn in Hls. inversion Hls. constructor.
    - cbn [mapM] in Hvps, Hls.
      apply bind_ok in Hvps as [vp [Hvp Hvps]]. apply bind_ok in Hvps as [vps' [Hvps' Hvps]].
      inversion Hvps; subst vps; clear Hvps.
      apply bind_ok in Hls as [l [Hl Hls]]. apply bind_ok in Hls as [ls' [Hls' Hls]].
      inversion Hls; subst ls; clear Hls.
      cbn [forallb] in Hall. apply andb_true_iff in Hall as [Hu Hall].
      destruct (plan_variant_arm_ok false v vp l Hvp Hl (Hwf v (or_introl eq_refl))) as [_ Hnil].
      constructor; [exact (Hnil Hu)|].
      apply (IH vps' ls' Hvps' Hls'); [|exact Hall]. intros w Hw. apply Hwf. right. exact Hw.
  Qed.
End Variants.

(** ** facts about the zipped request *)
Lemma oc_get_zip_some ds : forall ls vn e, oc_get vn (zip_cfg ds ls) = Some e -> exists n, vn = Some n.
Proof.
  induction ds as [|[n z] ds IH]; intros ls vn e H; [discriminate H|].
  destruct ls as [|l ls]; [discriminate H|]. cbn [zip_cfg oc_get] in H.
  destruct vn as [a|]; [eauto|]. eapply IH. exact H.
Qed.

Lemma oc_get_zip_lookup ds : forall ls n d l,
  oc_get (Some n) (zip_cfg ds ls) = Some (d, l) -> lookup n ds = Some d /\ In l ls.
Proof.
  induction ds as [|[n' z] ds IH]; intros ls n d l H; [discriminate H|].
  destruct ls as [|l' ls]; [discriminate H|]. cbn [zip_cfg oc_get] in H. cbn [lookup].
  destruct (String.eqb n n').
  - inversion H; subst. split; [reflexivity|left; reflexivity].
  - destruct (IH ls n d l H) as [H1 H2]. split; [exact H1|right; exact H2].
Qed.

Lemma discr_values_names : forall vs counter ds,
  discr_values_from counter vs = Ok ds -> map fst ds = map v_name vs.
Proof.
  induction vs as [|v vs IH]; intros counter ds H.
  - cbn in H. inversion H. reflexivity.
  - cbn [discr_values_from] in H. apply bind_ok in H as [c [_ H]].
    apply bind_ok in H as [rest [Hr H]]. inversion H; subst ds. cbn [map fst]. f_equal.
    eapply IH. exact Hr.
Qed.

(** ** the whole enum body *)
Section EnumBody.
  Variable I : interp.
  Variables (F : features) (own : trait -> bool) (traits : list trait).

  Theorem enum_generic partial vs ds vps ls a b :
    discriminant_values vs = Ok ds ->
    mapM (plan_variant F own traits) vs = Ok vps ->
    mapM (variant_keyed F own traits) vs = Ok ls ->
    (forall v, In v vs -> fields_wf (v_fields v)) ->
    omethods_typed partial I (zip_cfg ds ls) ->
    ovalue_ok (zip_cfg ds ls) a = true -> ovalue_ok (zip_cfg ds ls) b = true ->
    exists o s', spec_o partial I (zip_cfg ds ls) a b = Some o /\
      run_body I eq_env (cmp_enum_body partial ds vps) (eq_state a b) = (RVal (enc partial o), s').
  Proof.
    intros Hds Hvps Hls Hwf Hm Ha Hb.
    destruct a as [| | | | | |va xs| | | | |]; try discriminate Ha.
    destruct b as [| | | | | |vb ys| | | | |]; try discriminate Hb.
    cbn [ovalue_ok] in Ha, Hb.
    destruct (oc_get va (zip_cfg ds ls)) as [[da la]|] eqn:Ela; [|discriminate Ha].
    destruct (oc_get vb (zip_cfg ds ls)) as [[db lb]|] eqn:Elb; [|discriminate Hb].
    apply oshape_ok_keys in Ha. apply oshape_ok_keys in Hb.
    destruct (oc_get_zip_some _ _ _ _ Ela) as [na ->]. destruct (oc_get_zip_some _ _ _ _ Elb) as [nb ->].
    rewrite (spec_o_data partial I _ _ xs _ ys _ _ _ _ Ela Elb). cbn [same_variant].
    destruct (oc_get_zip_lookup _ _ _ _ _ Ela) as [Hda Hla].
    destruct (oc_get_zip_lookup _ _ _ _ _ Elb) as [Hdb Hlb].
    exists (if String.eqb na nb then lex_o partial I (visit_order la) xs ys
            else Some (Z.compare da db)).
    cut (exists s', run_body I eq_env (cmp_enum_body partial ds vps)
                      (eq_state (VData (Some na) xs) (VData (Some nb) ys)) =
                    (RVal (enc partial (if String.eqb na nb
                                        then lex_o partial I (visit_order la) xs ys
                                        else Some (Z.compare da db))), s')).
    { intros [s' H]. exists s'. split; [reflexivity|exact H]. }
    assert (Hnn : is_nil vps = false).
    { destruct vs as [|v vs]; [cbn in Hds; inversion Hds; subst ds; discriminate Hda|].
      cbn [mapM] in Hvps. apply bind_ok in Hvps as [vp [_ Hvps]].
      apply bind_ok in Hvps as [vps' [_ Hvps]]. inversion Hvps. reflexivity. }
    unfold cmp_enum_body. rewrite Hnn. unfold run_body.
    rewrite eval_block_single by reflexivity.
    cbn [eval eq_env lookup String.eqb Ascii.eqb Bool.eqb].
    cbn [strip eq_state st_store load self_place other_place pl_root pl_path lookup
         String.eqb Ascii.eqb Bool.eqb project_path].
    rewrite Hda, Hdb.
    assert (Hsame : String.eqb na nb = true -> Z.compare da db = Eq).
    { intros E. apply String.eqb_eq in E. subst nb. rewrite Hda in Hdb. inversion Hdb. apply Z.compare_refl. }
    destruct (Z.compare da db) eqn:Ecmp.
    - (* equal discriminants: the arms decide *)
      destruct (forallb vplan_is_unit vps) eqn:Eunit.
      + rewrite eval_ord_equal. eexists.
        pose proof (all_unit_requests I F own traits vs vps ls Hvps Hls Hwf Eunit) as Hnil.
        rewrite Forall_forall in Hnil. rewrite (Hnil la Hla).
        change (visit_order []) with (@nil request). rewrite lex_o_nil.
        destruct (String.eqb na nb); reflexivity.
      + cbn [eval]. rewrite eval_block_cons by reflexivity.
        cbn [eval eq_env lookup String.eqb Ascii.eqb Bool.eqb].
        destruct (arms_eval I F own traits partial vs ds vps ls
                    (discr_values_names vs 0%Z ds Hds) Hvps Hls Hwf Hm
                    na xs nb ys (eq_state (VData (Some na) xs) (VData (Some nb) ys)) da la eq_refl Ela Ha)
          as [r [s' [_ [Hev Hout]]]].
        { intros E. apply String.eqb_eq in E. subst nb. rewrite Ela in Elb. inversion Elb; subst. exact Hb. }
        rewrite Hev. cbn [is_nil].
        destruct (String.eqb na nb).
        * unfold arm_outcome in Hout.
          destruct (lex_o partial I (visit_order la) xs ys) as [[| |]|].
          -- destruct Hout as [-> | ->].
             ++ rewrite eval_block_single by (destruct partial; reflexivity).
                rewrite eval_ord_equal. eexists. reflexivity.
             ++ eexists. reflexivity.
          -- subst r. eexists. reflexivity.
          -- subst r. eexists. reflexivity.
          -- subst r. eexists. reflexivity.
        * cbn [arm_outcome] in Hout. destruct Hout as [-> | ->].
          -- rewrite eval_block_single by (destruct partial; reflexivity).
             rewrite eval_ord_equal. eexists. reflexivity.
          -- eexists. reflexivity.
    - destruct (String.eqb na nb) eqn:E; [specialize (Hsame eq_refl); discriminate Hsame|].
      rewrite (eval_ord_result I partial _ Lt). eexists. reflexivity.
    - destruct (String.eqb na nb) eqn:E; [specialize (Hsame eq_refl); discriminate Hsame|].
      rewrite (eval_ord_result I partial _ Gt). eexists. reflexivity.
  Qed.
End EnumBody.
