(** trait_handlers/hash *)
From Educe.Model Require Export Attr.

Definition hash_type_attr F traits (attrs : list attr) : outcome tattr :=
  let* o := scan_attrs F (trait_eqb THash) (build_tattr false false false) traits attrs in
  Ok (match o with Some a => a | None => tattr_default end).

Definition hash_field_attr F traits (ei em : bool) (attrs : list attr) : outcome fattr :=
  let* o := scan_attrs F (trait_eqb THash) (build_fattr ei em) traits attrs in
  Ok (match o with Some a => a | None => fattr_default end).

Definition hash_callee (fa : fattr) : expr :=
  match fa_method fa with
  | Some m => EPath (RUser m)
  | None => EPath (RCore ["hash"; "Hash"; "hash"])
  end.

(** `#hash(<operand>, state);` *)
Definition hash_stmt (fa : fattr) (operand : expr) : expr :=
  ESemi (ECall (hash_callee fa) [operand; EVar "state"]).

Definition hash_types (l : list (field * fattr)) : list toks :=
  flat_map (fun '(f, fa) => if fa_ignore fa then []
                            else match fa_method fa with Some _ => [] | None => [f_ty f] end) l.

Definition hash_struct_body (l : list (nat * (field * fattr))) : block :=
  flat_map (fun '(i, (f, fa)) =>
              if fa_ignore fa then []
              else [hash_stmt fa (ERef (EField (EVar "self") (field_member f i)))]) l.

Definition hash_index_stmt (variant_index : nat) : expr :=
  ESemi (ECall (EPath (RCore ["hash"; "Hash"; "hash"])) [ERef (EUsize variant_index); EVar "state"]).

Definition hash_arm (vi : nat) (v : string) (fs : fields) (l : list (field * fattr)) : pat * expr :=
  match fs with
  | FUnit => (PPath (RSelfV v), EBlock [hash_index_stmt vi])
  | FNamed _ =>
      let name f := match f_name f with Some n => n | None => "" end in
      (PStruct (RSelfV v)
         (map (fun '(f, fa) => (name f, Some (if fa_ignore fa then PWild
                                              else PBind ("v_" ^^ unraw (name f))))) l) true false,
       EBlock (hash_index_stmt vi ::
               flat_map (fun '(f, fa) => if fa_ignore fa then []
                                         else [hash_stmt fa (EVar ("v_" ^^ unraw (name f)))]) l))
  | FUnnamed _ =>
      (PTuple (RSelfV v)
         (map (fun '(i, (f, fa)) => if fa_ignore fa then PWild else PBind ("_" ^^ dec i)) (indexed l))
         true false,
       EBlock (hash_index_stmt vi ::
               flat_map (fun '(i, (f, fa)) => if fa_ignore fa then []
                                              else [hash_stmt fa (EVar ("_" ^^ dec i))]) (indexed l)))
  end.

(** hash/mod.rs hasher_ident: `__H` followed by as many `_` as it takes to differ from every
    type / const parameter of the type (fuel = number of parameters + 1 suffices) *)
Definition gparam_tc_name (g : gparam) : option string :=
  match g with GType n _ _ => Some n | GConst n _ _ => Some n | GLife _ _ => None end.
Definition name_used (ps : list gparam) (n : string) : bool :=
  existsb (fun g => match gparam_tc_name g with Some x => String.eqb x n | None => false end) ps.
Fixpoint fresh_from (fuel : nat) (ps : list gparam) (n : string) : string :=
  match fuel with
  | 0 => n
  | S f => if name_used ps n then fresh_from f ps (n ^^ "_") else n
  end.
Definition hasher_ident (g : generics) : string :=
  fresh_from (S (List.length (g_params g))) (g_params g) "__H".

Definition hash_sig (h : string) : toks :=
  [P "<"; I h; P ":"] ++ core_path ["hash"; "Hasher"] ++ [P ">";
   G Paren [P "&"; I "self"; P ","; I "state"; P ":"; P "&"; I "mut"; I h]].

Definition hash_item (d : dinput) (g : generics) (body : block) : item :=
  {| i_attrs := []; i_generics := g; i_trait := Some (core_path ["hash"; "Hash"]);
     i_self := d_name d;
     i_members := [MFn inline_attr "hash" (hash_sig (hasher_ident (d_generics d))) ["self"; "state"] body] |}.

Definition hash_field_attrs F traits (fs : list field) : outcome (list (field * fattr)) :=
  mapM (fun f => let* fa := hash_field_attr F traits true true (f_attrs f) in Ok (f, fa)) fs.

Definition hash_variant F traits (iv : nat * variant) : outcome ((pat * expr) * list toks) :=
  let (vi, v) := iv in
  let* _ := hash_type_attr F traits (v_attrs v) in
  let* l := hash_field_attrs F traits (fields_list (v_fields v)) in
  Ok (hash_arm vi (v_name v) (v_fields v) l, hash_types l).

Definition hash_union_body : block :=
  [ELet false "size" (ECall (EToks (core_path ["mem"; "size_of"] ++ [P "::"; P "<"; I "Self"; P ">"])) []);
   ELet false "data"
     (EUnsafe [ECall (EPath (RCore ["slice"; "from_raw_parts"]))
                 [ECast (ECast (EVar "self") [P "*"; I "const"; I "Self"]) const_u8_ty;
                  EVar "size"]]);
   ECall (EPath (RCore ["hash"; "Hash"; "hash"])) [EVar "data"; EVar "state"]].

Definition expand_hash (F : features) (traits : list trait) (d : dinput) (m : meta)
  : outcome (list item) :=
  let hash_trait := core_path ["hash"; "Hash"] in
  match d_data d with
  | DStruct fs =>
      let* ta := build_tattr true false true m in
      let* l := hash_field_attrs F traits (fields_list fs) in
      let g := push_preds (d_generics d)
                 (bound_preds (ta_bound ta) (d_generics d) hash_trait (hash_types l) []) in
      Ok [hash_item d g (hash_struct_body (indexed l))]
  | DEnum vs =>
      let* ta := build_tattr true false true m in
      let* arms := mapM (hash_variant F traits) (indexed vs) in
      let g := push_preds (d_generics d)
                 (bound_preds (ta_bound ta) (d_generics d) hash_trait (flat_map snd arms) []) in
      Ok [hash_item d g (if is_nil arms then [] else [EMatch (EVar "self") (map fst arms)])]
  | DUnion fs =>
      let* ta := build_tattr true true false m in
      if negb (ta_unsafe ta) then
        (* hash/panic.rs union_without_unsafe: the same error for every form of the attribute *)
        Err E_union_without_unsafe
      else
        let* _ := mapM (fun f => hash_field_attr F traits false false (f_attrs f)) fs in
        Ok [hash_item d (d_generics d) hash_union_body]
  end.
