(** trait_handlers/copy : stand-alone Copy (with Clone educed the impl is
    emitted by the Clone handler and this one only validates its own
    type-level meta). *)
From Educe.Model Require Export Expand_Eq.

(** copy/mod.rs, !contains_clone: the marker impl
    `impl .. ::core::marker::Copy for .. where <bounds> { }` *)
Definition copy_item (d : dinput) (g : generics) : item :=
  {| i_attrs := []; i_generics := g; i_trait := Some (core_path ["marker"; "Copy"]);
     i_self := d_name d; i_members := [] |}.

(** Bound::Auto = `T: ::core::marker::Copy` for every field type, then
    `Self: ::core::clone::Clone` *)
Definition copy_generics (ta : tattr) (d : dinput) (tys : list toks) : generics :=
  push_preds (d_generics d)
    (bound_preds (ta_bound ta) (d_generics d) (core_path ["marker"; "Copy"]) tys
       [core_path ["clone"; "Clone"]]).

Definition expand_copy (F : features) (traits : list trait) (d : dinput) (m : meta)
  : outcome (list item) :=
  let contains_clone := has_trait TClone F && has_trait TClone traits in
  let* ta := build_tattr true false (negb contains_clone) m in
  if contains_clone then Ok []
  else
    (* variants: copy/models/type_attribute.rs with flag and bound disabled;
       fields: copy/models/field_attribute.rs = attribute_incorrect_place *)
    let* tys := all_field_types F TCopy traits (d_data d) in
    Ok [copy_item d (copy_generics ta d tys)].
