(** trait_handlers/into.

    The handler receives every type-level `Into(...)` meta.  The real code
    keeps the targets in a [HashMap] keyed by [HashType] (the token string of
    the normalised type) and iterates that map, so the order of the emitted
    impls — and, when several targets fail, which target's error is reported —
    varies from run to run.  The model uses the order of first appearance;
    [into_alt_errs] lists the errors of all failing targets. *)
From Educe.Model Require Export Attr.

(** ** HashType keys *)

(** into/common.rs : to_hash_type — a reference type (all leading references
    stripped, mutability and lifetime dropped) becomes `&'static T` *)
Definition hash_type (ty : toks) : toks :=
  if is_ref_type ty then P "&" :: TLife "static" :: strip_refs ty else ty.

Fixpoint ty_lookup {A} (k : toks) (l : list (toks * A)) : option A :=
  match l with
  | [] => None
  | (k', v) :: r => if flat_eqb k' k then Some v else ty_lookup k r
  end.
Definition ty_mem {A} (k : toks) (l : list (toks * A)) : bool :=
  match ty_lookup k l with Some _ => true | None => false end.

(** ** attributes *)

(** the build_from_attributes of into/models: every `Into` meta of the item
    is collected first (all attributes validated), then built together *)
Section IntoCollect.
  Variable F : features.
  Variable traits : list trait.
  Definition into_collect_meta (acc : list meta) (m : meta) : outcome (list meta) :=
    match trait_from_path F (meta_path m) with
    | None => Err E_unsupported_trait
    | Some t =>
        if negb (has_trait t traits) then Err E_trait_not_used
        else if trait_eqb t TInto then Ok (acc ++ [m]) else Ok acc
    end.
  Definition into_collect_attr (acc : list meta) (a : attr) : outcome (list meta) :=
    if is_educe a then
      match a_meta a with
      | AMList _ ts => let* ms := parse_metas ts in foldM into_collect_meta acc ms
      | _ => Ok acc
      end
    else Ok acc.
  Definition into_collect (attrs : list attr) : outcome (list meta) :=
    foldM into_collect_attr [] attrs.
End IntoCollect.

(** models/type_attribute.rs : build_from_into_meta — targets with their bound *)
Definition into_targets := list (toks * bound).

Definition into_type_meta (enable_types : bool) (acc : into_targets) (m : meta)
  : outcome into_targets :=
  match m with
  | MPath _ => Err E_attr_format
  | MNameValue _ _ => Err E_attr_format
  | MList _ _ ts =>
      if negb enable_types then Err E_attr_format
      else
        let* (ty, ms) := parse_type_with_metas ts in
        let h := hash_type ty in
        let* (_, b) := run_params (bound_param true) (false, BAuto) ms in
        if ty_mem h acc then Err E_into_reset_type else Ok (acc ++ [(h, b)])
  end.
Definition into_build_type (enable_types : bool) (ms : list meta) : outcome into_targets :=
  foldM (into_type_meta enable_types) [] ms.

(** TypeAttributeBuilder { enable_types: false }.build_from_attributes (variants) *)
Definition into_variant_attr F traits (attrs : list attr) : outcome unit :=
  let* ms := into_collect F traits attrs in
  if is_nil ms then Ok Datatypes.tt
  else let* _ := into_build_type false ms in Ok Datatypes.tt.

(** models/field_attribute.rs : build_from_into_meta — targets with their method *)
Definition into_fattr := list (toks * option toks).

Definition into_field_meta (acc : into_fattr) (m : meta) : outcome into_fattr :=
  match m with
  | MPath _ => Err E_attr_format
  | MNameValue _ _ => Err E_attr_format
  | MList _ _ ts =>
      let* (ty, ms) := parse_type_with_metas ts in
      let h := hash_type ty in
      let* s := run_params (im_param false true)
                  {| fs_ignore := false; fs_method := None;
                     fs_ignore_set := false; fs_method_set := false |} ms in
      if ty_mem h acc then Err E_into_reset_type else Ok (acc ++ [(h, fs_method s)])
  end.

(** FieldAttributeBuilder.build_from_attributes, then the check that every
    target named on the field is declared on the type *)
Definition into_field_attr F traits (targets : into_targets) (f : field)
  : outcome (field * into_fattr) :=
  let* ms := into_collect F traits (f_attrs f) in
  let* fa := foldM into_field_meta [] ms in
  if forallb (fun '(k, _) => ty_mem k targets) fa then Ok (f, fa)
  else Err E_into_no_impl.

(** ** selection of the field that converts to one target *)
Definition into_choice := (nat * field * option toks)%type.

Definition into_flagged (target : toks) (fs : list (field * into_fattr)) : list into_choice :=
  flat_map (fun '(i, (f, fa)) => match ty_lookup target fa with
                                 | Some m => [(i, f, m)]
                                 | None => []
                                 end) (indexed fs).
Definition into_same_typed (target : toks) (fs : list (field * into_fattr)) : list into_choice :=
  flat_map (fun '(i, (f, _)) => if flat_eqb target (hash_type (f_ty f)) then [(i, f, None)] else [])
           (indexed fs).

Definition into_select (target : toks) (fs : list (field * into_fattr)) : outcome into_choice :=
  match fs with
  | [(f, fa)] => Ok (0, f, match ty_lookup target fa with Some m => m | None => None end)
  | _ =>
      match into_flagged target fs with
      | _ :: _ :: _ => Err E_into_multi
      | [c] => Ok c
      | [] => match into_same_typed target fs with
              | [c] => Ok c
              | _ => Err E_into_no_field
              end
      end
  end.

(** ** emission *)

Definition into_trait (target : toks) : toks :=
  core_path ["convert"; "Into"] ++ [P "<"] ++ target ++ [P ">"].

(** the conversion of the chosen field, [operand] being the place it is read from:
      #method(operand) | operand | ::core::convert::Into::into(operand) *)
Definition into_conv (target : toks) (c : into_choice) (operand : expr) : expr :=
  let '(_, f, m) := c in
  match m with
  | Some p => ECall (EPath (RUser p)) [operand]
  | None => if flat_eqb target (hash_type (f_ty f)) then operand
            else ECall (EPath (RCore ["convert"; "Into"; "into"])) [operand]
  end.

(** the field types bounded by `Into<target>` under `bound` = auto *)
Definition into_types (target : toks) (c : into_choice) : list toks :=
  let '(_, f, m) := c in
  match m with
  | Some _ => []
  | None => if flat_eqb target (hash_type (f_ty f)) then [] else [f_ty f]
  end.

Definition into_sig (target : toks) : toks := [G Paren [I "self"]; P "->"] ++ target.

(** impl ::core::convert::Into<T> for X where .. { #[inline] fn into(self) -> T { .. } } *)
Definition into_item (d : dinput) (target : toks) (b : bound) (types : list toks) (body : block)
  : item :=
  {| i_attrs := [];
     i_generics := push_preds (d_generics d)
                     (bound_preds b (d_generics d) (into_trait target) types []);
     i_trait := Some (into_trait target); i_self := d_name d;
     i_members := [MFn inline_attr "into" (into_sig target) ["self"] body] |}.

(** into_struct.rs *)
Definition into_struct_item (d : dinput) (target : toks) (b : bound) (c : into_choice) : item :=
  let '(i, f, _) := c in
  into_item d target b (into_types target c)
            [into_conv target c (EField (EVar "self") (field_member f i))].

(** into_enum.rs : one arm
      Self::V ( _, _, _i, .. ) => conv(_i),    Self::V { name, .. } => conv(name), *)
Definition into_arm (target : toks) (x : string * into_choice) : pat * expr :=
  let '(v, c) := x in
  let '(i, f, _) := c in
  match f_name f with
  | Some n => (PStruct (RSelfV v) [(n, None)] false true, into_conv target c (EVar n))
  | None => let b := "_" ^^ dec i in
            (PTuple (RSelfV v) (repeat PWild i ++ [PBind b]) false true,
             into_conv target c (EVar b))
  end.

Definition into_enum_item (d : dinput) (target : toks) (b : bound)
           (l : list (string * into_choice)) : item :=
  into_item d target b (flat_map (fun x => into_types target (snd x)) l)
            [EMatch (EVar "self") (map (into_arm target) l)].

(** the plan of the handler: per target (in order of first appearance) its
    bound and the chosen field of the struct / of every variant (at least one) *)
Inductive into_plan1 :=
| IPStruct (c : into_choice)
| IPEnum (l : list (string * into_choice)).
Definition into_plan := list (toks * bound * into_plan1).

Definition into_emit1 (d : dinput) (x : toks * bound * into_plan1) : item :=
  let '(target, b, p) := x in
  match p with
  | IPStruct c => into_struct_item d target b c
  | IPEnum l => into_enum_item d target b l
  end.
Definition into_emit (d : dinput) (p : into_plan) : list item := map (into_emit1 d) p.

(** ** per-target analysis (the body of `for (target_ty, bound) in type_attribute.types`) *)
Definition into_struct_target (fs : list (field * into_fattr)) (t : toks * bound)
  : outcome (toks * bound * into_plan1) :=
  let* c := into_select (fst t) fs in
  Ok (t, IPStruct c).

Definition into_variant_choice (target : toks) (x : variant * list (field * into_fattr))
  : outcome (string * into_choice) :=
  match v_fields (fst x) with
  | FUnit => Err E_no_unit_variant
  | _ => let* c := into_select target (snd x) in Ok (v_name (fst x), c)
  end.

Definition into_enum_target (vs : list (variant * list (field * into_fattr)))
           (t : toks * bound) : outcome (toks * bound * into_plan1) :=
  let* l := mapM (into_variant_choice (fst t)) vs in
  if is_nil l then Err E_into_no_field
  else Ok (t, IPEnum l).

(** the analysis up to the loop over the targets, then one outcome per target *)
Definition into_results (F : features) (traits : list trait) (d : dinput) (ms : list meta)
  : outcome (list (outcome (toks * bound * into_plan1))) :=
  match d_data d with
  | DUnion _ => Err E_no_union
  | DStruct fs =>
      let* targets := into_build_type true ms in
      let* l := mapM (into_field_attr F traits targets) (fields_list fs) in
      Ok (map (into_struct_target l) targets)
  | DEnum vs =>
      let* targets := into_build_type true ms in
      let* l := mapM (fun v => let* _ := into_variant_attr F traits (v_attrs v) in
                               let* fl := mapM (into_field_attr F traits targets)
                                               (fields_list (v_fields v)) in
                               Ok (v, fl)) vs in
      Ok (map (into_enum_target l) targets)
  end.

(** canonical order: the first failing target (in order of first appearance) decides *)
Definition into_analyse (F : features) (traits : list trait) (d : dinput) (ms : list meta)
  : outcome into_plan :=
  let* rs := into_results F traits d ms in
  mapM (fun r => r) rs.

Definition expand_into (F : features) (traits : list trait) (d : dinput) (ms : list meta)
  : outcome (list item) :=
  let* p := into_analyse F traits d ms in
  Ok (into_emit d p).

(** the errors the real macro may report instead, depending on the map order *)
Definition into_alt_errs (F : features) (traits : list trait) (d : dinput) (ms : list meta)
  : list err :=
  match into_results F traits d ms with
  | Ok rs => flat_map (fun r => match r with Err e => [e] | _ => [] end) rs
  | _ => []
  end.
