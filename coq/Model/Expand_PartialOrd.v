(** trait_handlers/partial_ord, and everything it shares with trait_handlers/ord:
    common/int.rs (ranks), common/tools/discriminant_type.rs, the field
    attribute with `ignore` / `method` / `rank`, the rank-sorted field map and
    the comparison templates (the Ord templates are the PartialOrd ones
    without the `Some(..)` wrapping; the flag [partial] selects the flavour). *)
From Educe.Model Require Export Attr.

Definition digit_val (c : ascii) : option Z :=
  let n := nat_of_ascii c in
  if Nat.leb 48 n && Nat.leb n 57 then Some (Z.of_nat (n - 48)) else None.

Open Scope Z_scope.

(** ** integers: common/int.rs *)
Definition isize_min : Z := -9223372036854775808.
Definition isize_max : Z := 9223372036854775807.
Definition in_isize (z : Z) : bool := (isize_min <=? z) && (z <=? isize_max).

Fixpoint digits_val (s : string) (acc : Z) : option Z :=
  match s with
  | EmptyString => Some acc
  | String c r => match digit_val c with
                  | Some d => digits_val r (acc * 10 + d)
                  | None => None
                  end
  end.

(** [str::parse::<isize>]: optional sign, at least one ASCII digit, nothing
    else, 64-bit range.  Every failure is a [ParseIntError]. *)
Definition parse_isize_str (s : string) : outcome Z :=
  let '(neg, body) := match s with
                      | String "+" r => (false, r)
                      | String "-" r => (true, r)
                      | _ => (false, s)
                      end in
  match body with
  | EmptyString => Err E_int_parse
  | _ => match digits_val body 0 with
         | None => Err E_int_parse
         | Some v => let z := if neg then - v else v in
                     if in_isize z then Ok z else Err E_int_parse
         end
  end.

(** [LitInt::base10_parse::<isize>] (the literal may carry a sign, see
    syn::lit::parse_negative_lit), and `format!("-{digits}").parse::<isize>()` *)
Definition lit_int_isize (neg : bool) (v : Z) : outcome Z :=
  let z := if neg then - v else v in
  if in_isize z then Ok z else Err E_int_parse.

Definition int_lit_value (t : tt) : option Z :=
  match t with TLit (LKInt v _) _ => Some v | _ => None end.

(** meta_name_value_2_isize *)
Definition meta_name_value_2_isize (v : nvexpr) : outcome Z :=
  match v with
  | XLit (TStr _ value _) => parse_isize_str value
  | XLit t => match int_lit_value t with Some z => lit_int_isize false z | None => Err E_syn end
  | XNegLit t => match int_lit_value t with Some z => lit_int_isize true z | None => Err E_syn end
  | XUnaryNeg t => match int_lit_value t with Some z => lit_int_isize true z | None => Err E_syn end
  | _ => Err E_syn
  end.

(** the value of a parsed [syn::Lit] in the list form `rank(lit)` *)
Definition lit_2_isize (neg : bool) (t : tt) : outcome Z :=
  match t with
  | TStr _ value _ => parse_isize_str value
  | _ => match int_lit_value t with
         | Some z => lit_int_isize neg z
         | None => Err E_not_integer
         end
  end.

(** meta_2_isize; the list form is `parse_args::<Lit>()`, where [Lit::parse]
    accepts a minus sign before a numeric literal *)
Definition meta_2_isize (m : meta) : outcome Z :=
  match m with
  | MNameValue _ v => meta_name_value_2_isize v
  | MList _ _ ts =>
      match ts with
      | [t] => if is_lit_tok t then lit_2_isize false t else Err E_syn
      | [TPunct "-"; t] => if is_num_lit t then lit_2_isize true t else Err E_syn
      | _ => Err E_syn
      end
  | MPath _ => Err E_syn
  end.

(** ** field attribute: models/field_attribute.rs (identical in ord/ and partial_ord/) *)
Record ofattr := { oa_ignore : bool; oa_method : option toks; oa_rank : Z }.

Record ostate := { os_ignore : bool; os_method : option toks; os_rank : Z;
                   os_ignore_set : bool; os_method_set : bool; os_rank_set : bool }.

Definition ord_param (ei em er : bool) (s : ostate) (m : meta) : outcome (option ostate) :=
  if param_is m ["ignore"] then
    if negb ei then Ok None
    else let* v := meta_2_bool_allow_path m in
         if os_ignore_set s then Err E_param_reset
         else Ok (Some {| os_ignore := v; os_method := os_method s; os_rank := os_rank s;
                          os_ignore_set := true; os_method_set := os_method_set s;
                          os_rank_set := os_rank_set s |})
  else if param_is m ["method"] then
    if negb em then Ok None
    else let* v := meta_2_path m in
         if os_method_set s then Err E_param_reset
         else Ok (Some {| os_ignore := os_ignore s; os_method := Some v; os_rank := os_rank s;
                          os_ignore_set := os_ignore_set s; os_method_set := true;
                          os_rank_set := os_rank_set s |})
  else if param_is m ["rank"] then
    if negb er then Ok None
    else let* v := meta_2_isize m in
         if os_rank_set s then Err E_param_reset
         else Ok (Some {| os_ignore := os_ignore s; os_method := os_method s; os_rank := v;
                          os_ignore_set := os_ignore_set s; os_method_set := os_method_set s;
                          os_rank_set := true |})
  else Ok None.

(** build_from_ord_meta / build_from_partial_ord_meta; [rank] = the builder's default rank *)
Definition build_ofattr (ei em er : bool) (rank : Z) (m : meta) : outcome ofattr :=
  match m with
  | MPath _ => Err E_attr_format
  | MNameValue _ v =>
      if ei then
        let* b := meta_name_value_2_bool v in
        Ok {| oa_ignore := negb b; oa_method := None; oa_rank := rank |}
      else Err E_attr_format
  | MList _ _ ts =>
      let* ms := parse_metas ts in
      let* s := run_params (ord_param ei em er)
                  {| os_ignore := false; os_method := None; os_rank := rank;
                     os_ignore_set := false; os_method_set := false; os_rank_set := false |} ms in
      Ok {| oa_ignore := os_ignore s; oa_method := os_method s; oa_rank := os_rank s |}
  end.

(** `isize::MIN + index as isize` *)
Definition default_rank (index : nat) : Z := isize_min + Z.of_nat index.

Definition ord_field_attr F (own : trait -> bool) traits (index : nat) (attrs : list attr)
  : outcome ofattr :=
  let* o := scan_attrs F own (build_ofattr true true true (default_rank index)) traits attrs in
  Ok (match o with
      | Some a => a
      | None => {| oa_ignore := false; oa_method := None; oa_rank := default_rank index |}
      end).

Definition ord_variant_attr F (own : trait -> bool) traits (attrs : list attr) : outcome unit :=
  let* _ := scan_attrs F own (build_tattr false false false) traits attrs in
  Ok Datatypes.tt.

(** ** the rank-sorted map: BTreeMap<isize, _> as a sorted association list *)
Section RankMap.
  Context {A : Type}.
  Fixpoint rank_mem (k : Z) (m : list (Z * A)) : bool :=
    match m with
    | [] => false
    | (k', _) :: r => (k =? k') || rank_mem k r
    end.
  Fixpoint rank_insert (k : Z) (x : A) (m : list (Z * A)) : list (Z * A) :=
    match m with
    | [] => [(k, x)]
    | (k', y) :: r => if k <? k' then (k, x) :: m else (k', y) :: rank_insert k x r
    end.
End RankMap.

(** a field as the handlers see it: declaration index, the field, its attribute *)
Definition ofield := (nat * field * ofattr)%type.

Record fplan := { fp_declared : list ofield;            (* every field, in declaration order *)
                  fp_sorted : list (Z * ofield) }.      (* the non-ignored ones, by rank *)

Definition fplan_empty : fplan := {| fp_declared := []; fp_sorted := [] |}.
Definition sorted_fields (p : fplan) : list ofield := map snd (fp_sorted p).

(** one iteration of the `for (index, field) in fields.iter().enumerate()` loop *)
Definition plan_field F (own : trait -> bool) traits (p : fplan) (x : nat * field)
  : outcome fplan :=
  let (index, f) := x in
  let* fa := ord_field_attr F own traits index (f_attrs f) in
  let decl := fp_declared p ++ [(index, f, fa)] in
  if oa_ignore fa then Ok {| fp_declared := decl; fp_sorted := fp_sorted p |}
  else if rank_mem (oa_rank fa) (fp_sorted p) then Err E_rank_reuse
  else Ok {| fp_declared := decl;
             fp_sorted := rank_insert (oa_rank fa) (index, f, fa) (fp_sorted p) |}.

Definition plan_fields F own traits (fs : list field) : outcome fplan :=
  foldM (plan_field F own traits) fplan_empty (indexed fs).

(** the types that get the automatic bound: fields without a method, in rank order *)
Definition ord_types (p : fplan) : list toks :=
  flat_map (fun '(_, f, fa) => match oa_method fa with Some _ => [] | None => [f_ty f] end)
           (sorted_fields p).

(** ** common/tools/discriminant_type.rs (after the fix: the declared discriminant VALUES) *)
Open Scope Z_scope.
Definition i128_min : Z := -170141183460469231731687303715884105728.
Definition i128_max : Z := 170141183460469231731687303715884105727.
(** A sub-language of the expressions syn (without its "full" feature)
    accepts after `V =`; anything else is out of the modelled domain. *)
Definition discr_atom_ok (ts : toks) : bool :=
  match ts with
  | [t] => match t with
           | TGroup Paren [x] => is_lit_tok x
           | TIdent s => path_seg_ok s
           | _ => is_lit_tok t
           end
  | _ =>
      if has_angle ts then false else
      let body := match ts with TPunct "::" :: r => r | _ => ts end in
      match path_segs path_seg_ok body with
      | Some (_, []) => true                                   (* a path *)
      | Some (_, [TGroup Paren []]) => true                    (* a call *)
      | Some (_, [TGroup Paren [x]]) => is_lit_tok x
      | _ => false
      end
  end.

Inductive discr_expr :=
| DELit (v : Z)          (* Expr::Lit(Lit::Int) *)
| DENegLit (v : Z)       (* Expr::Unary(Neg, Expr::Lit(Lit::Int)) *)
| DENotInt               (* a literal (possibly negated) that is not an integer: "not an integer" *)
| DENotLit.              (* "not a literal" / "this operation is not allow here" *)

Definition classify_discr (ts : toks) : outcome discr_expr :=
  match ts with
  | [t] =>
      match int_lit_value t with
      | Some v => Ok (DELit v)
      | None => if is_lit_tok t then Ok DENotInt
                else if discr_atom_ok ts then Ok DENotLit
                else OutOfDomain "discriminant expression"
      end
  | [TPunct "-"; t] =>
      match int_lit_value t with
      | Some v => Ok (DENegLit v)
      | None => if is_lit_tok t then Ok DENotInt
                else if discr_atom_ok [t] then Ok DENotLit
                else OutOfDomain "discriminant expression"
      end
  | TPunct "-" :: r | TPunct "!" :: r | TPunct "*" :: r =>
      if discr_atom_ok r then Ok DENotLit
      else match r with
           | [TPunct "-"; t] => if discr_atom_ok [t] then Ok DENotLit
                                else OutOfDomain "discriminant expression"
           | _ => OutOfDomain "discriminant expression"
           end
  | [a; TPunct op; b] =>
      if discr_atom_ok ts then Ok DENotLit
      else if mem_str op ["+"; "-"; "*"; "/"; "%"; "|"; "&"; "^"]%string
         && discr_atom_ok [a] && discr_atom_ok [b]
      then Ok DENotLit else OutOfDomain "discriminant expression"
  | [a; TIdent "as"; TIdent ty] =>
      if discr_atom_ok [a] && ident_ok ty then Ok DENotLit
      else OutOfDomain "discriminant expression"
  | _ => if discr_atom_ok ts then Ok DENotLit else OutOfDomain "discriminant expression"
  end.

(** the explicit discriminant of one variant, as an i128 *)
Definition discr_value (ts : toks) : outcome Z :=
  let* e := classify_discr ts in
  match e with
  | DELit v => if v <=? i128_max then Ok v else Err E_int_parse
  | DENegLit v => if v <=? i128_max then Ok (- v)
                  else if v =? - i128_min then Ok i128_min
                  else Err E_int_parse
  | DENotInt => Err E_not_integer
  | DENotLit => Err E_discriminant
  end.

(** discriminant_values: explicit value or the previous one plus one (saturating at i128::MAX), from 0 *)
Fixpoint discr_values_from (counter : Z) (vs : list variant) : outcome (list (string * Z)) :=
  match vs with
  | [] => Ok []
  | v :: r =>
      let* c := match v_discr v with
                | Some ts => discr_value ts
                | None => Ok counter
                end in
      let* rest := discr_values_from (if c =? i128_max then i128_max else c + 1) r in
      Ok ((v_name v, c) :: rest)
  end.
Definition discriminant_values (vs : list variant) : outcome (list (string * Z)) :=
  discr_values_from 0 vs.

Close Scope Z_scope.

(** ** emission: the comparison templates *)
Definition ordering (c : string) : rpath := RCore ["cmp"; "Ordering"; c].

(** a result of the method: `Some(::core::cmp::Ordering::X)` (PartialOrd) or
    `::core::cmp::Ordering::X` (Ord) *)
Definition ord_result (partial : bool) (c : string) : expr :=
  if partial then ECall (EPath (RCore ["option"; "Option"; "Some"])) [EPath (ordering c)] else EPath (ordering c).
Definition ord_pattern (partial : bool) (c : string) : pat :=
  if partial then PTuple (RCore ["option"; "Option"; "Some"]) [PPath (ordering c)] false false else PPath (ordering c).

Definition builtin_cmp (partial : bool) : rpath :=
  if partial then RCore ["cmp"; "PartialOrd"; "partial_cmp"] else RCore ["cmp"; "Ord"; "cmp"].

Definition cmp_callee (partial : bool) (fa : ofattr) : expr :=
  match oa_method fa with
  | Some m => EPath (RUser m)
  | None => EPath (builtin_cmp partial)
  end.

(** *_struct.rs / *_enum.rs, the statement emitted per compared field:
    `match #cmp(a, b) { Equal => (), Greater => return Greater, Less => return Less [, None => return None] }`
    (every ordering wrapped in `Some(..)` for PartialOrd) *)
Definition cmp_step (partial : bool) (fa : ofattr) (a b : expr) : expr :=
  EMatch (ECall (cmp_callee partial fa) [a; b])
    ([(ord_pattern partial "Equal", EUnit);
      (ord_pattern partial "Greater", EReturn (ord_result partial "Greater"));
      (ord_pattern partial "Less", EReturn (ord_result partial "Less"))]
     ++ (if partial then [(PPath (RCore ["option"; "Option"; "None"]), EReturn (EPath (RCore ["option"; "Option"; "None"])))] else [])).

(** partial_ord_struct.rs / ord_struct.rs: the body of `partial_cmp` / `cmp` *)
Definition cmp_struct_body (partial : bool) (p : fplan) : block :=
  map (fun '(i, f, fa) =>
         let n := field_member f i in
         cmp_step partial fa (ERef (EField (EVar "self") n)) (ERef (EField (EVar "other") n)))
      (sorted_fields p)
  ++ [ord_result partial "Equal"].

Definition named_of (f : field) : string := match f_name f with Some n => n | None => "" end.

(** *_enum.rs, Fields::Unit arm: `Self::V => { return Equal; }` *)
Definition cmp_arm_unit (partial : bool) (v : string) : pat * expr :=
  (PPath (RSelfV v), EBlock [ESemi (EReturn (ord_result partial "Equal"))]).

(** *_enum.rs, Fields::Named arm:
    `Self::V { a: _s_a, b: _, } => { if let Self::V { a: _o_a, b: _, } = other { steps } }` *)
Definition cmp_arm_named (partial : bool) (v : string) (p : fplan) : pat * expr :=
  let pats (pre : string) :=
    map (fun '(_, f, fa) => (named_of f, Some (if oa_ignore fa then PWild
                                              else PBind (pre ^^ unraw (named_of f)))))
        (fp_declared p) in
  let steps :=
    map (fun '(_, f, fa) => cmp_step partial fa (EVar ("_s_" ^^ unraw (named_of f)))
                                             (EVar ("_o_" ^^ unraw (named_of f))))
        (sorted_fields p) in
  (PStruct (RSelfV v) (pats "_s_") true false,
   EBlock [EIfLet (PStruct (RSelfV v) (pats "_o_") true false) (EVar "other") steps None]).

(** *_enum.rs, Fields::Unnamed arm:
    `Self::V ( _0, _, ) => { if let Self::V ( __0, _, ) = other { steps } }` *)
Definition cmp_arm_unnamed (partial : bool) (v : string) (p : fplan) : pat * expr :=
  let pats (pre : string) :=
    map (fun '(i, _, fa) => if oa_ignore fa then PWild else PBind (pre ^^ dec i)) (fp_declared p) in
  let steps :=
    map (fun '(i, _, fa) => cmp_step partial fa (EVar ("_" ^^ dec i)) (EVar ("__" ^^ dec i)))
        (sorted_fields p) in
  (PTuple (RSelfV v) (pats "_") true false,
   EBlock [EIfLet (PTuple (RSelfV v) (pats "__") true false) (EVar "other") steps None]).

(** what the analysis keeps of a variant *)
Inductive vplan :=
| VPUnit (v : string)
| VPNamed (v : string) (p : fplan)
| VPUnnamed (v : string) (p : fplan).

Definition vplan_is_unit (v : vplan) : bool := match v with VPUnit _ => true | _ => false end.
Definition vplan_types (v : vplan) : list toks :=
  match v with VPUnit _ => [] | VPNamed _ p | VPUnnamed _ p => ord_types p end.

Definition cmp_arm (partial : bool) (v : vplan) : pat * expr :=
  match v with
  | VPUnit n => cmp_arm_unit partial n
  | VPNamed n p => cmp_arm_named partial n p
  | VPUnnamed n p => cmp_arm_unnamed partial n p
  end.

(** partial_ord_enum.rs / ord_enum.rs: the body of `partial_cmp` / `cmp`.
    no variant: `Equal`; otherwise [EDiscrMatch] = the match on the
comparison of the declared discriminant values, whose `Equal` arm is `Equal` itself
    (all variants are units) or `{ match self { arms } Equal }` *)
Definition cmp_enum_body (partial : bool) (ds : list (string * Z)) (vs : list vplan) : block :=
  if is_nil vs then [ord_result partial "Equal"]
  else
    [EDiscrMatch ds
       (if forallb vplan_is_unit vs then ord_result partial "Equal"
        else EBlock [EMatch (EVar "self") (map (cmp_arm partial) vs); ord_result partial "Equal"])
       (ord_result partial "Greater")
       (ord_result partial "Less")].

Definition partial_cmp_sig : toks :=
  [G Paren [P "&"; I "self"; P ","; I "other"; P ":"; P "&"; I "Self"]; P "->";
   P "::"; I "core"; P "::"; I "option"; P "::"; I "Option"; P "<"] ++ core_path ["cmp"; "Ordering"] ++ [P ">"].

Definition cmp_sig : toks :=
  [G Paren [P "&"; I "self"; P ","; I "other"; P ":"; P "&"; I "Self"]; P "->"]
  ++ core_path ["cmp"; "Ordering"].

(** `impl .. ::core::cmp::PartialOrd for T .. { #[inline] fn partial_cmp(&self, other: &Self) -> Option<Ordering> { body } }` *)
Definition partial_ord_item (d : dinput) (g : generics) (body : block) : item :=
  {| i_attrs := []; i_generics := g; i_trait := Some (core_path ["cmp"; "PartialOrd"]);
     i_self := d_name d;
     i_members := [MFn inline_attr "partial_cmp" partial_cmp_sig ["self"; "other"] body] |}.

(** ** analysis *)
Definition plan_variant F own traits (v : variant) : outcome vplan :=
  let* _ := ord_variant_attr F own traits (v_attrs v) in
  match v_fields v with
  | FUnit => Ok (VPUnit (v_name v))
  | FNamed fs => let* p := plan_fields F own traits fs in Ok (VPNamed (v_name v) p)
  | FUnnamed fs => let* p := plan_fields F own traits fs in Ok (VPUnnamed (v_name v) p)
  end.

Definition expand_partial_ord (F : features) (traits : list trait) (d : dinput) (m : meta)
  : outcome (list item) :=
  let contains_ord := has_trait TOrd F && has_trait TOrd traits in
  if contains_ord then
    (* the implementation and the field attributes are handled by the Ord handler *)
    let* _ := build_tattr true false false m in Ok []
  else
    let own := trait_eqb TPartialOrd in
    let bound_trait := core_path ["cmp"; "PartialOrd"] in
    let supertraits := [core_path ["cmp"; "PartialEq"]] in
    match d_data d with
    | DStruct fs =>
        let* ta := build_tattr true false true m in
        let* p := plan_fields F own traits (fields_list fs) in
        let g := push_preds (d_generics d)
                   (bound_preds (ta_bound ta) (d_generics d) bound_trait (ord_types p) supertraits) in
        Ok [partial_ord_item d g (cmp_struct_body true p)]
    | DEnum vs =>
        let* ta := build_tattr true false true m in
        let* ty := discriminant_values vs in
        let* vps := mapM (plan_variant F own traits) vs in
        let g := push_preds (d_generics d)
                   (bound_preds (ta_bound ta) (d_generics d) bound_trait
                      (flat_map vplan_types vps) supertraits) in
        Ok [partial_ord_item d g (cmp_enum_body true ty vps)]
    | DUnion _ => Err E_no_union
    end.
