(** trait_handlers/deref  (the analysis is shared with deref_mut, whose source
    is a copy of it with the names changed). *)
From Educe.Model Require Export Attr.

(** ** analysis *)

(** models/{type,field}_attribute.rs : build_from_deref[_mut]_meta — a bare
    flag when enabled, everything else is an incorrect format *)
Definition deref_build (enable_flag : bool) (m : meta) : outcome bool :=
  match m with
  | MPath _ => if enable_flag then Ok true else Err E_attr_format
  | MNameValue _ _ => Err E_attr_format
  | MList _ _ _ => Err E_attr_format
  end.

(** FieldAttributeBuilder { enable_flag: true }.build_from_attributes : the flag *)
Definition deref_field_flag F (own : trait) traits (attrs : list attr) : outcome bool :=
  let* o := scan_attrs F (trait_eqb own) (deref_build true) traits attrs in
  Ok (match o with Some b => b | None => false end).

(** TypeAttributeBuilder { enable_flag: false }.build_from_attributes (variants) *)
Definition deref_variant_attr F (own : trait) traits (attrs : list attr) : outcome unit :=
  let* _ := scan_attrs F (trait_eqb own) (deref_build false) traits attrs in
  Ok Datatypes.tt.

Definition deref_err_multi (own : trait) : err :=
  match own with TDerefMut => E_deref_mut_multi | _ => E_deref_multi end.
Definition deref_err_none (own : trait) : err :=
  match own with TDerefMut => E_deref_mut_none | _ => E_deref_none end.

(** the designated field of a struct / variant: the sole field (its
    attributes are validated, its flag is not looked at), else the only
    flagged one *)
Definition deref_pick F (own : trait) traits (acc : option (nat * field)) (x : nat * field)
  : outcome (option (nat * field)) :=
  let* b := deref_field_flag F own traits (f_attrs (snd x)) in
  if b then
    match acc with
    | Some _ => Err (deref_err_multi own)
    | None => Ok (Some x)
    end
  else Ok acc.

Definition deref_select F (own : trait) traits (fs : list field) : outcome (nat * field) :=
  match fs with
  | [f] => let* _ := deref_field_flag F own traits (f_attrs f) in Ok (0, f)
  | _ =>
      let* o := foldM (deref_pick F own traits) None (indexed fs) in
      match o with
      | Some x => Ok x
      | None => Err (deref_err_none own)
      end
  end.

(** one variant: attributes, unit check, designated field *)
Definition deref_variant F (own : trait) traits (v : variant) : outcome (string * (nat * field)) :=
  let* _ := deref_variant_attr F own traits (v_attrs v) in
  match v_fields v with
  | FUnit => Err E_no_unit_variant
  | fs => let* x := deref_select F own traits (fields_list fs) in Ok (v_name v, x)
  end.

(** the plan of both handlers: the designated field of the struct, or of
    every variant (at least one) *)
Inductive deref_plan :=
| DPStruct (index : nat) (f : field)
| DPEnum (first : string * (nat * field)) (others : list (string * (nat * field))).

Definition deref_analyse F (own : trait) traits (d : dinput) (m : meta) : outcome deref_plan :=
  match d_data d with
  | DUnion _ => Err E_no_union
  | DStruct fs =>
      let* _ := deref_build true m in
      let* x := deref_select F own traits (fields_list fs) in
      Ok (DPStruct (fst x) (snd x))
  | DEnum vs =>
      let* _ := deref_build true m in
      let* l := mapM (deref_variant F own traits) vs in
      match l with
      | [] => Err (deref_err_none own)
      | x :: r => Ok (DPEnum x r)
      end
  end.

(** ** emission *)

(** deref_enum.rs / deref_mut_enum.rs : one arm
      Self::V ( _, _, _i, .. ) => _i,      (tuple variant, `index` wildcards)
      Self::V { name, .. } => name,        (struct variant) *)
Definition deref_arm (x : string * (nat * field)) : pat * expr :=
  let '(v, (i, f)) := x in
  match f_name f with
  | Some n => (PStruct (RSelfV v) [(n, None)] false true, EVar n)
  | None => let b := "_" ^^ dec i in
            (PTuple (RSelfV v) (repeat PWild i ++ [PBind b]) false true, EVar b)
  end.

Definition deref_match (arms : list (string * (nat * field))) : block :=
  [EMatch (EVar "self") (map deref_arm arms)].

(** deref_struct.rs : `self.f` when the field is a reference, else `&self.f` *)
Definition deref_struct_body (i : nat) (f : field) : block :=
  let place := EField (EVar "self") (field_member f i) in
  [if is_ref_type (f_ty f) then place else ERef place].

(** `type Target` : the field type with every leading reference stripped
    (struct: dereference_changed, enum: dereference of the first variant's) *)
Definition deref_target (f : field) : toks := strip_refs (f_ty f).

Definition deref_sig : toks :=
  [G Paren [P "&"; I "self"]; P "->"; P "&"; I "Self"; P "::"; I "Target"].

(** impl ::core::ops::Deref for T { type Target = ..; #[inline] fn deref(&self) -> &Self::Target { .. } } *)
Definition deref_item (d : dinput) (target : toks) (body : block) : item :=
  {| i_attrs := []; i_generics := d_generics d;
     i_trait := Some (core_path ["ops"; "Deref"]); i_self := d_name d;
     i_members := [MType "Target" target; MFn inline_attr "deref" deref_sig ["self"] body] |}.

Definition deref_emit (d : dinput) (p : deref_plan) : list item :=
  match p with
  | DPStruct i f => [deref_item d (deref_target f) (deref_struct_body i f)]
  | DPEnum x r => [deref_item d (deref_target (snd (snd x))) (deref_match (x :: r))]
  end.

Definition expand_deref (F : features) (traits : list trait) (d : dinput) (m : meta)
  : outcome (list item) :=
  let* p := deref_analyse F TDeref traits d m in
  Ok (deref_emit d p).
