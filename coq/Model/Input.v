(** The derive input as [syn::parse::<DeriveInput>] delivers it to educe:
    structure of the item is parsed, attribute arguments are still tokens. *)
From Educe.Model Require Export Tok.

Inductive ameta :=
| AMPath
| AMNameValue (v : toks)
| AMList (d : delim) (ts : toks).

(** An attribute `#[path meta]`; [a_path] is the list of path segments
    (["educe"], ["repr"], ["doc"], ["serde"; "x"] ...). *)
Record attr := { a_path : list string; a_meta : ameta }.

Record field := { f_attrs : list attr; f_name : option string; f_ty : toks }.

Inductive fields :=
| FNamed (l : list field)
| FUnnamed (l : list field)
| FUnit.

Record variant := { v_attrs : list attr; v_name : string; v_fields : fields;
                    v_discr : option toks }.

Inductive data :=
| DStruct (f : fields)
| DEnum (vs : list variant)
| DUnion (fs : list field).

Inductive gparam :=
| GLife (name : string) (bounds : toks)                       (* 'a : bounds  (bounds may be []) *)
| GType (name : string) (bounds : toks) (default : option toks)
| GConst (name : string) (ty : toks) (default : option toks).

Record generics := { g_params : list gparam;
                     g_trailing : bool;            (* `<T,>` *)
                     g_where : list toks;          (* user where-predicates *)
                     g_where_trailing : bool }.    (* `where T: X,` *)

Record dinput := { d_attrs : list attr; d_name : string;
                   d_generics : generics; d_data : data }.

Definition fields_list (f : fields) : list field :=
  match f with FNamed l => l | FUnnamed l => l | FUnit => [] end.

(** The twelve traits (cargo features of the same names). *)
Inductive trait :=
| TDebug | TClone | TCopy | TPartialEq | TEq | TPartialOrd | TOrd | THash
| TDefault | TDeref | TDerefMut | TInto.

Definition trait_eqb (a b : trait) : bool :=
  match a, b with
  | TDebug, TDebug | TClone, TClone | TCopy, TCopy | TPartialEq, TPartialEq
  | TEq, TEq | TPartialOrd, TPartialOrd | TOrd, TOrd | THash, THash
  | TDefault, TDefault | TDeref, TDeref | TDerefMut, TDerefMut | TInto, TInto => true
  | _, _ => false
  end.

Definition all_traits : list trait :=
  [TDebug; TClone; TCopy; TPartialEq; TEq; TPartialOrd; TOrd; THash;
   TDefault; TDeref; TDerefMut; TInto].

Definition trait_name (t : trait) : string :=
  match t with
  | TDebug => "Debug" | TClone => "Clone" | TCopy => "Copy" | TPartialEq => "PartialEq"
  | TEq => "Eq" | TPartialOrd => "PartialOrd" | TOrd => "Ord" | THash => "Hash"
  | TDefault => "Default" | TDeref => "Deref" | TDerefMut => "DerefMut" | TInto => "Into"
  end.

Definition trait_of_name (s : string) : option trait :=
  find (fun t => String.eqb (trait_name t) s) all_traits.

Definition has_trait (t : trait) (l : list trait) : bool := existsb (trait_eqb t) l.

(** Enabled cargo features. *)
Definition features := list trait.

(** Outcome of the macro (and of every internal step). *)
Inductive err :=
| E_unsupported_trait | E_reuse_trait | E_educe_format | E_trait_not_used
| E_attr_format          (* attribute_incorrect_format / attribute_incorrect_place *)
| E_param_reset | E_not_set_up | E_no_union | E_no_unit_variant
| E_syn                  (* raised inside syn or by a meta_2_* helper ("expected ...") *)
| E_debug_unit_struct_name | E_debug_unit_variant_name | E_debug_unit_enum_name
| E_union_without_unsafe
| E_default_multi_fields | E_default_no_field | E_default_multi_variants | E_default_no_variant
| E_deref_multi | E_deref_none | E_deref_mut_multi | E_deref_mut_none
| E_into_reset_type | E_into_no_field | E_into_no_impl | E_into_multi
| E_rank_reuse
| E_discriminant
| E_not_integer           (* "not an integer" (common/int.rs, discriminant_type.rs) *)
| E_int_parse.            (* a core::num::ParseIntError message *)

(** The reachable panic sites of the real macro that the model has to reproduce
    (`unwrap()` on None, `unreachable!()`, out-of-range `insert_str`, ...).  On the current
    tree there is none -- the only one ever found, the string surgery of
    hash/panic.rs and partial_eq/panic.rs, was repaired -- so the type is EMPTY:
    [Panic] cannot be constructed and "the macro never panics" is a typing fact about the
    model (Properties/C17.v).  Following the code by adding a site here breaks that theorem. *)
Inductive panic_site : Set := .

Inductive outcome (A : Type) :=
| Ok (a : A)
| Err (e : err)
| Panic (site : panic_site)
| OutOfDomain (why : string).
Arguments Ok {A} a.
Arguments Err {A} e.
Arguments Panic {A} site.
Arguments OutOfDomain {A} why.

Definition bind {A B} (m : outcome A) (f : A -> outcome B) : outcome B :=
  match m with
  | Ok a => f a
  | Err e => Err e
  | Panic s => Panic s
  | OutOfDomain w => OutOfDomain w
  end.
Notation "'let*' x ':=' m 'in' k" := (bind m (fun x => k))
  (at level 200, x pattern, m at level 100, k at level 200, right associativity).

(** Monadic traversals (structural, so they compute and are easy to reason about). *)
Section Traverse.
  Context {A B : Type} (f : A -> outcome B).
  Fixpoint mapM (l : list A) : outcome (list B) :=
    match l with
    | [] => Ok []
    | x :: r => let* y := f x in let* ys := mapM r in Ok (y :: ys)
    end.
End Traverse.

Section TraverseI.
  Context {A B : Type} (f : nat -> A -> outcome B).
  Fixpoint mapMi_from (i : nat) (l : list A) : outcome (list B) :=
    match l with
    | [] => Ok []
    | x :: r => let* y := f i x in let* ys := mapMi_from (S i) r in Ok (y :: ys)
    end.
  Definition mapMi := mapMi_from 0.
End TraverseI.

Section Fold.
  Context {A S : Type} (f : S -> A -> outcome S).
  Fixpoint foldM (s : S) (l : list A) : outcome S :=
    match l with
    | [] => Ok s
    | x :: r => let* s' := f s x in foldM s' r
    end.
End Fold.
