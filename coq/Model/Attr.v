(** The attribute-scanning scheme shared by every
    trait_handlers/*/models/{type,field}_attribute.rs. *)
From Educe.Model Require Export Syn Print.

Definition trait_from_path (F : features) (p : mpath) : option trait :=
  match get_ident p with
  | Some s => match trait_of_name s with
              | Some t => if has_trait t F then Some t else None
              | None => None
              end
  | None => None
  end.

Definition is_educe (a : attr) : bool :=
  match a_path a with [s] => String.eqb s "educe" | _ => false end.

(** build_from_attributes: scan every `#[educe(...)]` list attribute of an
    item, validate every meta (known trait, trait educed on the type) and
    build the result from the (single) meta of the scanner's own trait(s). *)
Section Scan.
  Context {A : Type}.
  Variable F : features.
  Variable own : trait -> bool.
  Variable build : meta -> outcome A.
  Variable traits : list trait.

  Definition scan_meta (acc : option A) (m : meta) : outcome (option A) :=
    match trait_from_path F (meta_path m) with
    | None => Err E_unsupported_trait
    | Some t =>
        if negb (has_trait t traits) then Err E_trait_not_used
        else if own t then
          match acc with
          | Some _ => Err E_reuse_trait
          | None => let* v := build m in Ok (Some v)
          end
        else Ok acc
    end.

  Definition scan_attr (acc : option A) (a : attr) : outcome (option A) :=
    if is_educe a then
      match a_meta a with
      | AMList _ ts => let* ms := parse_metas ts in foldM scan_meta acc ms
      | _ => Ok acc
      end
    else Ok acc.

  Definition scan_attrs (attrs : list attr) : outcome (option A) :=
    foldM scan_attr None attrs.
End Scan.

(** Parameter lists `Trait(p1, p2 = v, p3(..))`: each parameter is offered to
    a handler; [None] = the handler does not know it (or it is disabled at
    this position) => attribute_incorrect_format. *)
Section Params.
  Context {S : Type}.
  Variable handler : S -> meta -> outcome (option S).
  Definition run_param (s : S) (m : meta) : outcome S :=
    let* r := handler s m in
    match r with Some s' => Ok s' | None => Err E_attr_format end.
  Definition run_params (s : S) (ms : list meta) : outcome S := foldM run_param s ms.
End Params.

Definition param_name (m : meta) : option string := get_ident (meta_path m).
Definition param_is (m : meta) (names : list string) : bool :=
  match param_name m with Some s => mem_str s names | None => false end.

(** where-clause predicates for a bound mode
    (Bound::into_where_predicates_by_generic_parameters_check_types) *)
Definition type_param_names (g : generics) : list string :=
  flat_map (fun p => match p with GType n _ _ => [n] | _ => [] end) (g_params g).

Definition bound_preds (b : bound) (g : generics) (bound_trait : toks)
           (types : list toks) (supertraits : list toks) : list toks :=
  match b with
  | BDisabled => []
  | BAuto => map (fun t => t ++ [P ":"] ++ bound_trait) types
             ++ map (fun s => [I "Self"; P ":"] ++ s) supertraits
  | BCustom ps => ps
  | BAll => map (fun n => [I n; P ":"] ++ bound_trait) (type_param_names g)
  end.

Definition core_path (segs : list string) : toks := rpath_toks (RCore segs).
(** `*const ::core::primitive::u8`: the type of the byte view of the union impls
    (partial_eq_union.rs, hash_union.rs, debug_union.rs) *)
Definition const_u8_ty : toks :=
  [P "*"; I "const"; P "::"; I "core"; P "::"; I "primitive"; P "::"; I "u8"].
Definition inline_attr : toks := [P "#"; G Bracket [I "inline"]].

Fixpoint index_from {A} (i : nat) (l : list A) : list (nat * A) :=
  match l with [] => [] | x :: r => (i, x) :: index_from (S i) r end.
Definition indexed {A} (l : list A) := index_from 0 l.

(** field access name: the identifier, or the index for tuple fields *)
Definition field_member (f : field) (index : nat) : string :=
  match f_name f with Some n => n | None => dec index end.

(** ** type-level attribute with `unsafe` / `bound` (PartialEq, Hash, ...) *)
Record tattr := { ta_unsafe : bool; ta_bound : bound }.
Definition tattr_default : tattr := {| ta_unsafe := false; ta_bound := BAuto |}.

Definition bound_param (enable_bound : bool) (s : bool * bound) (m : meta)
  : outcome (option (bool * bound)) :=
  if param_is m ["bound"] then
    if negb enable_bound then Ok None
    else let* v := bound_from_meta m in
         if fst s then Err E_param_reset else Ok (Some (true, v))
  else Ok None.

Definition build_tattr (enable_flag enable_unsafe enable_bound : bool) (m : meta)
  : outcome tattr :=
  match m with
  | MPath _ => if enable_flag then Ok tattr_default else Err E_attr_format
  | MNameValue _ _ => Err E_attr_format
  | MList _ _ ts =>
      let* (u, ms) := (if enable_unsafe then parse_unsafe_metas ts
                        else let* ms := parse_metas ts in Ok (false, ms)) in
      let* (_, b) := run_params (bound_param enable_bound) (false, BAuto) ms in
      Ok {| ta_unsafe := u; ta_bound := b |}
  end.

(** ** field-level attribute with `ignore` / `method` (PartialEq, Hash) *)
Record fattr := { fa_ignore : bool; fa_method : option toks }.
Definition fattr_default : fattr := {| fa_ignore := false; fa_method := None |}.

Record fstate := { fs_ignore : bool; fs_method : option toks;
                   fs_ignore_set : bool; fs_method_set : bool }.

Definition im_param (enable_ignore enable_method : bool) (s : fstate) (m : meta)
  : outcome (option fstate) :=
  if param_is m ["ignore"] then
    if negb enable_ignore then Ok None
    else let* v := meta_2_bool_allow_path m in
         if fs_ignore_set s then Err E_param_reset
         else Ok (Some {| fs_ignore := v; fs_method := fs_method s;
                          fs_ignore_set := true; fs_method_set := fs_method_set s |})
  else if param_is m ["method"] then
    if negb enable_method then Ok None
    else let* v := meta_2_path m in
         if fs_method_set s then Err E_param_reset
         else Ok (Some {| fs_ignore := fs_ignore s; fs_method := Some v;
                          fs_ignore_set := fs_ignore_set s; fs_method_set := true |})
  else Ok None.

Definition build_fattr (enable_ignore enable_method : bool) (m : meta) : outcome fattr :=
  match m with
  | MPath _ => Err E_attr_format
  | MNameValue _ v =>
      if enable_ignore then
        let* b := meta_name_value_2_bool v in
        Ok {| fa_ignore := negb b; fa_method := None |}
      else Err E_attr_format
  | MList _ _ ts =>
      let* ms := parse_metas ts in
      let* s := run_params (im_param enable_ignore enable_method)
                  {| fs_ignore := false; fs_method := None;
                     fs_ignore_set := false; fs_method_set := false |} ms in
      Ok {| fa_ignore := fs_ignore s; fa_method := fs_method s |}
  end.
