(** Model of the syn 2.0 parsers educe runs on attribute arguments.

    Everything here is a total structural function on token trees.  Where
    the real parser accepts a larger language than the model recognises, the
    model answers [OutOfDomain] (never a wrong Ok / Err). *)
From Educe.Model Require Export Input.

Record mpath := { mp_lead : bool; mp_segs : list string }.

(** Value of `name = value` as syn classifies it (attr.rs,
    parse_meta_name_value_after_path): a lone literal that ends the stream is
    [Expr::Lit] (a negated numeric literal included); otherwise the value is
    parsed as an expression, so `-1` followed by anything is a unary minus. *)
Inductive nvexpr :=
| XLit (t : tt)
| XNegLit (t : tt)
| XUnaryNeg (t : tt)
| XPath (p : toks)
| XOther (ts : toks).

Inductive meta :=
| MPath (p : mpath)
| MNameValue (p : mpath) (v : nvexpr)
| MList (p : mpath) (d : delim) (ts : toks).

Definition meta_path (m : meta) : mpath :=
  match m with MPath p => p | MNameValue p _ => p | MList p _ _ => p end.

Definition get_ident (p : mpath) : option string :=
  match p with
  | {| mp_lead := false; mp_segs := [s] |} => Some s
  | _ => None
  end.

Definition path_is_ident (p : mpath) (s : string) : bool :=
  match get_ident p with Some x => String.eqb x s | None => false end.

(** ** token classes *)
Definition is_bool_tok (t : tt) : option bool :=
  match t with
  | TIdent s => if String.eqb s "true" then Some true
                else if String.eqb s "false" then Some false else None
  | _ => None
  end.
Definition is_lit_tok (t : tt) : bool :=
  match t with
  | TLit _ _ | TStr _ _ _ => true
  | TIdent _ => match is_bool_tok t with Some _ => true | None => false end
  | _ => false
  end.
Definition is_num_lit (t : tt) : bool :=
  match t with TLit (LKInt _ _) _ | TLit (LKFloat _) _ => true | _ => false end.

Definition path_kw : list string := ["super"; "self"; "Self"; "crate"].
(** a segment [Path::parse_mod_style] accepts *)
Definition mod_seg_ok (s : string) : bool := negb (is_keyword s) || mem_str s path_kw.
(** a segment [Path::parse] (expression / type style) accepts *)
(** (`try` is a path segment only under syn's "full" feature, which the crate does not
    enable by default: without it `try` is refused like any other keyword) *)
Definition path_seg_ok (s : string) : bool := mod_seg_ok s.

Section PathSegs.
  Variable ok : string -> bool.
  Fixpoint path_segs (ts : toks) : option (list string * toks) :=
    match ts with
    | TIdent s :: r =>
        if ok s then
          match r with
          | TPunct "::" :: r' =>
              match path_segs r' with
              | Some (l, rest) => Some (s :: l, rest)
              | None => None
              end
          | _ => Some ([s], r)
          end
        else None
    | _ => None
    end.
End PathSegs.

Definition parse_mpath (ts : toks) : option (mpath * toks) :=
  match ts with
  | TIdent "unsafe" :: r =>
      (* attr.rs parse_outermost_meta_path: the keyword `unsafe` alone is a meta path *)
      Some ({| mp_lead := false; mp_segs := ["unsafe"] |}, r)
  | TPunct "::" :: r =>
      match path_segs mod_seg_ok r with
      | Some (l, rest) => Some ({| mp_lead := true; mp_segs := l |}, rest)
      | None => None
      end
  | _ =>
      match path_segs mod_seg_ok ts with
      | Some (l, rest) => Some ({| mp_lead := false; mp_segs := l |}, rest)
      | None => None
      end
  end.

Definition has_angle (ts : toks) : bool :=
  existsb (fun t => is_punct "<" t || is_punct ">" t) ts.

(** [syn::Path::parse] on a whole token list: Ok with the path's tokens
    (printing a parsed path reproduces its tokens). Generic arguments are out
    of the modelled domain. *)
Definition parse_path_all (ts : toks) : outcome toks :=
  if has_angle ts then OutOfDomain "path with generic arguments" else
  let body := match ts with TPunct "::" :: r => r | _ => ts end in
  match path_segs path_seg_ok body with
  | Some (_, []) => Ok ts
  | _ => Err E_syn
  end.

(** ** syn::Expr::parse, as compiled WITHOUT syn's "full" feature (educe does
    not enable it: expr.rs, cfg(not(feature = "full")) versions of
    ambiguous_expr / unary_expr / trailer_expr / atom_expr).

    Printing a parsed expression reproduces its tokens, so only a recogniser
    is needed: [expr_all ts] = Ok iff the whole of [ts] is one expression,
    Err E_syn iff the parser fails or stops early, OutOfDomain for token
    material outside the modelled sub-grammar:

      expr    ::= unary (binop unary)*                 binop in + - * / % ^ &
      unary   ::= (- | ! | * | &)* trailer
      trailer ::= atom ( (args) | [expr] | .ident | .ident(args) )*
      atom    ::= literal | path | path!group | path { ident [: expr], .. }
                | () | (expr) | (expr, ..) | { expr }
    Not modelled (OutOfDomain): `<` `>` `=` `|` `..` `?` `#` `as` casts,
    lifetimes, keywords other than self/Self/super/crate/true/false, tuple
    indices, turbofish. *)
Fixpoint tt_size (t : tt) : nat :=
  match t with
  | TGroup _ ts => S ((fix go (l : list tt) : nat :=
                         match l with [] => 0 | x :: r => tt_size x + go r end) ts)
  | _ => 1
  end.
Definition toks_size (ts : toks) : nat := fold_right (fun t n => tt_size t + n) 0 ts.

Definition expr_punct_ok (s : string) : bool :=
  mem_str s ["::"; "-"; "!"; "*"; "&"; "+"; "/"; "%"; "^"; "."; ","; ":"].
Definition expr_ident_ok (s : string) : bool :=
  negb (is_keyword s) || mem_str s path_kw || mem_str s ["true"; "false"].
(** every token of the list (deep) belongs to the modelled material; the
    content of a macro invocation's group (`ident ! group`) is never parsed and
    is exempt.  [st]: 1 = the previous token is an identifier, 2 = identifier
    then `!`. *)
Fixpoint expr_tok_ok (t : tt) : bool :=
  match t with
  | TIdent s => expr_ident_ok s
  | TPunct s => expr_punct_ok s
  | TLife _ => false
  | TLit _ _ => true
  | TStr _ _ _ => true
  | TGroup _ ts =>
      (fix go (st : nat) (l : list tt) : bool :=
         match l with
         | [] => true
         | x :: r =>
             (match x with
              | TGroup _ _ => if Nat.eqb st 2 then true else expr_tok_ok x
              | _ => expr_tok_ok x
              end)
             && go (match x with
                    | TIdent _ => 1
                    | TPunct "!" => if Nat.eqb st 1 then 2 else 0
                    | _ => 0
                    end) r
         end) 0 ts
  end.
Definition expr_toks_ok (ts : toks) : bool := expr_tok_ok (TGroup Paren ts).

Definition is_prefix_op (t : tt) : bool :=
  is_punct "-" t || is_punct "!" t || is_punct "*" t || is_punct "&" t.
Definition is_binary_op (t : tt) : bool :=
  is_punct "+" t || is_punct "-" t || is_punct "*" t || is_punct "/" t ||
  is_punct "%" t || is_punct "^" t || is_punct "&" t.

(** top-level comma splitting (same function as [split_commas] below, which is
    defined after [classify_value]) *)
Fixpoint expr_split_commas (ts : toks) : list toks :=
  match ts with
  | [] => [[]]
  | t :: r =>
      if is_punct "," t then [] :: expr_split_commas r
      else match expr_split_commas r with
           | c :: cs => (t :: c) :: cs
           | [] => [[t]]
           end
  end.

Definition drop_trailing_empty (cs : list toks) : list toks :=
  if is_nil (last cs []) then removelast cs else cs.

Definition ood_expr {A} : outcome A := OutOfDomain "expression".

(** [operand] = true: an operand (unary expression) is expected next;
    false: just after an operand (trailer loop, then binary operators). *)
Fixpoint expr_scan (fuel : nat) (operand : bool) (ts : toks) : outcome unit :=
  match fuel with
  | 0 => ood_expr
  | S f =>
      (* Punctuated<Expr, ,>::parse_terminated / paren_or_tuple on a group's content *)
      let expr_list (inner : toks) : outcome unit :=
        if is_nil inner then Ok Datatypes.tt
        else let* _ := mapM (expr_scan f true) (drop_trailing_empty (expr_split_commas inner)) in
             Ok Datatypes.tt in
      (* expr_struct_helper: fields `ident` / `ident: expr` *)
      let struct_field (c : toks) : outcome unit :=
        match c with
        | [TIdent s] => if is_keyword s then ood_expr else Ok Datatypes.tt
        | TIdent s :: TPunct ":" :: e => if is_keyword s then ood_expr else expr_scan f true e
        | _ => ood_expr
        end in
      let struct_body (inner : toks) : outcome unit :=
        if is_nil inner then Ok Datatypes.tt
        else let* _ := mapM struct_field (drop_trailing_empty (expr_split_commas inner)) in
             Ok Datatypes.tt in
      if operand then
        match ts with
        | [] => Err E_syn                                   (* expected an expression *)
        | t :: r =>
            if is_lit_tok t then expr_scan f false r
            else if is_prefix_op t then expr_scan f true r
            else
              match t with
              | TPunct "::" | TIdent _ =>
                  let body := match t with TIdent _ => ts | _ => r end in
                  match path_segs mod_seg_ok body with
                  | None => Err E_syn
                  | Some (_, rest) =>
                      match rest with
                      | TPunct "!" :: rest1 =>               (* macro invocation *)
                          match rest1 with
                          | TGroup _ _ :: rest2 => expr_scan f false rest2
                          | _ => Err E_syn
                          end
                      | TGroup Brace inner :: rest1 =>       (* struct literal *)
                          let* _ := struct_body inner in expr_scan f false rest1
                      | _ => expr_scan f false rest
                      end
                  end
              | TGroup Paren inner => let* _ := expr_list inner in expr_scan f false r
              | TGroup Brace inner =>                        (* Expr::Verbatim block *)
                  let* _ := expr_scan f true inner in expr_scan f false r
              | _ => Err E_syn                               (* unsupported expression *)
              end
        end
      else
        match ts with
        | [] => Ok Datatypes.tt
        | t :: r =>
            match t with
            | TGroup Paren inner => let* _ := expr_list inner in expr_scan f false r
            | TGroup Bracket inner => let* _ := expr_scan f true inner in expr_scan f false r
            | TPunct "." =>
                match r with
                | TIdent s :: r1 =>
                    if is_keyword s then ood_expr else
                    match r1 with
                    | TPunct "::" :: _ => ood_expr
                    | TGroup Paren inner :: r2 => let* _ := expr_list inner in expr_scan f false r2
                    | _ => expr_scan f false r1
                    end
                | _ => ood_expr
                end
            | _ => if is_binary_op t then expr_scan f true r else Err E_syn
            end
        end
  end.

Definition expr_all (ts : toks) : outcome unit :=
  if expr_toks_ok ts then expr_scan (2 * toks_size ts + 2) true ts else ood_expr.

Definition ident_ok (s : string) : bool := negb (is_keyword s).

(** ** syn::Type::parse on a prefix of a token list (syn 2.0.119, ty.rs: ambig_ty)

    Modelled: paths with generic arguments (lifetimes, types, literal / block
    constants, `Assoc = Type` bindings), qualified paths, references, raw
    pointers, tuples / parenthesised types, arrays (length = literal or
    path), slices, `!`, `_`, bare-fn types, `dyn` / `impl` / bare trait
    objects with their `+` bounds (and the `Fn(A) -> B` sugar inside bounds).
    Macros in type position are covered.  Answered with [OutOfDomain]: `for<..>` binders
    other than plain lifetime lists, variadic / attributed
    fn arguments, `dyn*`, associated-const bindings and constraints in
    generic arguments, array lengths that are not a literal or a path.
    [plus] is syn's [allow_plus].  Every function returns the tokens that
    remain after the construct; fuel bounds the number of calls. *)

Definition fn_kw : list string := ["fn"; "unsafe"; "extern"].
Definition path_noargs_kw : list string := ["super"; "self"; "crate"].

Definition starts_with_punct (s : string) (ts : toks) : bool :=
  match ts with t :: _ => is_punct s t | [] => false end.

Definition array_len_ok (e : toks) : bool :=
  match e with
  | [t] => is_lit_tok t || (match t with TIdent s => mod_seg_ok s | _ => false end)
  | _ => match path_segs mod_seg_ok (match e with
                                     | TPunct p :: r => if String.eqb p "::" then r else e
                                     | _ => e
                                     end) with
         | Some (_, []) => true
         | _ => false
         end
  end.

(** token views (boolean tests instead of string-literal patterns keep the
    extracted code small) *)
Definition after_punct (s : string) (ts : toks) : option toks :=
  match ts with TPunct p :: r => if String.eqb p s then Some r else None | _ => None end.
Definition after_ident (s : string) (ts : toks) : option toks :=
  match ts with TIdent q :: r => if String.eqb q s then Some r else None | _ => None end.
Definition skip_punct (s : string) (ts : toks) : toks :=
  match after_punct s ts with Some r => r | None => ts end.
Definition skip_ident (s : string) (ts : toks) : toks :=
  match after_ident s ts with Some r => r | None => ts end.
Definition skip_life (ts : toks) : toks := match ts with TLife _ :: r => r | _ => ts end.
Definition starts_with_paren (ts : toks) : bool :=
  match ts with TGroup Paren _ :: _ => true | _ => false end.
Definition starts_with_life (ts : toks) : bool :=
  match ts with TLife _ :: _ => true | _ => false end.

(** what may follow a `+` for the bound list to continue (generics.rs: parse_multiple) *)
Definition bound_follow (ts : toks) : bool :=
  match ts with
  | TIdent _ :: _ => true
  | TPunct p :: _ => String.eqb p "::" || String.eqb p "?"
  | TLife _ :: _ => true
  | TGroup Paren _ :: _ => true
  | _ => false
  end.

(** BoundLifetimes after `for <` : plain lifetimes only *)
Fixpoint binder_rest (ts : toks) : outcome toks :=
  match ts with
  | [] => Err E_syn
  | TPunct p :: r => if String.eqb p ">" then Ok r else OutOfDomain "type: for<..> binder"
  | TLife _ :: r =>
      match r with
      | TPunct p :: r' =>
          if String.eqb p ">" then Ok r'
          else if String.eqb p "," then binder_rest r'
          else if String.eqb p ":" then OutOfDomain "type: for<..> binder"
          else Err E_syn
      | _ => Err E_syn
      end
  | _ => OutOfDomain "type: for<..> binder"
  end.
(** Option<BoundLifetimes> *)
Definition opt_binder (ts : toks) : outcome (bool * toks) :=
  match after_ident "for" ts with
  | Some r =>
      match after_punct "<" r with
      | Some r' => let* r'' := binder_rest r' in Ok (true, r'')
      | None => Err E_syn
      end
  | None => Ok (false, ts)
  end.

Fixpoint ty_rest (n : nat) (plus : bool) (ts : toks) {struct n} : outcome toks :=
  match n with
  | 0 => OutOfDomain "type: fuel"
  | S n =>
    match ts with
    | [] => Err E_syn
    | t :: r =>
      match t with
      | TPunct p =>
          if String.eqb p "&" then
            (* TypeReference: & [lifetime] [mut] Type::without_plus *)
            ty_rest n false (skip_ident "mut" (skip_life r))
          else if String.eqb p "*" then
            (* TypePtr: * (const | mut) Type::without_plus *)
            match r with
            | TIdent q :: r' =>
                if String.eqb q "const" || String.eqb q "mut" then ty_rest n false r' else Err E_syn
            | _ => Err E_syn
            end
          else if String.eqb p "!" then
            if starts_with_punct "=" r then Err E_syn else Ok r
          else if String.eqb p "::" then path_type n plus r
          else if String.eqb p "<" then
            (* qpath: < Type [as Path] > :: segments ; returned at once (no `+`, no macro) *)
            let* r1 := ty_rest n true r in
            let* r2 := match after_ident "as" r1 with
                       | Some r' => let* x := path_rest n false (skip_punct "::" r') in Ok (fst x)
                       | None => Ok r1
                       end in
            match after_punct ">" r2 with
            | Some r2' =>
                match after_punct "::" r2' with
                | Some r3 => let* x := path_rest n false r3 in Ok (fst x)
                | None => Err E_syn
                end
            | None => Err E_syn
            end
          else Err E_syn
      | TIdent s =>
          if String.eqb s "_" then Ok r
          else if String.eqb s "for" then
            let* br := opt_binder ts in
            match snd br with
            | TIdent k :: _ =>
                if mem_str k fn_kw then bare_fn n (snd br)
                else if mod_seg_ok k then
                  (* for<..> Path [+ bounds] : a bare trait object (the `Fn(A)` sugar is not parsed here) *)
                  let* x := path_rest n false (snd br) in
                  if starts_with_punct "!" (fst x) then OutOfDomain "type: for<..> macro"
                  else if plus && starts_with_punct "+" (fst x)
                  then let* y := bounds_tail n (fst x) in Ok (fst y)
                  else Ok (fst x)
                else Err E_syn
            | _ => Err E_syn
            end
          else if mem_str s fn_kw then bare_fn n ts
          else if String.eqb s "dyn" then
            if starts_with_punct "*" r then OutOfDomain "type: dyn*"
            else let* x := bounds n plus r in
                 if snd x then Ok (fst x) else Err E_syn   (* at least one trait is required *)
          else if String.eqb s "impl" then
            let* x := bounds n plus r in
            if snd x then Ok (fst x) else Err E_syn
          else path_type n plus ts
      | TLife _ =>
          (* bare trait object starting with a lifetime: TypeTraitObject::parse, allow_plus = true *)
          let* x := bounds n true ts in
          if snd x then Ok (fst x) else Err E_syn
      | TGroup Paren inner =>
          if is_nil inner then Ok r
          else if starts_with_life inner then
            let* x := bounds n true inner in
            if negb (snd x) then Err E_syn
            else if is_nil (fst x) then Ok r else Err E_syn
          else if starts_with_punct "?" inner then
            (* (?Trait) [+ bound]* *)
            let* x := trait_bound n inner in
            if is_nil x then paren_tail n r else Err E_syn
          else
            let* r1 := ty_rest n true inner in
            match r1 with
            | [] =>
                if plus && starts_with_punct "+" r then
                  (* `(Path) + ..` is a bare trait object; any other parenthesised type keeps the `+` out *)
                  if starts_with_punct "<" inner then Ok r
                  else match path_rest n false (skip_punct "::" inner) with
                       | Ok ([], _) => paren_tail n r
                       | _ => Ok r
                       end
                else Ok r
            | _ =>
                match after_punct "," r1 with
                | Some r2 => let* _ := ty_list n r2 in Ok r
                | None => Err E_syn
                end
            end
      | TGroup Bracket inner =>
          let* r' := ty_rest n true inner in
          match r' with
          | [] => Ok r
          | _ =>
              match after_punct ";" r' with
              | Some e =>
                  if is_nil e then Err E_syn
                  else if array_len_ok e then Ok r
                  else OutOfDomain "type: array length expression"
              | None => Err E_syn
              end
          end
      | TGroup Brace _ => Err E_syn
      | TLit _ _ => Err E_syn
      | TStr _ _ _ => Err E_syn
      end
    end
  end
(* a path type (after an optional leading `::`), then macro / `+` bounds *)
with path_type (n : nat) (plus : bool) (ts : toks) {struct n} : outcome toks :=
  match n with
  | 0 => OutOfDomain "type: fuel"
  | S n =>
    let* x := path_rest n false ts in
    let r := fst x in
    match after_punct "!" r with
    | Some r' =>
        (* `path ! delimited-group` is a macro when no segment has generic arguments (is_mod_style) *)
        if starts_with_punct "=" r' then Ok r
        else if has_angle (firstn (List.length ts - List.length r) ts) then Ok r
        else match r' with
             | TGroup _ _ :: r'' => Ok r''
             | _ => Err E_syn
             end
    | None => if plus && starts_with_punct "+" r
              then let* y := bounds_tail n r in Ok (fst y)
              else Ok r
    end
  end
(* Path::parse_helper, positioned at a segment; [es] is syn's [expr_style] (generic arguments only
   behind the `::` turbofish); also tells what generic arguments the last segment carries:
   0 none, 1 `<>`, 2 non-empty *)
with path_rest (n : nat) (es : bool) (ts : toks) {struct n} : outcome (toks * nat) :=
  match n with
  | 0 => OutOfDomain "type: fuel"
  | S n =>
    match ts with
    | TIdent s :: r =>
        if negb (mod_seg_ok s) then Err E_syn
        else
          let cont (r : toks) (has : nat) : outcome (toks * nat) :=
            (* parse_rest: `while input.peek(::) && !input.peek3(Paren)` *)
            match after_punct "::" r with
            | Some r' => if starts_with_paren r' then Ok (r, has) else path_rest n es r'
            | None => Ok (r, has)
            end in
          let args (r' : toks) : outcome (toks * nat) :=
            let* r'' := gargs_rest n r' in cont r'' (if starts_with_punct ">" r' then 1 else 2) in
          if mem_str s path_noargs_kw then cont r 0
          else
            match (if es then None else after_punct "<" r) with
            | Some r' =>
                if starts_with_punct "=" r' then OutOfDomain "type: `<=` after a path" else args r'
            | None =>
                match after_punct "::" r with
                | Some r1 => match after_punct "<" r1 with
                             | Some r' => args r'
                             | None => cont r 0
                             end
                | None => cont r 0
                end
            end
    | _ => Err E_syn
    end
  end
(* AngleBracketedGenericArguments, after the `<` *)
with gargs_rest (n : nat) (ts : toks) {struct n} : outcome toks :=
  match n with
  | 0 => OutOfDomain "type: fuel"
  | S n =>
    if starts_with_punct ">" ts then Ok (tl ts)
    else
      let* r :=
        match ts with
        | [] => Err E_syn
        | TLife _ :: r => if starts_with_punct "+" r then ty_rest n true ts else Ok r
        | TGroup Brace inner :: r =>
            (* const_argument without syn's "full" feature: the block's content is one expression *)
            let* _ := expr_all inner in Ok r
        | t :: r =>
            if is_punct "-" t then
              match r with
              | t' :: r' => if is_num_lit t' then Ok r' else Err E_syn
              | [] => Err E_syn
              end
            else if is_lit_tok t then Ok r
            else
              match t, after_punct "=" r with
              | TIdent _, Some r' =>
                  (* Assoc = Type  (Assoc = const is out of the modelled domain) *)
                  match r' with
                  | [] => Err E_syn
                  | TGroup Brace _ :: _ => OutOfDomain "type: associated const"
                  | t' :: _ => if is_lit_tok t' || is_punct "-" t'
                               then OutOfDomain "type: associated const"
                               else ty_rest n true r'
                  end
              | _, _ => ty_rest n true ts
              end
        end in
      match r with
      | TPunct p :: r' =>
          if String.eqb p ">" then Ok r'
          else if String.eqb p "," then gargs_rest n r'
          else if String.eqb p "=" || String.eqb p ":" then OutOfDomain "type: generic argument"
          else Err E_syn
      | _ => Err E_syn
      end
  end
(* Type (, Type)* [,]  up to the end of a group *)
with ty_list (n : nat) (ts : toks) {struct n} : outcome unit :=
  match n with
  | 0 => OutOfDomain "type: fuel"
  | S n =>
    match ts with
    | [] => Ok Datatypes.tt
    | _ =>
      let* r := ty_rest n true ts in
      match r with
      | [] => Ok Datatypes.tt
      | _ => match after_punct "," r with
             | Some r' => ty_list n r'
             | None => Err E_syn
             end
      end
    end
  end
(* TypeBareFn after the binder: [unsafe] [extern ["abi"]] fn ( args ) [-> Type::without_plus] *)
with bare_fn (n : nat) (ts : toks) {struct n} : outcome toks :=
  match n with
  | 0 => OutOfDomain "type: fuel"
  | S n =>
    let r0 := skip_ident "unsafe" ts in
    let r1 := match after_ident "extern" r0 with
              | Some r => match r with TStr _ _ _ :: r' => r' | _ => r end
              | None => r0
              end in
    match after_ident "fn" r1 with
    | Some (TGroup Paren args :: r2) =>
        let* _ := fn_args n true args in
        match after_punct "->" r2 with
        | Some r3 => ty_rest n false r3
        | None => Ok r2
        end
    | _ => Err E_syn
    end
  end
(* the arguments of a bare fn: [name :] Type *)
with fn_args (n : nat) (first : bool) (ts : toks) {struct n} : outcome unit :=
  match n with
  | 0 => OutOfDomain "type: fuel"
  | S n =>
    match ts with
    | [] => Ok Datatypes.tt
    | t :: r =>
      if is_punct "#" t then OutOfDomain "type: fn argument attribute"
      else if is_punct "..." t then OutOfDomain "type: variadic fn"
      else if is_ident "mut" t then (if first then OutOfDomain "type: fn(mut self)" else Err E_syn)
      else
        let named := match t, after_punct ":" r with
                     | TIdent s, Some r' =>
                         if ident_ok s || String.eqb s "_" || (first && String.eqb s "self")
                         then Some r' else None
                     | _, _ => None
                     end in
        let arg := match named with Some r' => r' | None => ts end in
        if starts_with_punct "..." arg then OutOfDomain "type: variadic fn"
        else
          let* r1 := ty_rest n true arg in
          match r1 with
          | [] => Ok Datatypes.tt
          | _ => match after_punct "," r1 with
                 | Some r' => fn_args n false r'
                 | None => Err E_syn
                 end
          end
    end
  end
(* TypeParamBound::parse_multiple : the rest and whether a trait bound was seen *)
with bounds (n : nat) (plus : bool) (ts : toks) {struct n} : outcome (toks * bool) :=
  match n with
  | 0 => OutOfDomain "type: fuel"
  | S n =>
    let* x := bound_single n ts in
    if plus then let* y := bounds_tail n (fst x) in Ok (fst y, snd x || snd y)
    else Ok x
  end
(* ( + bound )* : stops after a `+` that nothing bound-like follows *)
with bounds_tail (n : nat) (ts : toks) {struct n} : outcome (toks * bool) :=
  match n with
  | 0 => OutOfDomain "type: fuel"
  | S n =>
    match after_punct "+" ts with
    | Some r =>
        if bound_follow r then
          let* x := bound_single n r in
          let* y := bounds_tail n (fst x) in Ok (fst y, snd x || snd y)
        else Ok (r, false)
    | None => Ok (ts, false)
    end
  end
(* after a parenthesised first bound: `while let Some(plus) = input.parse()? { parse_single }` *)
with paren_tail (n : nat) (ts : toks) {struct n} : outcome toks :=
  match n with
  | 0 => OutOfDomain "type: fuel"
  | S n =>
    match after_punct "+" ts with
    | Some r => let* x := bound_single n r in paren_tail n (fst x)
    | None => Ok ts
    end
  end
(* TypeParamBound::parse_single *)
with bound_single (n : nat) (ts : toks) {struct n} : outcome (toks * bool) :=
  match n with
  | 0 => OutOfDomain "type: fuel"
  | S n =>
    match ts with
    | TLife _ :: r => Ok (r, false)
    | TGroup Paren inner :: r =>
        let* x := trait_bound n inner in
        if is_nil x then Ok (r, true) else Err E_syn
    | _ => let* x := trait_bound n ts in Ok (x, true)
    end
  end
(* TraitBound::do_parse : [for<..>] [?] Path [ (Types) [-> Type] ] *)
with trait_bound (n : nat) (ts : toks) {struct n} : outcome toks :=
  match n with
  | 0 => OutOfDomain "type: fuel"
  | S n =>
    let* b1 := opt_binder ts in
    let maybe := starts_with_punct "?" (snd b1) in
    let r1 := if maybe then tl (snd b1) else snd b1 in
    let* b2 := (if negb (fst b1) && maybe then opt_binder r1 else Ok (fst b1, r1)) in
    let* x := path_rest n false (skip_punct "::" (snd b2)) in
    let* r3 :=
      (if Nat.eqb (snd x) 2 then Ok (fst x)
       else if Nat.eqb (snd x) 1 && (starts_with_paren (fst x) || starts_with_paren (skip_punct "::" (fst x)))
       then OutOfDomain "type: Fn<>(..)"    (* printed back as Fn(..) *)
       else
         let sugar (r : toks) : outcome toks :=
           match r with
           | TGroup Paren args :: r' =>
               let* _ := ty_list n args in
               match after_punct "->" r' with
               | Some r'' => ty_rest n false r''
               | None => Ok r'
               end
           | _ => Ok (fst x)
           end in
         if starts_with_paren (fst x) then sugar (fst x)
         else match after_punct "::" (fst x) with
              | Some r' => if starts_with_paren r'
                           then OutOfDomain "type: Fn::(..)"   (* printed back as Fn(..) *)
                           else Ok (fst x)
              | None => Ok (fst x)
              end) in
    if fst b2 && maybe then Err E_syn else Ok r3
  end.

(** ** paths with generic arguments (syn 2.0.119, path.rs)

    [syn::Path::parse] is [Path::parse_helper] with [expr_style = false]: a segment takes its
    generic arguments with or without the `::` turbofish (`g::m<0>`, `g::m::<0>`).  The path of
    an expression ([Expr::Path], expr.rs: path_or_macro_or_struct -> path::parsing::qpath with
    [expr_style = true]) takes them only behind `::`, and may start with a qualified self
    `<T as A>::f`.  The arguments are those of the type recogniser above ([gargs_rest]):
    lifetimes, types, literals, `-literal`, `{ expr }` blocks, `_`, `Assoc = Type`, a trailing
    comma.  Printing a parsed path reproduces its tokens. *)
Definition path_fuel (ts : toks) : nat := 4 * toks_size ts + 8.

(** [Path::parse_helper] on a prefix: the tokens of the path and what follows *)
Definition path_prefix (es : bool) (ts : toks) : outcome (toks * toks) :=
  let* x := path_rest (path_fuel ts) es (skip_punct "::" ts) in
  Ok (firstn (List.length ts - List.length (fst x)) ts, fst x).

(** [syn::Path::parse] on a whole token list that carries `<` or `>` *)
Definition parse_path_generic (ts : toks) : outcome toks :=
  let* x := path_prefix false ts in
  if is_nil (snd x) then Ok ts else Err E_syn.

(** [parse_args::<Path>()] / [LitStr::parse::<Path>()]: paths without generic arguments are
    handled by [parse_path_all] as before *)
Definition parse_path_ty (ts : toks) : outcome toks :=
  if has_angle ts then parse_path_generic ts else parse_path_all ts.

(** [path::parsing::qpath] with [expr_style = true] on a prefix: the tokens of the resulting
    [Path] -- for `<T as A>::f` that is `A::f`, for `<T>::f` it is `::f`: educe keeps
    [ExprPath::path] and drops the qualified self -- and what follows *)
Definition qpath_expr (ts : toks) : outcome (toks * toks) :=
  match after_punct "<" ts with
  | None => path_prefix true ts
  | Some r =>
      let n := path_fuel ts in
      let* r1 := ty_rest n true r in
      let* asp := match after_ident "as" r1 with
                  | Some r' => let* x := path_prefix false r' in Ok (fst x, snd x)
                  | None => Ok ([], r1)
                  end in
      match after_punct ">" (snd asp) with
      | Some r2 =>
          match after_punct "::" r2 with
          | Some r3 =>
              let* x := path_rest n true r3 in
              (* the segment loop of qpath has no look-ahead for `::(` *)
              if starts_with_punct "::" (fst x) then Err E_syn
              else Ok (fst asp ++ TPunct "::" :: firstn (List.length r3 - List.length (fst x)) r3, fst x)
          | None => Err E_syn
          end
      | None => Err E_syn
      end
  end.

Definition count_punct (s : string) (ts : toks) : nat :=
  List.length (filter (is_punct s) ts).
(** more `<` than `>`: generic arguments that are still open at the end of the tokens *)
Definition angle_open (ts : toks) : bool := Nat.ltb (count_punct ">" ts) (count_punct "<" ts).

(** [syn::Expr::parse] (without "full") on a whole token list that carries `<` or `>`.
    Decided: the list is one path expression (Ok: [Expr::Path], printed as written); the path
    parser fails (Err); a path directly followed by `< x >` or `< x <` with [x] one literal or
    identifier -- the type-style spelling `g::m<0>` read as an expression -- which syn refuses
    ("comparison operators cannot be chained").  Everything else with `<` `>` is out of the
    modelled domain. *)
Definition path_start_ok (ts : toks) : bool :=
  match ts with
  | TIdent s :: _ => mod_seg_ok s
  | TPunct p :: _ => String.eqb p "::" || String.eqb p "<"
  | _ => false
  end.
Definition simple_operand (t : tt) : bool :=
  match t with
  | TIdent s => is_lit_tok t || negb (is_keyword s)
  | _ => is_lit_tok t
  end.
Definition ood_nv {A} : outcome A := OutOfDomain "name-value expression".
Definition ood_cut {A} : outcome A :=
  OutOfDomain "name-value expression: generic arguments continue after a comma".
(** [cut]: the tokens end at a top-level comma of the enclosing meta list and generic
    arguments may still be open there (see [classify_angle]): the comma then belongs to them,
    and a failure of the path parser (possibly at the end of the tokens) proves nothing *)
Definition angle_expr (cut : bool) (ts : toks) : outcome nvexpr :=
  if path_start_ok ts then
    match qpath_expr ts with
    | Ok x =>
        match snd x with
        | [] => Ok (XOther ts)      (* the path ended by itself: the same before a comma *)
        | lt :: a :: c :: r =>
            if is_punct "<" lt && simple_operand a then
              if is_punct ">" c && negb (starts_with_punct ">" r) then Err E_syn
              else if is_punct "<" c && negb (starts_with_punct "<" r) then Err E_syn
              else ood_nv
            else ood_nv
        | _ => ood_nv
        end
    | Err e => if cut then ood_cut else Err e
    | Panic s => Panic s
    | OutOfDomain w => OutOfDomain w
    end
  else ood_nv.

(** the value of `name = value` when it carries `<` or `>`.  The meta list was cut at its
    top-level commas: when a comma follows ([last] = false) and there are more `<` than `>`,
    generic arguments may still be open at the end of the value *)
Definition classify_angle (last : bool) (v : toks) : outcome nvexpr :=
  angle_expr (negb last && angle_open v) v.

(** ** name-value expressions *)
Definition classify_value (last : bool) (v : toks) : outcome nvexpr :=
  match v with
  | [] => Err E_syn
  | [t] =>
      if is_lit_tok t then Ok (XLit t)
      else match parse_path_all v with
           | Ok p => Ok (XPath p)
           | _ =>
               (* a lone keyword (or `_`) is not an expression for syn without "full" *)
               match t with
               | TIdent _ => Err E_syn
               | _ => let* _ := expr_all v in Ok (XOther v)
               end
           end
  | [TPunct "-"; t] =>
      if is_num_lit t then Ok (if last then XNegLit t else XUnaryNeg t)
      else let* _ := expr_all v in Ok (XOther v)
  | _ =>
      if has_angle v then classify_angle last v else
      match parse_path_all v with
      | Ok p => Ok (XPath p)
      | _ => let* _ := expr_all v in Ok (XOther v)
      end
  end.

(** ** Punctuated<Meta, Token![,]>::parse_terminated *)
Fixpoint split_commas (ts : toks) : list toks :=
  match ts with
  | [] => [[]]
  | t :: r =>
      if is_punct "," t then [] :: split_commas r
      else match split_commas r with
           | c :: cs => (t :: c) :: cs
           | [] => [[t]]
           end
  end.

Definition parse_meta_chunk (last : bool) (ts : toks) : outcome meta :=
  match parse_mpath ts with
  | None => Err E_syn
  | Some (p, rest) =>
      match rest with
      | [] => Ok (MPath p)
      | [TGroup d inner] => Ok (MList p d inner)
      | TPunct "=" :: v => let* x := classify_value last v in Ok (MNameValue p x)
      | _ => Err E_syn
      end
  end.


Fixpoint parse_chunks (trailing : bool) (cs : list toks) : outcome (list meta) :=
  match cs with
  | [] => Ok []
  | [c] => if trailing && is_nil c then Ok []
           else let* m := parse_meta_chunk (negb trailing) c in Ok [m]
  | c :: r => let* m := parse_meta_chunk false c in
              let* ms := parse_chunks trailing r in Ok (m :: ms)
  end.

Definition parse_metas (ts : toks) : outcome (list meta) :=
  match split_commas ts with
  | [[]] => Ok []
  | cs => parse_chunks (is_nil (last cs [])) cs
  end.

(** ** parse_args::<T>() for the small T's *)
Definition args_lit_bool (ts : toks) : outcome bool :=
  match ts with
  | [t] => match is_bool_tok t with Some b => Ok b | None => Err E_syn end
  | _ => Err E_syn
  end.

Definition args_ident (ts : toks) : outcome string :=
  match ts with
  | [TIdent s] => if ident_ok s then Ok s else Err E_syn
  | _ => Err E_syn
  end.

(** LitStr::parse::<T>() re-lexes the value *)
Definition relex_of (r : option toks) : outcome toks :=
  match r with Some ts => Ok ts | None => Err E_syn end.

Definition str_parse_ident (relex : option toks) : outcome string :=
  let* ts := relex_of relex in args_ident ts.
Definition str_parse_path (relex : option toks) : outcome toks :=
  let* ts := relex_of relex in parse_path_ty ts.

Definition str_empty (value : string) : bool := String.eqb value "".

(** ** common/ident_bool.rs *)
Definition meta_name_value_2_bool (v : nvexpr) : outcome bool :=
  match v with
  | XLit t => match is_bool_tok t with Some b => Ok b | None => Err E_syn end
  | _ => Err E_syn
  end.

Definition meta_2_bool (m : meta) : outcome bool :=
  match m with
  | MNameValue _ v => meta_name_value_2_bool v
  | MList _ _ ts => args_lit_bool ts
  | MPath _ => Err E_syn
  end.

Definition meta_2_bool_allow_path (m : meta) : outcome bool :=
  match m with
  | MPath _ => Ok true
  | MNameValue _ v => meta_name_value_2_bool v
  | MList _ _ ts => args_lit_bool ts
  end.

Inductive ident_or_bool := IOBIdent (s : string) | IOBBool (b : bool).

Definition str_ident_or_bool (value : string) (relex : option toks) : outcome ident_or_bool :=
  match str_parse_ident relex with
  | Ok s => Ok (IOBIdent s)
  | Err e => if str_empty value then Ok (IOBBool false) else Err e
  | Panic s => Panic s
  | OutOfDomain w => OutOfDomain w
  end.

Definition meta_name_value_2_ident_and_bool (v : nvexpr) : outcome ident_or_bool :=
  match v with
  | XLit (TStr _ value relex) => str_ident_or_bool value relex
  | XLit t => match is_bool_tok t with Some b => Ok (IOBBool b) | None => Err E_syn end
  | XPath [TIdent s] => Ok (IOBIdent s)
  | _ => Err E_syn
  end.

(** impl Parse for IdentOrBool, used through parse_args (whole input must be consumed).
    A literal that is neither bool nor string is consumed and then an
    identifier is expected. *)
Definition args_ident_or_bool (ts : toks) : outcome ident_or_bool :=
  match ts with
  | [] => Err E_syn
  | t :: r =>
      match t with
      | TStr _ value relex => let* x := str_ident_or_bool value relex in
                              if is_nil r then Ok x else Err E_syn
      | TLit _ _ => let* s := args_ident r in Ok (IOBIdent s)
      | TPunct "-" =>
          match r with
          | n :: r' => if is_num_lit n then let* s := args_ident r' in Ok (IOBIdent s)
                       else Err E_syn
          | [] => Err E_syn
          end
      | _ =>
          match is_bool_tok t with
          | Some b => if is_nil r then Ok (IOBBool b) else Err E_syn
          | None => let* s := args_ident ts in Ok (IOBIdent s)
          end
      end
  end.

Definition meta_2_ident_and_bool (m : meta) : outcome ident_or_bool :=
  match m with
  | MNameValue _ v => meta_name_value_2_ident_and_bool v
  | MList _ _ ts => args_ident_or_bool ts
  | MPath _ => Err E_syn
  end.

Definition meta_name_value_2_ident (v : nvexpr) : outcome string :=
  match v with
  | XLit (TStr _ _ relex) => str_parse_ident relex
  | XPath [TIdent s] => Ok s
  | _ => Err E_syn
  end.

Definition meta_2_ident (m : meta) : outcome string :=
  match m with
  | MNameValue _ v => meta_name_value_2_ident v
  | MList _ _ ts =>
      match ts with
      | [TStr _ _ relex] => str_parse_ident relex
      | _ => args_ident ts
      end
  | MPath _ => Err E_syn
  end.

(** ** common/path.rs *)
Definition meta_name_value_2_path (v : nvexpr) : outcome toks :=
  match v with
  | XLit (TStr _ _ relex) => str_parse_path relex
  | XPath p => Ok p
  | XOther e =>
      (* [Expr::Path] with generic arguments or a qualified self (see [angle_expr]): its [.path] *)
      if has_angle e then
        let* x := qpath_expr e in
        if is_nil (snd x) then Ok (fst x) else Err E_syn
      else Err E_syn
  | _ => Err E_syn
  end.

Definition meta_2_path (m : meta) : outcome toks :=
  match m with
  | MNameValue _ v => meta_name_value_2_path v
  | MList _ _ ts =>
      match ts with
      | [TStr _ _ relex] => str_parse_path relex
      | _ => parse_path_ty ts
      end
  | MPath _ => Err E_syn
  end.

(** ** common/where_predicates_bool.rs, common/bound.rs *)
Fixpoint split_commas_angle (depth : nat) (ts : toks) : list toks :=
  match ts with
  | [] => [[]]
  | t :: r =>
      if is_punct "," t && Nat.eqb depth 0 then [] :: split_commas_angle 0 r
      else
        let depth' := if is_punct "<" t then S depth
                      else if is_punct ">" t then Nat.pred depth else depth in
        match split_commas_angle depth' r with
        | c :: cs => (t :: c) :: cs
        | [] => [[t]]
        end
  end.

(** a where-predicate of the modelled domain: `lhs : rhs` with a top-level
    colon that is not the first token *)
Definition pred_ok (p : toks) : bool :=
  match p with
  | [] => false
  | t :: r => negb (is_punct ":" t) && existsb (is_punct ":") r
  end.

Definition parse_where_predicates (ts : toks) : outcome (list toks) :=
  match split_commas_angle 0 ts with
  | [[]] => Ok []
  | cs =>
      let cs' := if is_nil (last cs []) then removelast cs else cs in
      if forallb pred_ok cs' then Ok cs'
      else if existsb is_nil cs' then Err E_syn
      (* no `:` at all in a predicate: whatever is parsed first, the `:` is then missed *)
      else if existsb (fun c => negb (existsb (is_punct ":") c)) cs' then Err E_syn
      else OutOfDomain "where predicate"
  end.

Inductive bound :=
| BDisabled
| BAuto
| BCustom (preds : list toks)
| BAll.

Definition bound_of_bool (b : bool) : bound := if b then BAuto else BDisabled.

Definition bound_from_lit (t : tt) : outcome bound :=
  match t with
  | TStr _ value relex =>
      match relex with
      | Some ts =>
          match parse_where_predicates ts with
          | Ok ps => Ok (BCustom ps)
          | Err e => if str_empty value then Ok BDisabled else Err e
          | Panic s => Panic s
          | OutOfDomain w => OutOfDomain w
          end
      | None => if str_empty value then Ok BDisabled else Err E_syn
      end
  | _ => match is_bool_tok t with
         | Some b => Ok (bound_of_bool b)
         | None => Err E_syn
         end
  end.

Definition bound_from_meta (m : meta) : outcome bound :=
  match m with
  | MNameValue _ (XLit t) => bound_from_lit t
  | MNameValue _ (XNegLit _) => Err E_syn
  | MNameValue _ _ => Err E_syn
  | MList _ _ ts =>
      match ts with
      | t :: r =>
          if is_lit_tok t then
            if is_nil r then bound_from_lit t
            else (* the literal is consumed; a failing from_lit wins, otherwise
                    parse_args complains about the trailing tokens *)
              let* _ := bound_from_lit t in Err E_syn
          else if is_punct "-" t then
            match r with
            | n :: _ => if is_num_lit n then Err E_syn
                        else let* ps := parse_where_predicates ts in Ok (BCustom ps)
            | [] => let* ps := parse_where_predicates ts in Ok (BCustom ps)
            end
          else if is_punct "*" t then
            if is_nil r then Ok BAll else Err E_syn
          else let* ps := parse_where_predicates ts in Ok (BCustom ps)
      | [] => Ok (BCustom [])
      end
  | MPath _ => Err E_syn
  end.

(** ** common/unsafe_punctuated_meta.rs *)
Definition parse_unsafe_metas (ts : toks) : outcome (bool * list meta) :=
  match ts with
  | TIdent "unsafe" :: r =>
      match r with
      | [] => Ok (true, [])
      | TPunct "," :: r' => let* ms := parse_metas r' in Ok (true, ms)
      | _ => Err E_syn
      end
  | [] => Ok (false, [])
  | _ => let* ms := parse_metas ts in Ok (false, ms)
  end.

(** ** common/expr.rs *)
(** parse_args::<Expr>() on the argument tokens of `expression(..)`: a lone
    literal is [Expr::Lit]; `-1` is a unary minus here (no negative-literal
    shortcut as in the name-value parser). *)
Definition args_expr (ts : toks) : outcome nvexpr :=
  match ts with
  | [t] => if is_lit_tok t then Ok (XLit t)
           else let* _ := expr_all ts in Ok (XOther ts)
  | _ => if has_angle ts then angle_expr false ts
         else let* _ := expr_all ts in Ok (XOther ts)
  end.

Definition meta_2_expr (m : meta) : outcome nvexpr :=
  match m with
  | MNameValue _ v => Ok v
  | MList _ _ ts => args_expr ts
  | MPath _ => Err E_syn
  end.

(** the tokens `quote!(#expr)` prints for a classified expression *)
Definition nvexpr_toks (v : nvexpr) : toks :=
  match v with
  | XLit t => [t]
  | XNegLit t => [TPunct "-"; t]      (* the fallback TokenStream splits a negative literal *)
  | XUnaryNeg t => [TPunct "-"; t]
  | XPath p => p
  | XOther ts => ts
  end.

Definition int_types : list string :=
  ["u8"; "u16"; "u32"; "u64"; "u128"; "usize"; "i8"; "i16"; "i32"; "i64"; "i128"; "isize"].
Definition float_types : list string := ["f32"; "f64"].

(** `Type::Path` whose token string can equal a bare name: a single identifier *)
Definition ty_ident (ty : toks) : option string :=
  match ty with [TIdent s] => Some s | _ => None end.
Definition ty_ident_is (ty : toks) (names : list string) : bool :=
  match ty_ident ty with Some s => mem_str s names | None => false end.
(** `Type::Reference`: the tokens of its element type *)
Definition ty_ref_elem (ty : toks) : option toks :=
  match ty with
  | TPunct "&" :: r =>
      let r1 := match r with TLife _ :: r' => r' | _ => r end in
      Some (match r1 with TIdent "mut" :: r' => r' | _ => r1 end)
  | _ => None
  end.

(** auto_adjust_expr, the test "don't call into": the literal [t] is of the
    natural kind of the field type [ty] *)
Definition lit_natural (t : tt) (ty : toks) : bool :=
  match t with
  | TLit (LKInt _ suffix) _ =>
      match ty_ident ty with
      | Some s => String.eqb suffix s || mem_str s int_types
      | None => false
      end
  | TLit (LKFloat suffix) _ =>
      match ty_ident ty with
      | Some s => String.eqb suffix s || mem_str s float_types
      | None => false
      end
  | TStr _ _ _ =>
      match ty_ref_elem ty with
      | Some e => ty_ident_is e ["str"]
      | None => false
      end
  | TIdent _ => ty_ident_is ty ["bool"]          (* Lit::Bool *)
  | TLit LKChar _ => ty_ident_is ty ["char"]
  | TLit LKByte _ => ty_ident_is ty ["u8"]
  | TLit LKByteStr _ =>
      match ty_ref_elem ty with
      | Some [TGroup Bracket (TIdent "u8" :: TPunct ";" :: _)] => true
      | _ => false
      end
  | _ => false                                   (* C-string literals *)
  end.

(** [Some tokens] = the expression is a bare literal that must be wrapped in
    `::core::convert::Into::into(..)`; [None] = spliced as written *)
Definition needs_into (v : nvexpr) (ty : option toks) : bool :=
  let lit t := match ty with Some ty => negb (lit_natural t ty) | None => true end in
  match v with
  | XLit t | XNegLit t => lit t
  | XUnaryNeg t => lit t                      (* Expr::Unary(Neg, Expr::Lit(Int | Float)) *)
  | XOther [TPunct "-"; t] => if is_num_lit t then lit t else false
  | _ => false
  end.

(** [input.parse::<Type>()] : the type's tokens and what follows *)
Definition parse_type_prefix (ts : toks) : outcome (toks * toks) :=
  let* rest := ty_rest (4 * toks_size ts + 8) true ts in
  Ok (firstn (List.length ts - List.length rest) ts, rest).

(** common/type.rs : TypeWithPunctuatedMeta *)
Definition parse_type_with_metas (ts : toks) : outcome (toks * list meta) :=
  let* (ty, rest) := parse_type_prefix ts in
  match rest with
  | [] => Ok (ty, [])
  | _ => match after_punct "," rest with
         | Some r => let* ms := parse_metas r in Ok (ty, ms)
         | None => Err E_syn
         end
  end.

(** common/type.rs : dereference / dereference_changed on a well-formed type *)
Definition is_ref_type (ty : toks) : bool := starts_with_punct "&" ty.

Fixpoint strip_refs_fuel (n : nat) (ty : toks) : toks :=
  match n with
  | 0 => ty
  | S n =>
    match after_punct "&" ty with
    | Some r => strip_refs_fuel n (skip_ident "mut" (skip_life r))
    | None => ty
    end
  end.
Definition strip_refs (ty : toks) : toks := strip_refs_fuel (List.length ty) ty.
