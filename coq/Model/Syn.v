(** Model of the syn 2.0 parsers educe runs on attribute arguments.

    Everything here is a total structural function on token trees.  Where
    the real parser accepts a larger language than the model recognises, the
    model answers [OutOfDomain] (never a wrong Ok / Err). *)
From Educe.Model Require Export Input.

Record mpath := { mp_lead : bool; mp_segs : list string }.

(** Value of `name = value` as syn classifies it (attr.rs,
    parse_meta_name_value_after_path): a lone literal that ends the stream is
    [Expr::Lit] (a negated numeric literal included); otherwise the value is
    parsed as an expression, so `-1` followed by anything is a unary minus. *)
Inductive nvexpr :=
| XLit (t : tt)
| XNegLit (t : tt)
| XUnaryNeg (t : tt)
| XPath (p : toks)
| XOther (ts : toks).

Inductive meta :=
| MPath (p : mpath)
| MNameValue (p : mpath) (v : nvexpr)
| MList (p : mpath) (d : delim) (ts : toks).

Definition meta_path (m : meta) : mpath :=
  match m with MPath p => p | MNameValue p _ => p | MList p _ _ => p end.

Definition get_ident (p : mpath) : option string :=
  match p with
  | {| mp_lead := false; mp_segs := [s] |} => Some s
  | _ => None
  end.

Definition path_is_ident (p : mpath) (s : string) : bool :=
  match get_ident p with Some x => String.eqb x s | None => false end.

(** ** token classes *)
Definition is_bool_tok (t : tt) : option bool :=
  match t with
  | TIdent s => if String.eqb s "true" then Some true
                else if String.eqb s "false" then Some false else None
  | _ => None
  end.
Definition is_lit_tok (t : tt) : bool :=
  match t with
  | TLit _ _ | TStr _ _ _ => true
  | TIdent _ => match is_bool_tok t with Some _ => true | None => false end
  | _ => false
  end.
Definition is_num_lit (t : tt) : bool :=
  match t with TLit (LKInt _ _) _ | TLit (LKFloat _) _ => true | _ => false end.

Definition path_kw : list string := ["super"; "self"; "Self"; "crate"].
(** a segment [Path::parse_mod_style] accepts *)
Definition mod_seg_ok (s : string) : bool := negb (is_keyword s) || mem_str s path_kw.
(** a segment [Path::parse] (expression / type style) accepts *)
(** (`try` is a path segment only under syn's "full" feature, which the crate does not
    enable by default: without it `try` is refused like any other keyword) *)
Definition path_seg_ok (s : string) : bool := mod_seg_ok s.

Section PathSegs.
  Variable ok : string -> bool.
  Fixpoint path_segs (ts : toks) : option (list string * toks) :=
    match ts with
    | TIdent s :: r =>
        if ok s then
          match r with
          | TPunct "::" :: r' =>
              match path_segs r' with
              | Some (l, rest) => Some (s :: l, rest)
              | None => None
              end
          | _ => Some ([s], r)
          end
        else None
    | _ => None
    end.
End PathSegs.

Definition parse_mpath (ts : toks) : option (mpath * toks) :=
  match ts with
  | TIdent "unsafe" :: r =>
      (* attr.rs parse_outermost_meta_path: the keyword `unsafe` alone is a meta path *)
      Some ({| mp_lead := false; mp_segs := ["unsafe"] |}, r)
  | TPunct "::" :: r =>
      match path_segs mod_seg_ok r with
      | Some (l, rest) => Some ({| mp_lead := true; mp_segs := l |}, rest)
      | None => None
      end
  | _ =>
      match path_segs mod_seg_ok ts with
      | Some (l, rest) => Some ({| mp_lead := false; mp_segs := l |}, rest)
      | None => None
      end
  end.

Definition has_angle (ts : toks) : bool :=
  existsb (fun t => is_punct "<" t || is_punct ">" t) ts.

(** [syn::Path::parse] on a whole token list: Ok with the path's tokens
    (printing a parsed path reproduces its tokens). Generic arguments are out
    of the modelled domain. *)
Definition parse_path_all (ts : toks) : outcome toks :=
  if has_angle ts then OutOfDomain "path with generic arguments" else
  let body := match ts with TPunct "::" :: r => r | _ => ts end in
  match path_segs path_seg_ok body with
  | Some (_, []) => Ok ts
  | _ => Err E_syn
  end.

(** ** syn::Expr::parse, as compiled WITHOUT syn's "full" feature (educe does
    not enable it: expr.rs, cfg(not(feature = "full")) versions of
    ambiguous_expr / unary_expr / trailer_expr / atom_expr).

    Printing a parsed expression reproduces its tokens, so only a recogniser
    is needed: [expr_all ts] = Ok iff the whole of [ts] is one expression,
    Err E_syn iff the parser fails or stops early, OutOfDomain for token
    material outside the modelled sub-grammar:

      expr    ::= unary (binop unary)*                 binop in + - * / % ^ &
      unary   ::= (- | ! | * | &)* trailer
      trailer ::= atom ( (args) | [expr] | .ident | .ident(args) )*
      atom    ::= literal | path | path!group | path { ident [: expr], .. }
                | () | (expr) | (expr, ..) | { expr }
    Not modelled (OutOfDomain): `<` `>` `=` `|` `..` `?` `#` `as` casts,
    lifetimes, keywords other than self/Self/super/crate/true/false, tuple
    indices, turbofish. *)
Fixpoint tt_size (t : tt) : nat :=
  match t with
  | TGroup _ ts => S ((fix go (l : list tt) : nat :=
                         match l with [] => 0 | x :: r => tt_size x + go r end) ts)
  | _ => 1
  end.
Definition toks_size (ts : toks) : nat := fold_right (fun t n => tt_size t + n) 0 ts.

Definition expr_punct_ok (s : string) : bool :=
  mem_str s ["::"; "-"; "!"; "*"; "&"; "+"; "/"; "%"; "^"; "."; ","; ":"].
Definition expr_ident_ok (s : string) : bool :=
  negb (is_keyword s) || mem_str s path_kw || mem_str s ["true"; "false"].
(** every token of the list (deep) belongs to the modelled material; the
    content of a macro invocation's group (`ident ! group`) is never parsed and
    is exempt.  [st]: 1 = the previous token is an identifier, 2 = identifier
    then `!`. *)
Fixpoint expr_tok_ok (t : tt) : bool :=
  match t with
  | TIdent s => expr_ident_ok s
  | TPunct s => expr_punct_ok s
  | TLife _ => false
  | TLit _ _ => true
  | TStr _ _ _ => true
  | TGroup _ ts =>
      (fix go (st : nat) (l : list tt) : bool :=
         match l with
         | [] => true
         | x :: r =>
             (match x with
              | TGroup _ _ => if Nat.eqb st 2 then true else expr_tok_ok x
              | _ => expr_tok_ok x
              end)
             && go (match x with
                    | TIdent _ => 1
                    | TPunct "!" => if Nat.eqb st 1 then 2 else 0
                    | _ => 0
                    end) r
         end) 0 ts
  end.
Definition expr_toks_ok (ts : toks) : bool := expr_tok_ok (TGroup Paren ts).

Definition is_prefix_op (t : tt) : bool :=
  is_punct "-" t || is_punct "!" t || is_punct "*" t || is_punct "&" t.
Definition is_binary_op (t : tt) : bool :=
  is_punct "+" t || is_punct "-" t || is_punct "*" t || is_punct "/" t ||
  is_punct "%" t || is_punct "^" t || is_punct "&" t.

(** top-level comma splitting (same function as [split_commas] below, which is
    defined after [classify_value]) *)
Fixpoint expr_split_commas (ts : toks) : list toks :=
  match ts with
  | [] => [[]]
  | t :: r =>
      if is_punct "," t then [] :: expr_split_commas r
      else match expr_split_commas r with
           | c :: cs => (t :: c) :: cs
           | [] => [[t]]
           end
  end.

Definition drop_trailing_empty (cs : list toks) : list toks :=
  if is_nil (last cs []) then removelast cs else cs.

Definition ood_expr {A} : outcome A := OutOfDomain "expression".

(** [operand] = true: an operand (unary expression) is expected next;
    false: just after an operand (trailer loop, then binary operators). *)
Fixpoint expr_scan (fuel : nat) (operand : bool) (ts : toks) : outcome unit :=
  match fuel with
  | 0 => ood_expr
  | S f =>
      (* Punctuated<Expr, ,>::parse_terminated / paren_or_tuple on a group's content *)
      let expr_list (inner : toks) : outcome unit :=
        if is_nil inner then Ok Datatypes.tt
        else let* _ := mapM (expr_scan f true) (drop_trailing_empty (expr_split_commas inner)) in
             Ok Datatypes.tt in
      (* expr_struct_helper: fields `ident` / `ident: expr` *)
      let struct_field (c : toks) : outcome unit :=
        match c with
        | [TIdent s] => if is_keyword s then ood_expr else Ok Datatypes.tt
        | TIdent s :: TPunct ":" :: e => if is_keyword s then ood_expr else expr_scan f true e
        | _ => ood_expr
        end in
      let struct_body (inner : toks) : outcome unit :=
        if is_nil inner then Ok Datatypes.tt
        else let* _ := mapM struct_field (drop_trailing_empty (expr_split_commas inner)) in
             Ok Datatypes.tt in
      if operand then
        match ts with
        | [] => Err E_syn                                   (* expected an expression *)
        | t :: r =>
            if is_lit_tok t then expr_scan f false r
            else if is_prefix_op t then expr_scan f true r
            else
              match t with
              | TPunct "::" | TIdent _ =>
                  let body := match t with TIdent _ => ts | _ => r end in
                  match path_segs mod_seg_ok body with
                  | None => Err E_syn
                  | Some (_, rest) =>
                      match rest with
                      | TPunct "!" :: rest1 =>               (* macro invocation *)
                          match rest1 with
                          | TGroup _ _ :: rest2 => expr_scan f false rest2
                          | _ => Err E_syn
                          end
                      | TGroup Brace inner :: rest1 =>       (* struct literal *)
                          let* _ := struct_body inner in expr_scan f false rest1
                      | _ => expr_scan f false rest
                      end
                  end
              | TGroup Paren inner => let* _ := expr_list inner in expr_scan f false r
              | TGroup Brace inner =>                        (* Expr::Verbatim block *)
                  let* _ := expr_scan f true inner in expr_scan f false r
              | _ => Err E_syn                               (* unsupported expression *)
              end
        end
      else
        match ts with
        | [] => Ok Datatypes.tt
        | t :: r =>
            match t with
            | TGroup Paren inner => let* _ := expr_list inner in expr_scan f false r
            | TGroup Bracket inner => let* _ := expr_scan f true inner in expr_scan f false r
            | TPunct "." =>
                match r with
                | TIdent s :: r1 =>
                    if is_keyword s then ood_expr else
                    match r1 with
                    | TPunct "::" :: _ => ood_expr
                    | TGroup Paren inner :: r2 => let* _ := expr_list inner in expr_scan f false r2
                    | _ => expr_scan f false r1
                    end
                | _ => ood_expr
                end
            | _ => if is_binary_op t then expr_scan f true r else Err E_syn
            end
        end
  end.

Definition expr_all (ts : toks) : outcome unit :=
  if expr_toks_ok ts then expr_scan (2 * toks_size ts + 2) true ts else ood_expr.

(** ** name-value expressions *)
Definition classify_value (last : bool) (v : toks) : outcome nvexpr :=
  match v with
  | [] => Err E_syn
  | [t] =>
      if is_lit_tok t then Ok (XLit t)
      else match parse_path_all v with
           | Ok p => Ok (XPath p)
           | _ =>
               (* a lone keyword (or `_`) is not an expression for syn without "full" *)
               match t with
               | TIdent _ => Err E_syn
               | _ => let* _ := expr_all v in Ok (XOther v)
               end
           end
  | [TPunct "-"; t] =>
      if is_num_lit t then Ok (if last then XNegLit t else XUnaryNeg t)
      else let* _ := expr_all v in Ok (XOther v)
  | _ =>
      if has_angle v then OutOfDomain "name-value expression" else
      match parse_path_all v with
      | Ok p => Ok (XPath p)
      | _ => let* _ := expr_all v in Ok (XOther v)
      end
  end.

(** ** Punctuated<Meta, Token![,]>::parse_terminated *)
Fixpoint split_commas (ts : toks) : list toks :=
  match ts with
  | [] => [[]]
  | t :: r =>
      if is_punct "," t then [] :: split_commas r
      else match split_commas r with
           | c :: cs => (t :: c) :: cs
           | [] => [[t]]
           end
  end.

Definition parse_meta_chunk (last : bool) (ts : toks) : outcome meta :=
  match parse_mpath ts with
  | None => Err E_syn
  | Some (p, rest) =>
      match rest with
      | [] => Ok (MPath p)
      | [TGroup d inner] => Ok (MList p d inner)
      | TPunct "=" :: v => let* x := classify_value last v in Ok (MNameValue p x)
      | _ => Err E_syn
      end
  end.


Fixpoint parse_chunks (trailing : bool) (cs : list toks) : outcome (list meta) :=
  match cs with
  | [] => Ok []
  | [c] => if trailing && is_nil c then Ok []
           else let* m := parse_meta_chunk (negb trailing) c in Ok [m]
  | c :: r => let* m := parse_meta_chunk false c in
              let* ms := parse_chunks trailing r in Ok (m :: ms)
  end.

Definition parse_metas (ts : toks) : outcome (list meta) :=
  match split_commas ts with
  | [[]] => Ok []
  | cs => parse_chunks (is_nil (last cs [])) cs
  end.

(** ** parse_args::<T>() for the small T's *)
Definition args_lit_bool (ts : toks) : outcome bool :=
  match ts with
  | [t] => match is_bool_tok t with Some b => Ok b | None => Err E_syn end
  | _ => Err E_syn
  end.

Definition ident_ok (s : string) : bool := negb (is_keyword s).

Definition args_ident (ts : toks) : outcome string :=
  match ts with
  | [TIdent s] => if ident_ok s then Ok s else Err E_syn
  | _ => Err E_syn
  end.

(** LitStr::parse::<T>() re-lexes the value *)
Definition relex_of (r : option toks) : outcome toks :=
  match r with Some ts => Ok ts | None => Err E_syn end.

Definition str_parse_ident (relex : option toks) : outcome string :=
  let* ts := relex_of relex in args_ident ts.
Definition str_parse_path (relex : option toks) : outcome toks :=
  let* ts := relex_of relex in parse_path_all ts.

Definition str_empty (value : string) : bool := String.eqb value "".

(** ** common/ident_bool.rs *)
Definition meta_name_value_2_bool (v : nvexpr) : outcome bool :=
  match v with
  | XLit t => match is_bool_tok t with Some b => Ok b | None => Err E_syn end
  | _ => Err E_syn
  end.

Definition meta_2_bool (m : meta) : outcome bool :=
  match m with
  | MNameValue _ v => meta_name_value_2_bool v
  | MList _ _ ts => args_lit_bool ts
  | MPath _ => Err E_syn
  end.

Definition meta_2_bool_allow_path (m : meta) : outcome bool :=
  match m with
  | MPath _ => Ok true
  | MNameValue _ v => meta_name_value_2_bool v
  | MList _ _ ts => args_lit_bool ts
  end.

Inductive ident_or_bool := IOBIdent (s : string) | IOBBool (b : bool).

Definition str_ident_or_bool (value : string) (relex : option toks) : outcome ident_or_bool :=
  match str_parse_ident relex with
  | Ok s => Ok (IOBIdent s)
  | Err e => if str_empty value then Ok (IOBBool false) else Err e
  | Panic s => Panic s
  | OutOfDomain w => OutOfDomain w
  end.

Definition meta_name_value_2_ident_and_bool (v : nvexpr) : outcome ident_or_bool :=
  match v with
  | XLit (TStr _ value relex) => str_ident_or_bool value relex
  | XLit t => match is_bool_tok t with Some b => Ok (IOBBool b) | None => Err E_syn end
  | XPath [TIdent s] => Ok (IOBIdent s)
  | _ => Err E_syn
  end.

(** impl Parse for IdentOrBool, used through parse_args (whole input must be consumed).
    A literal that is neither bool nor string is consumed and then an
    identifier is expected. *)
Definition args_ident_or_bool (ts : toks) : outcome ident_or_bool :=
  match ts with
  | [] => Err E_syn
  | t :: r =>
      match t with
      | TStr _ value relex => let* x := str_ident_or_bool value relex in
                              if is_nil r then Ok x else Err E_syn
      | TLit _ _ => let* s := args_ident r in Ok (IOBIdent s)
      | TPunct "-" =>
          match r with
          | n :: r' => if is_num_lit n then let* s := args_ident r' in Ok (IOBIdent s)
                       else Err E_syn
          | [] => Err E_syn
          end
      | _ =>
          match is_bool_tok t with
          | Some b => if is_nil r then Ok (IOBBool b) else Err E_syn
          | None => let* s := args_ident ts in Ok (IOBIdent s)
          end
      end
  end.

Definition meta_2_ident_and_bool (m : meta) : outcome ident_or_bool :=
  match m with
  | MNameValue _ v => meta_name_value_2_ident_and_bool v
  | MList _ _ ts => args_ident_or_bool ts
  | MPath _ => Err E_syn
  end.

Definition meta_name_value_2_ident (v : nvexpr) : outcome string :=
  match v with
  | XLit (TStr _ _ relex) => str_parse_ident relex
  | XPath [TIdent s] => Ok s
  | _ => Err E_syn
  end.

Definition meta_2_ident (m : meta) : outcome string :=
  match m with
  | MNameValue _ v => meta_name_value_2_ident v
  | MList _ _ ts =>
      match ts with
      | [TStr _ _ relex] => str_parse_ident relex
      | _ => args_ident ts
      end
  | MPath _ => Err E_syn
  end.

(** ** common/path.rs *)
Definition meta_name_value_2_path (v : nvexpr) : outcome toks :=
  match v with
  | XLit (TStr _ _ relex) => str_parse_path relex
  | XPath p => Ok p
  | _ => Err E_syn
  end.

Definition meta_2_path (m : meta) : outcome toks :=
  match m with
  | MNameValue _ v => meta_name_value_2_path v
  | MList _ _ ts =>
      match ts with
      | [TStr _ _ relex] => str_parse_path relex
      | _ => parse_path_all ts
      end
  | MPath _ => Err E_syn
  end.

(** ** common/where_predicates_bool.rs, common/bound.rs *)
Fixpoint split_commas_angle (depth : nat) (ts : toks) : list toks :=
  match ts with
  | [] => [[]]
  | t :: r =>
      if is_punct "," t && Nat.eqb depth 0 then [] :: split_commas_angle 0 r
      else
        let depth' := if is_punct "<" t then S depth
                      else if is_punct ">" t then Nat.pred depth else depth in
        match split_commas_angle depth' r with
        | c :: cs => (t :: c) :: cs
        | [] => [[t]]
        end
  end.

(** a where-predicate of the modelled domain: `lhs : rhs` with a top-level
    colon that is not the first token *)
Definition pred_ok (p : toks) : bool :=
  match p with
  | [] => false
  | t :: r => negb (is_punct ":" t) && existsb (is_punct ":") r
  end.

Definition parse_where_predicates (ts : toks) : outcome (list toks) :=
  match split_commas_angle 0 ts with
  | [[]] => Ok []
  | cs =>
      let cs' := if is_nil (last cs []) then removelast cs else cs in
      if forallb pred_ok cs' then Ok cs'
      else if existsb is_nil cs' then Err E_syn
      (* no `:` at all in a predicate: whatever is parsed first, the `:` is then missed *)
      else if existsb (fun c => negb (existsb (is_punct ":") c)) cs' then Err E_syn
      else OutOfDomain "where predicate"
  end.

Inductive bound :=
| BDisabled
| BAuto
| BCustom (preds : list toks)
| BAll.

Definition bound_of_bool (b : bool) : bound := if b then BAuto else BDisabled.

Definition bound_from_lit (t : tt) : outcome bound :=
  match t with
  | TStr _ value relex =>
      match relex with
      | Some ts =>
          match parse_where_predicates ts with
          | Ok ps => Ok (BCustom ps)
          | Err e => if str_empty value then Ok BDisabled else Err e
          | Panic s => Panic s
          | OutOfDomain w => OutOfDomain w
          end
      | None => if str_empty value then Ok BDisabled else Err E_syn
      end
  | _ => match is_bool_tok t with
         | Some b => Ok (bound_of_bool b)
         | None => Err E_syn
         end
  end.

Definition bound_from_meta (m : meta) : outcome bound :=
  match m with
  | MNameValue _ (XLit t) => bound_from_lit t
  | MNameValue _ (XNegLit _) => Err E_syn
  | MNameValue _ _ => Err E_syn
  | MList _ _ ts =>
      match ts with
      | t :: r =>
          if is_lit_tok t then
            if is_nil r then bound_from_lit t
            else (* the literal is consumed; a failing from_lit wins, otherwise
                    parse_args complains about the trailing tokens *)
              let* _ := bound_from_lit t in Err E_syn
          else if is_punct "-" t then
            match r with
            | n :: _ => if is_num_lit n then Err E_syn
                        else let* ps := parse_where_predicates ts in Ok (BCustom ps)
            | [] => let* ps := parse_where_predicates ts in Ok (BCustom ps)
            end
          else if is_punct "*" t then
            if is_nil r then Ok BAll else Err E_syn
          else let* ps := parse_where_predicates ts in Ok (BCustom ps)
      | [] => Ok (BCustom [])
      end
  | MPath _ => Err E_syn
  end.

(** ** common/unsafe_punctuated_meta.rs *)
Definition parse_unsafe_metas (ts : toks) : outcome (bool * list meta) :=
  match ts with
  | TIdent "unsafe" :: r =>
      match r with
      | [] => Ok (true, [])
      | TPunct "," :: r' => let* ms := parse_metas r' in Ok (true, ms)
      | _ => Err E_syn
      end
  | [] => Ok (false, [])
  | _ => let* ms := parse_metas ts in Ok (false, ms)
  end.

(** ** common/expr.rs *)
(** parse_args::<Expr>() on the argument tokens of `expression(..)`: a lone
    literal is [Expr::Lit]; `-1` is a unary minus here (no negative-literal
    shortcut as in the name-value parser). *)
Definition args_expr (ts : toks) : outcome nvexpr :=
  match ts with
  | [t] => if is_lit_tok t then Ok (XLit t)
           else let* _ := expr_all ts in Ok (XOther ts)
  | _ => let* _ := expr_all ts in Ok (XOther ts)
  end.

Definition meta_2_expr (m : meta) : outcome nvexpr :=
  match m with
  | MNameValue _ v => Ok v
  | MList _ _ ts => args_expr ts
  | MPath _ => Err E_syn
  end.

(** the tokens `quote!(#expr)` prints for a classified expression *)
Definition nvexpr_toks (v : nvexpr) : toks :=
  match v with
  | XLit t => [t]
  | XNegLit t => [TPunct "-"; t]      (* the fallback TokenStream splits a negative literal *)
  | XUnaryNeg t => [TPunct "-"; t]
  | XPath p => p
  | XOther ts => ts
  end.

Definition int_types : list string :=
  ["u8"; "u16"; "u32"; "u64"; "u128"; "usize"; "i8"; "i16"; "i32"; "i64"; "i128"; "isize"].
Definition float_types : list string := ["f32"; "f64"].

(** `Type::Path` whose token string can equal a bare name: a single identifier *)
Definition ty_ident (ty : toks) : option string :=
  match ty with [TIdent s] => Some s | _ => None end.
Definition ty_ident_is (ty : toks) (names : list string) : bool :=
  match ty_ident ty with Some s => mem_str s names | None => false end.
(** `Type::Reference`: the tokens of its element type *)
Definition ty_ref_elem (ty : toks) : option toks :=
  match ty with
  | TPunct "&" :: r =>
      let r1 := match r with TLife _ :: r' => r' | _ => r end in
      Some (match r1 with TIdent "mut" :: r' => r' | _ => r1 end)
  | _ => None
  end.

(** auto_adjust_expr, the test "don't call into": the literal [t] is of the
    natural kind of the field type [ty] *)
Definition lit_natural (t : tt) (ty : toks) : bool :=
  match t with
  | TLit (LKInt _ suffix) _ =>
      match ty_ident ty with
      | Some s => String.eqb suffix s || mem_str s int_types
      | None => false
      end
  | TLit (LKFloat suffix) _ =>
      match ty_ident ty with
      | Some s => String.eqb suffix s || mem_str s float_types
      | None => false
      end
  | TStr _ _ _ =>
      match ty_ref_elem ty with
      | Some e => ty_ident_is e ["str"]
      | None => false
      end
  | TIdent _ => ty_ident_is ty ["bool"]          (* Lit::Bool *)
  | TLit LKChar _ => ty_ident_is ty ["char"]
  | TLit LKByte _ => ty_ident_is ty ["u8"]
  | TLit LKByteStr _ =>
      match ty_ref_elem ty with
      | Some [TGroup Bracket (TIdent "u8" :: TPunct ";" :: _)] => true
      | _ => false
      end
  | _ => false                                   (* C-string literals *)
  end.

(** [Some tokens] = the expression is a bare literal that must be wrapped in
    `::core::convert::Into::into(..)`; [None] = spliced as written *)
Definition needs_into (v : nvexpr) (ty : option toks) : bool :=
  match v with
  | XLit t | XNegLit t =>
      match ty with Some ty => negb (lit_natural t ty) | None => true end
  | _ => false
  end.
