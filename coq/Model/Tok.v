(** Tokens of the derive input and of the generated code.

    A [tt] is a proc_macro2 token tree after lexing.  Punctuation that the
    Rust lexer glues together (`::`, `->`, `=>`, `&&` ...) is kept as ONE
    [TPunct] with a multi-character spelling; [flat] splits it into one
    string per character, which is exactly what the K1 driver prints for the
    real macro's output (it prints [Punct::as_char] and ignores spacing). *)
From Coq Require Export List String Ascii ZArith Bool Arith Lia.
Export ListNotations.
Open Scope string_scope.
Open Scope list_scope.
Infix "^^" := String.append (at level 60, right associativity) : string_scope.

Inductive delim := Paren | Brace | Bracket.

(** Literal kinds, post-lexing.  Integer literals carry their value and
    suffix as the lexer (proc_macro2 / syn::LitInt) reports them. *)
Inductive litkind :=
| LKInt (v : Z) (suffix : string)
| LKFloat (suffix : string)
| LKChar
| LKByte
| LKByteStr
| LKCStr.

Inductive tt :=
| TIdent (s : string)                 (* identifiers and keywords, incl. true / false, raw r#x *)
| TPunct (s : string)                 (* one lexer punctuation token, e.g. "::" *)
| TLife (s : string)                  (* lifetime 'a : s = "a" *)
| TLit (k : litkind) (text : string)  (* non-string literal; text = its spelling *)
| TStr (text : string) (value : string) (relex : option (list tt))
      (* string literal: its spelling (with quotes), its value, and the
         tokens its value lexes to (None = the value does not lex) *)
| TGroup (d : delim) (ts : list tt).

Definition toks := list tt.

Definition open_of (d : delim) : string :=
  match d with Paren => "(" | Brace => "{" | Bracket => "[" end.
Definition close_of (d : delim) : string :=
  match d with Paren => ")" | Brace => "}" | Bracket => "]" end.

Fixpoint chars_of (s : string) : list string :=
  match s with
  | EmptyString => []
  | String c r => String c EmptyString :: chars_of r
  end.

(** Flat spelling: one string per identifier / literal / punctuation
    character / delimiter. *)
Fixpoint flat1 (t : tt) : list string :=
  match t with
  | TIdent s => [s]
  | TPunct s => chars_of s
  | TLife s => ["'"; s]
  | TLit _ text => [text]
  | TStr text _ _ => [text]
  | TGroup d ts =>
      open_of d :: (fix go (l : list tt) : list string :=
                      match l with [] => [] | x :: r => flat1 x ++ go r end) ts
      ++ [close_of d]
  end.
Definition flat (ts : toks) : list string := flat_map flat1 ts.

(** Decidable equality on token trees modulo nothing (used by the Into
    handler's type comparison; the real code compares `to_string()`s of the
    token streams, which is injective on token sequences up to spacing). *)
Definition flat_eqb (a b : toks) : bool :=
  if list_eq_dec string_dec (flat a) (flat b) then true else false.

(** Decimal rendering of natural numbers (format_ident!("_{}", index),
    usize literals). *)
Definition digit_of (n : nat) : string :=
  match n with
  | 0 => "0" | 1 => "1" | 2 => "2" | 3 => "3" | 4 => "4"
  | 5 => "5" | 6 => "6" | 7 => "7" | 8 => "8" | _ => "9"
  end.
Fixpoint dec_aux (fuel n : nat) (acc : string) : string :=
  match fuel with
  | 0 => acc
  | S f => let acc' := digit_of (n mod 10) ^^ acc in
           if Nat.eqb (n / 10) 0 then acc' else dec_aux f (n / 10) acc'
  end.
Definition dec (n : nat) : string := dec_aux (S n) n "".

(** decimal rendering of integers of any size (binary arithmetic; 60 digits of fuel) *)
Fixpoint decZ_aux (fuel : nat) (n : Z) (acc : string) : string :=
  match fuel with
  | 0 => acc
  | S f => let acc' := digit_of (Z.to_nat (n mod 10)) ^^ acc in
           if Z.eqb (n / 10) 0 then acc' else decZ_aux f (n / 10) acc'
  end.
Definition decZ (n : Z) : string :=
  if Z.ltb n 0 then "-" ^^ decZ_aux 60 (Z.opp n) "" else decZ_aux 60 n "".

Definition is_nil {A} (l : list A) : bool := match l with [] => true | _ => false end.

(** Small token constructors. *)
Definition I (s : string) : tt := TIdent s.
Definition P (s : string) : tt := TPunct s.
Definition G (d : delim) (ts : toks) : tt := TGroup d ts.

Definition is_ident (s : string) (t : tt) : bool :=
  match t with TIdent x => String.eqb x s | _ => false end.
Definition is_punct (s : string) (t : tt) : bool :=
  match t with TPunct x => String.eqb x s | _ => false end.

(** Rust keywords that [syn::Ident::parse] refuses (strict + reserved, 2021). *)
Definition keywords : list string :=
  ["abstract"; "as"; "async"; "await"; "become"; "box"; "break"; "const"; "continue";
   "crate"; "do"; "dyn"; "else"; "enum"; "extern"; "false"; "final"; "fn"; "for";
   "if"; "impl"; "in"; "let"; "loop"; "macro"; "match"; "mod"; "move"; "mut";
   "override"; "priv"; "pub"; "ref"; "return"; "Self"; "self"; "static"; "struct";
   "super"; "trait"; "true"; "try"; "type"; "typeof"; "unsafe"; "unsized"; "use";
   "virtual"; "where"; "while"; "yield"].
Definition mem_str (s : string) (l : list string) : bool :=
  existsb (String.eqb s) l.
Definition is_keyword (s : string) : bool := mem_str s keywords || String.eqb s "_".

(** strip a raw-identifier prefix, as format_ident! does with interpolated identifiers *)
Definition unraw (s : string) : string :=
  match s with
  | String "r" (String "#" r) => r
  | _ => s
  end.
