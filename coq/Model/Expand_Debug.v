(** trait_handlers/debug : debug_struct.rs, debug_enum.rs, debug_union.rs,
    common.rs, models/{type,field}_attribute.rs, panic.rs *)
From Educe.Model Require Export Attr.

(** * Analysis: attributes *)

(** ** models/type_attribute.rs *)
Inductive tname := TNDisable | TNDefault | TNCustom (s : string).

(** TypeName::to_ident_by_ident *)
Definition tname_ident (n : tname) (ident : string) : option string :=
  match n with TNDisable => None | TNDefault => Some ident | TNCustom s => Some s end.

Record dtattr := { dt_unsafe : bool; dt_name : tname; dt_named_field : bool; dt_bound : bound }.

(** TypeAttributeBuilder *)
Record dtbuilder := { tb_flag : bool; tb_unsafe : bool; tb_name : bool; tb_named_field : bool;
                      tb_bound : bool; tb_name0 : tname; tb_named_field0 : bool }.

Definition dtattr_default (b : dtbuilder) : dtattr :=
  {| dt_unsafe := false; dt_name := tb_name0 b; dt_named_field := tb_named_field0 b;
     dt_bound := BAuto |}.

Record dtstate := { ts_name : tname; ts_named_field : bool; ts_bound : bound;
                    ts_name_set : bool; ts_nf_set : bool; ts_bound_set : bool }.

Definition tname_of_iob (v : ident_or_bool) : tname :=
  match v with
  | IOBIdent s => TNCustom s
  | IOBBool true => TNDefault
  | IOBBool false => TNDisable
  end.

(** the `handler` closure of build_from_debug_meta *)
Definition dt_param (b : dtbuilder) (s : dtstate) (m : meta) : outcome (option dtstate) :=
  if param_is m ["name"; "rename"] then
    if negb (tb_name b) then Ok None
    else let* v := meta_2_ident_and_bool m in
         if ts_name_set s then Err E_param_reset
         else Ok (Some {| ts_name := tname_of_iob v; ts_named_field := ts_named_field s;
                          ts_bound := ts_bound s; ts_name_set := true;
                          ts_nf_set := ts_nf_set s; ts_bound_set := ts_bound_set s |})
  else if param_is m ["named_field"] then
    if negb (tb_named_field b) then Ok None
    else let* v := meta_2_bool m in
         if ts_nf_set s then Err E_param_reset
         else Ok (Some {| ts_name := ts_name s; ts_named_field := v;
                          ts_bound := ts_bound s; ts_name_set := ts_name_set s;
                          ts_nf_set := true; ts_bound_set := ts_bound_set s |})
  else if param_is m ["bound"] then
    if negb (tb_bound b) then Ok None
    else let* v := bound_from_meta m in
         if ts_bound_set s then Err E_param_reset
         else Ok (Some {| ts_name := ts_name s; ts_named_field := ts_named_field s;
                          ts_bound := v; ts_name_set := ts_name_set s;
                          ts_nf_set := ts_nf_set s; ts_bound_set := true |})
  else Ok None.

(** TypeAttributeBuilder::build_from_debug_meta *)
Definition build_dtattr (b : dtbuilder) (m : meta) : outcome dtattr :=
  match m with
  | MPath _ => if tb_flag b then Ok (dtattr_default b) else Err E_attr_format
  | MNameValue _ v =>
      if negb (tb_name b) then Err E_attr_format
      else let* n := meta_name_value_2_ident v in
           Ok {| dt_unsafe := false; dt_name := TNCustom n;
                 dt_named_field := tb_named_field0 b; dt_bound := BAuto |}
  | MList _ _ ts =>
      let* (u, ms) := (if tb_unsafe b then parse_unsafe_metas ts
                        else let* ms := parse_metas ts in Ok (false, ms)) in
      let* s := run_params (dt_param b)
                  {| ts_name := tb_name0 b; ts_named_field := tb_named_field0 b;
                     ts_bound := BAuto; ts_name_set := false; ts_nf_set := false;
                     ts_bound_set := false |} ms in
      Ok {| dt_unsafe := u; dt_name := ts_name s; dt_named_field := ts_named_field s;
            dt_bound := ts_bound s |}
  end.

(** TypeAttributeBuilder::build_from_attributes (variants) *)
Definition debug_variant_attr F traits (b : dtbuilder) (attrs : list attr) : outcome dtattr :=
  let* o := scan_attrs F (trait_eqb TDebug) (build_dtattr b) traits attrs in
  Ok (match o with Some a => a | None => dtattr_default b end).

(** ** models/field_attribute.rs *)
Record dfattr := { df_name : option string;      (* FieldName::Custom / Default *)
                   df_ignore : bool; df_method : option toks }.
Definition dfattr_default : dfattr :=
  {| df_name := None; df_ignore := false; df_method := None |}.

Record dfstate := { dfs_attr : dfattr; dfs_name_set : bool; dfs_ignore_set : bool;
                    dfs_method_set : bool }.

(** the `handler` closure of build_from_debug_meta *)
Definition df_param (en_name en_ignore en_method : bool) (s : dfstate) (m : meta)
  : outcome (option dfstate) :=
  let a := dfs_attr s in
  if param_is m ["name"; "rename"] then
    if negb en_name then Ok None
    else let* v := meta_2_ident m in
         if dfs_name_set s then Err E_param_reset
         else Ok (Some {| dfs_attr := {| df_name := Some v; df_ignore := df_ignore a;
                                         df_method := df_method a |};
                          dfs_name_set := true; dfs_ignore_set := dfs_ignore_set s;
                          dfs_method_set := dfs_method_set s |})
  else if param_is m ["ignore"] then
    if negb en_ignore then Ok None
    else let* v := meta_2_bool_allow_path m in
         if dfs_ignore_set s then Err E_param_reset
         else Ok (Some {| dfs_attr := {| df_name := df_name a; df_ignore := v;
                                         df_method := df_method a |};
                          dfs_name_set := dfs_name_set s; dfs_ignore_set := true;
                          dfs_method_set := dfs_method_set s |})
  else if param_is m ["method"] then
    if negb en_method then Ok None
    else let* v := meta_2_path m in
         if dfs_method_set s then Err E_param_reset
         else Ok (Some {| dfs_attr := {| df_name := df_name a; df_ignore := df_ignore a;
                                         df_method := Some v |};
                          dfs_name_set := dfs_name_set s; dfs_ignore_set := dfs_ignore_set s;
                          dfs_method_set := true |})
  else Ok None.

(** FieldAttributeBuilder::build_from_debug_meta *)
Definition build_dfattr (en_name en_ignore en_method : bool) (m : meta) : outcome dfattr :=
  match m with
  | MPath _ => Err E_attr_format
  | MNameValue _ v =>
      if en_name then
        if en_ignore then
          let* x := meta_name_value_2_ident_and_bool v in
          Ok (match x with
              | IOBIdent s => {| df_name := Some s; df_ignore := false; df_method := None |}
              | IOBBool b => {| df_name := None; df_ignore := negb b; df_method := None |}
              end)
        else
          let* n := meta_name_value_2_ident v in
          Ok {| df_name := Some n; df_ignore := false; df_method := None |}
      else if en_ignore then
        let* b := meta_name_value_2_bool v in
        Ok {| df_name := None; df_ignore := negb b; df_method := None |}
      else Err E_attr_format
  | MList _ _ ts =>
      let* ms := parse_metas ts in
      let* s := run_params (df_param en_name en_ignore en_method)
                  {| dfs_attr := dfattr_default; dfs_name_set := false;
                     dfs_ignore_set := false; dfs_method_set := false |} ms in
      Ok (dfs_attr s)
  end.

(** FieldAttributeBuilder::build_from_attributes *)
Definition debug_field_attr F traits (en_name en_ignore en_method : bool) (attrs : list attr)
  : outcome dfattr :=
  let* o := scan_attrs F (trait_eqb TDebug) (build_dfattr en_name en_ignore en_method)
              traits attrs in
  Ok (match o with Some a => a | None => dfattr_default end).

Definition debug_field_attrs F traits (en_name : bool) (fs : list field)
  : outcome (list (nat * (field * dfattr))) :=
  let* l := mapM (fun f => let* fa := debug_field_attr F traits en_name true true (f_attrs f) in
                           Ok (f, fa)) fs in
  Ok (indexed l).

(** * Emission (pure) *)

Definition is_some {A} (o : option A) : bool := match o with Some _ => true | None => false end.

Definition debug_trait : toks := core_path ["fmt"; "Debug"].

(** `stringify!(ts)` *)
Definition stringify (ts : toks) : expr := EMacro "stringify" ts.
(** `builder.m(args);` *)
Definition builder_stmt (m : string) (args : list expr) : expr :=
  ESemi (EMethod (EVar "builder") m args).
(** `let mut builder = f.ctor(args);` *)
Definition let_builder (ctor : string) (args : list expr) : expr :=
  ELet true "builder" (EMethod (EVar "f") ctor args).
(** `builder.finish()` *)
Definition builder_finish : expr := EMethod (EVar "builder") "finish" [].

(** interpolation of an `Option<String>` / `Option<&Ident>`: nothing when None *)
Definition opt_str_args (o : option string) : list expr :=
  match o with Some s => [EStr s] | None => [] end.
Definition opt_ident_toks (o : option string) : toks :=
  match o with Some s => [I s] | None => [] end.

(** common.rs create_format_arg: the helper impl uses the type's ORIGINAL
    generics and where clause (the predicates added for `bound` are absent) *)
Definition dbg_arg (d : dinput) (ty method : toks) (field_expr : expr) : expr :=
  let g := d_generics d in
  EDebugFieldArg (impl_generics_toks g) ty (I (d_name d) :: ty_generics_toks g) (where_toks g)
                 method field_expr.

(** `builder.field(stringify!(key), value);`  (debug_struct builder)  or
    `builder.entry(&Educe__RawString(stringify!(key)), value);`  (debug_map builder) *)
Definition dbg_entry (has_name : bool) (key : string) (value : expr) : expr :=
  if has_name then builder_stmt "field" [stringify [I key]; value]
  else builder_stmt "entry"
         [ERef (ECall (EPath (RLocal ["Educe__RawString"])) [stringify [I key]]); value].

(** one shown field of a named-style (debug_struct / debug_map) builder; [op]
    is the field operand: `&self.x` in a struct, the binding `_x` in an enum arm *)
Definition dbg_named_field (d : dinput) (has_name : bool) (key : string) (ty : toks)
           (fa : dfattr) (op : expr) : list expr :=
  match df_method fa with
  | Some m => [dbg_arg d ty m op; dbg_entry has_name key (ERef (EVar "arg"))]
  | None => [dbg_entry has_name key op]
  end.

(** one shown field of a debug_tuple builder *)
Definition dbg_tuple_field (d : dinput) (ty : toks) (fa : dfattr) (op : expr) : list expr :=
  match df_method fa with
  | Some m => [dbg_arg d ty m op; builder_stmt "field" [ERef (EVar "arg")]]
  | None => [builder_stmt "field" [op]]
  end.

(** the named-style builder: debug_struct(name) or the debug_map helper *)
Definition named_builder (name_arg : option expr) : expr :=
  match name_arg with
  | Some a => let_builder "debug_struct" [a]
  | None => EDebugMapBuilder
  end.

Definition dbg_types (l : list (nat * (field * dfattr))) : list toks :=
  flat_map (fun '(_, (f, fa)) => if df_ignore fa then []
                                 else match df_method fa with Some _ => [] | None => [f_ty f] end) l.

Definition has_shown (l : list (nat * (field * dfattr))) : bool :=
  existsb (fun '(_, (_, fa)) => negb (df_ignore fa)) l.

(** ** debug_struct.rs *)
(** key of a field in a struct: custom name, the identifier, or `_<index>` *)
Definition struct_key (f : field) (i : nat) (fa : dfattr) : string :=
  match df_name fa with
  | Some n => n
  | None => match f_name f with Some x => x | None => "_" ^^ dec i end
  end.

Definition self_field (f : field) (i : nat) : expr := ERef (EField (EVar "self") (field_member f i)).

(** debug_struct.rs, `if type_attribute.named_field` / `else` *)
Definition dbg_struct_body (d : dinput) (name : option string) (named_field : bool)
           (l : list (nat * (field * dfattr))) : block :=
  (if named_field then
     named_builder (option_map (fun n => stringify [I n]) name) ::
     flat_map (fun '(i, (f, fa)) =>
                 if df_ignore fa then []
                 else dbg_named_field d (is_some name) (struct_key f i fa) (f_ty f) fa
                        (self_field f i)) l
   else
     let_builder "debug_tuple" [stringify (opt_ident_toks name)] ::
     flat_map (fun '(i, (f, fa)) =>
                 if df_ignore fa then []
                 else dbg_tuple_field d (f_ty f) fa (self_field f i)) l)
  ++ [builder_finish].

(** the impl item (all three handlers); [anon] = `Formatter<'_>` (union) *)
Definition dbg_item (d : dinput) (g : generics) (anon : bool) (body : block) : item :=
  {| i_attrs := []; i_generics := g; i_trait := Some debug_trait; i_self := d_name d;
     i_members := [MFn inline_attr "fmt" (fmt_sig "f" anon) ["self"; "f"] body] |}.

(** ** debug_enum.rs *)
Record dvariant := { dv_ident : string;
                     dv_fields : fields;                 (* only the kind is used *)
                     dv_name_string : option string;
                     dv_named_field : bool;
                     dv_list : list (nat * (field * dfattr)) }.

(** `name_string` *)
Definition name_string (name variant_name : option string) : option string :=
  match name, variant_name with
  | Some n, Some v => Some (n ^^ "::" ^^ v)     (* path_to_string(parse2(#name::#variant_name)) *)
  | Some n, None => Some n
  | None, Some v => Some v
  | None, None => None
  end.

Definition fname (f : field) : string := match f_name f with Some n => n | None => "" end.

(** binding of a field in an arm: `_<ident>` (format_ident! strips r#) or `_<index>` *)
Definition arm_var (f : field) (i : nat) : string :=
  match f_name f with Some n => "_" ^^ unraw n | None => "_" ^^ dec i end.

(** key of a field in a variant: custom name, the identifier, or `_<index>` *)
Definition variant_key (f : field) (i : nat) (fa : dfattr) : string :=
  match df_name fa with
  | Some n => n
  | None => match f_name f with Some x => x | None => "_" ^^ dec i end
  end.

(** the block of a Fields::Named / Fields::Unnamed arm *)
Definition dbg_arm_block (d : dinput) (v : dvariant) : expr :=
  let ns := dv_name_string v in
  EBlock
    ((if dv_named_field v then
        named_builder (option_map EStr ns) ::
        flat_map (fun '(i, (f, fa)) =>
                    if df_ignore fa then []
                    else dbg_named_field d (is_some ns) (variant_key f i fa) (f_ty f) fa
                           (EVar (arm_var f i))) (dv_list v)
      else
        let_builder "debug_tuple" [EStr (match ns with Some n => n | None => "" end)] ::
        flat_map (fun '(i, (f, fa)) =>
                    if df_ignore fa then []
                    else dbg_tuple_field d (f_ty f) fa (EVar (arm_var f i))) (dv_list v))
     ++ [builder_finish]).

Definition dbg_arm (d : dinput) (v : dvariant) : pat * expr :=
  match dv_fields v with
  | FUnit =>
      (* Self::V => f.write_str("name"), *)
      (PPath (RSelfV (dv_ident v)), EMethod (EVar "f") "write_str" (opt_str_args (dv_name_string v)))
  | FNamed _ =>
      (* Self::V { a: _a, b: _, } => { .. builder.finish() }, *)
      (PStruct (RSelfV (dv_ident v))
         (map (fun '(i, (f, fa)) =>
                 (fname f, Some (if df_ignore fa then PWild else PBind (arm_var f i)))) (dv_list v))
         true false,
       dbg_arm_block d v)
  | FUnnamed _ =>
      (* Self::V ( _0, _, ) => { .. builder.finish() }, *)
      (PTuple (RSelfV (dv_ident v))
         (map (fun '(i, (f, fa)) => if df_ignore fa then PWild else PBind (arm_var f i)) (dv_list v))
         true false,
       dbg_arm_block d v)
  end.

(** the body of `fmt` for an enum; [name] = the type-level name *)
Definition dbg_enum_body (d : dinput) (name : option string) (vs : list dvariant) : block :=
  if is_nil vs then [EMethod (EVar "f") "write_str" [stringify (opt_ident_toks name)]]
  else [EMatchC (EVar "self") (map (dbg_arm d) vs)].

(** ** debug_union.rs *)
Definition dbg_union_body (name : option string) : block :=
  let size := ELet false "size"
                (ECall (EToks (core_path ["mem"; "size_of"] ++ [P "::"; P "<"; I "Self"; P ">"])) []) in
  let data := ELet false "data"
                (EUnsafe [ECall (EPath (RCore ["slice"; "from_raw_parts"]))
                            [ECast (ECast (EVar "self") [P "*"; I "const"; I "Self"])
                                   const_u8_ty;
                             EVar "size"]]) in
  match name with
  | Some n =>
      [let_builder "debug_tuple" [stringify [I n]]; size; data;
       builder_stmt "field" [ERef (EVar "data")]; builder_finish]
  | None =>
      [size; data; ECall (EPath (RCore ["fmt"; "Debug"; "fmt"])) [EVar "data"; EVar "f"]]
  end.

(** * The handlers *)

(** debug_enum.rs: one variant *)
Definition debug_variant F traits (name : option string) (v : variant) : outcome dvariant :=
  let named := match v_fields v with FNamed _ => true | _ => false end in
  let* ta := debug_variant_attr F traits
               {| tb_flag := false; tb_unsafe := false; tb_name := true; tb_named_field := true;
                  tb_bound := false; tb_name0 := TNDefault; tb_named_field0 := named |}
               (v_attrs v) in
  let ns := name_string name (tname_ident (dt_name ta) (v_name v)) in
  match v_fields v with
  | FUnit =>
      if is_some ns then
        Ok {| dv_ident := v_name v; dv_fields := FUnit; dv_name_string := ns;
              dv_named_field := dt_named_field ta; dv_list := [] |}
      else Err E_debug_unit_variant_name
  | fs =>
      let* l := debug_field_attrs F traits (dt_named_field ta) (fields_list fs) in
      if negb (has_shown l) && negb (is_some ns) then Err E_debug_unit_struct_name
      else Ok {| dv_ident := v_name v; dv_fields := fs; dv_name_string := ns;
                 dv_named_field := dt_named_field ta; dv_list := l |}
  end.

Definition expand_debug (F : features) (traits : list trait) (d : dinput) (m : meta)
  : outcome (list item) :=
  match d_data d with
  | DStruct fs =>
      let is_tuple := match fs with FUnnamed _ => true | _ => false end in
      let* ta := build_dtattr
                   {| tb_flag := true; tb_unsafe := false; tb_name := true; tb_named_field := true;
                      tb_bound := true; tb_name0 := TNDefault; tb_named_field0 := negb is_tuple |} m in
      let name := tname_ident (dt_name ta) (d_name d) in
      let* l := debug_field_attrs F traits (dt_named_field ta) (fields_list fs) in
      if negb (has_shown l) && negb (is_some name) then Err E_debug_unit_struct_name
      else
        let g := push_preds (d_generics d)
                   (bound_preds (dt_bound ta) (d_generics d) debug_trait (dbg_types l) []) in
        Ok [dbg_item d g false (dbg_struct_body d name (dt_named_field ta) l)]
  | DEnum vs =>
      let* ta := build_dtattr
                   {| tb_flag := true; tb_unsafe := false; tb_name := true; tb_named_field := false;
                      tb_bound := true; tb_name0 := TNDisable; tb_named_field0 := false |} m in
      let name := tname_ident (dt_name ta) (d_name d) in
      let* dvs := mapM (debug_variant F traits name) vs in
      if is_nil dvs && negb (is_some name) then Err E_debug_unit_enum_name
      else
        let g := push_preds (d_generics d)
                   (bound_preds (dt_bound ta) (d_generics d) debug_trait
                      (flat_map (fun v => dbg_types (dv_list v)) dvs) []) in
        Ok [dbg_item d g false (dbg_enum_body d name dvs)]
  | DUnion fs =>
      let* ta := build_dtattr
                   {| tb_flag := true; tb_unsafe := true; tb_name := true; tb_named_field := false;
                      tb_bound := false; tb_name0 := TNDefault; tb_named_field0 := false |} m in
      (* debug/panic.rs union_without_unsafe: the string surgery (push_str / insert_str(6))
         never panics: the text always starts with "Debug" + at least two more bytes
         unless it is exactly "Debug" *)
      if negb (dt_unsafe ta) then Err E_union_without_unsafe
      else
        let* _ := mapM (fun f => debug_field_attr F traits false false false (f_attrs f)) fs in
        Ok [dbg_item d (d_generics d) true
              (dbg_union_body (tname_ident (dt_name ta) (d_name d)))]
  end.
