(** trait_handlers/clone (and the Copy companion impl it emits).

    Two stages: *analysis* turns the attributes into a plan (per field: the
    field and its optional `method` path; per variant: name, shape, field
    list), in the [outcome] monad; *emission* turns a plan into AST, with
    pure total functions. *)
From Educe.Model Require Export Attr.

(** ** analysis *)

(** clone/models/field_attribute.rs : `Clone(method(path))` only; a bare
    `Clone` or `Clone = v` is refused.  This is [build_fattr] without
    `ignore`. *)
Definition clone_field_attr F traits (enable_method : bool) (attrs : list attr)
  : outcome (option toks) :=
  let* o := scan_attrs F (trait_eqb TClone) (build_fattr false enable_method) traits attrs in
  Ok (match o with Some a => fa_method a | None => None end).

(** clone/models/type_attribute.rs on a variant: flag and bound both disabled *)
Definition clone_variant_attr F traits (attrs : list attr) : outcome unit :=
  let* _ := scan_attrs F (trait_eqb TClone) (build_tattr false false false) traits attrs in
  Ok Datatypes.tt.

(** a field with its custom clone method *)
Definition cfield := (field * option toks)%type.

Definition clone_field_attrs F traits (enable_method : bool) (fs : list field)
  : outcome (list cfield) :=
  mapM (fun f => let* m := clone_field_attr F traits enable_method (f_attrs f) in Ok (f, m)) fs.

(** a variant of the plan *)
Record cvariant := { cv_name : string; cv_fields : fields; cv_plan : list cfield }.

Definition clone_variant F traits (v : variant) : outcome cvariant :=
  let* _ := clone_variant_attr F traits (v_attrs v) in
  let* l := clone_field_attrs F traits true (fields_list (v_fields v)) in
  Ok {| cv_name := v_name v; cv_fields := v_fields v; cv_plan := l |}.

(** ** emission *)

Definition clone_fn : expr := EPath (RCore ["clone"; "Clone"; "clone"]).
Definition clone_from_fn : expr := EPath (RCore ["clone"; "Clone"; "clone_from"]).

(** `#clone(src)` | `::core::clone::Clone::clone(src)` *)
Definition clone_call (m : option toks) (src : expr) : expr :=
  ECall (match m with Some p => EPath (RUser p) | None => clone_fn end) [src].

(** one statement of a clone_from body:
    `dst_place = #clone(src);` | `::core::clone::Clone::clone_from(dst_ref, src);` *)
Definition clone_from_stmt (m : option toks) (dst_place dst_ref src : expr) : expr :=
  match m with
  | Some p => ESemi (EAssign dst_place (ECall (EPath (RUser p)) [src]))
  | None => ESemi (ECall clone_from_fn [dst_ref; src])
  end.

(** the field types that get a bound: fields without a custom method *)
Definition clone_types (l : list cfield) : list toks :=
  flat_map (fun '(f, m) => match m with Some _ => [] | None => [f_ty f] end) l.

(** `let _ = source;` *)
Definition let_source : block := [ELet false "_" (EVar "source")].

(** `*self` (Copy shortcut, unions) *)
Definition deref_self : block := [EDeref (EVar "self")].

(** clone_struct.rs, one field of a named / tuple struct:
    the operand of clone `&self.f` and the clone_from statement on
    `self.f` / `&mut self.f` / `&source.f` *)
Definition cs_clone_field (n : string) (m : option toks) : expr :=
  clone_call m (ERef (EField (EVar "self") n)).
Definition cs_clone_from_field (n : string) (m : option toks) : expr :=
  clone_from_stmt m (EField (EVar "self") n) (ERefMut (EField (EVar "self") n))
                  (ERef (EField (EVar "source") n)).

(** clone_struct.rs, the body of `clone` (Fields::Unit / Named / Unnamed, !contains_copy) *)
Definition clone_struct_body (fs : fields) (l : list cfield) : block :=
  match fs with
  | FUnit => [EPath RSelf]
  | FNamed _ =>
      [EStruct RSelf (map (fun '(i, (f, m)) => (field_member f i, cs_clone_field (field_member f i) m))
                          (indexed l)) true]
  | FUnnamed _ =>
      [ECallT (EPath RSelf) (map (fun '(i, (f, m)) => cs_clone_field (dec i) m) (indexed l))]
  end.

(** clone_struct.rs, the body of `clone_from` (!contains_copy) *)
Definition clone_from_struct_body (fs : fields) (l : list cfield) : block :=
  match fs with
  | FUnit => let_source
  | FNamed _ =>
      if is_nil l then let_source
      else map (fun '(i, (f, m)) => cs_clone_from_field (field_member f i) m) (indexed l)
  | FUnnamed _ =>
      if is_nil l then let_source
      else map (fun '(i, (f, m)) => cs_clone_from_field (dec i) m) (indexed l)
  end.

(** clone_enum.rs: `else { *self = ::core::clone::Clone::clone(source); }` *)
Definition else_clone_source : option block :=
  Some [ESemi (EAssign (EDeref (EVar "self")) (ECall clone_fn [EVar "source"]))].

Definition cfield_name (f : field) : string :=
  match f_name f with Some n => n | None => "" end.

(** clone_enum.rs, the `clone` arm of one variant (Unit / Named / Unnamed) *)
Definition clone_arm (v : cvariant) : pat * expr :=
  let vn := cv_name v in
  match cv_fields v with
  | FUnit => (PPath (RSelfV vn), EPath (RSelfV vn))
  | FNamed _ =>
      (PStruct (RSelfV vn)
         (map (fun '(f, m) => (cfield_name f, Some (PBind ("_s_" ^^ unraw (cfield_name f)))))
              (cv_plan v)) true false,
       EStruct (RSelfV vn)
         (map (fun '(f, m) => (cfield_name f, clone_call m (EVar ("_s_" ^^ unraw (cfield_name f)))))
              (cv_plan v)) true)
  | FUnnamed _ =>
      (PTuple (RSelfV vn)
         (map (fun '(i, (f, m)) => PBind ("_" ^^ dec i)) (indexed (cv_plan v))) true false,
       ECallT (EPath (RSelfV vn))
         (map (fun '(i, (f, m)) => clone_call m (EVar ("_" ^^ dec i))) (indexed (cv_plan v))))
  end.

(** clone_enum.rs, the `clone_from` arm of one variant:
    `Self::V <dst pattern> => { if let Self::V <src pattern> = source { .. } else { *self = clone(source); } },` *)
Definition clone_from_arm (v : cvariant) : pat * expr :=
  let vn := cv_name v in
  match cv_fields v with
  | FUnit =>
      (PPath (RSelfV vn),
       EBlock [EIfLet (PPath (RSelfV vn)) (EVar "source") [] else_clone_source])
  | FNamed _ =>
      let pats (pre : string) :=
        map (fun '(f, m) => (cfield_name f, Some (PBind (pre ^^ unraw (cfield_name f)))))
            (cv_plan v) in
      (PStruct (RSelfV vn) (pats "_d_") true false,
       EBlock [EIfLet (PStruct (RSelfV vn) (pats "_s_") true false) (EVar "source")
                 (map (fun '(f, m) =>
                         let d := EVar ("_d_" ^^ unraw (cfield_name f)) in
                         clone_from_stmt m (EDeref d) d (EVar ("_s_" ^^ unraw (cfield_name f))))
                      (cv_plan v))
                 else_clone_source])
  | FUnnamed _ =>
      let pats (pre : string) :=
        map (fun '(i, (f, m)) => PBind (pre ^^ dec i)) (indexed (cv_plan v)) in
      (* the binding of `self`'s field is `_i`, that of `source`'s field `__i` *)
      (PTuple (RSelfV vn) (pats "_") true false,
       EBlock [EIfLet (PTuple (RSelfV vn) (pats "__") true false) (EVar "source")
                 (map (fun '(i, (f, m)) =>
                         let d := EVar ("_" ^^ dec i) in
                         clone_from_stmt m (EDeref d) d (EVar ("__" ^^ dec i)))
                      (indexed (cv_plan v)))
                 else_clone_source])
  end.

(** clone_enum.rs, the body of `clone` (!contains_copy) *)
Definition clone_enum_body (vs : list cvariant) : block :=
  if is_nil vs then [EMacro "unreachable" []]
  else [EMatch (EVar "self") (map clone_arm vs)].

(** clone_enum.rs, the body of `clone_from` (!contains_copy) *)
Definition clone_from_enum_body (vs : list cvariant) : block :=
  if is_nil vs then let_source
  else [EMatchC (EVar "self") (map clone_from_arm vs)].

(** does any field of the enum carry a custom method (has_custom_clone_method) *)
Definition has_custom_method (vs : list cvariant) : bool :=
  existsb (fun v => existsb (fun '(f, m) => match m with Some _ => true | None => false end)
                            (cv_plan v)) vs.

Definition clone_sig : toks := [G Paren [P "&"; I "self"]; P "->"; I "Self"].
Definition clone_from_sig : toks :=
  [G Paren [P "&"; I "mut"; I "self"; P ","; I "source"; P ":"; P "&"; I "Self"]].

(** the final `impl .. Clone for ..` (the clone_from fn only when its body
    is not empty) and, when Copy is educed, `impl .. Copy for .. { }` with
    the same generics and where-clause *)
Definition clone_items (copy_educed : bool) (d : dinput) (g : generics)
           (body from_body : block) : list item :=
  {| i_attrs := []; i_generics := g; i_trait := Some (core_path ["clone"; "Clone"]);
     i_self := d_name d;
     i_members :=
       MFn inline_attr "clone" clone_sig ["self"] body ::
       (if is_nil from_body then []
        else [MFn inline_attr "clone_from" clone_from_sig ["self"; "source"] from_body]) |}
  :: (if copy_educed then
        [{| i_attrs := []; i_generics := g; i_trait := Some (core_path ["marker"; "Copy"]);
            i_self := d_name d; i_members := [] |}]
      else []).

(** the trait every non-method field type is bound to *)
Definition clone_bound_trait (contains_copy : bool) : toks :=
  if contains_copy then core_path ["marker"; "Copy"] else core_path ["clone"; "Clone"].

Definition clone_generics (ta : tattr) (contains_copy : bool) (d : dinput) (types : list toks)
  : generics :=
  push_preds (d_generics d)
    (bound_preds (ta_bound ta) (d_generics d) (clone_bound_trait contains_copy) types []).

(** ** the handler *)
Definition expand_clone (F : features) (traits : list trait) (d : dinput) (m : meta)
  : outcome (list item) :=
  let copy_educed := has_trait TCopy F && has_trait TCopy traits in
  let* ta := build_tattr true false true m in
  match d_data d with
  | DStruct fs =>
      (* clone_struct.rs : contains_copy = Copy is educed; `method` is then refused *)
      let* l := clone_field_attrs F traits (negb copy_educed) (fields_list fs) in
      let g := clone_generics ta copy_educed d (clone_types l) in
      Ok (if copy_educed then clone_items true d g deref_self []
          else clone_items false d g (clone_struct_body fs l) (clone_from_struct_body fs l))
  | DEnum vs =>
      (* clone_enum.rs : contains_copy = Copy is educed and no field has a method *)
      let* cvs := mapM (clone_variant F traits) vs in
      let contains_copy := negb (has_custom_method cvs) && copy_educed in
      let g := clone_generics ta contains_copy d (flat_map (fun v => clone_types (cv_plan v)) cvs) in
      Ok (if contains_copy then clone_items copy_educed d g deref_self []
          else clone_items copy_educed d g (clone_enum_body cvs) (clone_from_enum_body cvs))
  | DUnion fs =>
      (* clone_union.rs : `*self`, Copy bound on every field type, no field parameters *)
      let* l := clone_field_attrs F traits false fs in
      let g := clone_generics ta true d (map (fun f => f_ty f) fs) in
      Ok (clone_items copy_educed d g deref_self [])
  end.
