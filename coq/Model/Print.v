(** Printer from the AST to token trees, token for token what the quote!
    templates of educe produce. *)
From Educe.Model Require Export Ast.

Fixpoint sep_by {A} (sep : list A) (l : list (list A)) : list A :=
  match l with
  | [] => []
  | [x] => x
  | x :: r => x ++ sep ++ sep_by sep r
  end.
Definition each_then {A} (suffix : list A) (l : list (list A)) : list A :=
  flat_map (fun x => x ++ suffix) l.
Definition comma : toks := [P ","].
Definition list_toks (trailing : bool) (l : list toks) : toks :=
  if trailing then each_then comma l else sep_by comma l.

Definition path_toks (segs : list string) : toks :=
  sep_by [P "::"] (map (fun s => [I s]) segs).

Definition rpath_toks (p : rpath) : toks :=
  match p with
  | RCore segs => P "::" :: path_toks ("core" :: segs)
  | RSelfV v => [I "Self"; P "::"; I v]
  | RSelf => [I "Self"]
  | RLocal segs => path_toks segs
  | RUser ts => ts
  end.

Fixpoint pat_toks (p : pat) : toks :=
  match p with
  | PWild => [I "_"]
  | PBind x => [I x]
  | PPath p => rpath_toks p
  | PTuple p ps trailing rest =>
      rpath_toks p ++
      [G Paren (list_toks (trailing || (rest && negb (is_nil ps))) (map pat_toks ps)
                ++ (if rest then [P ".."] else []))]
  | PStruct p fs trailing rest =>
      rpath_toks p ++
      [G Brace (list_toks (trailing || (rest && negb (is_nil fs)))
                  (map (fun '(n, op) => match op with
                                        | Some q => [I n; P ":"] ++ pat_toks q
                                        | None => [I n]
                                        end) fs)
                ++ (if rest then [P ".."] else []))]
  end.

Definition is_block (e : expr) : bool :=
  match e with EBlock _ => true | _ => false end.

Definition dquote : string := """".
(** fixed parts of the local helper templates of trait_handlers/debug/common.rs *)
Definition allow_ncct_attr : toks :=
  [P "#"; G Bracket [I "allow"; G Paren [I "non_camel_case_types"]]].
Definition dbg_inline_attr : toks := [P "#"; G Bracket [I "inline"]].
(** `(&self, <f>: &mut ::core::fmt::Formatter[<'_>]) -> ::core::fmt::Result` *)
Definition fmt_sig (fname : string) (anon_lifetime : bool) : toks :=
  [G Paren ([P "&"; I "self"; P ","; I fname; P ":"; P "&"; I "mut"] ++
            rpath_toks (RCore ["fmt"; "Formatter"]) ++
            (if anon_lifetime then [P "<"; TLife "_"; P ">"] else []));
   P "->"] ++ rpath_toks (RCore ["fmt"; "Result"]).
Definition debug_map_builder_toks : toks :=
  allow_ncct_attr ++
  [I "struct"; I "Educe__RawString"; G Paren [P "&"; TLife "static"; P "::"; I "core"; P "::"; I "primitive"; P "::"; I "str"]; P ";"] ++
  [I "impl"] ++ rpath_toks (RCore ["fmt"; "Debug"]) ++ [I "for"; I "Educe__RawString";
   G Brace (dbg_inline_attr ++ [I "fn"; I "fmt"] ++ fmt_sig "f" true ++
            [G Brace [I "f"; P "."; I "write_str"; G Paren [I "self"; P "."; I "0"]]])] ++
  [I "let"; I "mut"; I "builder"; P "="; I "f"; P "."; I "debug_map"; G Paren []; P ";"].
Definition debug_field_arg_toks (impl_generics field_ty self_ty where_clause method field_expr : toks)
  : toks :=
  [I "let"; I "arg"; P "=";
   G Brace
     (allow_ncct_attr ++
      [I "struct"; I "Educe__DebugField"; P "<"; I "V"; P ","; I "M"; P ">";
       G Paren ([I "V"; P ","] ++ rpath_toks (RCore ["marker"; "PhantomData"]) ++ [P "<"; I "M"; P ">"]);
       P ";"] ++
      [I "impl"] ++ impl_generics ++ rpath_toks (RCore ["fmt"; "Debug"]) ++
      [I "for"; I "Educe__DebugField"; P "<"; P "&"] ++ field_ty ++ [P ","] ++ self_ty ++ [P ">"] ++
      where_clause ++
      [G Brace (dbg_inline_attr ++ [I "fn"; I "fmt"] ++ fmt_sig "educe__f" true ++
                [G Brace (method ++ [G Paren [I "self"; P "."; I "0"; P ","; I "educe__f"]])])] ++
      [I "Educe__DebugField";
       G Paren (field_expr ++ [P ","] ++ rpath_toks (RCore ["marker"; "PhantomData"]) ++
                [P "::"; P "<"; I "Self"; P ">"])]);
   P ";"].
(** `&match x { Self::V { .. } => <d>i128, .. }` (common/tools/discriminant_type.rs,
    discriminant_value_expr; quote! prints an i128 as a suffixed literal, a negative one as `-` followed by the literal) *)
Definition discr_lit (z : Z) : toks :=
  if Z.ltb z 0 then [P "-"; TLit (LKInt (Z.opp z) "i128") (decZ (Z.opp z) ^^ "i128")]
  else [TLit (LKInt z "i128") (decZ z ^^ "i128")].
Definition discr_ref_toks (x : string) (ds : list (string * Z)) : toks :=
  [P "&"; I "match"; I x;
   G Brace (flat_map (fun '(v, z) => [I "Self"; P "::"; I v; G Brace [P ".."]; P "=>"] ++ discr_lit z ++ [P ","]) ds)].
Definition discr_cmp_toks (ds : list (string * Z)) : toks :=
  P "::" :: path_toks ["core"; "cmp"; "Ord"; "cmp"] ++
  [G Paren (discr_ref_toks "self" ds ++ comma ++ discr_ref_toks "other" ds)].
Definition ordering_arm_toks (c : string) (body : toks) : toks :=
  P "::" :: path_toks ["core"; "cmp"; "Ordering"; c] ++ [P "=>"] ++ body ++ comma.

Fixpoint expr_toks (e : expr) : toks :=
  match e with
  | EVar x => [I x]
  | EPath p => rpath_toks p
  | EUnit => [G Paren []]
  | EBool b => [I (if b then "true" else "false")]
  | EUsize n => [TLit (LKInt (Z.of_nat n) "usize") (dec n ^^ "usize")]
  | EToks ts => ts
  | ECall f args => expr_toks f ++ [G Paren (sep_by comma (map expr_toks args))]
  | EMethod r m args => expr_toks r ++ [P "."; I m; G Paren (sep_by comma (map expr_toks args))]
  | ERef e => P "&" :: expr_toks e
  | ERefMut e => P "&" :: I "mut" :: expr_toks e
  | EDeref e => P "*" :: expr_toks e
  | ENot e => P "!" :: expr_toks e
  | EField e m => expr_toks e ++ [P "."; I m]
  | EReturn e => I "return" :: expr_toks e
  | EIf c th el =>
      I "if" :: expr_toks c ++ [G Brace (flat_map expr_toks th)] ++
      match el with Some b => [I "else"; G Brace (flat_map expr_toks b)] | None => [] end
  | EIfLet p s th el =>
      I "if" :: I "let" :: pat_toks p ++ [P "="] ++ expr_toks s ++
      [G Brace (flat_map expr_toks th)] ++
      match el with Some b => [I "else"; G Brace (flat_map expr_toks b)] | None => [] end
  | EMatch s arms =>
      I "match" :: expr_toks s ++
      [G Brace (flat_map (fun '(p, b) => pat_toks p ++ [P "=>"] ++ expr_toks b ++
                                          (if is_block b then [] else comma)) arms)]
  | EBlock b => [G Brace (flat_map expr_toks b)]
  | EUnsafe b => [I "unsafe"; G Brace (flat_map expr_toks b)]
  | ECast e ty => expr_toks e ++ [I "as"] ++ ty
  | EAssign l r => expr_toks l ++ [P "="] ++ expr_toks r
  | EStruct p fs trailing =>
      rpath_toks p ++
      [G Brace (list_toks trailing (map (fun '(n, v) => [I n; P ":"] ++ expr_toks v) fs))]
  | EMacro name args => [P "::"; I "core"; P "::"; I name; P "!"; G Paren args]
  | ELet m x e => I "let" :: (if m then [I "mut"] else []) ++ [I x; P "="] ++ expr_toks e ++ [P ";"]
  | ESemi e => expr_toks e ++ [P ";"]
  | ECallT f args => expr_toks f ++ [G Paren (each_then comma (map expr_toks args))]
  | EMatchC s arms =>
      I "match" :: expr_toks s ++
      [G Brace (flat_map (fun '(p, b) => pat_toks p ++ [P "=>"] ++ expr_toks b ++ comma) arms)]
  | EStr s => [TStr (dquote ^^ s ^^ dquote) s None]
  | EDebugMapBuilder => debug_map_builder_toks
  | EDebugFieldArg ig fty sty wc m fe => debug_field_arg_toks ig fty sty wc m (expr_toks fe)
  | EDiscrMatch ds eq gt lt =>
      I "match" :: discr_cmp_toks ds ++
      [G Brace (ordering_arm_toks "Equal" (expr_toks eq) ++
                ordering_arm_toks "Greater" (expr_toks gt) ++
                ordering_arm_toks "Less" (expr_toks lt))]
  | EQPath ty tr name => [P "<"] ++ ty ++ [I "as"] ++ rpath_toks tr ++ [P ">"; P "::"; I name]
  end.

Definition block_toks (b : block) : toks := flat_map expr_toks b.

(** ** Generics::split_for_impl (syn/src/generics.rs) *)
Definition gparam_impl_toks (g : gparam) : toks :=
  match g with
  | GLife n bounds => TLife n :: (if is_nil bounds then [] else P ":" :: bounds)
  | GType n bounds _ => I n :: (if is_nil bounds then [] else P ":" :: bounds)
  | GConst n ty _ => [I "const"; I n; P ":"] ++ ty
  end.
Definition gparam_ty_toks (g : gparam) : toks :=
  match g with
  | GLife n _ => [TLife n]
  | GType n _ _ => [I n]
  | GConst n _ _ => [I n]
  end.

Definition impl_generics_toks (g : generics) : toks :=
  if is_nil (g_params g) then []
  else [P "<"] ++ list_toks (g_trailing g) (map gparam_impl_toks (g_params g)) ++ [P ">"].
Definition ty_generics_toks (g : generics) : toks :=
  if is_nil (g_params g) then []
  else [P "<"] ++ list_toks (g_trailing g) (map gparam_ty_toks (g_params g)) ++ [P ">"].
Definition where_toks (g : generics) : toks :=
  if is_nil (g_where g) then []
  else I "where" :: list_toks (g_where_trailing g) (g_where g).

Definition member_toks (m : member) : toks :=
  match m with
  | MFn attrs name sig _ body => attrs ++ [I "fn"; I name] ++ sig ++ [G Brace (block_toks body)]
  | MType name ty => [I "type"; I name; P "="] ++ ty ++ [P ";"]
  end.

Definition item_toks (it : item) : toks :=
  i_attrs it ++ [I "impl"] ++ impl_generics_toks (i_generics it) ++
  match i_trait it with Some t => t ++ [I "for"] | None => [] end ++
  [I (i_self it)] ++ ty_generics_toks (i_generics it) ++ where_toks (i_generics it) ++
  [G Brace (flat_map member_toks (i_members it))].

Definition items_toks (l : list item) : toks := flat_map item_toks l.

(** `where_clause.predicates.push(p)`: a comma is inserted first when the
    user's clause does not end in one; the pushed predicate has none. *)
Definition push_preds (g : generics) (added : list toks) : generics :=
  if is_nil added then g
  else {| g_params := g_params g; g_trailing := g_trailing g;
          g_where := g_where g ++ added; g_where_trailing := false |}.
