(** trait_handlers/deref_mut : same analysis as deref (with the DerefMut
    marker, which may designate a different field), no `Target`. *)
From Educe.Model Require Export Expand_Deref.

(** deref_mut_struct.rs : `self.f` when the field type is a reference
    (outermost), else `&mut self.f` *)
Definition deref_mut_struct_body (i : nat) (f : field) : block :=
  let place := EField (EVar "self") (field_member f i) in
  [if is_ref_type (f_ty f) then place else ERefMut place].

Definition deref_mut_sig : toks :=
  [G Paren [P "&"; I "mut"; I "self"]; P "->"; P "&"; I "mut"; I "Self"; P "::"; I "Target"].

(** impl ::core::ops::DerefMut for T { #[inline] fn deref_mut(&mut self) -> &mut Self::Target { .. } } *)
Definition deref_mut_item (d : dinput) (body : block) : item :=
  {| i_attrs := []; i_generics := d_generics d;
     i_trait := Some (core_path ["ops"; "DerefMut"]); i_self := d_name d;
     i_members := [MFn inline_attr "deref_mut" deref_mut_sig ["self"] body] |}.

Definition deref_mut_emit (d : dinput) (p : deref_plan) : list item :=
  match p with
  | DPStruct i f => [deref_mut_item d (deref_mut_struct_body i f)]
  | DPEnum x r => [deref_mut_item d (deref_match (x :: r))]
  end.

Definition expand_deref_mut (F : features) (traits : list trait) (d : dinput) (m : meta)
  : outcome (list item) :=
  let* p := deref_analyse F TDerefMut traits d m in
  Ok (deref_mut_emit d p).
