(** trait_handlers/ord (and the PartialOrd companion impl it emits).  The
    field attribute, the rank map, the discriminant type and the comparison
    templates are shared with Expand_PartialOrd.v ([partial] = false). *)
From Educe.Model Require Export Expand_PartialOrd.

(** models/{type,field}_attribute.rs, build_from_attributes: `Ord(..)`, and
    `PartialOrd(..)` when PartialOrd is educed too, address the same attribute *)
Definition own_ord (F : features) (traits : list trait) (t : trait) : bool :=
  trait_eqb t TOrd
  || (has_trait TPartialOrd F && has_trait TPartialOrd traits && trait_eqb t TPartialOrd).

(** ord/mod.rs, supertraits: `Self: Eq`, and `Self: PartialOrd` unless PartialOrd is educed *)
Definition ord_supertraits (F : features) (traits : list trait) : list toks :=
  core_path ["cmp"; "Eq"]
  :: (if has_trait TPartialOrd F && negb (has_trait TPartialOrd traits)
      then [core_path ["cmp"; "PartialOrd"]] else []).

(** `impl .. ::core::cmp::Ord for T .. { #[inline] fn cmp(&self, other: &Self) -> Ordering { body } }` *)
Definition ord_item (d : dinput) (g : generics) (body : block) : item :=
  {| i_attrs := []; i_generics := g; i_trait := Some (core_path ["cmp"; "Ord"]);
     i_self := d_name d;
     i_members := [MFn inline_attr "cmp" cmp_sig ["self"; "other"] body] |}.

(** ord_struct.rs / ord_enum.rs, the companion emitted when PartialOrd is educed:
    `fn partial_cmp(&self, other: &Self) -> Option<Ordering> { Some(::core::cmp::Ord::cmp(self, other)) }`
    with the generics and where-clause of the Ord impl *)
Definition partial_ord_via_ord_body : block :=
  [ECall (EPath (RCore ["option"; "Option"; "Some"]))
     [ECall (EPath (RCore ["cmp"; "Ord"; "cmp"])) [EVar "self"; EVar "other"]]].

Definition ord_items (F : features) (traits : list trait) (d : dinput) (g : generics)
           (body : block) : list item :=
  ord_item d g body
  :: (if has_trait TPartialOrd F && has_trait TPartialOrd traits
      then [partial_ord_item d g partial_ord_via_ord_body] else []).

Definition expand_ord (F : features) (traits : list trait) (d : dinput) (m : meta)
  : outcome (list item) :=
  let own := own_ord F traits in
  let bound_trait := core_path ["cmp"; "Ord"] in
  let supertraits := ord_supertraits F traits in
  match d_data d with
  | DStruct fs =>
      let* ta := build_tattr true false true m in
      let* p := plan_fields F own traits (fields_list fs) in
      let g := push_preds (d_generics d)
                 (bound_preds (ta_bound ta) (d_generics d) bound_trait (ord_types p) supertraits) in
      Ok (ord_items F traits d g (cmp_struct_body false p))
  | DEnum vs =>
      let* ta := build_tattr true false true m in
      let* ty := discriminant_values vs in
      let* vps := mapM (plan_variant F own traits) vs in
      let g := push_preds (d_generics d)
                 (bound_preds (ta_bound ta) (d_generics d) bound_trait
                    (flat_map vplan_types vps) supertraits) in
      Ok (ord_items F traits d g (cmp_enum_body false ty vps))
  | DUnion _ => Err E_no_union
  end.
