(** trait_handlers/default (+ common/expr.rs : auto_adjust_expr).

    Stage 1 (analysis, [outcome] monad): attributes -> a [dplan].
    Stage 2 (emission, pure): [dplan] -> items. *)
From Educe.Model Require Export Attr.

(** * The plan *)

(** the value a field (or the whole type) is initialised with *)
Inductive dvalue :=
| DVExpr (ts : toks)        (* the user's expression, spliced as written *)
| DVInto (ts : toks)        (* a bare literal, wrapped: ::core::convert::Into::into(lit) *)
| DVDefault (ty : toks).    (* no expression: <ty as ::core::default::Default>::default() *)

(** the body of `fn default() -> Self` *)
Inductive dbody :=
| DBExpr (v : dvalue)                                   (* type-level `expression` *)
| DBUnit (p : rpath)                                    (* Self / Self::V *)
| DBNamed (p : rpath) (fs : list (string * dvalue))     (* Self { a: .., }  / Self::V { .. } / union *)
| DBUnnamed (p : rpath) (fs : list dvalue).             (* Self ( .., ) / Self::V ( .., ) *)

Record dplan := { dp_new : bool; dp_bound : bound; dp_body : dbody }.

(** * Analysis *)

(** common/expr.rs: auto_adjust_expr *)
Definition auto_adjust_expr (v : nvexpr) (ty : option toks) : dvalue :=
  if needs_into v ty then DVInto (nvexpr_toks v) else DVExpr (nvexpr_toks v).

(** ** models/type_attribute.rs *)
Record dtattr := { dt_flag : bool; dt_new : bool; dt_expr : option dvalue; dt_bound : bound }.
Definition dtattr_default : dtattr :=
  {| dt_flag := false; dt_new := false; dt_expr := None; dt_bound := BAuto |}.

Record dtstate := { ds_new : bool; ds_expr : option dvalue; ds_bound : bound;
                    ds_new_set : bool; ds_expr_set : bool; ds_bound_set : bool }.

(** the `handler` closure of TypeAttributeBuilder::build_from_default_meta *)
Definition dt_param (enable_new enable_expression enable_bound : bool) (s : dtstate) (m : meta)
  : outcome (option dtstate) :=
  if param_is m ["new"] then
    if negb enable_new then Ok None
    else let* v := meta_2_bool_allow_path m in
         if ds_new_set s then Err E_param_reset
         else Ok (Some {| ds_new := v; ds_expr := ds_expr s; ds_bound := ds_bound s;
                          ds_new_set := true; ds_expr_set := ds_expr_set s;
                          ds_bound_set := ds_bound_set s |})
  else if param_is m ["expression"; "expr"] then
    if negb enable_expression then Ok None
    else let* v := meta_2_expr m in
         if ds_expr_set s then Err E_param_reset
         else Ok (Some {| ds_new := ds_new s; ds_expr := Some (auto_adjust_expr v None);
                          ds_bound := ds_bound s;
                          ds_new_set := ds_new_set s; ds_expr_set := true;
                          ds_bound_set := ds_bound_set s |})
  else if param_is m ["bound"] then
    if negb enable_bound then Ok None
    else let* v := bound_from_meta m in
         if ds_bound_set s then Err E_param_reset
         else Ok (Some {| ds_new := ds_new s; ds_expr := ds_expr s; ds_bound := v;
                          ds_new_set := ds_new_set s; ds_expr_set := ds_expr_set s;
                          ds_bound_set := true |})
  else Ok None.

(** TypeAttributeBuilder::build_from_default_meta *)
Definition build_dtattr (enable_flag enable_new enable_expression enable_bound : bool) (m : meta)
  : outcome dtattr :=
  match m with
  | MPath _ =>
      if enable_flag
      then Ok {| dt_flag := true; dt_new := false; dt_expr := None; dt_bound := BAuto |}
      else Err E_attr_format
  | MNameValue _ _ => Err E_attr_format
  | MList _ _ ts =>
      let* ms := parse_metas ts in
      let* s := run_params (dt_param enable_new enable_expression enable_bound)
                  {| ds_new := false; ds_expr := None; ds_bound := BAuto;
                     ds_new_set := false; ds_expr_set := false; ds_bound_set := false |} ms in
      Ok {| dt_flag := false; dt_new := ds_new s; dt_expr := ds_expr s; dt_bound := ds_bound s |}
  end.

(** TypeAttributeBuilder::build_from_attributes (used on variants: only the flag can be enabled) *)
Definition default_variant_attr F traits (enable_flag : bool) (attrs : list attr) : outcome dtattr :=
  let* o := scan_attrs F (trait_eqb TDefault) (build_dtattr enable_flag false false false)
              traits attrs in
  Ok (match o with Some a => a | None => dtattr_default end).

(** ** models/field_attribute.rs *)
Record dfattr := { df_flag : bool; df_expr : option dvalue }.
Definition dfattr_default : dfattr := {| df_flag := false; df_expr := None |}.

(** the `handler` closure of FieldAttributeBuilder::build_from_default_meta;
    state = (expression, expression_is_set) *)
Definition df_param (enable_expression : bool) (ty : toks) (s : option dvalue * bool) (m : meta)
  : outcome (option (option dvalue * bool)) :=
  if param_is m ["expression"; "expr"] then
    if negb enable_expression then Ok None
    else let* v := meta_2_expr m in
         if snd s then Err E_param_reset
         else Ok (Some (Some (auto_adjust_expr v (Some ty)), true))
  else Ok None.

(** FieldAttributeBuilder::build_from_default_meta *)
Definition build_dfattr (enable_flag enable_expression : bool) (ty : toks) (m : meta)
  : outcome dfattr :=
  match m with
  | MPath _ =>
      if enable_flag then Ok {| df_flag := true; df_expr := None |} else Err E_attr_format
  | MNameValue _ v =>
      if enable_expression
      then Ok {| df_flag := false; df_expr := Some (auto_adjust_expr v (Some ty)) |}
      else Err E_attr_format
  | MList _ _ ts =>
      let* ms := parse_metas ts in
      let* s := run_params (df_param enable_expression ty) (None, false) ms in
      Ok {| df_flag := false; df_expr := fst s |}
  end.

(** FieldAttributeBuilder::build_from_attributes *)
Definition default_field_attr F traits (enable_flag enable_expression : bool) (f : field)
  : outcome dfattr :=
  let* o := scan_attrs F (trait_eqb TDefault)
              (build_dfattr enable_flag enable_expression (f_ty f)) traits (f_attrs f) in
  Ok (match o with Some a => a | None => dfattr_default end).

(** fields that must not carry a Default attribute
    (enable_flag = enable_expression = false; default_enum.rs: ensure_fields_no_attribute) *)
Definition ensure_no_attribute F traits (fs : list field) : outcome unit :=
  let* _ := mapM (default_field_attr F traits false false) fs in Ok Datatypes.tt.

(** ** the value of one field of the constructed struct / variant *)
Definition field_value_of (f : field) (fa : dfattr) : dvalue :=
  match df_expr fa with Some v => v | None => DVDefault (f_ty f) end.

Definition field_name (f : field) : string :=
  match f_name f with Some n => n | None => "" end.

Definition default_field_value F traits (f : field) : outcome dvalue :=
  let* fa := default_field_attr F traits false true f in Ok (field_value_of f fa).

(** default_struct.rs / default_enum.rs: `match &data.fields` / `match &variant.fields` *)
Definition default_fields_body F traits (p : rpath) (fs : fields) : outcome dbody :=
  match fs with
  | FUnit => Ok (DBUnit p)
  | FNamed l =>
      let* vs := mapM (fun f => let* v := default_field_value F traits f in
                                Ok (field_name f, v)) l in
      Ok (DBNamed p vs)
  | FUnnamed l =>
      let* vs := mapM (default_field_value F traits) l in Ok (DBUnnamed p vs)
  end.

(** default_enum.rs: the loop selecting the default variant (more than one variant) *)
Definition select_variant_step F traits (acc : option variant) (v : variant)
  : outcome (option variant) :=
  let* ta := default_variant_attr F traits true (v_attrs v) in
  if dt_flag ta then
    match acc with
    | Some _ => Err E_default_multi_variants
    | None => Ok (Some v)
    end
  else
    let* _ := ensure_no_attribute F traits (fields_list (v_fields v)) in Ok acc.

Definition select_variant F traits (vs : list variant) : outcome variant :=
  match vs with
  | [v] => let* _ := default_variant_attr F traits true (v_attrs v) in Ok v
  | _ =>
      let* o := foldM (select_variant_step F traits) None vs in
      match o with Some v => Ok v | None => Err E_default_no_variant end
  end.

(** default_union.rs: the loop selecting the default field (more than one field) *)
Definition select_field_step F traits (acc : option (field * dfattr)) (f : field)
  : outcome (option (field * dfattr)) :=
  let* fa := default_field_attr F traits true true f in
  if df_flag fa || (match df_expr fa with Some _ => true | None => false end) then
    match acc with
    | Some _ => Err E_default_multi_fields
    | None => Ok (Some (f, fa))
    end
  else Ok acc.

Definition select_field F traits (fs : list field) : outcome (field * dfattr) :=
  match fs with
  | [f] => let* fa := default_field_attr F traits true true f in Ok (f, fa)
  | _ =>
      let* o := foldM (select_field_step F traits) None fs in
      match o with Some x => Ok x | None => Err E_default_no_field end
  end.

(** the three handlers' analysis *)
Definition default_plan (F : features) (traits : list trait) (d : dinput) (m : meta)
  : outcome dplan :=
  let* ta := build_dtattr true true true true m in
  let* body :=
    match d_data d with
    | DStruct fs =>
        match dt_expr ta with
        | Some e => let* _ := ensure_no_attribute F traits (fields_list fs) in Ok (DBExpr e)
        | None => default_fields_body F traits RSelf fs
        end
    | DEnum vs =>
        match dt_expr ta with
        | Some e =>
            let* _ := mapM (fun v =>
                              let* _ := default_variant_attr F traits false (v_attrs v) in
                              ensure_no_attribute F traits (fields_list (v_fields v))) vs in
            Ok (DBExpr e)
        | None =>
            let* v := select_variant F traits vs in
            default_fields_body F traits (RSelfV (v_name v)) (v_fields v)
        end
    | DUnion fs =>
        match dt_expr ta with
        | Some e => let* _ := ensure_no_attribute F traits fs in Ok (DBExpr e)
        | None =>
            let* (f, fa) := select_field F traits fs in
            Ok (DBNamed RSelf [(field_name f, field_value_of f fa)])
        end
    end in
  Ok {| dp_new := dt_new ta; dp_bound := dt_bound ta; dp_body := body |}.

(** * Emission *)

Definition default_trait : rpath := RCore ["default"; "Default"].

(** `#expression` / `::core::convert::Into::into(#expr)` (common/expr.rs) /
    `<#ty as ::core::default::Default>::default()` *)
Definition dvalue_expr (v : dvalue) : expr :=
  match v with
  | DVExpr ts => EToks ts
  | DVInto ts => ECall (EPath (RCore ["convert"; "Into"; "into"])) [EToks ts]
  | DVDefault ty => ECall (EQPath ty default_trait "default") []
  end.

(** default_types.push(ty) : the types of the fields built by `Default::default()` *)
Definition dvalue_types (v : dvalue) : list toks :=
  match v with DVDefault ty => [ty] | _ => [] end.

(** default_*.rs: `default_token_stream`
    - type-level expression: `#expression`
    - Fields::Unit: `Self` / `Self::#variant_ident`
    - Fields::Named (and union): `Self { #field_name: #expression, .. }` (a comma after every field)
    - Fields::Unnamed: `Self ( #expression, .. )` (a comma after every field) *)
Definition dbody_expr (b : dbody) : expr :=
  match b with
  | DBExpr v => dvalue_expr v
  | DBUnit p => EPath p
  | DBNamed p fs => EStruct p (map (fun '(n, v) => (n, dvalue_expr v)) fs) true
  | DBUnnamed p fs => ECallT (EPath p) (map dvalue_expr fs)
  end.

Definition dbody_types (b : dbody) : list toks :=
  match b with
  | DBExpr _ | DBUnit _ => []
  | DBNamed _ fs => flat_map (fun '(_, v) => dvalue_types v) fs
  | DBUnnamed _ fs => flat_map dvalue_types fs
  end.

Definition default_sig : toks := [G Paren []; P "->"; I "Self"].

(** `/// Returns the "default value" for a type.` inside quote! *)
Definition new_doc_attr : toks :=
  [P "#"; G Bracket [I "doc"; P "=";
     TStr "r#"" Returns the ""default value"" for a type.""#"
          " Returns the ""default value"" for a type." None]].

(** impl #impl_generics ::core::default::Default for #ident #ty_generics #where_clause {
        #[inline] fn default() -> Self { #default_token_stream } } *)
Definition default_item (d : dinput) (g : generics) (b : dbody) : item :=
  {| i_attrs := []; i_generics := g; i_trait := Some (rpath_toks default_trait);
     i_self := d_name d;
     i_members := [MFn inline_attr "default" default_sig [] [dbody_expr b]] |}.

(** impl #impl_generics #ident #ty_generics #where_clause {
        /// Returns the "default value" for a type.
        #[inline] pub fn new() -> Self { <Self as ::core::default::Default>::default() } }
    (the member's "attrs" carry everything in front of `fn`, visibility included) *)
Definition new_item (d : dinput) (g : generics) : item :=
  {| i_attrs := []; i_generics := g; i_trait := None; i_self := d_name d;
     i_members := [MFn (new_doc_attr ++ inline_attr ++ [I "pub"]) "new" default_sig []
                       [ECall (EQPath [I "Self"] default_trait "default") []]] |}.

Definition default_items (d : dinput) (p : dplan) : list item :=
  let g := push_preds (d_generics d)
             (bound_preds (dp_bound p) (d_generics d) (rpath_toks default_trait)
                (dbody_types (dp_body p)) []) in
  default_item d g (dp_body p) :: (if dp_new p then [new_item d g] else []).

Definition expand_default (F : features) (traits : list trait) (d : dinput) (m : meta)
  : outcome (list item) :=
  let* p := default_plan F traits d m in Ok (default_items d p).
