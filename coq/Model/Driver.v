(** src/lib.rs : derive_input_handler *)
From Educe.Model Require Export Expand_PartialEq Expand_Eq Expand_Hash Expand_Clone Expand_Copy Expand_Debug Expand_PartialOrd Expand_Ord Expand_Default Expand_Deref Expand_DerefMut Expand_Into.

Definition tmap := list (trait * list meta).

Fixpoint tmap_get (t : trait) (m : tmap) : option (list meta) :=
  match m with
  | [] => None
  | (k, v) :: r => if trait_eqb k t then Some v else tmap_get t r
  end.
Fixpoint tmap_push (t : trait) (x : meta) (m : tmap) : tmap :=
  match m with
  | [] => []
  | (k, v) :: r => if trait_eqb k t then (k, v ++ [x]) :: r else (k, v) :: tmap_push t x r
  end.

Definition collect_meta (F : features) (acc : tmap) (m : meta) : outcome tmap :=
  match trait_from_path F (meta_path m) with
  | None => Err E_unsupported_trait
  | Some t =>
      match tmap_get t acc with
      | Some _ => if trait_eqb t TInto then Ok (tmap_push t m acc) else Err E_reuse_trait
      | None => Ok (acc ++ [(t, [m])])
      end
  end.

Definition collect_attr (F : features) (acc : tmap) (a : attr) : outcome tmap :=
  if is_educe a then
    match a_meta a with
    | AMList _ ts => let* ms := parse_metas ts in foldM (collect_meta F) acc ms
    | _ => Err E_educe_format
    end
  else Ok acc.

Definition handler := features -> list trait -> dinput -> meta -> outcome (list item).

Definition not_modelled (what : string) : handler :=
  fun _ _ _ _ => OutOfDomain what.

(** the handler of each single-meta trait, in the fixed order of lib.rs *)
Definition handlers : list (trait * handler) :=
  [(TDebug, expand_debug);
   (TClone, expand_clone);
   (TCopy, expand_copy);
   (TPartialEq, expand_partial_eq);
   (TEq, expand_eq);
   (TPartialOrd, expand_partial_ord);
   (TOrd, expand_ord);
   (THash, expand_hash);
   (TDefault, expand_default);
   (TDeref, expand_deref);
   (TDerefMut, expand_deref_mut)].

Definition run_handler (F : features) (traits : list trait) (d : dinput) (tm : tmap)
           (acc : list item) (th : trait * handler) : outcome (list item) :=
  let (t, h) := th in
  if has_trait t F then
    match tmap_get t tm with
    | Some (m :: _) => let* its := h F traits d m in Ok (acc ++ its)
    | _ => Ok acc
    end
  else Ok acc.

Definition expand (F : features) (d : dinput) : outcome (list item) :=
  let* tm := foldM (collect_attr F) [] (d_attrs d) in
  let traits := map fst tm in
  let* its := foldM (run_handler F traits d tm) [] handlers in
  let* its := (match tmap_get TInto tm with
               | Some ms => if has_trait TInto F
                            then let* l := expand_into F traits d ms in Ok (its ++ l)
                            else Ok its
               | None => Ok its
               end) in
  if is_nil its then Err E_not_set_up else Ok its.

(** The Into handler iterates a HashMap of targets: when several targets fail,
    the real macro reports the error of whichever comes first in that run.
    [expand_alt_errs] lists the errors of all failing targets (empty unless
    [expand] fails inside that loop). *)
Definition expand_alt_errs (F : features) (d : dinput) : list err :=
  match foldM (collect_attr F) [] (d_attrs d) with
  | Ok tm =>
      let traits := map fst tm in
      match foldM (run_handler F traits d tm) [] handlers with
      | Ok _ =>
          match tmap_get TInto tm with
          | Some ms => if has_trait TInto F then into_alt_errs F traits d ms else []
          | None => []
          end
      | _ => []
      end
  | _ => []
  end.

Definition expand_flat (F : features) (d : dinput) : outcome (list string) :=
  let* its := expand F d in Ok (flat (items_toks its)).

Definition err_name (e : err) : string :=
  match e with
  | E_unsupported_trait => "E_unsupported_trait"
  | E_reuse_trait => "E_reuse_trait"
  | E_educe_format => "E_educe_format"
  | E_trait_not_used => "E_trait_not_used"
  | E_attr_format => "E_attr_format"
  | E_param_reset => "E_param_reset"
  | E_not_set_up => "E_not_set_up"
  | E_no_union => "E_no_union"
  | E_no_unit_variant => "E_no_unit_variant"
  | E_syn => "E_syn"
  | E_debug_unit_struct_name => "E_debug_unit_struct_name"
  | E_debug_unit_variant_name => "E_debug_unit_variant_name"
  | E_debug_unit_enum_name => "E_debug_unit_enum_name"
  | E_union_without_unsafe => "E_union_without_unsafe"
  | E_default_multi_fields => "E_default_multi_fields"
  | E_default_no_field => "E_default_no_field"
  | E_default_multi_variants => "E_default_multi_variants"
  | E_default_no_variant => "E_default_no_variant"
  | E_deref_multi => "E_deref_multi"
  | E_deref_none => "E_deref_none"
  | E_deref_mut_multi => "E_deref_mut_multi"
  | E_deref_mut_none => "E_deref_mut_none"
  | E_into_reset_type => "E_into_reset_type"
  | E_into_no_field => "E_into_no_field"
  | E_into_no_impl => "E_into_no_impl"
  | E_into_multi => "E_into_multi"
  | E_rank_reuse => "E_rank_reuse"
  | E_discriminant => "E_discriminant"
  | E_not_integer => "E_not_integer"
  | E_int_parse => "E_int_parse"
  end.
