(** trait_handlers/eq : stand-alone Eq (with PartialEq educed the impl is
    emitted by the PartialEq handler and this one only validates). *)
From Educe.Model Require Export Attr.

Definition marker_field_attr F (own : trait) traits (attrs : list attr) : outcome unit :=
  let* _ := scan_attrs F (trait_eqb own) (fun _ : meta => @Err unit E_attr_format) traits attrs in
  Ok Datatypes.tt.

Definition marker_variant_attr F (own : trait) traits (attrs : list attr) : outcome unit :=
  let* _ := scan_attrs F (trait_eqb own) (build_tattr false false false) traits attrs in
  Ok Datatypes.tt.

(** validate every variant / field, collecting every field type *)
Definition all_field_types F (own : trait) traits (d : data) : outcome (list toks) :=
  let fields fs := mapM (fun f => let* _ := marker_field_attr F own traits (f_attrs f) in
                                  Ok (f_ty f)) fs in
  match d with
  | DStruct fs => fields (fields_list fs)
  | DEnum vs =>
      let* l := mapM (fun v => let* _ := marker_variant_attr F own traits (v_attrs v) in
                               fields (fields_list (v_fields v))) vs in
      Ok (List.concat l)
  | DUnion fs => fields fs
  end.

Definition expand_eq (F : features) (traits : list trait) (d : dinput) (m : meta)
  : outcome (list item) :=
  let contains_partial_eq := has_trait TPartialEq F && has_trait TPartialEq traits in
  let* ta := build_tattr true false (negb contains_partial_eq) m in
  if contains_partial_eq then Ok []
  else
    let* tys := all_field_types F TEq traits (d_data d) in
    let g := push_preds (d_generics d)
               (bound_preds (ta_bound ta) (d_generics d) (core_path ["cmp"; "PartialEq"]) tys
                  [core_path ["cmp"; "PartialEq"]]) in
    Ok [{| i_attrs := []; i_generics := g; i_trait := Some (core_path ["cmp"; "Eq"]);
           i_self := d_name d; i_members := [] |}].
