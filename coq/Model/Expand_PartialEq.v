(** trait_handlers/partial_eq (and the Eq companion impl it emits). *)
From Educe.Model Require Export Attr.

Definition own_partial_eq (traits : list trait) (t : trait) : bool :=
  trait_eqb t TPartialEq || (has_trait TEq traits && trait_eqb t TEq).

Definition peq_type_attr F traits (attrs : list attr) : outcome tattr :=
  let* o := scan_attrs F (own_partial_eq traits) (build_tattr false false false) traits attrs in
  Ok (match o with Some a => a | None => tattr_default end).

Definition peq_field_attr F traits (ei em : bool) (attrs : list attr) : outcome fattr :=
  let* o := scan_attrs F (own_partial_eq traits) (build_fattr ei em) traits attrs in
  Ok (match o with Some a => a | None => fattr_default end).

Definition ne_path : expr := EPath (RCore ["cmp"; "PartialEq"; "ne"]).

(** one comparison statement; [a], [b] are the two operand expressions *)
Definition peq_check (fa : fattr) (a b : expr) : expr :=
  match fa_method fa with
  | Some m => EIf (ENot (ECall (EPath (RUser m)) [a; b])) [ESemi (EReturn (EBool false))] None
  | None => EIf (ECall ne_path [a; b]) [ESemi (EReturn (EBool false))] None
  end.

Definition peq_types (l : list (field * fattr)) : list toks :=
  flat_map (fun '(f, fa) => if fa_ignore fa then []
                            else match fa_method fa with Some _ => [] | None => [f_ty f] end) l.

(** struct: analysis = attributes of every field, in order *)
Definition peq_struct_body (l : list (nat * field * fattr)) : block :=
  flat_map (fun '(i, f, fa) =>
              if fa_ignore fa then []
              else let n := field_member f i in
                   [peq_check fa (ERef (EField (EVar "self") n)) (ERef (EField (EVar "other") n))]) l.

Definition else_false : option block := Some [ESemi (EReturn (EBool false))].

Definition peq_arm_named (v : string) (l : list (field * fattr)) : pat * expr :=
  let name f := match f_name f with Some n => n | None => "" end in
  let pats (pre : string) :=
    map (fun '(f, fa) => (name f, Some (if fa_ignore fa then PWild
                                        else PBind (pre ^^ unraw (name f))))) l in
  let checks :=
    flat_map (fun '(f, fa) =>
                if fa_ignore fa then []
                else [peq_check fa (EVar ("_s_" ^^ unraw (name f))) (EVar ("_o_" ^^ unraw (name f)))]) l in
  (PStruct (RSelfV v) (pats "_s_") true false,
   EBlock [EIfLet (PStruct (RSelfV v) (pats "_o_") true false) (EVar "other") checks else_false]).

Definition peq_arm_unnamed (v : string) (l : list (nat * (field * fattr))) : pat * expr :=
  let pats (pre : string) :=
    map (fun '(i, (f, fa)) => if fa_ignore fa then PWild else PBind (pre ^^ dec i)) l in
  let checks :=
    flat_map (fun '(i, (f, fa)) =>
                if fa_ignore fa then []
                else [peq_check fa (EVar ("_" ^^ dec i)) (EVar ("__" ^^ dec i))]) l in
  (PTuple (RSelfV v) (pats "_") true false,
   EBlock [EIfLet (PTuple (RSelfV v) (pats "__") true false) (EVar "other") checks else_false]).

Definition peq_arm_unit (v : string) : pat * expr :=
  (PPath (RSelfV v),
   EBlock [EIfLet (PPath (RSelfV v)) (EVar "other") [] else_false]).

Definition eq_sig : toks :=
  [G Paren [P "&"; I "self"; P ","; I "other"; P ":"; P "&"; I "Self"]; P "->";
   P "::"; I "core"; P "::"; I "primitive"; P "::"; I "bool"].

Definition peq_items (traits : list trait) (F : features) (d : dinput) (g : generics)
           (body : block) : list item :=
  let it := {| i_attrs := []; i_generics := g;
               i_trait := Some (core_path ["cmp"; "PartialEq"]);
               i_self := d_name d;
               i_members := [MFn inline_attr "eq" eq_sig ["self"; "other"]
                                 (body ++ [EBool true])] |} in
  it :: (if has_trait TEq F && has_trait TEq traits then
           [{| i_attrs := []; i_generics := g; i_trait := Some (core_path ["cmp"; "Eq"]);
               i_self := d_name d; i_members := [] |}]
         else []).

Definition field_attrs F traits (fs : list field) : outcome (list (field * fattr)) :=
  mapM (fun f => let* fa := peq_field_attr F traits true true (f_attrs f) in Ok (f, fa)) fs.

Definition peq_variant F traits (v : variant) : outcome ((pat * expr) * list toks) :=
  let* _ := peq_type_attr F traits (v_attrs v) in
  match v_fields v with
  | FUnit => Ok (peq_arm_unit (v_name v), [])
  | FNamed fs => let* l := field_attrs F traits fs in
                 Ok (peq_arm_named (v_name v) l, peq_types l)
  | FUnnamed fs => let* l := field_attrs F traits fs in
                   Ok (peq_arm_unnamed (v_name v) (indexed l), peq_types l)
  end.

Definition peq_union_body : block :=
  let raw (x : string) :=
    EUnsafe [ECall (EPath (RCore ["slice"; "from_raw_parts"]))
               [ECast (ECast (EVar x) [P "*"; I "const"; I "Self"]) const_u8_ty;
                EVar "size"]] in
  [ELet false "size" (ECall (EToks (core_path ["mem"; "size_of"] ++ [P "::"; P "<"; I "Self"; P ">"])) []);
   ELet false "self_data" (raw "self");
   ELet false "other_data" (raw "other");
   ECall (EPath (RCore ["cmp"; "PartialEq"; "eq"])) [EVar "self_data"; EVar "other_data"]].

Definition expand_partial_eq (F : features) (traits : list trait) (d : dinput) (m : meta)
  : outcome (list item) :=
  match d_data d with
  | DStruct fs =>
      let* ta := build_tattr true false true m in
      let* l := field_attrs F traits (fields_list fs) in
      let g := push_preds (d_generics d)
                 (bound_preds (ta_bound ta) (d_generics d) (core_path ["cmp"; "PartialEq"])
                    (peq_types l) []) in
      Ok (peq_items traits F d g
            (peq_struct_body (map (fun '(i, (f, fa)) => (i, f, fa)) (indexed l))))
  | DEnum vs =>
      let* ta := build_tattr true false true m in
      let* arms := mapM (peq_variant F traits) vs in
      let g := push_preds (d_generics d)
                 (bound_preds (ta_bound ta) (d_generics d) (core_path ["cmp"; "PartialEq"])
                    (flat_map snd arms) []) in
      Ok (peq_items traits F d g
            (if is_nil arms then [] else [EMatch (EVar "self") (map fst arms)]))
  | DUnion fs =>
      let* ta := build_tattr true true false m in
      if negb (ta_unsafe ta) then
        (* partial_eq/panic.rs union_without_unsafe: the same error for every form of the attribute *)
        Err E_union_without_unsafe
      else
        let* _ := mapM (fun f => peq_field_attr F traits false false (f_attrs f)) fs in
        let it := {| i_attrs := []; i_generics := d_generics d;
                     i_trait := Some (core_path ["cmp"; "PartialEq"]); i_self := d_name d;
                     i_members := [MFn inline_attr "eq" eq_sig ["self"; "other"] peq_union_body] |} in
        Ok (it :: (if has_trait TEq F && has_trait TEq traits then
                     [{| i_attrs := []; i_generics := d_generics d;
                         i_trait := Some (core_path ["cmp"; "Eq"]);
                         i_self := d_name d; i_members := [] |}]
                   else []))
  end.
