(** Abstract syntax of the Rust subset educe emits.

    One (nested) inductive for expressions; statement forms ([ELet],
    [ESemi]) are expression constructors that only occur as elements of a
    block, so no mutual induction is needed.  User-supplied fragments (field
    types, method paths, default expressions, where-predicates) are carried
    as token lists. *)
From Educe.Model Require Export Input.

(** Paths that occur in templates. *)
Inductive rpath :=
| RCore (segs : list string)      (* ::core::a::b::c *)
| RSelfV (v : string)             (* Self::V *)
| RSelf                           (* Self *)
| RLocal (segs : list string)     (* unqualified path written by a template: Some, None, Option *)
| RUser (ts : toks).              (* path supplied by the user (method = ...) *)

Inductive pat :=
| PWild
| PBind (x : string)
| PPath (p : rpath)
| PTuple (p : rpath) (ps : list pat) (trailing : bool) (rest : bool)
      (* P(p1, p2[,] [..]) *)
| PStruct (p : rpath) (fs : list (string * option pat)) (trailing : bool) (rest : bool).
      (* P { a: p, b[,] [..] } ; None = shorthand field *)

Inductive expr :=
| EVar (x : string)                       (* self, other, state, f, a local binding *)
| EPath (p : rpath)
| EUnit                                   (* () *)
| EBool (b : bool)
| EUsize (n : nat)                        (* 0usize *)
| EToks (ts : toks)                       (* spliced user expression / opaque tokens *)
| ECall (f : expr) (args : list expr)
| EMethod (recv : expr) (m : string) (args : list expr)
| ERef (e : expr)                         (* &e *)
| ERefMut (e : expr)                      (* &mut e *)
| EDeref (e : expr)                       (* *e *)
| ENot (e : expr)                         (* !e *)
| EField (e : expr) (m : string)          (* e.m, e.0 *)
| EReturn (e : expr)
| EIf (c : expr) (th : list expr) (el : option (list expr))
| EIfLet (p : pat) (scrut : expr) (th : list expr) (el : option (list expr))
| EMatch (scrut : expr) (arms : list (pat * expr))
| EBlock (b : list expr)
| EUnsafe (b : list expr)
| ECast (e : expr) (ty : toks)
| EAssign (l r : expr)
| EStruct (p : rpath) (fs : list (string * expr)) (trailing : bool)   (* P { a: e, b: e[,] } *)
| EMacro (name : string) (args : toks)    (* ::core::name!(args) *)
| ELet (mutbl : bool) (x : string) (e : expr)   (* statement: let [mut] x = e; *)
| ESemi (e : expr)                        (* statement: e; *)
| ECallT (f : expr) (args : list expr)    (* f(a, b,) : call / tuple constructor, a comma after EVERY argument *)
| EMatchC (scrut : expr) (arms : list (pat * expr))
                                          (* match whose every arm ends in a comma, block arms included: `p => { .. },` *)
(* --- additions for trait_handlers/debug --- *)
| EStr (s : string)                       (* string literal "s" (s needs no escaping) *)
| EDebugMapBuilder
      (* statements: debug/common.rs create_debug_map_builder (Educe__RawString + `let mut builder = f.debug_map();`) *)
| EDebugFieldArg (impl_generics field_ty self_ty where_clause method : toks) (field_expr : expr)
      (* statement: debug/common.rs create_format_arg: `let arg = { struct Educe__DebugField ..; impl ..; Educe__DebugField(field_expr, PhantomData::<Self>) };` *)
| EDiscrMatch (ds : list (string * Z)) (eq gt lt : expr)
      (* partial_ord_enum.rs / ord_enum.rs (ds = every variant with its declared discriminant value):
         match ::core::cmp::Ord::cmp(&match self { Self::V { .. } => <d>i128, .. },
                                     &match other { Self::V { .. } => <d>i128, .. }) {
             ::core::cmp::Ordering::Equal => eq,
             ::core::cmp::Ordering::Greater => gt,
             ::core::cmp::Ordering::Less => lt,
         } *)
| EQPath (ty : toks) (tr : rpath) (name : string).   (* <ty as tr>::name (Default) *)

Definition block := list expr.

(** Members of an impl. *)
Inductive member :=
| MFn (attrs : toks)          (* e.g. #[inline] *)
      (name : string)
      (sig : toks)            (* everything between the name and the body: <generics>(params) -> ret *)
      (params : list string)  (* parameter names, for the semantics *)
      (body : block)
| MType (name : string) (ty : toks).   (* type Target = ty; *)

(** An impl item.  The header is kept structured: the generics (with the
    extended where-clause) are printed by the model of split_for_impl. *)
Record item := {
  i_attrs : toks;               (* attributes before `impl` *)
  i_generics : generics;        (* the type's generics; g_where already extended *)
  i_trait : option toks;        (* trait path incl. generic args; None = inherent impl *)
  i_self : string;              (* the type's name *)
  i_members : list member
}.
