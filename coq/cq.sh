#!/bin/sh
# compile one file with the project's load path (for debugging; use make for real builds)
cd /verif/coq && coqc -q -Q Model Educe.Model -Q Extract Educe.Extract -Q Sem Educe.Sem -Q Spec Educe.Spec -Q Proofs Educe.Proofs -Q Properties Educe.Properties "$@"
