(** Values, places and stores for the semantics of generated code. *)
From Educe.Model Require Export Ast.

(** A place: a root variable holding a struct / enum / union value, plus a
    path of field keys (field name, or the decimal index of a tuple field). *)
Record place := { pl_root : string; pl_path : list string }.
Definition sub (p : place) (k : string) : place :=
  {| pl_root := pl_root p; pl_path := pl_path p ++ [k] |}.

Inductive value :=
| VUnit
| VBool (b : bool)
| VUsize (n : nat)
| VOrd (c : comparison)                 (* ::core::cmp::Ordering : Lt = Less, Eq = Equal, Gt = Greater *)
| VOpt (o : option value)
| VAtom (n : Z)                         (* an opaque value of a field type (also: results of user functions) *)
| VData (variant : option string) (fields : list (string * value))
                                        (* struct (None) or enum variant value; fields keyed by name / index *)
| VRef (p : place)                      (* reference (shared or unique) to a place *)
| VRefTmp (v : value)                   (* reference to a temporary / local value *)
| VStr (s : string)                     (* &'static str produced by stringify! *)
| VTok (ts : toks)                      (* an opaque user expression, identified by its tokens *)
| VBytes (l : list nat).                (* C20: the object representation of a union value (size_of::<Self>() bytes);
                                           behind a reference: a byte slice `&[u8]` *)

Definition store := list (string * value).

Fixpoint lookup {A} (k : string) (l : list (string * A)) : option A :=
  match l with
  | [] => None
  | (k', v) :: r => if String.eqb k k' then Some v else lookup k r
  end.

Definition project (v : value) (k : string) : option value :=
  match v with
  | VData _ fs => lookup k fs
  | _ => None
  end.

Fixpoint project_path (v : value) (p : list string) : option value :=
  match p with
  | [] => Some v
  | k :: r => match project v k with Some w => project_path w r | None => None end
  end.

Definition load (st : store) (p : place) : option value :=
  match lookup (pl_root p) st with
  | Some v => project_path v (pl_path p)
  | None => None
  end.

(** update a field *)
Fixpoint set_assoc (k : string) (v : value) (l : list (string * value)) : list (string * value) :=
  match l with
  | [] => []
  | (k', w) :: r => if String.eqb k k' then (k', v) :: r else (k', w) :: set_assoc k v r
  end.

Fixpoint update_path (old : value) (p : list string) (new : value) : option value :=
  match p with
  | [] => Some new
  | k :: r =>
      match old with
      | VData vn fs =>
          match lookup k fs with
          | Some w => match update_path w r new with
                      | Some w' => Some (VData vn (set_assoc k w' fs))
                      | None => None
                      end
          | None => None
          end
      | _ => None
      end
  end.

Definition store_set (st : store) (p : place) (v : value) : option store :=
  match lookup (pl_root p) st with
  | Some old => match update_path old (pl_path p) v with
                | Some new => Some (set_assoc (pl_root p) new st)
                | None => None
                end
  | None => None
  end.

(** what a reference (or a plain value) denotes *)
Definition strip (st : store) (v : value) : option value :=
  match v with
  | VRef p => load st p
  | VRefTmp w => Some w
  | _ => Some v
  end.
