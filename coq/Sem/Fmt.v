(** A pure string model of core::fmt's Debug builders, for `{:?}` (compact)
    and `{:#?}` (alternate / pretty).

    Transcribed from library/core/src/fmt/builders.rs of the installed
    rust-src (DebugStruct::field_with / finish, DebugTuple::field_with /
    finish, DebugMap::key_with / value_with / finish, PadAdapter::write_str,
    debug_struct_new / debug_tuple_new / debug_map_new).  The sink is a
    String, so no write fails and every builder's `result` stays Ok.

    [render a] is what formatting the value [a] writes under the same flags:
    the field type's own `Debug::fmt`, or the user's `method(value, f)` for
    [FAVia]; the builders pass their formatter's options (the alternate flag
    in particular) on to the value, wrapped in a PadAdapter in pretty mode. *)
From Educe.Sem Require Export Interp.

Definition nl : string := String "010"%char EmptyString.   (* "\n" *)

(** PadAdapter::write_str, char by char: four spaces before the first char
    of every line; [on_newline] is the adapter's state *)
Fixpoint pad (on_newline : bool) (s : string) : string :=
  match s with
  | EmptyString => EmptyString
  | String c r => (if on_newline then "    " else "") ^^ String c (pad (Ascii.eqb c "010"%char) r)
  end.
(** a fresh adapter: `PadAdapterState::default()` has on_newline = true *)
Definition indent (s : string) : string := pad true s.

Section Fmt.
  Variable alt : bool.                         (* Formatter::alternate() *)
  Variable render : fmt_arg -> string.

  (** debug_struct_new / debug_tuple_new write the name; debug_map_new writes "{" *)
  Definition new_text (k : builder_kind) (name : string) : string :=
    match k with BMap => "{" | _ => name end.

  (** the text one `field` / `entry` call appends; [n] = fields so far
      (has_fields = n > 0, DebugTuple::fields = n) *)
  Definition field_text (k : builder_kind) (n : nat) (key : string) (a : fmt_arg) : string :=
    let first := Nat.eqb n 0 in
    match k with
    | BStruct =>
        if alt then (if first then " {" ^^ nl else "") ^^ indent (key ^^ ": " ^^ render a ^^ "," ^^ nl)
        else (if first then " { " else ", ") ^^ key ^^ ": " ^^ render a
    | BTuple =>
        if alt then (if first then "(" ^^ nl else "") ^^ indent (render a ^^ "," ^^ nl)
        else (if first then "(" else ", ") ^^ render a
    | BMap =>
        (* key_with then value_with share one PadAdapterState; the key is the raw string *)
        if alt then (if first then nl else "") ^^ indent (key ^^ ": " ^^ render a ^^ "," ^^ nl)
        else (if first then "" else ", ") ^^ key ^^ ": " ^^ render a
    end.

  Definition finish_text (k : builder_kind) (n : nat) (empty_name : bool) : string :=
    match k with
    | BStruct => if Nat.eqb n 0 then "" else if alt then "}" else " }"
    | BTuple => if Nat.eqb n 0 then ""
                else (if Nat.eqb n 1 && empty_name && negb alt then "," else "") ^^ ")"
    | BMap => "}"
    end.

  Definition is_empty (s : string) : bool := match s with EmptyString => true | _ => false end.

  (** the text a sequence of builder calls writes; [b] = the live builder
      (kind, fields so far, empty_name).  None: a call sequence core::fmt's
      API does not allow (wrong builder, nothing to finish, unfinished). *)
  Fixpoint run_events (b : option (builder_kind * nat * bool)) (evs : list event) : option string :=
    match evs with
    | [] => match b with None => Some "" | Some _ => None end
    | ev :: r =>
        match ev, b with
        | EvWriteStr s, None => option_map (append s) (run_events None r)
        | EvDebugFmt a, None => option_map (append (render a)) (run_events None r)
            (* C20: a value formatted directly on the formatter writes its own text *)
        | EvBuilderNew k name, None =>
            option_map (append (new_text k name)) (run_events (Some (k, 0, is_empty name)) r)
        | EvBuilderField (Some key) a, Some (BStruct, n, e) =>
            option_map (append (field_text BStruct n key a)) (run_events (Some (BStruct, S n, e)) r)
        | EvBuilderField None a, Some (BTuple, n, e) =>
            option_map (append (field_text BTuple n "" a)) (run_events (Some (BTuple, S n, e)) r)
        | EvBuilderEntry key a, Some (BMap, n, e) =>
            option_map (append (field_text BMap n key a)) (run_events (Some (BMap, S n, e)) r)
        | EvBuilderFinish, Some (k, n, e) =>
            option_map (append (finish_text k n e)) (run_events None r)
        | _, _ => None
        end
    end.
End Fmt.

(** ** C20: the text of a byte slice.
    `<[T] as Debug>::fmt` is `f.debug_list().entries(self.iter()).finish()`:
    debug_list_new writes "[", DebugInner::entry_with writes ", " between entries
    (compact) or "\n" before the first entry and each entry through a fresh
    PadAdapter followed by ",\n" (pretty), DebugList::finish writes "]".
    [items] are the entries' own texts under the same flags. *)
Fixpoint list_entries_text (alt first : bool) (items : list string) : string :=
  match items with
  | [] => ""
  | x :: r =>
      (if alt then (if first then nl else "") ^^ indent (x ^^ "," ^^ nl)
       else (if first then "" else ", ") ^^ x) ^^ list_entries_text alt false r
  end.
Definition debug_list_text (alt : bool) (items : list string) : string :=
  "[" ^^ list_entries_text alt true items ^^ "]".
(** `<u8 as Debug>::fmt` without the `x?` / `X?` flags, width or precision is the decimal
    Display, in both modes *)
Definition bytes_text (alt : bool) (l : list nat) : string := debug_list_text alt (map dec l).
