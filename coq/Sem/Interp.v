(** Big-step semantics of the emitted Rust subset.

    [eval] is total and structurally recursive: generated code contains no
    loops.  Everything the generated code delegates to — the field types' own
    trait impls and the user's `method = path` functions — is a parameter
    ([interp]), universally quantified in the theorems.  Calls to those
    parameters are recorded in a trace. *)
From Educe.Sem Require Export Value.

Record interp := {
  i_ne : value -> value -> bool;                       (* <field type as PartialEq>::ne *)
  i_eq : value -> value -> bool;
  i_cmp : value -> value -> comparison;                (* <field type as Ord>::cmp *)
  i_partial_cmp : value -> value -> option comparison; (* <field type as PartialOrd>::partial_cmp *)
  i_user : toks -> list value -> value;                (* user function [path] applied to argument values *)
  i_size_of_self : nat;                                (* C20: ::core::mem::size_of::<Self>() *)
  i_clone : value -> value;                            (* <field type as Clone>::clone(&v) *)
  i_clone_from : value -> value -> value;              (* <field type as Clone>::clone_from(&mut dst, &src): the new content of dst *)
  i_into : value -> value;                             (* ::core::convert::Into::into(v) *)
  i_default : toks -> value                            (* <ty as ::core::default::Default>::default() *)
}.

(** what a core::fmt builder is asked to format: a value through its type's
    own `Debug::fmt`, or a value through the user's `method(value, formatter)`
    (the `Educe__DebugField` wrapper of debug/common.rs) *)
Inductive builder_kind := BStruct | BTuple | BMap.
Inductive fmt_arg :=
| FADebug (v : value)
| FAVia (method : toks) (v : value).

Inductive event :=
| EvHash (v : value)                      (* <field type as Hash>::hash(&v, state) *)
| EvHashUsize (n : nat)                   (* <usize as Hash>::hash(&n, state) *)
| EvUser (path : toks) (args : list value)    (* a call of the user function [path] *)
(* --- core::fmt builder calls (Debug) --- *)
| EvBuilderNew (k : builder_kind) (name : string)
      (* f.debug_struct(name) / f.debug_tuple(name) / f.debug_map() (name = "") *)
| EvBuilderField (key : option string) (a : fmt_arg)
      (* DebugStruct::field(key, value) / DebugTuple::field(value) (key = None) *)
| EvBuilderEntry (key : string) (a : fmt_arg)
      (* DebugMap::entry(&Educe__RawString(key), value): the key is written verbatim *)
| EvBuilderFinish                          (* builder.finish() *)
| EvWriteStr (s : string)                  (* f.write_str(s) *)
| EvClone (v : value)                     (* ::core::clone::Clone::clone(&v) *)
| EvCloneFrom (dst src : value)           (* ::core::clone::Clone::clone_from(&mut dst, &src) *)
| EvDebugFmt (a : fmt_arg).               (* C20: ::core::fmt::Debug::fmt(&v, f) called DIRECTLY on the formatter
                                             (no builder): the value writes its own Debug text *)

Inductive res :=
| RVal (v : value)
| RRet (v : value)      (* a `return v` is propagating *)
| RStuck.

Definition env := list (string * value).
Record state := { st_store : store; st_trace : list event }.
Definition log (ev : event) (s : state) : state :=
  {| st_store := st_store s; st_trace := st_trace s ++ [ev] |}.

Definition comparison_name (c : comparison) : string :=
  match c with Lt => "Less" | Eq => "Equal" | Gt => "Greater" end.

Definition bool_of (v : value) : option bool := match v with VBool b => Some b | _ => None end.

(** ** places *)
Fixpoint place_of (en : env) (e : expr) : option place :=
  match e with
  | EField e' m =>
      match place_of en e' with
      | Some p => Some (sub p m)
      | None =>
          match e' with
          | EVar x => match lookup x en with Some (VRef p) => Some (sub p m) | _ => None end
          | _ => None
          end
      end
  | EDeref (EVar x) => match lookup x en with Some (VRef p) => Some p | _ => None end
  | _ => None
  end.

(** ** pattern matching (with default binding modes: matching through a
    reference binds references to the sub-places) *)
Definition const_pattern (p : rpath) : option value :=
  match p with
  | RCore ["cmp"; "Ordering"; "Equal"] => Some (VOrd Eq)
  | RCore ["cmp"; "Ordering"; "Less"] => Some (VOrd Lt)
  | RCore ["cmp"; "Ordering"; "Greater"] => Some (VOrd Gt)
  | RLocal ["None"] => Some (VOpt None)
  | RCore ["option"; "Option"; "None"] => Some (VOpt None)
  | _ => None
  end.

Definition value_eqb_simple (a b : value) : bool :=
  match a, b with
  | VOrd x, VOrd y => match x, y with Lt, Lt | Eq, Eq | Gt, Gt => true | _, _ => false end
  | VOpt None, VOpt None => true
  | _, _ => false
  end.

(** the sub-value for key [k] of a scrutinee: a sub-place when matching
    through a reference, the field's value otherwise *)
Definition sub_scrut (st : store) (scrut : value) (k : string) : option value :=
  match scrut with
  | VRef p => match load st (sub p k) with Some _ => Some (VRef (sub p k)) | None => None end
  | VRefTmp w => match project w k with Some x => Some (VRefTmp x) | None => None end
  | w => project w k
  end.

Definition is_some_path (p : rpath) : bool :=
  match p with
  | RLocal ["Some"] => true
  | RCore ["option"; "Option"; "Some"] => true
  | _ => false
  end.

(** sub-pattern lists, parameterised by the pattern matcher *)
Section SubPats.
  Variable mp : pat -> value -> option env.
  Variable st : store.
  Variable scrut : value.

  Fixpoint match_tuple_pats (i : nat) (l : list pat) : option env :=
    match l with
    | [] => Some []
    | q :: r =>
        match sub_scrut st scrut (dec i) with
        | Some s =>
            match mp q s, match_tuple_pats (S i) r with
            | Some b1, Some b2 => Some (b1 ++ b2)
            | _, _ => None
            end
        | None => None
        end
    end.

  Fixpoint match_field_pats (l : list (string * option pat)) : option env :=
    match l with
    | [] => Some []
    | (k, oq) :: r =>
        match sub_scrut st scrut k with
        | Some s =>
            match (match oq with Some q => mp q s | None => Some [(k, s)] end),
                  match_field_pats r with
            | Some b1, Some b2 => Some (b1 ++ b2)
            | _, _ => None
            end
        | None => None
        end
    end.
End SubPats.

Fixpoint match_pat (st : store) (p : pat) (v : value) {struct p} : option env :=
  match p with
  | PWild => Some []
  | PBind x => Some [(x, v)]
  | PPath rp =>
      match rp with
      | RSelfV vn =>
          match strip st v with
          | Some (VData (Some w) _) => if String.eqb w vn then Some [] else None
          | _ => None
          end
      | _ =>
          match const_pattern rp, strip st v with
          | Some c, Some w => if value_eqb_simple c w then Some [] else None
          | _, _ => None
          end
      end
  | PTuple rp ps _ rest =>
      if is_some_path rp then
        match ps, strip st v with
        | [q], Some (VOpt (Some w)) => match_pat st q w
        | _, _ => None
        end
      else
      match rp, strip st v with
      | RSelfV vn, Some (VData (Some w) fs) =>
          if String.eqb w vn && (if rest then Nat.leb (List.length ps) (List.length fs)
                                 else Nat.eqb (List.length ps) (List.length fs))
          then match_tuple_pats (match_pat st) st v 0 ps
          else None
      | _, _ => None
      end
  | PStruct rp fps _ rest =>
      match rp, strip st v with
      | RSelfV vn, Some (VData (Some w) fs) =>
          if String.eqb w vn && (rest || Nat.eqb (List.length fps) (List.length fs))
          then match_field_pats (match_pat st) st v fps
          else None
      | _, _ => None
      end
  end.

(** ** the core::fmt objects the Debug templates handle, as values.
    The formatter is opaque (so every statement about builder calls holds for
    every formatter state: compact, alternate, width ...); a builder only
    remembers its kind; the two local helper types of debug/common.rs are
    tuple-struct values.  `Educe__DebugField<V, M>(V, PhantomData<M>)`: the
    Debug impl attached to the (statement-local) wrapper type depends on the
    method path only, which the model keeps in the PhantomData position. *)
Definition formatter_val : value := VData (Some "Formatter") [].
Definition builder_name (k : builder_kind) : string :=
  match k with BStruct => "DebugStruct" | BTuple => "DebugTuple" | BMap => "DebugMap" end.
Definition builder_val (k : builder_kind) : value := VData (Some (builder_name k)) [].
Definition raw_string_val (s : string) : value := VData (Some "Educe__RawString") [("0", VStr s)].
Definition debug_field_val (method : toks) (v : value) : value :=
  VData (Some "Educe__DebugField") [("0", v); ("1", VTok method)].

Definition is_formatter (v : value) : bool :=
  match v with VData (Some n) [] => String.eqb n "Formatter" | _ => false end.
Definition builder_kind_of (v : value) : option builder_kind :=
  match v with
  | VData (Some n) [] =>
      if String.eqb n "DebugStruct" then Some BStruct
      else if String.eqb n "DebugTuple" then Some BTuple
      else if String.eqb n "DebugMap" then Some BMap else None
  | _ => None
  end.
Definition as_raw_string (v : value) : option string :=
  match v with
  | VData (Some n) [(_, VStr s)] => if String.eqb n "Educe__RawString" then Some s else None
  | _ => None
  end.
Definition as_debug_field (v : value) : option (toks * value) :=
  match v with
  | VData (Some n) [(_, x); (_, VTok m)] =>
      if String.eqb n "Educe__DebugField" then Some (m, x) else None
  | _ => None
  end.

(** what formatting [v] (a reference handed to a builder) means *)
Definition fmt_arg_of (st : store) (v : value) : option fmt_arg :=
  match strip st v with
  | Some w =>
      match as_debug_field w with
      | Some (m, x) => option_map (FAVia m) (strip st x)
      | None => Some (FADebug w)
      end
  | None => None
  end.

(** ** C20: the byte view of a union *)
Definition bytes_eqb (a b : list nat) : bool :=
  if list_eq_dec Nat.eq_dec a b then true else false.

(** `::core::mem::size_of::<Self>` (compared by flat spelling) *)
Definition size_of_self_toks : toks :=
  [P "::"; I "core"; P "::"; I "mem"; P "::"; I "size_of"; P "::"; P "<"; I "Self"; P ">"].

(** `*const T`, `*const ::core::primitive::T` *)
Definition is_const_ptr_ty (ty : toks) : bool :=
  match ty with
  | [TPunct "*"; TIdent "const"; TIdent _] => true
  | [TPunct "*"; TIdent "const"; TPunct "::"; TIdent "core"; TPunct "::"; TIdent "primitive";
     TPunct "::"; TIdent _] => true
  | _ => false
  end.

Definition is_from_raw_parts (p : rpath) : bool :=
  match p with
  | RCore ["slice"; "from_raw_parts"] => true
  | _ => false
  end.

(** `::core::slice::from_raw_parts(ptr as *const u8, n)`: the first [n] bytes of the object
    [ptr] points to; reading past the object is undefined behaviour (stuck).  A raw pointer
    is modelled as a reference to the same place. *)
Definition from_raw_parts (st : store) (ptr len : value) : res :=
  match ptr, len with
  | VRef p, VUsize n =>
      match load st p with
      | Some (VBytes l) => if Nat.leb n (List.length l) then RVal (VRefTmp (VBytes (firstn n l)))
                           else RStuck
      | _ => RStuck
      end
  | _, _ => RStuck
  end.

(** ** calls into ::core and into user code *)
Section Calls.
  Variable I : interp.

  Definition strip2 (st : store) (a b : value) : option (value * value) :=
    match strip st a, strip st b with
    | Some x, Some y => Some (x, y)
    | _, _ => None
    end.

  Definition call_core (segs : list string) (args : list value) (s : state) : res * state :=
    match segs, args with
    | ["cmp"; "PartialEq"; "ne"], [a; b] =>
        match strip2 (st_store s) a b with
        | Some (x, y) => (RVal (VBool (i_ne I x y)), s)
        | None => (RStuck, s)
        end
    | ["cmp"; "PartialEq"; "eq"], [a; b] =>
        match strip2 (st_store s) a b with
        | Some (VBytes x, VBytes y) => (RVal (VBool (bytes_eqb x y)), s)   (* C20: <[u8] as PartialEq>::eq *)
        | Some (x, y) => (RVal (VBool (i_eq I x y)), s)
        | None => (RStuck, s)
        end
    | ["cmp"; "Ord"; "cmp"], [a; b] =>
        match strip2 (st_store s) a b with
        | Some (x, y) => (RVal (VOrd (i_cmp I x y)), s)
        | None => (RStuck, s)
        end
    | ["cmp"; "PartialOrd"; "partial_cmp"], [a; b] =>
        match strip2 (st_store s) a b with
        | Some (x, y) => (RVal (VOpt (option_map VOrd (i_partial_cmp I x y))), s)
        | None => (RStuck, s)
        end
    | ["hash"; "Hash"; "hash"], [a; _] =>
        match strip (st_store s) a with
        | Some (VUsize n) => (RVal VUnit, log (EvHashUsize n) s)
        | Some x => (RVal VUnit, log (EvHash x) s)
        | None => (RStuck, s)
        end
    | ["option"; "Option"; "Some"], [a] => (RVal (VOpt (Some a)), s)
    | ["clone"; "Clone"; "clone"], [a] =>
        match strip (st_store s) a with
        | Some x => (RVal (i_clone I x), log (EvClone x) s)
        | None => (RStuck, s)
        end
    | ["clone"; "Clone"; "clone_from"], [a; b] =>
        (* the destination is a unique reference to a place; its content is replaced *)
        match a with
        | VRef p =>
            match load (st_store s) p, strip (st_store s) b with
            | Some d, Some y =>
                match store_set (st_store s) p (i_clone_from I d y) with
                | Some st' => (RVal VUnit, log (EvCloneFrom d y)
                                               {| st_store := st'; st_trace := st_trace s |})
                | None => (RStuck, s)
                end
            | _, _ => (RStuck, s)
            end
        | _ => (RStuck, s)
        end
    | ["convert"; "Into"; "into"], [a] => (RVal (i_into I a), s)
    | ["fmt"; "Debug"; "fmt"], [a; fm] =>
        (* C20: `::core::fmt::Debug::fmt(data, f)` on a byte slice `data : &[u8]`: <[u8] as Debug>::fmt
           runs directly on the formatter (any other receiver stays stuck: not interpreted) *)
        if is_formatter fm then
          match strip (st_store s) a with
          | Some (VBytes l) => (RVal VUnit, log (EvDebugFmt (FADebug (VBytes l))) s)
          | _ => (RStuck, s)
          end
        else (RStuck, s)
    | _, _ => (RStuck, s)
    end.

  (** `<ty as Trait>::name(args)` *)
  Definition apply_qpath (ty : toks) (tr : rpath) (name : string) (args : list value) (s : state)
    : res * state :=
    match tr, args with
    | RCore ["default"; "Default"], [] =>
        if String.eqb name "default" then (RVal (i_default I ty), s) else (RStuck, s)
    | _, _ => (RStuck, s)
    end.

  Fixpoint strip_all (st : store) (l : list value) : option (list value) :=
    match l with
    | [] => Some []
    | v :: r => match strip st v, strip_all st r with
                | Some x, Some xs => Some (x :: xs)
                | _, _ => None
                end
    end.

  Definition call_user (path : toks) (args : list value) (s : state) : res * state :=
    match strip_all (st_store s) args with
    | Some vs => (RVal (i_user I path vs), log (EvUser path vs) s)
    | None => (RStuck, s)
    end.

  (** `<V as Debug>::fmt(v, fm)` for the two helper types of debug/common.rs: the wrapper's
      impl is `method(self.0, educe__f)`; Educe__RawString writes its string.  (Any other value
      has the field type's own impl, which is not interpreted: the builder events name the value.) *)
  Definition debug_fmt (v fm : value) (s : state) : res * state :=
    match strip (st_store s) v with
    | Some w =>
        match as_debug_field w with
        | Some (m, x) => call_user m [x; fm] s
        | None => match as_raw_string w with
                  | Some str => (RVal VUnit, log (EvWriteStr str) s)
                  | None => (RStuck, s)
                  end
        end
    | None => (RStuck, s)
    end.

  (** method calls of the Debug templates: receiver variable [x] bound to [r].
      `fmt::Result` values are [VUnit] (the calls are performed whatever the sink answers:
      core's builders keep the error inside) *)
  Definition call_method (x : string) (r : value) (m : string) (args : list value) (s : state)
    : res * state :=
    if String.eqb x "f" then
      if is_formatter r then
        match args with
        | [VStr n] =>
            if String.eqb m "debug_struct" then (RVal (builder_val BStruct), log (EvBuilderNew BStruct n) s)
            else if String.eqb m "debug_tuple" then (RVal (builder_val BTuple), log (EvBuilderNew BTuple n) s)
            else if String.eqb m "write_str" then (RVal VUnit, log (EvWriteStr n) s)
            else (RStuck, s)
        | _ => (RStuck, s)
        end
      else (RStuck, s)
    else if String.eqb x "builder" then
      match builder_kind_of r, args with
      | Some BStruct, [VStr k; v] =>
          if String.eqb m "field" then
            match fmt_arg_of (st_store s) v with
            | Some a => (RVal r, log (EvBuilderField (Some k) a) s)
            | None => (RStuck, s)
            end
          else (RStuck, s)
      | Some BTuple, [v] =>
          if String.eqb m "field" then
            match fmt_arg_of (st_store s) v with
            | Some a => (RVal r, log (EvBuilderField None a) s)
            | None => (RStuck, s)
            end
          else (RStuck, s)
      | Some BMap, [kr; v] =>
          if String.eqb m "entry" then
            match strip (st_store s) kr with
            | Some kv =>
                match as_raw_string kv, fmt_arg_of (st_store s) v with
                | Some k, Some a => (RVal r, log (EvBuilderEntry k a) s)
                | _, _ => (RStuck, s)
                end
            | None => (RStuck, s)
            end
          else (RStuck, s)
      | Some _, [] =>
          if String.eqb m "finish" then (RVal VUnit, log EvBuilderFinish s) else (RStuck, s)
      | _, _ => (RStuck, s)
      end
    else (RStuck, s).

  Definition tuple_fields (vs : list value) : list (string * value) :=
    map (fun '(i, v) => (dec i, v))
        ((fix go (i : nat) (l : list value) :=
            match l with [] => [] | x :: r => (i, x) :: go (S i) r end) 0 vs).

  Definition apply_path (p : rpath) (args : list value) (s : state) : res * state :=
    match p with
    | RCore segs => call_core segs args s
    | RUser path => call_user path args s
    | RLocal ["Some"] => match args with [a] => (RVal (VOpt (Some a)), s) | _ => (RStuck, s) end
    | RLocal ["Educe__RawString"] =>
        match args with [VStr k] => (RVal (raw_string_val k), s) | _ => (RStuck, s) end
    | RSelfV v => (RVal (VData (Some v) (tuple_fields args)), s)
    | RSelf => (RVal (VData None (tuple_fields args)), s)
    | RLocal _ => (RStuck, s)
    end.

  Definition path_value (p : rpath) : option value :=
    match p with
    | RSelfV v => Some (VData (Some v) [])
    | RSelf => Some (VData None [])
    | _ => const_pattern p
    end.

  (** ** list-shaped sub-evaluations, parameterised by the evaluator *)
  Section WithEval.
    Variable ev : env -> expr -> state -> res * state.

    Fixpoint eval_args (en : env) (l : list expr) (s : state) : option (list value) * res * state :=
      match l with
      | [] => (Some [], RVal VUnit, s)
      | e :: r =>
          match ev en e s with
          | (RVal v, s1) =>
              match eval_args en r s1 with
              | (Some vs, x, s2) => (Some (v :: vs), x, s2)
              | other => other
              end
          | (x, s1) => (None, x, s1)
          end
      end.

    Fixpoint eval_block (en : env) (b : list expr) (s : state) : res * state :=
      match b with
      | [] => (RVal VUnit, s)
      | e :: r =>
          match e with
          | ELet _ x e1 =>
              match ev en e1 s with
              | (RVal v, s1) => eval_block ((x, v) :: en) r s1
              | other => other
              end
          | EDebugMapBuilder =>
              (* struct Educe__RawString ..; let mut builder = f.debug_map(); *)
              match lookup "f" en with
              | Some fv => if is_formatter fv
                           then eval_block (("builder", builder_val BMap) :: en) r
                                           (log (EvBuilderNew BMap "") s)
                           else (RStuck, s)
              | None => (RStuck, s)
              end
          | EDebugFieldArg _ _ _ _ m fe =>
              (* let arg = { .. Educe__DebugField(fe, PhantomData::<Self>) }; *)
              match ev en fe s with
              | (RVal v, s1) => eval_block (("arg", debug_field_val m v) :: en) r s1
              | other => other
              end
          | _ =>
              match ev en e s with
              | (RVal v, s1) => if is_nil r then (RVal v, s1) else eval_block en r s1
              | other => other
              end
          end
      end.

    Fixpoint eval_arms (en : env) (scrut : value) (arms : list (pat * expr)) (s : state)
      : res * state :=
      match arms with
      | [] => (RStuck, s)
      | (p, body) :: r =>
          match match_pat (st_store s) p scrut with
          | Some binds => ev (binds ++ en) body s
          | None => eval_arms en scrut r s
          end
      end.

    Fixpoint eval_fields (en : env) (l : list (string * expr)) (s : state)
      : option (list (string * value)) * res * state :=
      match l with
      | [] => (Some [], RVal VUnit, s)
      | (k, e) :: r =>
          match ev en e s with
          | (RVal v, s1) =>
              match eval_fields en r s1 with
              | (Some vs, x, s2) => (Some ((k, v) :: vs), x, s2)
              | other => other
              end
          | (x, s1) => (None, x, s1)
          end
      end.
  End WithEval.

  Fixpoint eval (en : env) (e : expr) (s : state) {struct e} : res * state :=
    match e with
    | EVar x => match lookup x en with Some v => (RVal v, s) | None => (RStuck, s) end
    | EPath p => match path_value p with Some v => (RVal v, s) | None => (RStuck, s) end
    | EUnit => (RVal VUnit, s)
    | EBool b => (RVal (VBool b), s)
    | EUsize n => (RVal (VUsize n), s)
    | EToks ts => (RVal (VTok ts), s)
    | ECall f args =>
        match f with
        | EPath p =>
            match eval_args eval en args s with
            | (Some vs, _, s1) => apply_path p vs s1
            | (None, x, s1) => (x, s1)
            end
        | EQPath ty tr name =>
            match eval_args eval en args s with
            | (Some vs, _, s1) => apply_qpath ty tr name vs s1
            | (None, x, s1) => (x, s1)
            end
        | EToks ts =>
            (* C20: `::core::mem::size_of::<Self>()` *)
            if flat_eqb ts size_of_self_toks && is_nil args
            then (RVal (VUsize (i_size_of_self I)), s) else (RStuck, s)
        | _ => (RStuck, s)
        end
    | EMethod recv m args =>
        (* only the method calls of the Debug templates: receiver `f` or `builder` *)
        match recv with
        | EVar x =>
            match lookup x en with
            | Some r =>
                match eval_args eval en args s with
                | (Some vs, _, s1) => call_method x r m vs s1
                | (None, y, s1) => (y, s1)
                end
            | None => (RStuck, s)
            end
        | _ => (RStuck, s)
        end
    | ERef e1 | ERefMut e1 =>
        match place_of en e1 with
        | Some p => (RVal (VRef p), s)
        | None => match eval en e1 s with
                  | (RVal v, s1) => (RVal (VRefTmp v), s1)
                  | other => other
                  end
        end
    | EDeref e1 =>
        match eval en e1 s with
        | (RVal v, s1) => match v with
                          | VRef _ | VRefTmp _ =>
                              match strip (st_store s1) v with
                              | Some w => (RVal w, s1)
                              | None => (RStuck, s1)
                              end
                          | _ => (RStuck, s1)
                          end
        | other => other
        end
    | ENot e1 =>
        match eval en e1 s with
        | (RVal (VBool b), s1) => (RVal (VBool (negb b)), s1)
        | (RVal _, s1) => (RStuck, s1)
        | other => other
        end
    | EField e1 m =>
        match place_of en e with
        | Some p => match load (st_store s) p with
                    | Some v => (RVal v, s)
                    | None => (RStuck, s)
                    end
        | None =>
            match eval en e1 s with
            | (RVal v, s1) => match project v m with
                              | Some w => (RVal w, s1)
                              | None => (RStuck, s1)
                              end
            | other => other
            end
        end
    | EReturn e1 =>
        match eval en e1 s with
        | (RVal v, s1) => (RRet v, s1)
        | other => other
        end
    | EIf c th el =>
        match eval en c s with
        | (RVal (VBool true), s1) => eval_block eval en th s1
        | (RVal (VBool false), s1) =>
            match el with
            | Some b => eval_block eval en b s1
            | None => (RVal VUnit, s1)
            end
        | (RVal _, s1) => (RStuck, s1)
        | other => other
        end
    | EIfLet p sc th el =>
        match eval en sc s with
        | (RVal v, s1) =>
            match match_pat (st_store s1) p v with
            | Some binds => eval_block eval (binds ++ en) th s1
            | None => match el with
                      | Some b => eval_block eval en b s1
                      | None => (RVal VUnit, s1)
                      end
            end
        | other => other
        end
    | EMatch sc arms =>
        match eval en sc s with
        | (RVal v, s1) => eval_arms eval en v arms s1
        | other => other
        end
    | EBlock b => eval_block eval en b s
    | EUnsafe b =>
        match b with
        | [ECall (EPath p) [pe; ne]] =>
            (* C20: `unsafe { ::core::slice::from_raw_parts(ptr, len) }` -- an unsafe fn, given a
               meaning only directly inside an `unsafe` block (elsewhere it stays stuck in call_core) *)
            if is_from_raw_parts p then
              match eval en pe s with
              | (RVal pv, s1) =>
                  match eval en ne s1 with
                  | (RVal nv, s2) => (from_raw_parts (st_store s2) pv nv, s2)
                  | other => other
                  end
              | other => other
              end
            else eval_block eval en b s
        | _ => eval_block eval en b s
        end
    | ECast e1 ty =>
        (* C20: `r as *const T`, `p as *const U`: a pointer to the same place *)
        if is_const_ptr_ty ty then
          match eval en e1 s with
          | (RVal (VRef p), s1) => (RVal (VRef p), s1)
          | (RVal _, s1) => (RStuck, s1)
          | other => other
          end
        else (RStuck, s)
    | EAssign l r =>
        match eval en r s with
        | (RVal v, s1) =>
            match place_of en l with
            | Some p =>
                match store_set (st_store s1) p v with
                | Some st' => (RVal VUnit, {| st_store := st'; st_trace := st_trace s1 |})
                | None => (RStuck, s1)
                end
            | None => (RStuck, s1)
            end
        | other => other
        end
    | EStruct p fs _ =>
        match eval_fields eval en fs s with
        | (Some vs, _, s1) =>
            match p with
            | RSelfV v => (RVal (VData (Some v) vs), s1)
            | RSelf => (RVal (VData None vs), s1)
            | _ => (RStuck, s1)
            end
        | (None, x, s1) => (x, s1)
        end
    | EMacro name ts =>
        (* ::core::stringify!(ident) is the identifier's spelling (r#type gives "r#type");
           ::core::stringify!() is "" *)
        if String.eqb name "stringify" then
          match ts with
          | [] => (RVal (VStr ""), s)
          | [TIdent x] => (RVal (VStr x), s)
          | _ => (RStuck, s)
          end
        else (RStuck, s)
    | ELet _ _ _ => (RStuck, s)            (* only meaningful inside a block *)
    | ESemi e1 =>
        match eval en e1 s with
        | (RVal _, s1) => (RVal VUnit, s1)
        | other => other
        end
    | ECallT f args =>
        match f with
        | EPath p =>
            match eval_args eval en args s with
            | (Some vs, _, s1) => apply_path p vs s1
            | (None, x, s1) => (x, s1)
            end
        | _ => (RStuck, s)
        end
    | EStr str => (RVal (VStr str), s)
    | EMatchC sc arms =>
        match eval en sc s with
        | (RVal v, s1) => eval_arms eval en v arms s1
        | other => other
        end
    | EDebugMapBuilder => (RStuck, s)          (* statements: only meaningful inside a block *)
    | EDebugFieldArg _ _ _ _ _ _ => (RStuck, s)
    | EDiscrMatch ds eq gt lt =>
        (* compares the declared discriminant values of the variants `self` and `other` are in *)
        match lookup "self" en, lookup "other" en with
        | Some a, Some b =>
            match strip (st_store s) a, strip (st_store s) b with
            | Some (VData (Some va) _), Some (VData (Some vb) _) =>
                match lookup va ds, lookup vb ds with
                | Some x, Some y =>
                    match Z.compare x y with
                    | Eq => eval en eq s
                    | Gt => eval en gt s
                    | Lt => eval en lt s
                    end
                | _, _ => (RStuck, s)
                end
            | _, _ => (RStuck, s)
            end
        | _, _ => (RStuck, s)
        end
    | EQPath _ _ _ => (RStuck, s)
    end.

  (** running a method body: a propagating `return` becomes the result *)
  Definition run_body (en : env) (body : block) (s : state) : res * state :=
    match eval_block eval en body s with
    | (RRet v, s1) => (RVal v, s1)
    | other => other
    end.
End Calls.
