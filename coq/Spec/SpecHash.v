(** C05 — the meaning of an educed Hash, written from the property statement:
    what is fed to the Hasher is, for an enum, first the index of the value's
    variant (as a usize), then one feed per non-ignored field in declaration
    order — the field's custom method applied to (field, hasher), or the field
    type's own `Hash::hash`.  Feeds are observed as the events of the
    interpreter's trace ("a recording hasher"). *)
From Educe.Sem Require Export Interp.
From Educe.Model Require Export Attr Expand_Hash.
From Educe.Spec Require Export SpecEq.

(** the field type's own `Hash::hash(&x, state)` (a usize feeds itself) *)
Definition own_hash_event (x : value) : event :=
  match x with VUsize n => EvHashUsize n | _ => EvHash x end.

(** what one non-ignored field feeds; [h] is the hasher the caller passed *)
Definition field_event (h : value) (fa : fattr) (x : value) : event :=
  match fa_method fa with
  | Some m => EvUser m [x; h]
  | None => own_hash_event x
  end.

(** fields in declaration order, ignored ones skipped *)
Definition spec_fields_trace (h : value) (l : list (string * fattr))
           (xs : list (string * value)) : list event :=
  flat_map (fun '(k, fa) =>
              if fa_ignore fa then []
              else match lookup k xs with
                   | Some x => [field_event h fa x]
                   | None => []
                   end) l.

(** position of a variant in the declaration *)
Fixpoint vcfg_index (n : string) (c : vcfg) : nat :=
  match c with
  | [] => 0
  | (Some b, _) :: r => if String.eqb n b then 0 else S (vcfg_index n r)
  | (None, _) :: r => S (vcfg_index n r)
  end.

Definition spec_hash_trace (c : vcfg) (h : value) (v : value) : option (list event) :=
  match v with
  | VData vn xs =>
      match vcfg_get vn c with
      | Some l =>
          Some ((match vn with Some n => [EvHashUsize (vcfg_index n c)] | None => [] end)
                ++ spec_fields_trace h l xs)
      | None => None
      end
  | _ => None
  end.

(** a value of the shape the type definition prescribes: the variant exists and
    the value has exactly the declared fields (their contents are arbitrary) *)
Definition keys_ok (c : vcfg) (v : value) : bool :=
  match v with
  | VData vn xs =>
      match vcfg_get vn c with
      | Some l => if list_eq_dec string_dec (map fst l) (map fst xs) then true else false
      | None => false
      end
  | _ => false
  end.

(** ** the request as the Hash attribute analysis reads it *)
Definition hash_cfg (F : features) (traits : list trait) (d : dinput) : outcome vcfg :=
  match d_data d with
  | DStruct fs =>
      let* l := hash_field_attrs F traits (fields_list fs) in Ok [(None, keyed l)]
  | DEnum vs =>
      mapM (fun v => let* l := hash_field_attrs F traits (fields_list (v_fields v)) in
                     Ok (Some (v_name v), keyed l)) vs
  | DUnion _ => OutOfDomain "union"
  end.

(** ** "PartialEq educed with the same ignore and method choices": the same
    variants and fields, the same fields ignored.  What the two traits' methods
    (or the field types' own `==` and `Hash`) have to do with each other is the
    field-level coherence below: fields that compare equal feed the same data,
    as observed by [obs] (any function of the events: the bytes a hasher
    receives, the events themselves, ...). *)
Definition same_choice (a b : string * fattr) : Prop :=
  fst a = fst b /\ fa_ignore (snd a) = fa_ignore (snd b).
Definition same_choices (ce ch : vcfg) : Prop :=
  Forall2 (fun x y => fst x = fst y /\ Forall2 same_choice (snd x) (snd y)) ce ch.

Definition field_coherent {X} (obs : event -> X) (I : interp) (h : value) (fe fh : fattr) : Prop :=
  forall x y, field_eq I fe x y = true -> obs (field_event h fh x) = obs (field_event h fh y).
Definition cfg_coherent {X} (obs : event -> X) (I : interp) (h : value) (ce ch : vcfg) : Prop :=
  forall vn le lh, vcfg_get vn ce = Some le -> vcfg_get vn ch = Some lh ->
    Forall2 (fun a b => fa_ignore (snd b) = false -> field_coherent obs I h (snd a) (snd b)) le lh.
