(** C20 — the meaning of the educed impls of a union, written from the property
    statement.

    Byte model: a union value is its object representation, [VBytes l] with
    [length l = size_of::<Self>()] ([i_size_of_self I]); a reference to
    [VBytes l] is a byte slice `&[u8]`.  `==` on byte slices compares the
    lists ([bytes_eqb]); `Hash::hash` on a byte slice is ONE event
    [EvHash (VBytes l)] carrying exactly the bytes. *)
From Educe.Sem Require Export Interp.
From Educe.Model Require Export Attr.
From Educe.Model Require Expand_Default Expand_Debug.

Definition union_value (I : interp) (v : value) (l : list nat) : Prop :=
  v = VBytes l /\ List.length l = i_size_of_self I.

(** equality compares the bytes, Hash feeds them as one slice *)
Definition spec_union_eq (la lb : list nat) : bool := bytes_eqb la lb.
Definition spec_union_hash (l : list nat) : list event := [EvHash (VBytes l)].

(** ** the `unsafe` marker: the attribute is a list whose FIRST parameter is `unsafe` *)
Definition has_unsafe_marker (m : meta) : bool :=
  match m with
  | MList _ _ (t :: _) => is_ident "unsafe" t
  | _ => false
  end.

(** ** the statements shared by the three byte-view impls
    `let size = ::core::mem::size_of::<Self>();`
    `let <x> = unsafe { ::core::slice::from_raw_parts(<ptr> as *const Self as *const ::core::primitive::u8, size) };` *)
Definition let_size : expr :=
  ELet false "size"
    (ECall (EToks [P "::"; I "core"; P "::"; I "mem"; P "::"; I "size_of"; P "::"; P "<"; I "Self"; P ">"]) []).
Definition raw_bytes (ptr : string) : expr :=
  EUnsafe [ECall (EPath (RCore ["slice"; "from_raw_parts"]))
             [ECast (ECast (EVar ptr) [P "*"; I "const"; I "Self"])
                    [P "*"; I "const"; P "::"; I "core"; P "::"; I "primitive"; P "::"; I "u8"];
              EVar "size"]].

(** ** Debug: lists the bytes under the effective name, or bare when the name is disabled
    named:     let mut builder = f.debug_tuple(::core::stringify!(Name)); <size>; <data>;
               builder.field(&data); builder.finish()
    nameless:  <size>; <data>; ::core::fmt::Debug::fmt(data, f) *)
Definition spec_union_debug_body (name : option string) : block :=
  match name with
  | Some n =>
      [ELet true "builder" (EMethod (EVar "f") "debug_tuple" [EMacro "stringify" [I n]]);
       let_size; ELet false "data" (raw_bytes "self");
       ESemi (EMethod (EVar "builder") "field" [ERef (EVar "data")]);
       EMethod (EVar "builder") "finish" []]
  | None =>
      [let_size; ELet false "data" (raw_bytes "self");
       ECall (EPath (RCore ["fmt"; "Debug"; "fmt"])) [EVar "data"; EVar "f"]]
  end.

(** what running it on the bytes [l] of `*self` does, as calls on the formatter:
    named:     f.debug_tuple(name); .field(<the byte slice `data : &[u8]`, through its own Debug>); .finish()
    nameless:  <[u8] as Debug>::fmt(data, f), directly on the formatter — nothing else *)
Definition spec_union_debug_program (name : option string) (l : list nat) : list event :=
  match name with
  | Some n => [EvBuilderNew BTuple n; EvBuilderField None (FADebug (VRefTmp (VBytes l))); EvBuilderFinish]
  | None => [EvDebugFmt (FADebug (VBytes l))]
  end.

(** the effective name: the type's identifier by default, a custom one, or none *)
Definition effective_name (n : Expand_Debug.tname) (ident : string) : option string :=
  match n with
  | Expand_Debug.TNDisable => None
  | Expand_Debug.TNDefault => Some ident
  | Expand_Debug.TNCustom s => Some s
  end.

(** ** Clone: `Copy` bound on a field type *)
Definition copy_bound (ty : toks) : toks :=
  ty ++ [P ":"; P "::"; I "core"; P "::"; I "marker"; P "::"; I "Copy"].

(** ** Default: the designated field.
    Per field, the request as the analysis reads it: a `#[educe(Default)]` flag
    and/or an expression.  The designated field is the only field of a
    one-field union, otherwise the unique field carrying a Default attribute. *)
Definition default_requests F traits (fs : list field)
  : outcome (list (field * Expand_Default.dfattr)) :=
  mapM (fun f => let* fa := Expand_Default.default_field_attr F traits true true f in Ok (f, fa)) fs.

Definition default_marked (x : field * Expand_Default.dfattr) : bool :=
  Expand_Default.df_flag (snd x) ||
  match Expand_Default.df_expr (snd x) with Some _ => true | None => false end.

Definition designated (l : list (field * Expand_Default.dfattr))
  : option (field * Expand_Default.dfattr) :=
  match l with
  | [x] => Some x
  | _ => match filter default_marked l with [x] => Some x | _ => None end
  end.

(** "with its expression or the field type's default" *)
Definition init_expr (f : field) (fa : Expand_Default.dfattr) : expr :=
  match Expand_Default.df_expr fa with
  | Some v => Expand_Default.dvalue_expr v
  | None => ECall (EQPath (f_ty f) (RCore ["default"; "Default"]) "default") []
  end.

(** `Self { field: init, }` — exactly one field initialised *)
Definition spec_union_default_body (f : field) (fa : Expand_Default.dfattr) : block :=
  [EStruct RSelf [(match f_name f with Some n => n | None => "" end, init_expr f fa)] true].
