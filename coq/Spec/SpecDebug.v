(** C06 — the meaning of an educed Debug, written from the property statement.

    The output is what core::fmt's struct / tuple / map builders produce for
    the *effective shape* of the value:

    - the effective name: the type's (struct) or the variant's (enum) name,
      renamed, disabled, or `Enum::Variant` when the enum's own name is
      enabled (`Enum` alone when the variant's name is disabled);
    - struct or tuple style as selected by `named_field`;
    - the non-ignored fields in declaration order under their effective keys:
      `name`/`rename`, else the field's identifier, else `_i` for a tuple
      position shown as named;
    - each value formatted by its own Debug or by the custom `method`;
    - when no name is shown: the bare `{k: v}` map form (struct style) or the
      `("")`-named tuple form; a unit variant just writes its name.

    [builder_program] is the sequence of core::fmt builder calls that renders
    a shape; it is the statement's "exactly what the builders produce",
    independent of the formatter's state (compact, alternate, width ...). *)
From Educe.Sem Require Export Interp Fmt.
From Educe.Model Require Export Attr Expand_Debug.
From Educe.Spec Require Export SpecEq.   (* is_atom, fields_wf, data_wf *)

(** * The request, as the attribute analysis reads it *)

(** one declared field *)
Record dfield_cfg := {
  fc_store : string;            (* where a value keeps it: the identifier, or the position *)
  fc_ident : option string;     (* the declared identifier (None: tuple position) *)
  fc_index : nat;               (* declaration position *)
  fc_attr : dfattr              (* name / ignore / method *)
}.

(** a struct, or one variant of an enum *)
Record dvariant_cfg := {
  vc_variant : option string;   (* the variant a value must be in (None: a struct) *)
  vc_ident : string;            (* the identifier of the struct / of the variant *)
  vc_unit : bool;               (* a unit VARIANT *)
  vc_name : tname;              (* name = .. / rename at this level *)
  vc_named_field : bool;        (* struct style? *)
  vc_fields : list dfield_cfg
}.

Record debug_cfg := {
  dc_enum_name : option string; (* the enum's own name when enabled (name = true / "N"); None for a struct *)
  dc_variants : list dvariant_cfg
}.

(** which parameters each position accepts, and the defaults (README: a struct
    shows its name and uses struct style unless it is a tuple struct; an enum
    does not show its own name; a variant shows its name and uses the style
    of its declaration) *)
Definition struct_tb (is_tuple : bool) : dtbuilder :=
  {| tb_flag := true; tb_unsafe := false; tb_name := true; tb_named_field := true;
     tb_bound := true; tb_name0 := TNDefault; tb_named_field0 := negb is_tuple |}.
Definition enum_tb : dtbuilder :=
  {| tb_flag := true; tb_unsafe := false; tb_name := true; tb_named_field := false;
     tb_bound := true; tb_name0 := TNDisable; tb_named_field0 := false |}.
Definition variant_tb (named : bool) : dtbuilder :=
  {| tb_flag := false; tb_unsafe := false; tb_name := true; tb_named_field := true;
     tb_bound := false; tb_name0 := TNDefault; tb_named_field0 := named |}.

Definition is_tuple_fields (fs : fields) : bool := match fs with FUnnamed _ => true | _ => false end.
Definition is_named_fields (fs : fields) : bool := match fs with FNamed _ => true | _ => false end.
Definition is_unit_fields (fs : fields) : bool := match fs with FUnit => true | _ => false end.

Definition field_cfgs (l : list (nat * (field * dfattr))) : list dfield_cfg :=
  map (fun '(i, (f, fa)) => {| fc_store := field_member f i; fc_ident := f_name f;
                               fc_index := i; fc_attr := fa |}) l.

Definition variant_cfg F traits (v : variant) : outcome dvariant_cfg :=
  let* ta := debug_variant_attr F traits (variant_tb (is_named_fields (v_fields v))) (v_attrs v) in
  let* l := debug_field_attrs F traits (dt_named_field ta) (fields_list (v_fields v)) in
  Ok {| vc_variant := Some (v_name v); vc_ident := v_name v;
        vc_unit := is_unit_fields (v_fields v);
        vc_name := dt_name ta; vc_named_field := dt_named_field ta;
        vc_fields := field_cfgs l |}.

Definition debug_cfg_of (F : features) (traits : list trait) (d : dinput) (m : meta)
  : outcome debug_cfg :=
  match d_data d with
  | DStruct fs =>
      let* ta := build_dtattr (struct_tb (is_tuple_fields fs)) m in
      let* l := debug_field_attrs F traits (dt_named_field ta) (fields_list fs) in
      Ok {| dc_enum_name := None;
            dc_variants := [ {| vc_variant := None; vc_ident := d_name d; vc_unit := false;
                                vc_name := dt_name ta; vc_named_field := dt_named_field ta;
                                vc_fields := field_cfgs l |} ] |}
  | DEnum vs =>
      let* ta := build_dtattr enum_tb m in
      let* vcs := mapM (variant_cfg F traits) vs in
      Ok {| dc_enum_name := tname_ident (dt_name ta) (d_name d); dc_variants := vcs |}
  | DUnion _ => OutOfDomain "union"
  end.

(** * The effective shape of a value *)

Inductive dstyle := SStruct | STuple.

Inductive shape :=
| ShUnit (name : string)                                   (* a unit variant: its name *)
| ShFields (name : option string) (style : dstyle) (fields : list (string * fmt_arg)).
      (* shown name, style, and the shown fields: effective key and what is formatted *)

(** the name at one level: disabled, the identifier, or the replacement *)
Definition level_name (n : tname) (ident : string) : option string :=
  match n with TNDisable => None | TNDefault => Some ident | TNCustom s => Some s end.

(** the enabled parts joined by `::` *)
Definition effective_name (c : debug_cfg) (vc : dvariant_cfg) : option string :=
  match dc_enum_name c, level_name (vc_name vc) (vc_ident vc) with
  | Some e, Some v => Some (e ^^ "::" ^^ v)
  | Some e, None => Some e
  | None, o => o
  end.

Definition effective_key (fc : dfield_cfg) : string :=
  match df_name (fc_attr fc) with
  | Some n => n
  | None => match fc_ident fc with
            | Some x => x
            | None => "_" ^^ dec (fc_index fc)
            end
  end.

Definition field_arg (fc : dfield_cfg) (x : value) : fmt_arg :=
  match df_method (fc_attr fc) with
  | Some m => FAVia m x
  | None => FADebug x
  end.

(** the non-ignored fields, in declaration order *)
Fixpoint shown_fields (fs : list dfield_cfg) (xs : list (string * value))
  : option (list (string * fmt_arg)) :=
  match fs with
  | [] => Some []
  | fc :: r =>
      if df_ignore (fc_attr fc) then shown_fields r xs
      else match lookup (fc_store fc) xs, shown_fields r xs with
           | Some x, Some rest => Some ((effective_key fc, field_arg fc x) :: rest)
           | _, _ => None
           end
  end.

Definition variant_is (vn : option string) (vc : dvariant_cfg) : bool :=
  match vn, vc_variant vc with
  | None, None => true
  | Some a, Some b => String.eqb a b
  | _, _ => false
  end.

Definition debug_shape (c : debug_cfg) (v : value) : option shape :=
  match v with
  | VData vn xs =>
      match find (variant_is vn) (dc_variants c) with
      | Some vc =>
          if vc_unit vc then option_map ShUnit (effective_name c vc)
          else match shown_fields (vc_fields vc) xs with
               | Some fs => Some (ShFields (effective_name c vc)
                                           (if vc_named_field vc then SStruct else STuple) fs)
               | None => None
               end
      | None => None
      end
  | _ => None
  end.

(** * The builder calls that render a shape
    (`f.debug_struct(name).field(k, v)...finish()`,
     `f.debug_tuple(name).field(v)...finish()`,
     `f.debug_map().entry(&raw(k), v)...finish()`, `f.write_str(name)`) *)
Definition builder_program (sh : shape) : list event :=
  match sh with
  | ShUnit n => [EvWriteStr n]
  | ShFields (Some n) SStruct fs =>
      EvBuilderNew BStruct n :: map (fun '(k, a) => EvBuilderField (Some k) a) fs ++ [EvBuilderFinish]
  | ShFields None SStruct fs =>
      EvBuilderNew BMap "" :: map (fun '(k, a) => EvBuilderEntry k a) fs ++ [EvBuilderFinish]
  | ShFields name STuple fs =>
      EvBuilderNew BTuple (match name with Some n => n | None => "" end)
        :: map (fun '(_, a) => EvBuilderField None a) fs ++ [EvBuilderFinish]
  end.

(** * Values of the shape the type definition prescribes *)
Definition dbg_fields_ok (fs : list dfield_cfg) (xs : list (string * value)) : bool :=
  (if list_eq_dec string_dec (map fc_store fs) (map fst xs) then true else false)
  && forallb (fun kv => is_atom (snd kv)) xs.
Definition dbg_value_ok (c : debug_cfg) (v : value) : bool :=
  match v with
  | VData vn xs =>
      match find (variant_is vn) (dc_variants c) with
      | Some vc => dbg_fields_ok (vc_fields vc) xs
      | None => false
      end
  | _ => false
  end.

(** * What `#[derive(Debug)]` is specified to run (std: "the name of the type /
    variant, then the fields under their names"): a unit struct / variant
    writes its name; a braced one is `debug_struct(Name)` + one `field` per
    field under its identifier; a tuple one `debug_tuple(Name)` + one `field`
    per position; each value through its own Debug. *)
Fixpoint derive_named_fields (xs : list (string * value)) (l : list field)
  : option (list (string * fmt_arg)) :=
  match l with
  | [] => Some []
  | f :: r => match f_name f with
              | Some n => match lookup n xs, derive_named_fields xs r with
                          | Some x, Some rest => Some ((n, FADebug x) :: rest)
                          | _, _ => None
                          end
              | None => None
              end
  end.
(** (a tuple position has no key; the position stands in its place) *)
Fixpoint derive_tuple_fields (xs : list (string * value)) (i : nat) (l : list field)
  : option (list (string * fmt_arg)) :=
  match l with
  | [] => Some []
  | f :: r => match lookup (dec i) xs, derive_tuple_fields xs (S i) r with
              | Some x, Some rest => Some ((dec i, FADebug x) :: rest)
              | _, _ => None
              end
  end.
Definition derive_shape (ident : string) (fs : fields) (xs : list (string * value)) : option shape :=
  match fs with
  | FUnit => Some (ShUnit ident)
  | FNamed l => option_map (ShFields (Some ident) SStruct) (derive_named_fields xs l)
  | FUnnamed l => option_map (ShFields (Some ident) STuple) (derive_tuple_fields xs 0 l)
  end.

Definition derive_debug_shape (d : dinput) (v : value) : option shape :=
  match d_data d, v with
  | DStruct fs, VData None xs => derive_shape (d_name d) fs xs
  | DEnum vs, VData (Some vn) xs =>
      match find (fun w => String.eqb vn (v_name w)) vs with
      | Some w => derive_shape (v_name w) (v_fields w) xs
      | None => None
      end
  | _, _ => None
  end.

(** "no educe parameters": the type-level request is the bare `Debug` (a path
    meta), and no variant or field carries an `#[educe(..)]` attribute *)
Definition no_educe_attrs (attrs : list attr) : Prop := forall a, In a attrs -> is_educe a = false.
Definition plain_fields (fs : fields) : Prop :=
  forall f, In f (fields_list fs) -> no_educe_attrs (f_attrs f).
Definition plain_data (dd : data) : Prop :=
  match dd with
  | DStruct fs => plain_fields fs
  | DEnum vs => forall w, In w vs -> no_educe_attrs (v_attrs w) /\ plain_fields (v_fields w)
  | DUnion _ => True
  end.

(** * The text: core::fmt's builders (Sem/Fmt.v) applied to a shape.
    [alt] = the `#` flag; [render] = what each value's own formatting writes. *)
Section DebugString.
  Variable alt : bool.
  Variable render : fmt_arg -> string.

  Fixpoint fields_text (k : builder_kind) (n : nat) (fs : list (string * fmt_arg)) : string :=
    match fs with
    | [] => ""
    | (key, a) :: r => field_text alt render k n key a ^^ fields_text k (S n) r
    end.

  Definition debug_string (sh : shape) : string :=
    match sh with
    | ShUnit n => n
    | ShFields name style fs =>
        let k := match style, name with
                 | SStruct, Some _ => BStruct
                 | SStruct, None => BMap
                 | STuple, _ => BTuple
                 end in
        let nm := match name with Some n => n | None => "" end in
        new_text k nm ^^ fields_text k 0 fs ^^ finish_text alt k (List.length fs) (is_empty nm)
    end.
End DebugString.
