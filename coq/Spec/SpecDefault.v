(** C08 — the meaning of an educed Default, written from the property
    statement: `T::default()` is the type-level `expression` if one is given;
    otherwise the struct, the enum variant marked `#[educe(Default)]` (or the
    only variant), or the marked (or only) union field, with every field set
    to its own expression — a bare literal converted with `Into::into` exactly
    when it is not of the field type's natural kind ([needs_into]) — or else
    to the field type's `Default::default()`.

    User expressions are opaque: an expression evaluates to [VTok tokens];
    `Into::into` and `<ty as Default>::default()` are given by the [interp]. *)
From Educe.Sem Require Export Interp.
From Educe.Model Require Export Attr Expand_Default.

(** ** the request *)

(** a field: its key (name, or index for a tuple field), its type, and its
    expression as the user wrote it *)
Definition dfield_req := (string * toks * option nvexpr)%type.

Inductive dbody_req :=
| DRExpr (e : nvexpr)                                  (* a type-level expression *)
| DRData (vn : option string) (fs : list dfield_req).  (* the struct / the designated variant /
                                                          the designated union field *)
Record dcfg := { dc_new : bool; dc_body : dbody_req }.

(** ** the meaning *)
Definition spec_expr (I : interp) (e : nvexpr) (ty : option toks) : value :=
  if needs_into e ty then i_into I (VTok (nvexpr_toks e)) else VTok (nvexpr_toks e).

Definition spec_field (I : interp) (r : dfield_req) : string * value :=
  let '(k, ty, oe) := r in
  (k, match oe with Some e => spec_expr I e (Some ty) | None => i_default I ty end).

Definition spec_default (I : interp) (c : dcfg) : value :=
  match dc_body c with
  | DRExpr e => spec_expr I e None
  | DRData vn fs => VData vn (map (spec_field I) fs)
  end.

(** ** which variant (union field): the unique one carrying the mark, or the
    only one; none / several marked is an error *)
Definition spec_select_with {A} (e_none e_multi : err) (l : list (A * bool)) : outcome A :=
  match l with
  | [(v, _)] => Ok v
  | _ =>
      match filter (fun vb => snd vb) l with
      | [] => Err e_none
      | [(v, _)] => Ok v
      | _ => Err e_multi
      end
  end.
Definition spec_select {A} : list (A * bool) -> outcome A :=
  spec_select_with E_default_no_variant E_default_multi_variants.
Definition spec_select_field {A} : list (A * bool) -> outcome A :=
  spec_select_with E_default_no_field E_default_multi_fields.

(** ** the request as the attribute analysis reads it

    The model's analysis (models/field_attribute.rs, models/type_attribute.rs)
    applies `auto_adjust_expr` on the fly; the functions below are the same
    analysis keeping the expression as parsed (proved equal to the model's,
    up to `auto_adjust_expr`, in Proofs/P_C08.v). *)

(** field attribute: (flag, expression) *)
Definition dfraw := (bool * option nvexpr)%type.

Definition df_param_raw (enable_expression : bool) (s : option nvexpr * bool) (m : meta)
  : outcome (option (option nvexpr * bool)) :=
  if param_is m ["expression"; "expr"] then
    if negb enable_expression then Ok None
    else let* v := meta_2_expr m in
         if snd s then Err E_param_reset
         else Ok (Some (Some v, true))
  else Ok None.

Definition build_dfraw (enable_flag enable_expression : bool) (m : meta) : outcome dfraw :=
  match m with
  | MPath _ => if enable_flag then Ok (true, None) else Err E_attr_format
  | MNameValue _ v => if enable_expression then Ok (false, Some v) else Err E_attr_format
  | MList _ _ ts =>
      let* ms := parse_metas ts in
      let* s := run_params (df_param_raw enable_expression) (None, false) ms in
      Ok (false, fst s)
  end.

Definition default_field_raw F traits (enable_flag enable_expression : bool) (f : field)
  : outcome dfraw :=
  let* o := scan_attrs F (trait_eqb TDefault) (build_dfraw enable_flag enable_expression)
              traits (f_attrs f) in
  Ok (match o with Some a => a | None => (false, None) end).

(** type attribute *)
Record dtraw := { dr_flag : bool; dr_new : bool; dr_expr : option nvexpr; dr_bound : bound }.
Record dtstate_raw := { rs_new : bool; rs_expr : option nvexpr; rs_bound : bound;
                        rs_new_set : bool; rs_expr_set : bool; rs_bound_set : bool }.

Definition dt_param_raw (enable_new enable_expression enable_bound : bool) (s : dtstate_raw) (m : meta)
  : outcome (option dtstate_raw) :=
  if param_is m ["new"] then
    if negb enable_new then Ok None
    else let* v := meta_2_bool_allow_path m in
         if rs_new_set s then Err E_param_reset
         else Ok (Some {| rs_new := v; rs_expr := rs_expr s; rs_bound := rs_bound s;
                          rs_new_set := true; rs_expr_set := rs_expr_set s;
                          rs_bound_set := rs_bound_set s |})
  else if param_is m ["expression"; "expr"] then
    if negb enable_expression then Ok None
    else let* v := meta_2_expr m in
         if rs_expr_set s then Err E_param_reset
         else Ok (Some {| rs_new := rs_new s; rs_expr := Some v; rs_bound := rs_bound s;
                          rs_new_set := rs_new_set s; rs_expr_set := true;
                          rs_bound_set := rs_bound_set s |})
  else if param_is m ["bound"] then
    if negb enable_bound then Ok None
    else let* v := bound_from_meta m in
         if rs_bound_set s then Err E_param_reset
         else Ok (Some {| rs_new := rs_new s; rs_expr := rs_expr s; rs_bound := v;
                          rs_new_set := rs_new_set s; rs_expr_set := rs_expr_set s;
                          rs_bound_set := true |})
  else Ok None.

Definition build_dtraw (enable_flag enable_new enable_expression enable_bound : bool) (m : meta)
  : outcome dtraw :=
  match m with
  | MPath _ =>
      if enable_flag
      then Ok {| dr_flag := true; dr_new := false; dr_expr := None; dr_bound := BAuto |}
      else Err E_attr_format
  | MNameValue _ _ => Err E_attr_format
  | MList _ _ ts =>
      let* ms := parse_metas ts in
      let* s := run_params (dt_param_raw enable_new enable_expression enable_bound)
                  {| rs_new := false; rs_expr := None; rs_bound := BAuto;
                     rs_new_set := false; rs_expr_set := false; rs_bound_set := false |} ms in
      Ok {| dr_flag := false; dr_new := rs_new s; dr_expr := rs_expr s; dr_bound := rs_bound s |}
  end.

(** the fields of the constructed struct / variant, keyed by name or index *)
Definition field_reqs F traits (fs : fields) : outcome (list dfield_req) :=
  match fs with
  | FUnit => Ok []
  | FNamed l =>
      mapM (fun f => let* r := default_field_raw F traits false true f in
                     Ok (field_name f, f_ty f, snd r)) l
  | FUnnamed l =>
      mapMi (fun i f => let* r := default_field_raw F traits false true f in
                        Ok (dec i, f_ty f, snd r)) l
  end.

(** union: the field carrying the flag or an expression, or the only field *)
Definition is_designated (r : dfraw) : bool :=
  fst r || match snd r with Some _ => true | None => false end.

Definition select_field_step_raw F traits (acc : option (field * dfraw)) (f : field)
  : outcome (option (field * dfraw)) :=
  let* r := default_field_raw F traits true true f in
  if is_designated r then
    match acc with
    | Some _ => Err E_default_multi_fields
    | None => Ok (Some (f, r))
    end
  else Ok acc.

Definition select_field_raw F traits (fs : list field) : outcome (field * dfraw) :=
  match fs with
  | [f] => let* r := default_field_raw F traits true true f in Ok (f, r)
  | _ =>
      let* o := foldM (select_field_step_raw F traits) None fs in
      match o with Some x => Ok x | None => Err E_default_no_field end
  end.

(** does a variant carry the `Default` flag *)
Definition variant_flagged F traits (v : variant) : outcome bool :=
  let* ta := default_variant_attr F traits true (v_attrs v) in Ok (dt_flag ta).

Definition default_cfg (F : features) (traits : list trait) (d : dinput) (m : meta)
  : outcome dcfg :=
  let* ta := build_dtraw true true true true m in
  let* body :=
    match dr_expr ta with
    | Some e => Ok (DRExpr e)
    | None =>
        match d_data d with
        | DStruct fs =>
            let* l := field_reqs F traits fs in Ok (DRData None l)
        | DEnum vs =>
            let* v := select_variant F traits vs in
            let* l := field_reqs F traits (v_fields v) in Ok (DRData (Some (v_name v)) l)
        | DUnion fs =>
            let* (f, r) := select_field_raw F traits fs in
            Ok (DRData None [(field_name f, f_ty f, snd r)])
        end
    end in
  Ok {| dc_new := dr_new ta; dc_body := body |}.
