(** C03 / C04 — the meaning of an educed Ord / PartialOrd, written from the
    property statements:

    C03  two values of the same struct or variant compare as the first
         non-Equal result among their non-ignored fields visited in ascending
         rank, each compared by its custom method (left operand's field
         first) or its own comparison; all-equal gives Equal; an incomparable
         field reached before any decisive one makes partial_cmp return None.
    C04  values of different variants compare according to the variants'
         declared discriminant values (explicit `= n` where written,
         otherwise the previous one plus one, the first being 0); values of
         the same variant are ordered by their fields alone. *)
From Educe.Sem Require Export Interp.
From Educe.Model Require Export Attr Expand_PartialOrd Expand_Ord.
From Educe.Spec Require Export SpecEq.   (* field_key, fields_wf, data_wf *)

(** ** comparing one field *)
Definition as_ord (v : value) : comparison := match v with VOrd c => c | _ => Eq end.
Definition as_opt_ord (v : value) : option comparison :=
  match v with VOpt (Some (VOrd c)) => Some c | _ => None end.

(** "each compared by its custom method (left operand's field first) or its own comparison" *)
Definition field_cmp (I : interp) (fa : ofattr) (x y : value) : comparison :=
  match oa_method fa with
  | Some m => as_ord (i_user I m [x; y])
  | None => i_cmp I x y
  end.
Definition field_partial_cmp (I : interp) (fa : ofattr) (x y : value) : option comparison :=
  match oa_method fa with
  | Some m => as_opt_ord (i_user I m [x; y])
  | None => i_partial_cmp I x y
  end.

(** ** the visiting order: the non-ignored fields, sorted by ascending rank
    (insertion sort; a request is a field key with its attribute, the rank
    being the explicit `rank` or isize::MIN + declaration position, as read
    by [ord_field_attr]) *)
Definition request := (string * ofattr)%type.
Definition rank_of (t : request) : Z := oa_rank (snd t).
Definition compared (t : request) : bool := negb (oa_ignore (snd t)).

Fixpoint insert_by_rank (t : request) (l : list request) : list request :=
  match l with
  | [] => [t]
  | u :: r => if Z.leb (rank_of t) (rank_of u) then t :: l else u :: insert_by_rank t r
  end.
Definition visit_order (l : list request) : list request :=
  fold_right insert_by_rank [] (filter compared l).

(** ** "the first non-Equal result among the fields visited in that order" *)
Fixpoint lex_cmp (I : interp) (order : list request) (xs ys : list (string * value)) : comparison :=
  match order with
  | [] => Eq
  | (k, fa) :: r =>
      match lookup k xs, lookup k ys with
      | Some x, Some y =>
          match field_cmp I fa x y with
          | Eq => lex_cmp I r xs ys
          | c => c
          end
      | _, _ => lex_cmp I r xs ys          (* not reached on values of the type's shape *)
      end
  end.

(** "... and an incomparable field reached before any decisive one gives None" *)
Fixpoint lex_partial_cmp (I : interp) (order : list request) (xs ys : list (string * value))
  : option comparison :=
  match order with
  | [] => Some Eq
  | (k, fa) :: r =>
      match lookup k xs, lookup k ys with
      | Some x, Some y =>
          match field_partial_cmp I fa x y with
          | Some Eq => lex_partial_cmp I r xs ys
          | o => o
          end
      | _, _ => lex_partial_cmp I r xs ys
      end
  end.

(** ** the request for a whole type: per variant (None = the struct), its
    declared discriminant value and its fields' requests in declaration order *)
Definition ocfg := list (option string * (Z * list request)).

Fixpoint oc_get (vn : option string) (c : ocfg) : option (Z * list request) :=
  match c with
  | [] => None
  | (k, e) :: r =>
      match vn, k with
      | None, None => Some e
      | Some a, Some b => if String.eqb a b then Some e else oc_get vn r
      | _, _ => oc_get vn r
      end
  end.

Definition same_variant (va vb : option string) : bool :=
  match va, vb with
  | None, None => true
  | Some x, Some y => String.eqb x y
  | _, _ => false
  end.

(** `a.cmp(&b)` *)
Definition spec_cmp (I : interp) (c : ocfg) (a b : value) : option comparison :=
  match a, b with
  | VData va xs, VData vb ys =>
      match oc_get va c, oc_get vb c with
      | Some (da, la), Some (db, _) =>
          Some (if same_variant va vb then lex_cmp I (visit_order la) xs ys
                else Z.compare da db)
      | _, _ => None
      end
  | _, _ => None
  end.

(** `a.partial_cmp(&b)` *)
Definition spec_partial_cmp (I : interp) (c : ocfg) (a b : value) : option (option comparison) :=
  match a, b with
  | VData va xs, VData vb ys =>
      match oc_get va c, oc_get vb c with
      | Some (da, la), Some (db, _) =>
          Some (if same_variant va vb then lex_partial_cmp I (visit_order la) xs ys
                else Some (Z.compare da db))
      | _, _ => None
      end
  | _, _ => None
  end.

(** a value of the shape the type definition prescribes: the variant exists
    and the value has exactly the declared fields (holding anything) *)
Definition oshape_ok (l : list request) (xs : list (string * value)) : bool :=
  if list_eq_dec string_dec (map fst l) (map fst xs) then true else false.
Definition ovalue_ok (c : ocfg) (v : value) : bool :=
  match v with
  | VData vn xs => match oc_get vn c with Some (_, l) => oshape_ok l xs | None => false end
  | _ => false
  end.

(** ** the request as the attribute analysis reads it.  [own] says which
    `#[educe(T(..))]` entries address the ordering attribute: [own_ord F traits]
    for the Ord handler (both `Ord(..)` and, when PartialOrd is educed too,
    `PartialOrd(..)`), [trait_eqb TPartialOrd] for the PartialOrd handler. *)
Definition ord_keyed (F : features) (own : trait -> bool) (traits : list trait) (fs : list field)
  : outcome (list request) :=
  mapM (fun '(i, f) => let* fa := ord_field_attr F own traits i (f_attrs f) in
                       Ok (field_key i f, fa)) (indexed fs).

Fixpoint zip_cfg (ds : list (string * Z)) (ls : list (list request)) : ocfg :=
  match ds, ls with
  | (n, z) :: ds', l :: ls' => (Some n, (z, l)) :: zip_cfg ds' ls'
  | _, _ => []
  end.

Definition ord_cfg (F : features) (own : trait -> bool) (traits : list trait) (d : dinput)
  : outcome ocfg :=
  match d_data d with
  | DStruct fs =>
      let* l := ord_keyed F own traits (fields_list fs) in Ok [(None, (0%Z, l))]
  | DEnum vs =>
      let* ds := discriminant_values vs in
      let* ls := mapM (fun v => ord_keyed F own traits (fields_list (v_fields v))) vs in
      Ok (zip_cfg ds ls)
  | DUnion _ => OutOfDomain "union"
  end.

(** ** declared discriminants, from the Rust reference: an explicit literal
    where written ([discr_value] reads the literal), otherwise the previous
    variant's value plus one, the first being 0 *)
Fixpoint declared_discrs (prev : Z) (vs : list variant) : outcome (list (string * Z)) :=
  match vs with
  | [] => Ok []
  | v :: r =>
      let* c := match v_discr v with
                | Some ts => discr_value ts
                | None => Ok (prev + 1)%Z
                end in
      let* rest := declared_discrs c r in
      Ok ((v_name v, c) :: rest)
  end.
Definition spec_discrs (vs : list variant) : outcome (list (string * Z)) :=
  declared_discrs (-1)%Z vs.

(** rustc rejects an enum whose implicit discriminant would overflow (E0370);
    i128::MAX is the largest value any repr can hold *)
Fixpoint no_discr_overflow (prev : Z) (vs : list variant) (ds : list (string * Z)) : Prop :=
  match vs, ds with
  | v :: r, (_, c) :: ds' =>
      (v_discr v = None -> (prev < i128_max)%Z) /\ no_discr_overflow c r ds'
  | _, _ => True
  end.
