(** C09 — the meaning of an educed Deref / DerefMut, written from the property
    statement: `&*x` (resp. `&mut *x`) is a reference to the storage of the
    designated field — the sole field, or the one carrying the trait's marker
    — of whichever variant [x] is; for a reference-typed field, to its
    referent.  A write through it changes that field and nothing else. *)
From Educe.Sem Require Export Interp.
From Educe.Model Require Export Attr Expand_Deref Expand_DerefMut.
From Educe.Spec Require Export SpecEq.

(** ** the request, as the attribute analysis reads it: per variant, the
    fields with their key (name / index), declared type and marker *)
Record dfield := { df_key : string; df_ty : toks; df_flag : bool }.
Definition dcfg := list (option string * list dfield).

Definition mk_dfield (i : nat) (f : field) (b : bool) : dfield :=
  {| df_key := field_key i f; df_ty := f_ty f; df_flag := b |}.

Definition deref_dfield F (own : trait) traits (x : nat * field) : outcome dfield :=
  let* b := deref_field_flag F own traits (f_attrs (snd x)) in
  Ok (mk_dfield (fst x) (snd x) b).

Definition deref_dfields F own traits (fs : list field) : outcome (list dfield) :=
  mapM (deref_dfield F own traits) (indexed fs).

(** [own] = [TDeref] reads the `Deref` markers, [TDerefMut] the `DerefMut` ones *)
Definition deref_cfg F (own : trait) traits (d : dinput) : outcome dcfg :=
  match d_data d with
  | DStruct fs => let* l := deref_dfields F own traits (fields_list fs) in Ok [(None, l)]
  | DEnum vs => mapM (fun v => let* l := deref_dfields F own traits (fields_list (v_fields v)) in
                               Ok (Some (v_name v), l)) vs
  | DUnion _ => OutOfDomain "union"
  end.

(** per-variant lookup: variant name (None for a struct) -> its entry *)
Fixpoint vget {A} (vn : option string) (c : list (option string * A)) : option A :=
  match c with
  | [] => None
  | (k, l) :: r =>
      match vn, k with
      | None, None => Some l
      | Some a, Some b => if String.eqb a b then Some l else vget vn r
      | _, _ => vget vn r
      end
  end.

(** ** the designated field: the sole field, else the unique marked one;
    none marked / several marked is an error *)
Definition spec_select (own : trait) (l : list dfield) : outcome dfield :=
  match l with
  | [f] => Ok f
  | _ => match filter df_flag l with
         | [f] => Ok f
         | [] => Err (deref_err_none own)
         | _ :: _ :: _ => Err (deref_err_multi own)
         end
  end.

Definition designated (l : list dfield) : option dfield :=
  match spec_select TDeref l with Ok f => Some f | _ => None end.

(** the designated field of the variant the value is in *)
Definition designated_of (c : dcfg) (x : value) : option dfield :=
  match x with
  | VData vn _ => match vget vn c with Some l => designated l | None => None end
  | _ => None
  end.

(** ** references *)

(** the number of leading references of a declared type (`&'a mut &T` : 2) —
    the ones [strip_refs] removes to form `Target` *)
Fixpoint ref_depth_fuel (n : nat) (ty : toks) : nat :=
  match n with
  | 0 => 0
  | S n =>
      match after_punct "&" ty with
      | Some r => S (ref_depth_fuel n (skip_ident "mut" (skip_life r)))
      | None => 0
      end
  end.
Definition ref_depth (ty : toks) : nat := ref_depth_fuel (List.length ty) ty.

(** follow [n] references: from a reference to a place holding a reference
    ... to the innermost reference *)
Fixpoint chase (st : store) (n : nat) (v : value) : option value :=
  match n with
  | 0 => Some v
  | S k => match v with
           | VRef p => match load st p with Some w => chase st k w | None => None end
           | _ => None
           end
  end.

Definition self_pl : place := {| pl_root := "self"; pl_path := [] |}.

(** the place of the designated field of [x], [x] being stored at root `self` *)
Definition field_place (f : dfield) : place := sub self_pl (df_key f).

(** `&*x` / `&mut *x` : a reference to the storage of the designated field;
    for a reference-typed field (depth n), to its (innermost) referent *)
Definition spec_deref (st : store) (c : dcfg) (x : value) : option value :=
  match designated_of c x with
  | Some f => chase st (ref_depth (df_ty f)) (VRef (field_place f))
  | None => None
  end.

(** ** running the emitted method: `self` is a reference to the root `self`
    of the store, which holds [x]; [h] is the rest of the heap (what the
    references held by [x] point to) *)
Definition method_body (name : string) (it : item) : option block :=
  match find (fun m => match m with MFn _ n _ _ _ => String.eqb n name | _ => false end)
             (i_members it) with
  | Some (MFn _ _ _ _ body) => Some body
  | _ => None
  end.

Definition deref_env : env := [("self", VRef self_pl)].
Definition deref_state (x : value) (h : store) : state :=
  {| st_store := ("self", x) :: h; st_trace := [] |}.

(** the value the method returns, and the state it leaves *)
Definition run_ref_method (I : interp) (name : string) (it : item) (x : value) (h : store)
  : option (value * state) :=
  match method_body name it with
  | Some body =>
      match run_body I deref_env body (deref_state x h) with
      | (RVal r, s) => Some (r, s)
      | _ => None
      end
  | None => None
  end.
Definition run_deref I := run_ref_method I "deref".
Definition run_deref_mut I := run_ref_method I "deref_mut".

(** The emitted body is an expression of static type `&F` (struct, value
    field), `F` itself (struct, reference field: `self.f`) or `&F` (enum: the
    binding of a pattern matched through `&self`), F the declared field type;
    rustc's deref coercion to the return type `&Target` inserts this many
    implicit dereferences, which are not tokens of the generated code: *)
Definition coercions (is_struct : bool) (ty : toks) : nat :=
  if is_struct && is_ref_type ty then ref_depth ty - 1 else ref_depth ty.
Definition is_struct (d : dinput) : bool :=
  match d_data d with DStruct _ => true | _ => false end.

(** ** values of the shape the type definition prescribes: the variant exists
    and the value has exactly the declared fields (holding anything) *)
Definition dvalue_ok (c : dcfg) (x : value) : Prop :=
  match x with
  | VData vn xs => exists l, vget vn c = Some l /\ map df_key l = map fst xs
  | _ => False
  end.

(** ** write frame: two places are disjoint when they have different roots or
    their paths diverge at some key *)
Definition diverge (p q : list string) : Prop :=
  exists l k1 k2 r1 r2, k1 <> k2 /\ p = l ++ k1 :: r1 /\ q = l ++ k2 :: r2.
Definition disjoint (p q : place) : Prop :=
  pl_root p <> pl_root q \/ diverge (pl_path p) (pl_path q).
