(** C11 / C12 — the header of an educed impl, written from the property
    statements.

    C12  `bound( * )` constrains every type parameter, and only type parameters,
         by the same trait the automatic mode would require of field types;
         `bound(p1, p2, ...)` or `bound = "..."` adds exactly the given
         predicates; `bound = false` (or `bound = ""`) adds none.  In every
         mode, for every trait and shape, each generated impl header
         reproduces the type's lifetime, type and const parameters with their
         inline bounds (minus defaults) and its original where-clause
         unchanged, and nothing else.
    C11  With default bounds, an educed impl applies to Type<Args> exactly when
         every field the implementation delegates to the trait for (not ignored
         and without a custom method; for Default only fields actually
         defaulted; for Into only chosen fields that need conversion; for Copy
         and a stand-alone Eq every field) has a type implementing the required
         trait, together with the trait's supertraits on the type itself.
         Type parameters that occur only in ignored, method-handled or unused
         fields are never constrained.  The companion impls (Eq with
         PartialEq, Copy with Clone, PartialOrd with Ord) apply to exactly the
         same instantiations as the primary.

    Types, traits and predicates are token lists, as the macro sees them. *)
From Educe.Model Require Export Driver.
From Educe.Spec Require Export SpecDefault SpecInto SpecDebug.

(** * C12 — what is added to the where-clause *)

(** the type parameters of a parameter list: lifetimes and const parameters are skipped *)
Fixpoint type_params (ps : list gparam) : list string :=
  match ps with
  | [] => []
  | GType n _ _ :: r => n :: type_params r
  | GLife _ _ :: r => type_params r
  | GConst _ _ _ :: r => type_params r
  end.

(** a where-predicate `lhs : rhs`, structured and as tokens *)
Definition wpred := (toks * toks)%type.
Definition pred_toks (p : wpred) : toks := fst p ++ [P ":"] ++ snd p.

(** what a handler works from: the bound mode read from the trait's
    parameters, the trait required of field types, the field types the
    implementation delegates to, and the supertraits required of `Self` *)
Record breq := { rq_mode : bound; rq_trait : toks; rq_types : list toks; rq_supers : list toks }.

(** the automatic predicates: `ty : Trait` per delegated type, then `Self : S` per supertrait *)
Definition auto_preds (r : breq) : list wpred :=
  map (fun ty => (ty, rq_trait r)) (rq_types r) ++ map (fun s => ([I "Self"], s)) (rq_supers r).
(** `bound( * )`: `T : Trait` for every TYPE parameter, in order *)
Definition all_preds (g : generics) (r : breq) : list wpred :=
  map (fun n => ([I n], rq_trait r)) (type_params (g_params g)).

(** the predicates added after the user's own *)
Definition spec_added (g : generics) (r : breq) : list toks :=
  match rq_mode r with
  | BDisabled => []                         (* bound = false, bound(false) *)
  | BCustom ps => ps                        (* bound(p1, p2, ..), bound = "p1, p2, ..": verbatim *)
  | BAll => map pred_toks (all_preds g r)   (* bound( * ) *)
  | BAuto => map pred_toks (auto_preds r)   (* no `bound`, bound = true *)
  end.

(** the header of an emitted impl, relative to the type definition: the
    parameter list is the type's own, the self type is the type's name, the
    where-clause is the user's followed by [added] (a trailing comma of the
    user's clause survives only when nothing is added) *)
Record header_ok (d : dinput) (added : list toks) (it : item) : Prop := {
  h_params : g_params (i_generics it) = g_params (d_generics d);
  h_trailing : g_trailing (i_generics it) = g_trailing (d_generics d);
  h_self : i_self it = d_name d;
  h_where : g_where (i_generics it) = g_where (d_generics d) ++ added;
  h_where_trailing : g_where_trailing (i_generics it)
                     = if is_nil added then g_where_trailing (d_generics d) else false }.

(** ** the header as printed *)

(** a parameter as declared, WITHOUT its default: `'a: 'b + 'c`, `T: A + B`, `const N: usize` *)
Definition opt_bounds (bs : toks) : toks := match bs with [] => [] | _ => P ":" :: bs end.
Definition param_decl (p : gparam) : toks :=
  match p with
  | GLife n bs => TLife n :: opt_bounds bs
  | GType n bs _ => I n :: opt_bounds bs
  | GConst n ty _ => [I "const"; I n; P ":"] ++ ty
  end.
(** a parameter as used in `Name<'a, T, N>` *)
Definition param_use (p : gparam) : toks :=
  match p with
  | GLife n _ => [TLife n]
  | GType n _ _ => [I n]
  | GConst n _ _ => [I n]
  end.
Definition erase_default (p : gparam) : gparam :=
  match p with
  | GLife n bs => GLife n bs
  | GType n bs _ => GType n bs None
  | GConst n ty _ => GConst n ty None
  end.

(** `<a, b, c>` (with the trailing comma of the declaration), nothing for an empty list *)
Definition angled (trailing : bool) (l : list toks) : toks :=
  match l with
  | [] => []
  | _ => [P "<"] ++ list_toks trailing l ++ [P ">"]
  end.

(** `impl<params> Trait for Name<params> where user-predicates, added-predicates` *)
Definition spec_header (d : dinput) (tr : option toks) (added : list toks) : toks :=
  let g := d_generics d in
  [I "impl"] ++ angled (g_trailing g) (map param_decl (g_params g)) ++
  match tr with Some t => t ++ [I "for"] | None => [] end ++
  [I (d_name d)] ++ angled (g_trailing g) (map param_use (g_params g)) ++
  match g_where g ++ added with
  | [] => []
  | ps => I "where" :: list_toks (if is_nil added then g_where_trailing g else false) ps
  end.

(** * per trait: the trait required of field types and the supertraits required of `Self` *)

Definition educed (t : trait) (F : features) (traits : list trait) : bool :=
  has_trait t F && has_trait t traits.

(** a field as the bound computation sees it *)
Record bfield := { bf_ty : toks; bf_ignored : bool; bf_method : bool }.
Definition view_of (ty : toks) (ign : bool) (m : option toks) : bfield :=
  {| bf_ty := ty; bf_ignored := ign; bf_method := match m with Some _ => true | None => false end |}.

(** "not ignored and without a custom method" *)
Definition delegates (b : bfield) : bool := negb (bf_ignored b) && negb (bf_method b).
Definition delegated (l : list bfield) : list toks := map bf_ty (filter delegates l).

(** the fields of a type: of the struct, of every variant in turn, of the union *)
Definition groups (dd : data) : list (list field) :=
  match dd with
  | DStruct fs => [fields_list fs]
  | DEnum vs => map (fun v => fields_list (v_fields v)) vs
  | DUnion fs => [fs]
  end.
Definition every_field_type (dd : data) : list toks := map f_ty (List.concat (groups dd)).

Definition is_union (dd : data) : bool := match dd with DUnion _ => true | _ => false end.

(** ** the field views, read by each handler's own attribute analysis *)
Section Views.
  Variables (F : features) (traits : list trait).

  Definition peq_view (f : field) : outcome bfield :=
    let* fa := peq_field_attr F traits true true (f_attrs f) in
    Ok (view_of (f_ty f) (fa_ignore fa) (fa_method fa)).
  Definition hash_view (f : field) : outcome bfield :=
    let* fa := hash_field_attr F traits true true (f_attrs f) in
    Ok (view_of (f_ty f) (fa_ignore fa) (fa_method fa)).
  (** Clone has no `ignore`; [em]: `method` is accepted at this position *)
  Definition clone_view (em : bool) (f : field) : outcome bfield :=
    let* m := clone_field_attr F traits em (f_attrs f) in Ok (view_of (f_ty f) false m).
  (** Debug; [en]: `name` is accepted (the struct / variant is printed in struct style) *)
  Definition dbg_view (en : bool) (f : field) : outcome bfield :=
    let* fa := debug_field_attr F traits en true true (f_attrs f) in
    Ok (view_of (f_ty f) (Expand_Debug.df_ignore fa) (Expand_Debug.df_method fa)).
  (** Ord / PartialOrd: the field's rank comes with it *)
  Definition ord_view (own : trait -> bool) (x : nat * field) : outcome (Z * bfield) :=
    let* fa := ord_field_attr F own traits (fst x) (f_attrs (snd x)) in
    Ok (oa_rank fa, view_of (f_ty (snd x)) (oa_ignore fa) (oa_method fa)).

  (** the delegated types of a whole type, one group of fields after the other *)
  Definition delegated_by (view : field -> outcome bfield) (dd : data) : outcome (list toks) :=
    let* ls := mapM (fun fs => let* l := mapM view fs in Ok (delegated l)) (groups dd) in
    Ok (List.concat ls).
End Views.

(** Ord / PartialOrd visit (and bound) the non-ignored fields in ascending rank *)
Fixpoint insert_rank (x : Z * bfield) (l : list (Z * bfield)) : list (Z * bfield) :=
  match l with
  | [] => [x]
  | y :: r => if Z.leb (fst x) (fst y) then x :: l else y :: insert_rank x r
  end.
Definition by_rank (l : list (Z * bfield)) : list bfield :=
  map snd (fold_right insert_rank [] (filter (fun x => negb (bf_ignored (snd x))) l)).

Definition ord_delegated F traits (own : trait -> bool) (dd : data) : outcome (list toks) :=
  let* ls := mapM (fun fs => let* l := mapM (ord_view F traits own) (indexed fs) in
                             Ok (delegated (by_rank l))) (groups dd) in
  Ok (List.concat ls).

(** Debug: the style of a struct / variant decides whether `name` is accepted on its fields *)
Definition dbg_delegated F traits (d : dinput) (m : meta) : outcome (list toks) :=
  match d_data d with
  | DStruct fs =>
      let* ta := Expand_Debug.build_dtattr (struct_tb (is_tuple_fields fs)) m in
      let* l := mapM (dbg_view F traits (Expand_Debug.dt_named_field ta)) (fields_list fs) in
      Ok (delegated l)
  | DEnum vs =>
      let* ls := mapM (fun v =>
                         let* ta := debug_variant_attr F traits
                                      (variant_tb (is_named_fields (v_fields v))) (v_attrs v) in
                         let* l := mapM (dbg_view F traits (Expand_Debug.dt_named_field ta))
                                        (fields_list (v_fields v)) in
                         Ok (delegated l)) vs in
      Ok (List.concat ls)
  | DUnion _ => Ok []          (* the bytes are printed: nothing is delegated *)
  end.

(** Clone: all fields, with their methods.  `method` is refused on a struct when
    Copy is educed too, and on a union. *)
Definition clone_fields F traits (d : dinput) : outcome (list bfield) :=
  let em := match d_data d with
            | DStruct _ => negb (educed TCopy F traits)
            | DEnum _ => true
            | DUnion _ => false
            end in
  mapM (clone_view F traits em) (List.concat (groups (d_data d))).

(** "Copy is educed and the body is `*self`": a union is always copied bitwise *)
Definition clone_by_copy F traits (d : dinput) (l : list bfield) : bool :=
  is_union (d_data d)
  || (educed TCopy F traits && forallb (fun b => negb (bf_method b)) l).

Definition clone_trait_of (by_copy : bool) : toks :=
  if by_copy then core_path ["marker"; "Copy"] else core_path ["clone"; "Clone"].

(** "for ... union Clone every field" *)
Definition clone_delegated (d : dinput) (l : list bfield) : list toks :=
  if is_union (d_data d) then map bf_ty l else delegated l.

(** Default: "only fields actually defaulted" — none under a type-level
    expression, else the fields of the constructed struct / variant / union
    field that have no expression of their own *)
Definition default_delegated (c : SpecDefault.dcfg) : list toks :=
  match SpecDefault.dc_body c with
  | DRExpr _ => []
  | DRData _ fs => flat_map (fun '(_, ty, oe) => match oe with None => [ty] | Some _ => [] end) fs
  end.

(** Into<T>: "only chosen fields that need conversion" — per variant the
    designated field, unless it has a method for T or is of type T already *)
Definition into_needs_conv (T : toks) (f : ifield) : list toks :=
  match into_method T f with
  | Some _ => []
  | None => if same_type T f then [] else [if_ty f]
  end.
Definition into_delegated (T : toks) (c : icfg) : list toks :=
  flat_map (fun e => match spec_into_select T (snd e) with
                     | Ok f => into_needs_conv T f
                     | _ => []
                     end) c.

(** ** the tables *)

(** the trait required of field types (Clone: see [clone_trait_of]; Into: `Into<T>`);
    a stand-alone Eq asks `PartialEq` of the field types, as documented *)
Definition bound_trait_of (t : trait) : toks :=
  match t with
  | TDebug => core_path ["fmt"; "Debug"]
  | TClone => core_path ["clone"; "Clone"]
  | TCopy => core_path ["marker"; "Copy"]
  | TPartialEq => core_path ["cmp"; "PartialEq"]
  | TEq => core_path ["cmp"; "PartialEq"]
  | TPartialOrd => core_path ["cmp"; "PartialOrd"]
  | TOrd => core_path ["cmp"; "Ord"]
  | THash => core_path ["hash"; "Hash"]
  | TDefault => core_path ["default"; "Default"]
  | TDeref | TDerefMut | TInto => []
  end.

(** the supertraits required of `Self`.  Ord: `Eq`, and `PartialOrd` unless the
    PartialOrd impl is educed alongside (the crate adds it only when its
    `PartialOrd` feature is compiled in) *)
Definition supers_of (t : trait) (F : features) (traits : list trait) : list toks :=
  match t with
  | TCopy => [core_path ["clone"; "Clone"]]
  | TEq => [core_path ["cmp"; "PartialEq"]]
  | TPartialOrd => [core_path ["cmp"; "PartialEq"]]
  | TOrd => core_path ["cmp"; "Eq"]
            :: (if has_trait TPartialOrd F && negb (has_trait TPartialOrd traits)
                then [core_path ["cmp"; "PartialOrd"]] else [])
  | _ => []
  end.

(** ** the bound mode, read from the trait's type-level meta by the handler's
    own attribute builder.  Positions that do not accept `bound` (unions of
    PartialEq / Hash / Debug, Deref, DerefMut) are always automatic — and
    delegate to no field. *)
Definition tattr_mode (ef eu eb : bool) (m : meta) : outcome bound :=
  let* ta := build_tattr ef eu eb m in Ok (ta_bound ta).

Definition type_mode (t : trait) (F : features) (traits : list trait) (d : dinput) (m : meta)
  : outcome bound :=
  match t with
  | TPartialEq | THash =>
      if is_union (d_data d) then Ok BAuto else tattr_mode true false true m
  | TClone | TOrd => tattr_mode true false true m
  (* with the primary educed too (Ord / Clone / PartialEq) the impl is emitted by the primary's
     handler; this one emits nothing and refuses `bound` *)
  | TPartialOrd => tattr_mode true false (negb (educed TOrd F traits)) m
  | TCopy => tattr_mode true false (negb (educed TClone F traits)) m
  | TEq => tattr_mode true false (negb (educed TPartialEq F traits)) m
  | TDebug =>
      match d_data d with
      | DStruct fs => let* ta := Expand_Debug.build_dtattr (struct_tb (is_tuple_fields fs)) m in
                      Ok (Expand_Debug.dt_bound ta)
      | DEnum _ => let* ta := Expand_Debug.build_dtattr enum_tb m in Ok (Expand_Debug.dt_bound ta)
      | DUnion _ => Ok BAuto
      end
  | TDefault => let* ta := Expand_Default.build_dtattr true true true true m in
                Ok (Expand_Default.dt_bound ta)
  | TDeref | TDerefMut | TInto => Ok BAuto
  end.

(** the delegated types per trait *)
Definition delegated_of (t : trait) (F : features) (traits : list trait) (d : dinput) (m : meta)
  : outcome (list toks) :=
  match t with
  | TPartialEq => if is_union (d_data d) then Ok [] else delegated_by (peq_view F traits) (d_data d)
  | THash => if is_union (d_data d) then Ok [] else delegated_by (hash_view F traits) (d_data d)
  | TPartialOrd => if educed TOrd F traits then Ok []
                   else ord_delegated F traits (trait_eqb TPartialOrd) (d_data d)
  | TOrd => ord_delegated F traits (own_ord F traits) (d_data d)
  | TClone => let* l := clone_fields F traits d in Ok (clone_delegated d l)
  | TCopy | TEq => Ok (every_field_type (d_data d))
  | TDebug => dbg_delegated F traits d m
  | TDefault => let* c := default_cfg F traits d m in Ok (default_delegated c)
  | TDeref | TDerefMut | TInto => Ok []
  end.

(** the trait required of the delegated types, Clone's choice included *)
Definition required_trait (t : trait) (F : features) (traits : list trait) (d : dinput) : toks :=
  match t with
  | TClone => match clone_fields F traits d with
              | Ok l => clone_trait_of (clone_by_copy F traits d l)
              | _ => bound_trait_of TClone
              end
  | _ => bound_trait_of t
  end.

(** what the handler of trait [t] works from, given the mode [b] and the delegated types [tys] *)
Definition req_of (t : trait) (F : features) (traits : list trait) (d : dinput)
           (b : bound) (tys : list toks) : breq :=
  {| rq_mode := b; rq_trait := required_trait t F traits d; rq_types := tys;
     rq_supers := supers_of t F traits |}.

(** * C11 — when the impl applies *)

(** an abstract trait environment: does the type (tokens, under some
    instantiation of the parameters) implement the trait (tokens) *)
Definition tenv := toks -> toks -> bool.
Definition preds_hold (env : tenv) (ps : list wpred) : bool :=
  forallb (fun p => env (fst p) (snd p)) ps.

(** deep occurrence of an identifier in a token list *)
Fixpoint tt_mentions (n : string) (t : tt) : bool :=
  match t with
  | TIdent s => String.eqb s n
  | TGroup _ ts => (fix go (l : list tt) : bool :=
                      match l with [] => false | x :: r => tt_mentions n x || go r end) ts
  | _ => false
  end.
Definition mentions (n : string) (ts : toks) : bool := existsb (tt_mentions n) ts.

(** the known deviation: `#[educe(Clone, Copy)]` on an enum with a custom clone
    method on some field — the Copy companion gets the Clone impl's
    where-clause (`T: Clone` for the fields without a method) instead of
    `T: Copy` for every field *)
Definition known_copy_bound (F : features) (traits : list trait) (d : dinput) : Prop :=
  educed TCopy F traits = true /\
  exists vs l, d_data d = DEnum vs /\ clone_fields F traits d = Ok l /\
               existsb bf_method l = true.

(** * Debug's local helper impls (`Educe__DebugField`, one per field with a
    custom method): every such node of an expression, with the pieces of its
    impl header *)
Record helper_impl := { hi_generics : toks; hi_field_ty : toks; hi_self_ty : toks; hi_where : toks }.

Fixpoint helper_impls (e : expr) : list helper_impl :=
  match e with
  | EVar _ | EPath _ | EUnit | EBool _ | EUsize _ | EToks _ | EMacro _ _ | EStr _
  | EDebugMapBuilder | EQPath _ _ _ => []
  | ECall f args | ECallT f args => helper_impls f ++ flat_map helper_impls args
  | EMethod r _ args => helper_impls r ++ flat_map helper_impls args
  | ERef e | ERefMut e | EDeref e | ENot e | EField e _ | EReturn e | ECast e _ | ESemi e
  | ELet _ _ e => helper_impls e
  | EIf c th el =>
      helper_impls c ++ flat_map helper_impls th ++
      match el with Some b => flat_map helper_impls b | None => [] end
  | EIfLet _ s th el =>
      helper_impls s ++ flat_map helper_impls th ++
      match el with Some b => flat_map helper_impls b | None => [] end
  | EMatch s arms | EMatchC s arms =>
      helper_impls s ++ flat_map (fun '(_, b) => helper_impls b) arms
  | EBlock b | EUnsafe b => flat_map helper_impls b
  | EAssign l r => helper_impls l ++ helper_impls r
  | EStruct _ fs _ => flat_map (fun '(_, v) => helper_impls v) fs
  | EDebugFieldArg ig fty sty wc _ fe =>
      {| hi_generics := ig; hi_field_ty := fty; hi_self_ty := sty; hi_where := wc |}
      :: helper_impls fe
  | EDiscrMatch _ a b c => helper_impls a ++ helper_impls b ++ helper_impls c
  end.

Definition member_helpers (mb : member) : list helper_impl :=
  match mb with MFn _ _ _ _ body => flat_map helper_impls body | MType _ _ => [] end.
Definition item_helpers (it : item) : list helper_impl := flat_map member_helpers (i_members it).

(** the helper impl is generic over the type's parameters and repeats the
    type's ORIGINAL where-clause: predicates added for `bound` are absent *)
Definition helper_ok (d : dinput) (h : helper_impl) : Prop :=
  hi_generics h = impl_generics_toks (d_generics d) /\
  hi_self_ty h = I (d_name d) :: ty_generics_toks (d_generics d) /\
  hi_where h = where_toks (d_generics d).
