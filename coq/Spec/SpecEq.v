(** C02 — the meaning of an educed PartialEq, written from the property
    statement: same variant, and every non-ignored field equal under its
    custom method (left operand's field first) or the field type's `==`. *)
From Educe.Sem Require Export Interp.
From Educe.Model Require Export Attr Expand_PartialEq.

(** per-field request: ignore flag and optional method (record [fattr]) *)

Definition as_bool (v : value) : bool := match v with VBool b => b | _ => false end.

(** "equal under its custom method or the field type's own ==".  The
    generated code asks the field type `ne`; Rust's PartialEq contract makes
    that the negation of `==`. *)
Definition field_eq (I : interp) (fa : fattr) (x y : value) : bool :=
  match fa_method fa with
  | Some m => as_bool (i_user I m [x; y])
  | None => negb (i_ne I x y)
  end.

(** the key under which a field's value is stored: its name, or its index *)
Definition field_key (i : nat) (f : field) : string :=
  match f_name f with Some n => n | None => dec i end.

(** fields with their position and request *)
Definition keyed (l : list (field * fattr)) : list (string * fattr) :=
  map (fun '(i, (f, fa)) => (field_key i f, fa)) (indexed l).

Definition spec_fields_eq (I : interp) (l : list (string * fattr))
           (xs ys : list (string * value)) : bool :=
  forallb (fun '(k, fa) =>
             fa_ignore fa ||
             match lookup k xs, lookup k ys with
             | Some x, Some y => field_eq I fa x y
             | _, _ => false
             end) l.

(** per-variant requests: variant name (None for a struct) -> keyed fields *)
Definition vcfg := list (option string * list (string * fattr)).

Fixpoint vcfg_get (vn : option string) (c : vcfg) : option (list (string * fattr)) :=
  match c with
  | [] => None
  | (k, l) :: r =>
      match vn, k with
      | None, None => Some l
      | Some a, Some b => if String.eqb a b then Some l else vcfg_get vn r
      | _, _ => vcfg_get vn r
      end
  end.

Definition spec_eq (I : interp) (c : vcfg) (a b : value) : option bool :=
  match a, b with
  | VData va xs, VData vb ys =>
      match vcfg_get va c with
      | Some l =>
          Some (match va, vb with
                | None, None => spec_fields_eq I l xs ys
                | Some x, Some y => String.eqb x y && spec_fields_eq I l xs ys
                | _, _ => false
                end)
      | None => None
      end
  | _, _ => None
  end.

(** a value of the shape the type definition prescribes: the variant exists
    and the value has exactly the declared fields, each an opaque atom *)
Definition is_atom (v : value) : bool := match v with VAtom _ => true | _ => false end.
Definition shape_ok (l : list (string * fattr)) (xs : list (string * value)) : bool :=
  (if list_eq_dec string_dec (map fst l) (map fst xs) then true else false)
  && forallb (fun kv => is_atom (snd kv)) xs.
Definition value_ok (c : vcfg) (v : value) : bool :=
  match v with
  | VData vn xs => match vcfg_get vn c with Some l => shape_ok l xs | None => false end
  | _ => false
  end.

(** ** the request as the attribute analysis reads it: per variant, the keyed
    fields with their ignore / method choices *)
Definition peq_cfg (F : features) (traits : list trait) (d : dinput) : outcome vcfg :=
  match d_data d with
  | DStruct fs =>
      let* l := field_attrs F traits (fields_list fs) in Ok [(None, keyed l)]
  | DEnum vs =>
      mapM (fun v => let* l := field_attrs F traits (fields_list (v_fields v)) in
                     Ok (Some (v_name v), keyed l)) vs
  | DUnion _ => OutOfDomain "union"
  end.

(** what rustc guarantees about the item before any derive runs: fields of a
    braced struct / variant are named, with names distinct (raw prefix
    aside); tuple fields are unnamed *)
Definition fields_wf (fs : fields) : Prop :=
  match fs with
  | FNamed l => (forall f, In f l -> f_name f <> None) /\
                NoDup (map (fun f => unraw (match f_name f with Some n => n | None => "" end)) l)
  | FUnnamed l => forall f, In f l -> f_name f = None
  | FUnit => True
  end.
Definition data_wf (d : data) : Prop :=
  match d with
  | DStruct fs => fields_wf fs
  | DEnum vs => forall v, In v vs -> fields_wf (v_fields v)
  | DUnion _ => True
  end.
