(** * Static well-formedness of the emitted code (C01) as decidable judgments

    "The generated items compile" cannot be stated without a formal rustc.
    What is stated here are NECESSARY conditions, each a boolean checker on the
    emitted AST ([Ast.v]) relative to the type definition it was derived for;
    the theorems (Proofs/P_C01*.v) say that every item emitted by every handler
    passes them, for every input:

    - J2 [item_pats]    every pattern for `Self::V` has the shape and the arity of variant V
    - J3 [item_ctors]   every constructor expression names every field once / has one
                        argument per tuple field
    - J4 [item_matches] a `match self` has exactly one arm per variant, in declaration order
    - J7 [item_arity]   calls of `::core` functions, of `core::fmt::Formatter` methods and of the
                        `Debug*` builders have the arity of their signatures
    - J8 [item_safe]    no `unsafe` block and no `as` cast (outside the union handlers)

    (J1 = the items parse / J5 = the impl header / J6 = the bounds are other properties.) *)
From Educe.Spec Require Export Hygiene.   (* the traversal [walk], [pat_all], [nodupb] *)

Notation no_ctx_block := (fun (c : unit) (_ : list expr) => c).
Notation no_ctx_arm := (fun (c : unit) (_ : pat) => c).

(** * J8 : no `unsafe`, no cast *)
Definition j8_node (_ : unit) (e : expr) : bool :=
  match e with EUnsafe _ | ECast _ _ => false | _ => true end.
Definition expr_safe : expr -> bool :=
  walk j8_node (fun _ _ => true) no_ctx_block no_ctx_arm Datatypes.tt.
Definition member_safe (mb : member) : bool :=
  match mb with MFn _ _ _ _ body => forallb expr_safe body | MType _ _ => true end.
Definition item_safe (it : item) : bool := forallb member_safe (i_members it).

(** * J7 : arities *)

(** the signatures of the `::core` functions the templates call *)
Definition core_fn_arities : list (list string * nat) :=
  [(["cmp"; "PartialEq"; "eq"], 2); (["cmp"; "PartialEq"; "ne"], 2);
   (["cmp"; "PartialOrd"; "partial_cmp"], 2); (["cmp"; "Ord"; "cmp"], 2);
   (["hash"; "Hash"; "hash"], 2);
   (["clone"; "Clone"; "clone"], 1); (["clone"; "Clone"; "clone_from"], 2);
   (["convert"; "Into"; "into"], 1);
   (["option"; "Option"; "Some"], 1);
   (["slice"; "from_raw_parts"], 2);
   (["fmt"; "Debug"; "fmt"], 2)].

Fixpoint strs_eqb (a b : list string) : bool :=
  match a, b with
  | [], [] => true
  | x :: a', y :: b' => String.eqb x y && strs_eqb a' b'
  | _, _ => false
  end.

Fixpoint core_fn_arity (segs : list string) (t : list (list string * nat)) : option nat :=
  match t with
  | [] => None
  | (k, n) :: r => if strs_eqb k segs then Some n else core_fn_arity segs r
  end.

(** `::core::mem::size_of::<Self>` (a raw token callee) *)
Definition size_of_self : toks :=
  core_path ["mem"; "size_of"] ++ [P "::"; P "<"; I "Self"; P ">"].

(** the builder a block works with: `f.debug_struct(..)`, `f.debug_tuple(..)`, `f.debug_map()` *)
Inductive bkind := BKStruct | BKTuple | BKMap.

Definition builder_kind_of (e : expr) : option bkind :=
  match e with
  | ELet _ x (EMethod (EVar r) ctor _) =>
      if String.eqb x "builder" && String.eqb r "f" then
        if String.eqb ctor "debug_struct" then Some BKStruct
        else if String.eqb ctor "debug_tuple" then Some BKTuple
        else None
      else None
  | EDebugMapBuilder => Some BKMap
  | _ => None
  end.

Fixpoint block_builder (b : list expr) : option bkind :=
  match b with
  | [] => None
  | e :: r => match builder_kind_of e with Some k => Some k | None => block_builder r end
  end.

Definition j7_enter_block (c : option bkind) (b : list expr) : option bkind :=
  match block_builder b with Some k => Some k | None => c end.

(** core::fmt::Formatter::{debug_struct(&mut self, name), debug_tuple(&mut self, name),
    write_str(&mut self, s)}; DebugStruct::field(name, value), DebugTuple::field(value),
    DebugMap::entry(key, value), *::finish() *)
Definition method_arity_ok (k : option bkind) (recv : expr) (m : string) (n : nat) : bool :=
  match recv with
  | EVar r =>
      if String.eqb r "f" then
        (String.eqb m "debug_struct" || String.eqb m "debug_tuple" || String.eqb m "write_str")
        && Nat.eqb n 1
      else if String.eqb r "builder" then
        if String.eqb m "finish" then Nat.eqb n 0
        else if String.eqb m "field" then
          match k with Some BKStruct => Nat.eqb n 2 | Some BKTuple => Nat.eqb n 1 | _ => false end
        else if String.eqb m "entry" then
          match k with Some BKMap => Nat.eqb n 2 | _ => false end
        else false
      else false
  | _ => false          (* the templates call methods on `f` and `builder` only *)
  end.

Definition call_arity_ok (f : expr) (n : nat) : bool :=
  match f with
  | EPath (RCore segs) =>
      match core_fn_arity segs core_fn_arities with Some a => Nat.eqb n a | None => false end
  | EPath (RUser _) => Nat.eqb n 1 || Nat.eqb n 2      (* clone-like / eq-, cmp-, hash-like *)
  | EPath (RLocal _) => Nat.eqb n 1                    (* Educe__RawString(&'static str) *)
  | EPath RSelf | EPath (RSelfV _) => true             (* constructors: J3 *)
  | EQPath _ _ name => String.eqb name "default" && Nat.eqb n 0
  | EToks ts => flat_eqb ts size_of_self && Nat.eqb n 0
  | _ => false
  end.

Definition j7_node (k : option bkind) (e : expr) : bool :=
  match e with
  | ECall f args | ECallT f args => call_arity_ok f (List.length args)
  | EMethod r m args => method_arity_ok k r m (List.length args)
  | _ => true
  end.

Definition expr_arity : option bkind -> expr -> bool :=
  walk j7_node (fun _ _ => true) j7_enter_block (fun c _ => c).
Definition member_arity (mb : member) : bool :=
  match mb with
  | MFn _ _ _ _ body => walk_body j7_node (fun _ _ => true) j7_enter_block (fun c _ => c) None body
  | MType _ _ => true
  end.
Definition item_arity (it : item) : bool := forallb member_arity (i_members it).

(** * J4 : `match self` is exhaustive, one arm per variant, in order *)
Definition pat_variant (p : pat) : option string :=
  match p with
  | PPath (RSelfV v) | PTuple (RSelfV v) _ _ _ | PStruct (RSelfV v) _ _ _ => Some v
  | _ => None
  end.

Fixpoint arms_cover (arms : list (pat * expr)) (vs : list variant) : bool :=
  match arms, vs with
  | [], [] => true
  | a :: ar, v :: vr =>
      match pat_variant (fst a) with Some n => String.eqb n (v_name v) | None => false end
      && arms_cover ar vr
  | _, _ => false
  end.

Fixpoint discrs_cover (ds : list (string * Z)) (vs : list variant) : bool :=
  match ds, vs with
  | [], [] => true
  | x :: dr, v :: vr => String.eqb (fst x) (v_name v) && discrs_cover dr vr
  | _, _ => false
  end.

Definition j4_node (vs : list variant) (_ : unit) (e : expr) : bool :=
  match e with
  | EMatch (EVar x) arms | EMatchC (EVar x) arms =>
      if String.eqb x "self" then arms_cover arms vs else true
  | EDiscrMatch ds _ _ _ => discrs_cover ds vs      (* its two hidden `match self / other` *)
  | _ => true
  end.

Definition expr_matches (vs : list variant) : expr -> bool :=
  walk (j4_node vs) (fun _ _ => true) no_ctx_block no_ctx_arm Datatypes.tt.
Definition member_matches (vs : list variant) (mb : member) : bool :=
  match mb with MFn _ _ _ _ body => forallb (expr_matches vs) body | MType _ _ => true end.
Definition item_matches (vs : list variant) (it : item) : bool :=
  forallb (member_matches vs) (i_members it).

(** * J2 : patterns *)
Definition fname_of (f : field) : string := match f_name f with Some n => n | None => "" end.

(** a pattern (its head aside) against the field list it destructures *)
Definition pat_fits (fs : fields) (p : pat) : bool :=
  match p, fs with
  | PPath _, FUnit => true
  | PTuple _ ps _ rest, FUnnamed l =>
      if rest then Nat.leb (List.length ps) (List.length l)
      else Nat.eqb (List.length ps) (List.length l)
  | PStruct _ pfs _ rest, FNamed l =>
      nodupb (map fst pfs)
      && forallb (fun n => mem_str n (map fname_of l)) (map fst pfs)
      && (rest || Nat.eqb (List.length pfs) (List.length l))
  | _, _ => false
  end.

Definition core_some : list string := ["option"; "Option"; "Some"].

Definition j2_pat (vs : list variant) (p : pat) : bool :=
  match p with
  | PWild | PBind _ => true
  | PPath (RSelfV n) | PTuple (RSelfV n) _ _ _ | PStruct (RSelfV n) _ _ _ =>
      existsb (fun v => String.eqb (v_name v) n && pat_fits (v_fields v) p) vs
  | PPath (RCore _) => true                                   (* Ordering::X, Option::None *)
  | PTuple (RCore segs) ps _ rest =>
      strs_eqb segs core_some && Nat.eqb (List.length ps) 1 && negb rest               (* Option::Some(p) *)
  | _ => false
  end.

Definition expr_pats (vs : list variant) : expr -> bool :=
  walk (fun _ _ => true) (fun _ p => pat_all (j2_pat vs) p) no_ctx_block no_ctx_arm Datatypes.tt.
Definition member_pats (vs : list variant) (mb : member) : bool :=
  match mb with MFn _ _ _ _ body => forallb (expr_pats vs) body | MType _ _ => true end.
Definition item_pats (vs : list variant) (it : item) : bool :=
  forallb (member_pats vs) (i_members it).

(** * J3 : constructors
    (a bare `Self::V` / `Self` used as a VALUE is not judged: the traversal cannot tell it from the
    callee of a tuple constructor; the handlers emit it for unit variants / unit structs only) *)
(** `P { a: e, b: e }` against a field list: exactly the declared names, in declaration order
    (with the distinct names rustc guarantees: every field exactly once) *)
Definition struct_ctor_fits (fs : fields) (names : list string) : bool :=
  match fs with
  | FNamed l => strs_eqb names (map fname_of l)
  | _ => false
  end.
Definition tuple_ctor_fits (fs : fields) (n : nat) : bool :=
  match fs with FUnnamed l => Nat.eqb n (List.length l) | _ => false end.

Definition j3_node (d : data) (_ : unit) (e : expr) : bool :=
  match e with
  | EStruct (RSelfV v) fs _ =>
      match d with
      | DEnum vs => existsb (fun x => String.eqb (v_name x) v
                                      && struct_ctor_fits (v_fields x) (map fst fs)) vs
      | _ => false
      end
  | EStruct RSelf fs _ =>
      match d with
      | DStruct s => struct_ctor_fits s (map fst fs)
      | DUnion l => match fs with                         (* a union is built from ONE field *)
                    | [(n, _)] => mem_str n (map fname_of l)
                    | _ => false
                    end
      | DEnum _ => false
      end
  | EStruct _ _ _ => false
  | ECallT (EPath (RSelfV v)) args =>
      match d with
      | DEnum vs => existsb (fun x => String.eqb (v_name x) v
                                      && tuple_ctor_fits (v_fields x) (List.length args)) vs
      | _ => false
      end
  | ECallT (EPath RSelf) args =>
      match d with DStruct s => tuple_ctor_fits s (List.length args) | _ => false end
  | _ => true
  end.

Definition expr_ctors (d : data) : expr -> bool :=
  walk (j3_node d) (fun _ _ => true) no_ctx_block no_ctx_arm Datatypes.tt.
Definition member_ctors (d : data) (mb : member) : bool :=
  match mb with MFn _ _ _ _ body => forallb (expr_ctors d) body | MType _ _ => true end.
Definition item_ctors (d : data) (it : item) : bool := forallb (member_ctors d) (i_members it).

(** * what rustc guarantees about the type definition before a derive runs *)
(** named fields have names, pairwise distinct; tuple fields have none *)
Definition fields_named_ok (fs : fields) : Prop :=
  match fs with
  | FNamed l => (forall f, In f l -> f_name f <> None) /\ NoDup (map fname_of l)
  | FUnnamed l => forall f, In f l -> f_name f = None
  | FUnit => True
  end.
Definition data_named_ok (d : data) : Prop :=
  match d with
  | DStruct fs => fields_named_ok fs
  | DEnum vs => forall v, In v vs -> fields_named_ok (v_fields v)
  | DUnion l => fields_named_ok (FNamed l)
  end.

(** * J2, J3, J4, J8 in one traversal (they share the context-free [walk]) *)
Definition variants_of (d : data) : list variant := match d with DEnum vs => vs | _ => [] end.

Definition is_union (d : data) : bool := match d with DUnion _ => true | _ => false end.

(** (J8 is waived for unions: their PartialEq / Hash / Debug read the bytes of the value) *)
Definition wf_node (d : data) (c : unit) (e : expr) : bool :=
  (is_union d || j8_node c e) && j4_node (variants_of d) c e && j3_node d c e.
Definition wf_pnode (d : data) (_ : unit) (p : pat) : bool := pat_all (j2_pat (variants_of d)) p.

Definition expr_wf (d : data) : expr -> bool :=
  walk (wf_node d) (wf_pnode d) no_ctx_block no_ctx_arm Datatypes.tt.
Definition member_wf (d : data) (mb : member) : bool :=
  match mb with MFn _ _ _ _ body => forallb (expr_wf d) body | MType _ _ => true end.
Definition item_wf (d : data) (it : item) : bool := forallb (member_wf d) (i_members it).
