(** C18 — cargo features: evaluation of cfg conditions and the reference check. *)
From Coq Require Import List String Bool.
From Educe.Gen Require Import Sources.
Import ListNotations.
Open Scope string_scope.

Definition twelve : list string :=
  ["Debug"; "Clone"; "Copy"; "PartialEq"; "Eq"; "PartialOrd"; "Ord"; "Hash";
   "Default"; "Deref"; "DerefMut"; "Into"].

Definition fmem (f : string) (F : list string) : bool := existsb (String.eqb f) F.

(** an opaque (unparsed) condition is pessimistically false as a gate and true as a context,
    see [ref_ok] *)
Fixpoint eval_cond (opaque : bool) (F : list string) (c : cond) : bool :=
  match c with
  | CTrue => true
  | CFeat f => fmem f F
  | CNot c' => negb (eval_cond (negb opaque) F c')
  | CAny l => existsb (eval_cond opaque F) l
  | CAll l => forallb (eval_cond opaque F) l
  | COpaque _ => opaque
  end.

(** a reference is fine under F when its context being compiled implies its target is *)
Definition ref_ok (F : list string) (r : string * string * cond * cond) : bool :=
  let '(_, _, ctx, gate) := r in
  implb (eval_cond true F ctx) (eval_cond false F gate).

(** all subsets of a list, as sublists in order *)
Fixpoint subsets {A} (l : list A) : list (list A) :=
  match l with
  | [] => [[]]
  | x :: r => let s := subsets r in map (cons x) s ++ s
  end.

Definition nonempty {A} (l : list A) : bool := match l with [] => false | _ => true end.

Definition all_refs_ok : bool :=
  forallb (fun F => negb (nonempty F) || forallb (ref_ok F) gated_refs) (subsets twelve).

(** the crate refuses to build exactly when no trait feature is enabled *)
Definition empty_gate_exact : bool :=
  forallb (fun F => Bool.eqb (eval_cond false F empty_features_gate) (negb (nonempty F))) (subsets twelve).

Lemma in_subsets {A} (l s : list A) :
  In s (subsets l) <-> exists keep : list bool,
    List.length keep = List.length l /\
    s = flat_map (fun '(b, x) => if b : bool then [x] else []) (combine keep l).
Proof.
  revert s. induction l as [|x r IH]; intros s; cbn [subsets].
  - split.
    + intros [<-|[]]. exists []. split; reflexivity.
    + intros [keep [Hl ->]]. destruct keep; [left; reflexivity|discriminate Hl].
  - rewrite in_app_iff, in_map_iff. split.
    + intros [[s' [<- Hs']]|Hs].
      * apply IH in Hs' as [keep [Hl ->]]. exists (true :: keep). split; [cbn; congruence|reflexivity].
      * apply IH in Hs as [keep [Hl ->]]. exists (false :: keep). split; [cbn; congruence|reflexivity].
    + intros [keep [Hl ->]]. destruct keep as [|b keep]; [discriminate Hl|].
      cbn in Hl. injection Hl as Hl. destruct b; cbn [combine flat_map app].
      * left. eexists. split; [reflexivity|]. apply IH. exists keep. split; [exact Hl|reflexivity].
      * right. apply IH. exists keep. split; [exact Hl|reflexivity].
Qed.
