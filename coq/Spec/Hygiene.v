(** * Hygiene of the emitted code (C19) as decidable judgments on the emitted AST

    Rustc's name resolution is not formalised.  What is stated here are
    STATIC, DECIDABLE judgments on the AST the model emits ([Ast.v]: [expr],
    [pat], [member], [item]), each a boolean checker; the theorems (Proofs/P_C19*.v)
    say that every item emitted by every handler passes them, for every input.
    They are NECESSARY conditions for the property "the generated code is
    insulated from the names at the derive site", not a proof of it.

    Three judgments:

    - [item_hyg]   (H1)  every name a TEMPLATE writes is resolved independently
                         of the derive site: absolute `::core::..` paths, `Self`,
                         `Self::V`, a helper type the same block declares, a
                         macro printed `::core::name!`, and -- inside raw token
                         fragments -- identifiers of an explicit allowlist only.
                         User-supplied fragments (field types, `method` paths,
                         default expressions, where-predicates, Into targets)
                         are not judged: they are resolved at the derive site
                         on purpose.
    - [item_binds] (H2)  the bindings a template introduces in one scope are
                         pairwise distinct and never equal a name already bound
                         (the method's parameters, the bindings of an enclosing
                         pattern).
    - hasher freshness (H3) is a plain statement about [hasher_ident]. *)
From Educe.Model Require Export Driver.

(** ** A generic traversal of [expr] threading a context

    [node c e] judges the node [e] itself in context [c]; [pnode c p] judges a
    pattern where it is matched; [enter_block c b] is the context of the
    statements of the block [b] (Rust items declared in a block are visible in
    the whole block, `let`s are collected up front); [enter_arm c p] is the
    context of the code guarded by the pattern [p]. *)
Section Walk.
  Context {C : Type}.
  Variable node : C -> expr -> bool.
  Variable pnode : C -> pat -> bool.
  Variable enter_block : C -> list expr -> C.
  Variable enter_arm : C -> pat -> C.

  Fixpoint walk (c : C) (e : expr) {struct e} : bool :=
    node c e &&
    match e with
    | EVar _ | EPath _ | EUnit | EBool _ | EUsize _ | EToks _ | EMacro _ _ | EStr _
    | EDebugMapBuilder | EQPath _ _ _ => true
    | ECall f args | ECallT f args => walk c f && forallb (walk c) args
    | EMethod r _ args => walk c r && forallb (walk c) args
    | ERef e1 | ERefMut e1 | EDeref e1 | ENot e1 | EField e1 _ | EReturn e1 | ESemi e1
    | ELet _ _ e1 | ECast e1 _ => walk c e1
    | EIf cnd th el =>
        walk c cnd && forallb (walk (enter_block c th)) th
        && match el with Some b => forallb (walk (enter_block c b)) b | None => true end
    | EIfLet p sc th el =>
        pnode c p && walk c sc
        && forallb (walk (enter_block (enter_arm c p) th)) th
        && match el with Some b => forallb (walk (enter_block c b)) b | None => true end
    | EMatch sc arms | EMatchC sc arms =>
        walk c sc
        && forallb (fun pe => pnode c (fst pe) && walk (enter_arm c (fst pe)) (snd pe)) arms
    | EBlock b | EUnsafe b => forallb (walk (enter_block c b)) b
    | EAssign l r => walk c l && walk c r
    | EStruct _ fs _ => forallb (fun kv => walk c (snd kv)) fs
    | EDebugFieldArg _ _ _ _ _ fe => walk c fe
    | EDiscrMatch _ eq gt lt => walk c eq && walk c gt && walk c lt
    end.

  (** the body of a method *)
  Definition walk_body (c : C) (b : list expr) : bool := forallb (walk (enter_block c b)) b.
End Walk.

(** every sub-pattern satisfies [P] *)
Fixpoint pat_all (P : pat -> bool) (p : pat) : bool :=
  P p &&
  match p with
  | PTuple _ ps _ _ => forallb (pat_all P) ps
  | PStruct _ fs _ _ =>
      forallb (fun nf => match snd nf with Some q => pat_all P q | None => true end) fs
  | _ => true
  end.

(** the names a pattern binds, left to right (`x` in the shorthand field `V { x, .. }` binds [x]) *)
Fixpoint pat_binders (p : pat) : list string :=
  match p with
  | PWild | PPath _ => []
  | PBind x => [x]
  | PTuple _ ps _ _ => flat_map pat_binders ps
  | PStruct _ fs _ _ =>
      flat_map (fun nf => match snd nf with Some q => pat_binders q | None => [fst nf] end) fs
  end.

(** * H1 : names written by templates *)

(** ** raw token fragments

    A token fragment is read as Rust paths: an identifier that follows `::` or
    `.` is a path segment / member name and is not looked up in the scope of
    the derive site; a `::` that does not continue a path starts a GLOBAL path,
    whose first segment must be `core`; every other identifier is looked up at
    the derive site (or is a keyword) and must be allowed by [allow].
    Keywords that cannot start or continue a path reset the reading, so
    `&mut ::core::fmt::Formatter` is read `&mut` + a global path. *)
Inductive pstate :=
| PS_start     (* nothing pending *)
| PS_seg       (* after a path segment or a closing `>`: a following `::` continues the path *)
| PS_colons    (* after a continuing `::`: the next identifier is a segment (or `<` opens a turbofish) *)
| PS_global    (* after a leading `::`: the next token must be the identifier `core` *)
| PS_dot.      (* after `.`: the next identifier is a member name *)

(** keywords after which a path may START but which are never a path segment themselves *)
Definition plain_keywords : list string :=
  ["mut"; "const"; "fn"; "impl"; "struct"; "for"; "let"; "pub"; "as"; "where"; "dyn"; "ref";
   "unsafe"; "match"; "if"; "else"; "return"; "in"; "static"; "type"; "trait"; "enum"; "use"].

Definition tok_step (allow : string -> bool) (st : pstate) (t : tt) : option pstate :=
  match t with
  | TIdent s =>
      match st with
      | PS_colons | PS_dot => Some PS_seg
      | PS_global => if String.eqb s "core" then Some PS_seg else None
      | PS_start | PS_seg =>
          if mem_str s plain_keywords then Some PS_start
          else if allow s then Some PS_seg else None
      end
  | TPunct s =>
      if String.eqb s "::" then
        match st with
        | PS_seg => Some PS_colons
        | PS_start => Some PS_global
        | _ => None
        end
      else if String.eqb s "." then
        match st with PS_global | PS_colons | PS_dot => None | _ => Some PS_dot end
      else if String.eqb s ">" then
        match st with PS_global | PS_colons | PS_dot => None | _ => Some PS_seg end
      else if String.eqb s "<" then
        match st with PS_global | PS_dot => None | _ => Some PS_start end
      else
        match st with PS_global | PS_colons | PS_dot => None | _ => Some PS_start end
  | TLife _ | TLit _ _ | TStr _ _ _ | TGroup _ _ =>
      match st with PS_global | PS_colons | PS_dot => None | _ => Some PS_start end
  end.

Definition pstate_final (st : pstate) : bool :=
  match st with PS_start | PS_seg => true | _ => false end.

Fixpoint seq_hyg (allow : string -> bool) (st : pstate) (ts : toks) : bool :=
  match ts with
  | [] => pstate_final st
  | t :: r => match tok_step allow st t with
              | Some st' => seq_hyg allow st' r
              | None => false
              end
  end.

(** ... and the same inside every group, at any depth *)
Fixpoint deep_hyg (allow : string -> bool) (t : tt) : bool :=
  match t with
  | TGroup _ ts => seq_hyg allow PS_start ts && forallb (deep_hyg allow) ts
  | _ => true
  end.

Definition toks_hyg (allow : string -> bool) (ts : toks) : bool :=
  seq_hyg allow PS_start ts && forallb (deep_hyg allow) ts.

(** ** the allowlist: every identifier a template writes in a raw token
    fragment in a position where rustc looks it up at the derive site (or that
    is a keyword / a name the fragment itself declares) *)
(** path keywords *)
Definition kw_idents : list string := ["self"; "Self"].
(** built-in attributes (`#[inline]`, `#[doc = ..]`, `#[allow(non_camel_case_types)]`) *)
Definition attr_idents : list string := ["inline"; "doc"; "allow"; "non_camel_case_types"].
(** names the fragment itself declares: parameters, the helper types of debug/common.rs with
    their generic parameters, the helper `fmt` method, the `let`s of the helper templates *)
Definition declared_idents : list string :=
  ["other"; "state"; "f"; "source"; "educe__f"; "builder"; "arg"; "fmt";
   "Educe__RawString"; "Educe__DebugField"; "V"; "M"].
(** the primitive type names the templates mention (`-> bool`, `*const u8`,
    `&'static str`).  They are NOT part of the allowlist: an item of that name
    in scope at the derive site (`struct bool;`) would capture an unqualified
    use, so the templates must write them `::core::primitive::bool` .. -- a
    global path, which [tok_step] reads without consulting the allowlist *)
Definition prim_idents : list string := ["bool"; "u8"; "str"].

Definition template_idents : list string :=
  kw_idents ++ attr_idents ++ declared_idents.

(** [fresh] = the one identifier a template COMPUTES: the hasher parameter (H3) *)
Definition tallow (fresh : string) (s : string) : bool :=
  mem_str s template_idents || String.eqb s fresh.

(** ** what is user-supplied in the mixed positions *)
Record hcfg := {
  u_fresh : string;        (* the computed hasher identifier *)
  u_exprs : list toks;     (* user expressions spliced verbatim (Default: `expression = ..`) *)
  u_types : list toks      (* user types a template puts in type position: Into targets,
                              the Deref `Target` (a field type with its references stripped) *)
}.

Definition in_frags (ts : toks) (U : list toks) : bool := existsb (flat_eqb ts) U.

(** the part before the first top-level occurrence of the punctuation [p], and the part after it *)
Fixpoint split_punct (p : string) (ts : toks) : option (toks * toks) :=
  match ts with
  | [] => None
  | t :: r => if is_punct p t then Some ([], r)
              else match split_punct p r with
                   | Some (a, b) => Some (t :: a, b)
                   | None => None
                   end
  end.

(** a method signature: template tokens throughout, or template tokens up to
    `->` followed by a user type (fn into(self) -> TARGET) *)
Definition sig_hyg (cfg : hcfg) (sig : toks) : bool :=
  toks_hyg (tallow (u_fresh cfg)) sig
  || match split_punct "->" sig with
     | Some (a, ret) => toks_hyg (tallow (u_fresh cfg)) a && in_frags ret (u_types cfg)
     | None => false
     end.

(** the trait of an impl: an absolute `::core::..` path and nothing else (no
    identifier at all is allowed at the head of a path), optionally followed
    by `<` USER TYPE `>` *)
Definition no_ident (_ : string) : bool := false.
Definition trait_hyg (cfg : hcfg) (ts : toks) : bool :=
  toks_hyg no_ident ts
  || match split_punct "<" ts with
     | Some (a, args) =>
         toks_hyg no_ident a && existsb (fun t => flat_eqb args (t ++ [P ">"])) (u_types cfg)
     | None => false
     end.

(** ** paths of the AST *)
(** [sc] = the helper types declared by the enclosing blocks *)
Definition rpath_hyg (sc : list string) (p : rpath) : bool :=
  match p with
  | RCore _ | RSelf | RSelfV _ => true
  | RUser _ => true                        (* the user's `method = path` *)
  | RLocal [s] => mem_str s sc
  | RLocal _ => false
  end.

Definition pat_hyg (sc : list string) (p : pat) : bool :=
  pat_all (fun q => match q with
                    | PPath r | PTuple r _ _ _ | PStruct r _ _ _ => rpath_hyg sc r
                    | _ => true
                    end) p.

(** the helper types a statement declares for its block *)
Definition helper_decls (e : expr) : list string :=
  match e with EDebugMapBuilder => ["Educe__RawString"] | _ => [] end.

(** macros: [EMacro] is always printed `::core::name!(..)`; the arguments of
    `stringify!` are not resolved, any other macro's arguments are template tokens *)
Definition macro_hyg (fresh : string) (name : string) (args : toks) : bool :=
  String.eqb name "stringify" || toks_hyg (tallow fresh) args.

(** the fixed tokens of the two helper templates of debug/common.rs, the
    user-supplied fragments (impl generics, field type, self type, where
    clause, method path, field expression) left out *)
Definition map_builder_template : toks := debug_map_builder_toks.
Definition field_arg_template : toks := debug_field_arg_toks [] [] [] [] [] [].

Definition h1_node (cfg : hcfg) (sc : list string) (e : expr) : bool :=
  match e with
  | EPath p => rpath_hyg sc p
  | EStruct p _ _ => rpath_hyg sc p
  | EQPath _ tr _ => rpath_hyg sc tr                (* <USER TYPE as tr>::name *)
  | EToks ts => toks_hyg (tallow (u_fresh cfg)) ts || in_frags ts (u_exprs cfg)
  | ECast _ ty => toks_hyg (tallow (u_fresh cfg)) ty
  | EMacro name args => macro_hyg (u_fresh cfg) name args
  | EDebugMapBuilder => toks_hyg (tallow (u_fresh cfg)) map_builder_template
  | EDebugFieldArg _ _ _ _ _ _ => toks_hyg (tallow (u_fresh cfg)) field_arg_template
  | _ => true
  end.

Definition h1_enter_block (sc : list string) (b : list expr) : list string :=
  flat_map helper_decls b ++ sc.

Definition expr_hyg (cfg : hcfg) : list string -> expr -> bool :=
  walk (h1_node cfg) pat_hyg h1_enter_block (fun sc _ => sc).
Definition body_hyg (cfg : hcfg) (b : list expr) : bool :=
  walk_body (h1_node cfg) pat_hyg h1_enter_block (fun sc _ => sc) [] b.

Definition member_hyg (cfg : hcfg) (mb : member) : bool :=
  match mb with
  | MFn attrs _ sig _ body =>
      toks_hyg (tallow (u_fresh cfg)) attrs && sig_hyg cfg sig && body_hyg cfg body
  | MType _ ty => in_frags ty (u_types cfg)         (* type Target = USER TYPE; *)
  end.

(** the impl header's generics and where-clause are the type's own, plus the
    bound predicates every handler builds with [bound_preds]: see [pred_hyg] below *)
Definition item_hyg (cfg : hcfg) (it : item) : bool :=
  toks_hyg (tallow (u_fresh cfg)) (i_attrs it)
  && match i_trait it with Some t => trait_hyg cfg t | None => true end
  && forallb (member_hyg cfg) (i_members it).

(** ** the where-clause: every predicate a template ADDS bounds a user type, a
    type parameter or `Self` by an absolute `::core` trait (with, for Into, the
    user's target as its argument), or is a predicate the user wrote in `bound(..)`.
    [f] holds of the tokens after SOME top-level `:` of [p]. *)
Fixpoint after_some_colon (f : toks -> bool) (p : toks) : bool :=
  match p with
  | [] => false
  | t :: r => (is_punct ":" t && f r) || after_some_colon f r
  end.

(** [custom] = the predicates of the request's `bound(..)` *)
Definition pred_hyg (cfg : hcfg) (custom : list toks) (p : toks) : bool :=
  in_frags p custom || after_some_colon (trait_hyg cfg) p.

Definition bound_custom (b : bound) : list toks :=
  match b with BCustom ps => ps | _ => [] end.

(** * H4 : no path starts with `std` or `alloc` -- the same judgment with the
    weakest policy that still forbids those two heads *)
Definition not_std (s : string) : bool := negb (String.eqb s "std" || String.eqb s "alloc").

(** * H2 : bindings *)

Fixpoint nodupb (l : list string) : bool :=
  match l with
  | [] => true
  | x :: r => negb (mem_str x r) && nodupb r
  end.

(** context = (names that must not be rebound: parameters and pattern bindings
    in scope; names bound by the `let`s of the enclosing blocks) *)
Definition bctx := (list string * list string)%type.

(** the name a statement binds with `let` *)
Definition let_names (e : expr) : list string :=
  match e with
  | ELet _ x _ => if String.eqb x "_" then [] else [x]
  | EDebugMapBuilder => ["builder"]
  | EDebugFieldArg _ _ _ _ _ _ => ["arg"]
  | _ => []
  end.

(** a `let` may shadow an earlier `let` of the template (`let arg = ..` is
    repeated per field) but never a parameter or a pattern binding *)
Definition h2_node (c : bctx) (e : expr) : bool :=
  forallb (fun x => negb (mem_str x (fst c))) (let_names e).

(** the bindings of one pattern are pairwise distinct and none is in scope already *)
Definition h2_pnode (c : bctx) (p : pat) : bool :=
  nodupb (pat_binders p)
  && forallb (fun x => negb (mem_str x (fst c ++ snd c))) (pat_binders p).

Definition h2_enter_block (c : bctx) (b : list expr) : bctx :=
  (fst c, flat_map let_names b ++ snd c).
Definition h2_enter_arm (c : bctx) (p : pat) : bctx := (pat_binders p ++ fst c, snd c).

Definition expr_binds : bctx -> expr -> bool :=
  walk h2_node h2_pnode h2_enter_block h2_enter_arm.

Definition member_binds (mb : member) : bool :=
  match mb with
  | MFn _ _ _ params body =>
      nodupb params && walk_body h2_node h2_pnode h2_enter_block h2_enter_arm (params, []) body
  | MType _ _ => true
  end.
Definition item_binds (it : item) : bool := forallb member_binds (i_members it).

(** what rustc guarantees about identifiers before a derive runs: `self` is a
    keyword (and cannot be written `r#self`), so no field is called that *)
Definition field_names_ok (d : data) : Prop :=
  forall f, In f (match d with
                  | DStruct fs => fields_list fs
                  | DEnum vs => flat_map (fun v => fields_list (v_fields v)) vs
                  | DUnion fs => fs
                  end) -> f_name f <> Some "self".

(** every field of the input *)
Definition data_fields (d : data) : list field :=
  match d with
  | DStruct fs => fields_list fs
  | DEnum vs => flat_map (fun v => fields_list (v_fields v)) vs
  | DUnion fs => fs
  end.

(** * the user-supplied fragments of a whole derive request, as the analysis
    stage reads them from the attributes *)

(** the expressions of `#[educe(Default(expression = ..))]` that are spliced verbatim *)
Definition dvalue_exprs (v : dvalue) : list toks :=
  match v with DVExpr ts | DVInto ts => [ts] | DVDefault _ => [] end.
Definition dbody_exprs (b : dbody) : list toks :=
  match b with
  | DBExpr v => dvalue_exprs v
  | DBUnit _ => []
  | DBNamed _ fs => flat_map (fun nv => dvalue_exprs (snd nv)) fs
  | DBUnnamed _ fs => flat_map dvalue_exprs fs
  end.

(** the candidates for the Deref `Target`: a field type with its references stripped *)
Definition deref_targets (d : dinput) : list toks :=
  map (fun f => strip_refs (f_ty f)) (data_fields (d_data d)).

Definition request_cfg (F : features) (d : dinput) : hcfg :=
  let tm := match foldM (collect_attr F) [] (d_attrs d) with Ok tm => tm | _ => [] end in
  let traits := map fst tm in
  {| u_fresh := hasher_ident (d_generics d);
     u_exprs := match tmap_get TDefault tm with
                | Some (m :: _) => match default_plan F traits d m with
                                   | Ok p => dbody_exprs (dp_body p)
                                   | _ => []
                                   end
                | _ => []
                end;
     u_types := deref_targets d ++
                match tmap_get TInto tm with
                | Some ms => match into_build_type true ms with
                             | Ok tg => map fst tg
                             | _ => []
                             end
                | None => []
                end |}.

(** * H4 : no path written by a template starts with `std` or `alloc`

    The same reading of the AST and of the token fragments as H1, with the weakest policy: a
    global path starts with `::core` (as in [tok_step]), every other path head is any identifier
    but `std` / `alloc`.  It is implied by H1 (Proofs/P_C19g.v). *)
Definition nostd_path (p : rpath) : bool :=
  match p with RLocal (s :: _) => not_std s | _ => true end.

Definition h4_node (cfg : hcfg) (_ : list string) (e : expr) : bool :=
  match e with
  | EPath p | EStruct p _ _ | EQPath _ p _ => nostd_path p
  | EToks ts => toks_hyg not_std ts || in_frags ts (u_exprs cfg)
  | ECast _ ty => toks_hyg not_std ty
  | EMacro name args => String.eqb name "stringify" || toks_hyg not_std args
  | EDebugMapBuilder => toks_hyg not_std map_builder_template
  | EDebugFieldArg _ _ _ _ _ _ => toks_hyg not_std field_arg_template
  | _ => true
  end.
Definition h4_pnode (_ : list string) (p : pat) : bool :=
  pat_all (fun q => match q with
                    | PPath r | PTuple r _ _ _ | PStruct r _ _ _ => nostd_path r
                    | _ => true
                    end) p.

(** (the context of H1 is threaded along, and ignored) *)
Definition body_nostd (cfg : hcfg) (b : list expr) : bool :=
  walk_body (h4_node cfg) h4_pnode h1_enter_block (fun sc _ => sc) [] b.

Definition sig_nostd (cfg : hcfg) (sig : toks) : bool :=
  toks_hyg not_std sig
  || match split_punct "->" sig with
     | Some (a, ret) => toks_hyg not_std a && in_frags ret (u_types cfg)
     | None => false
     end.

Definition member_nostd (cfg : hcfg) (mb : member) : bool :=
  match mb with
  | MFn attrs _ sig _ body =>
      toks_hyg not_std attrs && sig_nostd cfg sig && body_nostd cfg body
  | MType _ _ => true
  end.
Definition item_nostd (cfg : hcfg) (it : item) : bool :=
  toks_hyg not_std (i_attrs it)
  && match i_trait it with Some t => trait_hyg cfg t | None => true end
  && forallb (member_nostd cfg) (i_members it).
