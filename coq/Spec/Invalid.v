(** C13 — contradictory, ambiguous or misplaced attributes: SYNTACTIC classifiers.

    Every function of this file is a decidable test on the derive input as the
    user wrote it (plus the set [F] of enabled cargo features, because a trait
    whose feature is off is an unknown name).  They are written from the property
    text and the README: each says "this request contains a construct of class X".
    None of them runs the model's analysis: the only Model functions used are the
    attribute-argument PARSERS of Syn.v (the input carries attribute arguments as
    tokens; [parse_metas] etc. turn them into the comma-separated list the user
    sees), [trait_from_path] (is this identifier the name of an enabled trait),
    [hash_type] / [flat_eqb] (are two Into targets the same type) and [param_name].

    Proofs/P_C13*.v show, for every class, every [F] and every input [d]:
        expand F d = Ok items  ->  invalid_<class> F d = false
    (an ACCEPTED request contains no such construct), under [~ known_gap] where
    stated.  [invalid_classes] returns the names of all classes that fire; the
    K1 checker prints it next to every case: an input on which it is not empty
    and the REAL macro answers Ok is a concrete counterexample to C13. *)
From Educe.Model Require Import Driver.

(** * The request as the user reads it *)

(** the comma-separated items of one `#[educe(...)]` attribute (nothing when the
    attribute is not an educe list or its arguments are not a list of metas) *)
Definition attr_metas (a : attr) : list meta :=
  if is_educe a then
    match a_meta a with
    | AMList _ ts => match parse_metas ts with Ok ms => ms | _ => [] end
    | _ => []
    end
  else [].

(** every item of every educe attribute of one syntactic element, in order *)
Definition educe_metas (attrs : list attr) : list meta := flat_map attr_metas attrs.

(** the enabled trait an item names *)
Definition meta_trait (F : features) (m : meta) : option trait :=
  trait_from_path F (meta_path m).

Definition names (F : features) (t : trait) (m : meta) : bool :=
  match meta_trait F m with Some t' => trait_eqb t' t | None => false end.

Definition metas_of (F : features) (t : trait) (ms : list meta) : list meta :=
  filter (names F t) ms.

Definition type_metas (d : dinput) : list meta := educe_metas (d_attrs d).

(** the traits requested on the type, in the order written, with repetitions *)
Definition type_traits (F : features) (d : dinput) : list trait :=
  flat_map (fun m => match meta_trait F m with Some t => [t] | None => [] end) (type_metas d).

Definition educed (F : features) (t : trait) (d : dinput) : bool :=
  has_trait t (type_traits F d).

(** the (first) type-level item naming [t] *)
Definition type_meta (F : features) (t : trait) (d : dinput) : option meta :=
  hd_error (metas_of F t (type_metas d)).

Definition is_union (d : dinput) : bool :=
  match d_data d with DUnion _ => true | _ => false end.
Definition is_enum (d : dinput) : bool :=
  match d_data d with DEnum _ => true | _ => false end.

Definition d_variants (d : dinput) : list variant :=
  match d_data d with DEnum vs => vs | _ => [] end.

(** the field lists of the type: one for a struct / a union, one per variant *)
Definition field_groups (d : dinput) : list (list field) :=
  match d_data d with
  | DStruct fs => [fields_list fs]
  | DEnum vs => map (fun v => fields_list (v_fields v)) vs
  | DUnion fs => [fs]
  end.

(** where an attribute sits below the type *)
Inductive spot := PlVariant | PlField | PlUnionField.

Definition visited (d : dinput) : list (spot * list attr) :=
  match d_data d with
  | DStruct fs => map (fun f => (PlField, f_attrs f)) (fields_list fs)
  | DEnum vs =>
      flat_map (fun v => (PlVariant, v_attrs v)
                         :: map (fun f => (PlField, f_attrs f)) (fields_list (v_fields v))) vs
  | DUnion fs => map (fun f => (PlUnionField, f_attrs f)) fs
  end.

(** every variant- and field-level item, with its spot *)
Definition item_metas (d : dinput) : list (spot * meta) :=
  flat_map (fun x => map (fun m => (fst x, m)) (educe_metas (snd x))) (visited d).

Definition count {A} (p : A -> bool) (l : list A) : nat := List.length (filter p l).

Definition has_meta (F : features) (t : trait) (attrs : list attr) : bool :=
  existsb (names F t) (educe_metas attrs).

(** * R0 — an `educe` attribute that is not a list: `#[educe]`, `#[educe = ".."]` *)
Definition bad_educe_attr (a : attr) : bool :=
  is_educe a && match a_meta a with AMList _ _ => false | _ => true end.

Definition invalid_educe_format (d : dinput) : bool := existsb bad_educe_attr (d_attrs d).

(** the same on a variant / a field.  NOT a class of [invalid_classes]: the macro ignores such
    an attribute silently (see [C13_educe_format_ignored_witness]) and the property text does
    not name it; reported separately. *)
Definition invalid_item_educe_format (d : dinput) : bool :=
  existsb (fun x => existsb bad_educe_attr (snd x)) (visited d).

(** * R1 — a trait named twice at the type level (Into may repeat: one per target) *)
Fixpoint dup_trait (l : list trait) : bool :=
  match l with
  | [] => false
  | t :: r => (negb (trait_eqb t TInto) && has_trait t r) || dup_trait r
  end.

Definition invalid_trait_twice (F : features) (d : dinput) : bool :=
  dup_trait (type_traits F d).

(** * R10 — an unknown trait name at the type level *)
Definition unknown_trait (F : features) (m : meta) : bool :=
  match meta_trait F m with None => true | Some _ => false end.

Definition invalid_unknown_trait (F : features) (d : dinput) : bool :=
  existsb (unknown_trait F) (type_metas d).

(** * R9 — a variant / field attribute naming a trait that is not educed on the type *)
Definition invalid_trait_not_educed (F : features) (d : dinput) : bool :=
  existsb (fun x => match meta_trait F (snd x) with
                    | Some t => negb (educed F t d)
                    | None => false
                    end) (item_metas d).

(** * R10' — a variant / field attribute naming an unknown trait *)
Definition invalid_attr_unknown_trait (F : features) (d : dinput) : bool :=
  existsb (fun x => unknown_trait F (snd x)) (item_metas d).

(** * R1' — a trait named twice on one variant / field (Into may repeat) *)
Definition invalid_attr_trait_twice (F : features) (d : dinput) : bool :=
  existsb (fun x => dup_trait (flat_map (fun m => match meta_trait F m with
                                                   | Some t => [t] | None => [] end)
                                        (educe_metas (snd x)))) (visited d).

(** * R2 — a parameter given twice in one trait's parameter list *)

(** `rename` is another spelling of `name`, `expr` of `expression` *)
Definition canon (s : string) : string :=
  if String.eqb s "rename" then "name"
  else if String.eqb s "expr" then "expression" else s.

Definition param_key (m : meta) : option string := option_map canon (param_name m).

Definition key_is (k : string) (m : meta) : bool :=
  match param_key m with Some k' => String.eqb k' k | None => false end.

Fixpoint dup_param (ms : list meta) : bool :=
  match ms with
  | [] => false
  | m :: r => (match param_key m with Some k => existsb (key_is k) r | None => false end)
              || dup_param r
  end.

(** how the arguments of `Trait(...)` are laid out *)
Inductive layout :=
| LPlain            (* p1, p2, ... *)
| LUnsafe           (* [unsafe,] p1, p2, ...   (Debug / PartialEq / Hash on a union) *)
| LType.            (* Type, p1, p2, ...       (Into) *)

(** the parameter list of `Trait(...)` *)
Definition params (l : layout) (m : meta) : list meta :=
  match m with
  | MList _ _ ts =>
      match l with
      | LPlain => match parse_metas ts with Ok ms => ms | _ => [] end
      | LUnsafe => match parse_unsafe_metas ts with Ok (_, ms) => ms | _ => [] end
      | LType => match parse_type_with_metas ts with Ok (_, ms) => ms | _ => [] end
      end
  | _ => []
  end.

Definition unsafe_trait (t : trait) : bool :=
  match t with TDebug | TPartialEq | THash => true | _ => false end.

Definition type_layout (d : dinput) (t : trait) : layout :=
  match t with
  | TInto => LType
  | _ => if is_union d && unsafe_trait t then LUnsafe else LPlain
  end.
Definition item_layout (t : trait) : layout :=
  match t with TInto => LType | _ => LPlain end.

Definition type_params (F : features) (d : dinput) (m : meta) : list meta :=
  match meta_trait F m with Some t => params (type_layout d t) m | None => [] end.
Definition item_params (F : features) (m : meta) : list meta :=
  match meta_trait F m with Some t => params (item_layout t) m | None => [] end.

Definition invalid_type_param_twice (F : features) (d : dinput) : bool :=
  existsb (fun m => dup_param (type_params F d m)) (type_metas d).
Definition invalid_item_param_twice (F : features) (d : dinput) : bool :=
  existsb (fun x => dup_param (item_params F (snd x))) (item_metas d).
Definition invalid_param_twice (F : features) (d : dinput) : bool :=
  invalid_type_param_twice F d || invalid_item_param_twice F d.

(** * R11 — a parameter the trait does not know at all *)

(** every parameter name a trait accepts somewhere (type, variant or field level) *)
Definition known_params (t : trait) : list string :=
  match t with
  | TDebug => ["name"; "named_field"; "bound"; "ignore"; "method"]
  | TClone => ["bound"; "method"]
  | TCopy => ["bound"]
  | TPartialEq | TEq | THash => ["bound"; "ignore"; "method"]
  | TPartialOrd | TOrd => ["bound"; "ignore"; "method"; "rank"]
  | TDefault => ["new"; "expression"; "bound"]
  | TDeref | TDerefMut => []
  | TInto => ["bound"; "method"]
  end.

Definition unknown_param_in (t : trait) (ms : list meta) : bool :=
  existsb (fun p => match param_key p with
                    | Some k => negb (mem_str k (known_params t))
                    | None => true                 (* not even a plain identifier *)
                    end) ms.

Definition invalid_type_unknown_param (F : features) (d : dinput) : bool :=
  existsb (fun m => match meta_trait F m with
                    | Some t => unknown_param_in t (params (type_layout d t) m)
                    | None => false
                    end) (type_metas d).
Definition invalid_item_unknown_param (F : features) (d : dinput) : bool :=
  existsb (fun x => match meta_trait F (snd x) with
                    | Some t => unknown_param_in t (params (item_layout t) (snd x))
                    | None => false
                    end) (item_metas d).
Definition invalid_unknown_param (F : features) (d : dinput) : bool :=
  invalid_type_unknown_param F d || invalid_item_unknown_param F d.

(** * R13 — union Debug / PartialEq / Hash whose FIRST parameter is not `unsafe` *)
Definition unsafe_first (m : meta) : bool :=
  match m with
  | MList _ _ (t :: _) => is_ident "unsafe" t
  | _ => false
  end.

Definition invalid_union_without_unsafe (F : features) (d : dinput) : bool :=
  is_union d &&
  existsb (fun t => match type_meta F t d with
                    | Some m => negb (unsafe_first m)
                    | None => false
                    end) [TDebug; TPartialEq; THash].

(** * R14 — a union given PartialOrd / Ord / Deref / DerefMut / Into *)
Definition invalid_union_unsupported (F : features) (d : dinput) : bool :=
  is_union d && existsb (fun t => educed F t d) [TPartialOrd; TOrd; TDeref; TDerefMut; TInto].

(** * R15 — a unit variant under Deref / DerefMut / Into *)
Definition is_unit_variant (v : variant) : bool :=
  match v_fields v with FUnit => true | _ => false end.

Definition invalid_unit_variant (F : features) (d : dinput) : bool :=
  existsb is_unit_variant (d_variants d) &&
  existsb (fun t => educed F t d) [TDeref; TDerefMut; TInto].

(** * R6 — the default variant / union field is missing or given twice *)

(** the type-level `Default(...)` carries an `expression` (then no variant / field is selected) *)
Definition default_has_expression (F : features) (d : dinput) : bool :=
  match type_meta F TDefault d with
  | Some m => existsb (key_is "expression") (params LPlain m)
  | None => false
  end.

Definition is_path (m : meta) : bool := match m with MPath _ => true | _ => false end.

(** the variant carries the bare marker `#[educe(Default)]` *)
Definition default_marked_variant (F : features) (v : variant) : bool :=
  existsb (fun m => names F TDefault m && is_path m) (educe_metas (v_attrs v)).

(** the union field carries `Default`, `Default = e` or `Default(expression ..)` *)
Definition default_marked_field (F : features) (f : field) : bool :=
  existsb (fun m => names F TDefault m &&
                    match m with
                    | MPath _ => true
                    | MNameValue _ _ => true
                    | MList _ _ _ => existsb (key_is "expression") (params LPlain m)
                    end) (educe_metas (f_attrs f)).

Definition invalid_default_designation (F : features) (d : dinput) : bool :=
  educed F TDefault d && negb (default_has_expression F d) &&
  match d_data d with
  | DStruct _ => false
  | DEnum vs => negb (Nat.eqb (List.length vs) 1)
                && negb (Nat.eqb (count (default_marked_variant F) vs) 1)
  | DUnion fs => negb (Nat.eqb (List.length fs) 1)
                 && negb (Nat.eqb (count (default_marked_field F) fs) 1)
  end.

(** * R7 — the Deref / DerefMut field is not designated, or designated twice, among several *)
Definition group_undesignated (F : features) (t : trait) (g : list field) : bool :=
  negb (Nat.eqb (List.length g) 1)
  && negb (Nat.eqb (count (fun f => has_meta F t (f_attrs f)) g) 1).

Definition invalid_deref_designation (F : features) (d : dinput) : bool :=
  existsb (fun t => educed F t d &&
                    ((is_enum d && is_nil (d_variants d))
                     || existsb (group_undesignated F t) (field_groups d)))
          [TDeref; TDerefMut].

(** * R5 / R8 — Into: a target given twice, two fields marked for one target,
      no field determinable for a target *)

(** the target of one `Into(Type, ...)`, as the key the macro compares targets by *)
Definition into_target (m : meta) : option toks :=
  match m with
  | MList _ _ ts => match parse_type_with_metas ts with
                    | Ok (ty, _) => Some (hash_type ty)
                    | _ => None
                    end
  | _ => None
  end.

Definition targets_of (F : features) (ms : list meta) : list toks :=
  flat_map (fun m => match into_target m with Some k => [k] | None => [] end)
           (metas_of F TInto ms).

Definition type_targets (F : features) (d : dinput) : list toks := targets_of F (type_metas d).

Fixpoint dup_toks (l : list toks) : bool :=
  match l with
  | [] => false
  | k :: r => existsb (flat_eqb k) r || dup_toks r
  end.

Definition invalid_into_target_twice (F : features) (d : dinput) : bool :=
  dup_toks (type_targets F d).

(** the field carries `Into(T ...)` for the target [T] *)
Definition into_marked (F : features) (T : toks) (f : field) : bool :=
  existsb (fun k => flat_eqb k T) (targets_of F (educe_metas (f_attrs f))).
Definition into_same_type (T : toks) (f : field) : bool := flat_eqb T (hash_type (f_ty f)).

Definition group_into_multi (F : features) (T : toks) (g : list field) : bool :=
  negb (Nat.eqb (List.length g) 1) && Nat.leb 2 (count (into_marked F T) g).
Definition group_into_none (F : features) (T : toks) (g : list field) : bool :=
  negb (Nat.eqb (List.length g) 1) && Nat.eqb (count (into_marked F T) g) 0
  && negb (Nat.eqb (count (into_same_type T) g) 1).

Definition invalid_into_multi (F : features) (d : dinput) : bool :=
  existsb (fun T => existsb (group_into_multi F T) (field_groups d)) (type_targets F d).
Definition invalid_into_none (F : features) (d : dinput) : bool :=
  existsb (fun T => (is_enum d && is_nil (d_variants d))
                    || existsb (group_into_none F T) (field_groups d)) (type_targets F d).

(** a field names a target that the type does not declare *)
Definition invalid_into_undeclared (F : features) (d : dinput) : bool :=
  existsb (fun g => existsb (fun f =>
     existsb (fun k => negb (existsb (flat_eqb k) (type_targets F d)))
             (targets_of F (educe_metas (f_attrs f)))) g) (field_groups d).

(** * R12 — a parameter the trait does not accept at that position *)

(** Deref / DerefMut take no argument anywhere, and nothing at all on a variant *)
Definition deref_like (t : trait) : bool :=
  match t with TDeref | TDerefMut => true | _ => false end.

(** the traits whose variant-level attribute accepts neither the bare flag nor `bound` *)
Definition plain_trait (t : trait) : bool :=
  match t with
  | TClone | TCopy | TPartialEq | TEq | TPartialOrd | TOrd | THash => true
  | _ => false
  end.

(** `Trait()` with an empty parameter list *)
Definition empty_list (m : meta) : bool :=
  match m with
  | MList _ _ ts => match parse_metas ts with Ok [] => true | _ => false end
  | _ => false
  end.

Definition misplaced (t : trait) (pl : spot) (m : meta) : bool :=
  if deref_like t then
    match pl with PlVariant => true | _ => negb (is_path m) end
  else
    match pl with
    | PlVariant =>
        if plain_trait t then negb (empty_list m)                 (* bare flag, `= v`, any parameter *)
        else match t with
             | TDebug => is_path m || existsb (key_is "bound") (params LPlain m)
             | TInto => true
             | _ => false
             end
    | PlUnionField =>
        match t with
        | TDebug | TClone | TPartialEq | THash => negb (empty_list m)   (* `ignore`, `method`, `name`, ... *)
        | TCopy => true
        | _ => false
        end
    | PlField =>
        match t with
        | TCopy => true                  (* Copy takes nothing on a field *)
        | _ => false
        end
    end.

(** type level: an argument on Deref / DerefMut; `bound` on the byte-wise union impls *)
Definition invalid_type_param_misplaced (F : features) (d : dinput) : bool :=
  existsb (fun m => match meta_trait F m with
                    | Some t => (deref_like t && negb (is_path m))
                                || (is_union d && unsafe_trait t
                                    && existsb (key_is "bound") (params LUnsafe m))
                    | None => false
                    end) (type_metas d).
Definition invalid_item_param_misplaced (F : features) (d : dinput) : bool :=
  existsb (fun x => match meta_trait F (snd x) with
                    | Some t => misplaced t (fst x) (snd x)
                    | None => false
                    end) (item_metas d).
Definition invalid_param_misplaced (F : features) (d : dinput) : bool :=
  invalid_type_param_misplaced F d || invalid_item_param_misplaced F d.

(** * R12 (continued) — `bound` on a companion trait whose primary is educed on the same type.

    `Eq` next to `PartialEq`, `Copy` next to `Clone` and `PartialOrd` next to `Ord` get their impl
    from the PRIMARY's handler, with the primary's bounds: the companion's own type-level
    attribute then takes no `bound` (it would be dropped silently).  "Educed" means named at the
    type level with its feature enabled ([educed F]): with the primary's feature off the
    companion stands alone and `bound` is its ordinary parameter. *)
Definition primary_of (t : trait) : option trait :=
  match t with
  | TEq => Some TPartialEq
  | TCopy => Some TClone
  | TPartialOrd => Some TOrd
  | _ => None
  end.

(** `Eq(.. bound ..)` / `Copy(.. bound ..)` / `PartialOrd(.. bound ..)` at the type level, in any
    spelling of the parameter (`bound(..)`, `bound = ..`, bare `bound`), while PartialEq / Clone /
    Ord respectively is educed.  (None of the three is a byte-wise union trait: their type-level
    parameter list is always the plain one.) *)
Definition invalid_companion_bound (F : features) (d : dinput) : bool :=
  existsb (fun m => match meta_trait F m with
                    | Some t => match primary_of t with
                                | Some p => educed F p d
                                            && existsb (key_is "bound") (params LPlain m)
                                | None => false
                                end
                    | None => false
                    end) (type_metas d).

(** * R12 (continued) — a `Default` attribute below the type level beside a type-level expression.

    When the type-level `Default(...)` carries `expression` / `expr`, the default value IS that
    expression: no variant / field designation and no field value is read, so a `Default` item
    on a variant or a field (`Default`, `Default = v`, `Default(expression ..)`, any parameter)
    would be dropped silently.  Only the empty list `Default()` says nothing and is let through.
    Structs, enums and unions alike. *)
Definition invalid_default_beside_type_expression (F : features) (d : dinput) : bool :=
  default_has_expression F d &&
  existsb (fun x => names F TDefault (snd x) && negb (empty_list (snd x))) (item_metas d).

(** * R12 (continued) — `name` (the parameter, or the shorthand `Debug = name`) on a field that
      Debug shows positionally *)

(** the literal `false` as the value of parameter [k]: `k = false`, `k(false)` *)
Definition param_false (k : string) (m : meta) : bool :=
  key_is k m &&
  match m with
  | MNameValue _ (XLit t) => match is_bool_tok t with Some false => true | _ => false end
  | MList _ _ [t] => match is_bool_tok t with Some false => true | _ => false end
  | _ => false
  end.

(** the fields below [owner] (the `Debug` item of the struct / of the variant, if any) are
    shown positionally: `named_field = false`, or tuple fields and no `named_field` at all *)
Definition positional (is_tuple : bool) (owner : option meta) : bool :=
  match owner with
  | None => is_tuple
  | Some m => existsb (param_false "named_field") (params LPlain m)
              || (is_tuple && negb (existsb (key_is "named_field") (params LPlain m)))
  end.

Definition is_tuple_fields (fs : fields) : bool := match fs with FUnnamed _ => true | _ => false end.

(** the value of a name-value item is a boolean literal: `= true`, `= false` *)
Definition bool_value (v : nvexpr) : bool :=
  match v with
  | XLit t => match is_bool_tok t with Some _ => true | None => false end
  | _ => false
  end.

(** the shorthand `Debug = first` / `Debug = "first"`: on a field, a name-value `Debug` item whose
    value is not a boolean literal gives the field a NAME (an identifier, or a string holding one;
    `Debug = false` / `Debug = true` is the other shorthand, "ignore this field" / "show it").
    Any value that is not a boolean literal counts: where no name can be given, a boolean is the
    only value the shorthand takes. *)
Definition name_shorthand (m : meta) : bool :=
  match m with
  | MNameValue _ v => negb (bool_value v)
  | _ => false
  end.

(** the field carries `Debug(name ..)` / `Debug(rename ..)`, or the shorthand `Debug = name` *)
Definition has_name_param (F : features) (f : field) : bool :=
  existsb (fun m => names F TDebug m
                    && (existsb (key_is "name") (params LPlain m) || name_shorthand m))
          (educe_metas (f_attrs f)).

Definition invalid_name_on_positional (F : features) (d : dinput) : bool :=
  match type_meta F TDebug d with
  | None => false
  | Some m =>
      match d_data d with
      | DStruct fs => positional (is_tuple_fields fs) (Some m)
                      && existsb (has_name_param F) (fields_list fs)
      | DEnum vs =>
          existsb (fun v => positional (is_tuple_fields (v_fields v))
                                       (hd_error (metas_of F TDebug (educe_metas (v_attrs v))))
                            && existsb (has_name_param F) (fields_list (v_fields v))) vs
      | DUnion _ => false
      end
  end.

(** * R16 — Debug asked to print nothing: no name and no field *)

(** the value `false` of a `name` parameter: `name = false`, `name(false)`, `name = ""` is NOT covered *)
Definition name_disabled_param (m : meta) : bool :=
  key_is "name" m &&
  match m with
  | MNameValue _ (XLit t) => match is_bool_tok t with Some false => true | _ => false end
  | MList _ _ [t] => match is_bool_tok t with Some false => true | _ => false end
  | _ => false
  end.

(** the `Debug(...)` item switches the name off / does not mention the name *)
Definition debug_name_off (m : meta) : bool := existsb name_disabled_param (params LPlain m).
Definition debug_name_unset (m : meta) : bool :=
  match m with
  | MPath _ => true
  | MNameValue _ _ => false
  | MList _ _ _ => negb (existsb (key_is "name") (params LPlain m))
  end.

Definition invalid_debug_nothing (F : features) (d : dinput) : bool :=
  match type_meta F TDebug d with
  | None => false
  | Some m =>
      match d_data d with
      | DStruct fs => is_nil (fields_list fs) && debug_name_off m
      | DEnum vs =>
          (* an enum prints no type name unless asked to *)
          (is_nil vs && debug_name_unset m)
          || (debug_name_unset m &&
              existsb (fun v => is_nil (fields_list (v_fields v)) &&
                                match metas_of F TDebug (educe_metas (v_attrs v)) with
                                | mv :: _ => debug_name_off mv
                                | [] => false
                                end) vs)
      | DUnion _ => false
      end
  end.

(** * R3 — two compared fields of one struct / variant given the same rank *)

(** the traits whose field items the ordering handler reads: `Ord(..)` and `PartialOrd(..)`
    address the same attribute when both are educed *)
Definition ord_own (F : features) (d : dinput) (t : trait) : bool :=
  if educed F TOrd d
  then trait_eqb t TOrd || (educed F TPartialOrd d && trait_eqb t TPartialOrd)
  else trait_eqb TPartialOrd t.

Definition own_meta (F : features) (own : trait -> bool) (m : meta) : bool :=
  match meta_trait F m with Some t => own t | None => false end.

(** the value of the first `rank` parameter of a list *)
Fixpoint first_rank (ms : list meta) : option Z :=
  match ms with
  | [] => None
  | m :: r => if key_is "rank" m
              then match meta_2_isize m with Ok z => Some z | _ => None end
              else first_rank r
  end.

(** the explicit rank of a compared field: its (single) ordering item is a parameter
    list with a `rank` and without `ignore` *)
Definition field_rank (F : features) (own : trait -> bool) (f : field) : option Z :=
  match filter (own_meta F own) (educe_metas (f_attrs f)) with
  | [m] => match m with
           | MList _ _ _ => if existsb (key_is "ignore") (params LPlain m) then None
                            else first_rank (params LPlain m)
           | _ => None
           end
  | _ => None
  end.

Fixpoint dup_Z (l : list Z) : bool :=
  match l with
  | [] => false
  | z :: r => existsb (Z.eqb z) r || dup_Z r
  end.

Definition group_ranks (F : features) (own : trait -> bool) (g : list field) : list Z :=
  flat_map (fun f => match field_rank F own f with Some z => [z] | None => [] end) g.

Definition invalid_rank_twice (F : features) (d : dinput) : bool :=
  (educed F TOrd d || educed F TPartialOrd d) &&
  existsb (fun g => dup_Z (group_ranks F (ord_own F d) g)) (field_groups d).

(** * The known gap: `Copy(...)` below the type level is never looked at when Clone is educed *)
Definition known_gap (F : features) (d : dinput) : bool :=
  educed F TClone d && educed F TCopy d &&
  existsb (fun x => names F TCopy (snd x)) (item_metas d).

(** * All classes at once *)
Definition classes : list (string * (features -> dinput -> bool)) :=
  [("educe_format", fun _ d => invalid_educe_format d);
   ("trait_twice", invalid_trait_twice);
   ("unknown_trait", invalid_unknown_trait);
   ("trait_not_educed", invalid_trait_not_educed);
   ("attr_unknown_trait", invalid_attr_unknown_trait);
   ("attr_trait_twice", invalid_attr_trait_twice);
   ("param_twice", invalid_param_twice);
   ("unknown_param", invalid_unknown_param);
   ("union_without_unsafe", invalid_union_without_unsafe);
   ("union_unsupported", invalid_union_unsupported);
   ("unit_variant", invalid_unit_variant);
   ("default_designation", invalid_default_designation);
   ("deref_designation", invalid_deref_designation);
   ("into_target_twice", invalid_into_target_twice);
   ("into_multi", invalid_into_multi);
   ("into_none", invalid_into_none);
   ("into_undeclared", invalid_into_undeclared);
   ("rank_twice", invalid_rank_twice);
   ("param_misplaced", invalid_param_misplaced);
   ("companion_bound", invalid_companion_bound);
   ("default_beside_type_expression", invalid_default_beside_type_expression);
   ("name_on_positional", invalid_name_on_positional);
   ("debug_nothing", invalid_debug_nothing)].

(** the names of all classes whose classifier fires on [d] *)
Definition invalid_classes (F : features) (d : dinput) : list string :=
  flat_map (fun c : string * (features -> dinput -> bool) =>
              if snd c F d then [fst c] else []) classes.

(** the classes proved "modulo the gap" in Properties/C13.v *)
Definition gap_sensitive (n : string) : bool :=
  mem_str n ["attr_trait_twice"; "param_twice"; "unknown_param"; "param_misplaced"].

(** the same, with the gap-sensitive classes dropped on the inputs of the known gap *)
Definition invalid_classes_modulo_gap (F : features) (d : dinput) : list string :=
  flat_map (fun c : string * (features -> dinput -> bool) =>
              if snd c F d && negb (gap_sensitive (fst c) && known_gap F d)
              then [fst c] else []) classes.
