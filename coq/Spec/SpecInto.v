(** C10 — the meaning of an educed Into, written from the property statement:
    for each requested target T (and no other) `x.into()` consumes x and
    returns, for whichever variant x is, the field designated for T — the
    field marked `Into(T)`, else the sole field, else the unique field whose
    declared type is T — passed through its custom method if given, returned
    unchanged when its type is already T, otherwise converted with Into<T>. *)
From Educe.Sem Require Export Interp.
From Educe.Model Require Export Attr Expand_Into.
From Educe.Spec Require Export SpecEq SpecDeref.

(** ** the request, as the attribute analysis reads it: the targets in the
    order they are written, and per variant the fields with their key (name /
    index), declared type and `Into(T[, method])` marks *)
Record ifield := { if_key : string; if_ty : toks; if_marks : into_fattr }.
Definition icfg := list (option string * list ifield).

Definition mk_ifield (i : nat) (f : field) (fa : into_fattr) : ifield :=
  {| if_key := field_key i f; if_ty := f_ty f; if_marks := fa |}.

Definition into_ifield F traits (targets : into_targets) (x : nat * field) : outcome ifield :=
  let* y := into_field_attr F traits targets (snd x) in
  Ok (mk_ifield (fst x) (snd x) (snd y)).

Definition into_ifields F traits targets (fs : list field) : outcome (list ifield) :=
  mapM (into_ifield F traits targets) (indexed fs).

Definition into_cfg F traits (d : dinput) (ms : list meta) : outcome (into_targets * icfg) :=
  match d_data d with
  | DStruct fs =>
      let* targets := into_build_type true ms in
      let* l := into_ifields F traits targets (fields_list fs) in
      Ok (targets, [(None, l)])
  | DEnum vs =>
      let* targets := into_build_type true ms in
      let* c := mapM (fun v => let* l := into_ifields F traits targets (fields_list (v_fields v)) in
                               Ok (Some (v_name v), l)) vs in
      Ok (targets, c)
  | DUnion _ => OutOfDomain "union"
  end.

(** ** the field designated for a target.  Types are compared as the macro's
    [HashType] does: token sequences, a reference type normalised to
    `&'static T` ([hash_type]); targets are stored normalised. *)
Definition marked (T : toks) (f : ifield) : bool := ty_mem T (if_marks f).
Definition same_type (T : toks) (f : ifield) : bool := flat_eqb T (hash_type (if_ty f)).

Definition spec_into_select (T : toks) (l : list ifield) : outcome ifield :=
  match l with
  | [f] => Ok f                                     (* the sole field *)
  | _ =>
      match filter (marked T) l with
      | [f] => Ok f                                 (* the field marked Into(T) *)
      | _ :: _ :: _ => Err E_into_multi             (* two marked *)
      | [] => match filter (same_type T) l with
              | [f] => Ok f                         (* the unique field of type T *)
              | _ => Err E_into_no_field            (* none determinable *)
              end
      end
  end.

Definition into_designated (T : toks) (l : list ifield) : option ifield :=
  match spec_into_select T l with Ok f => Some f | _ => None end.

(** the method registered on the field for this very target *)
Definition into_method (T : toks) (f : ifield) : option toks :=
  match ty_lookup T (if_marks f) with Some m => m | None => None end.

(** ** the conversion.  [conv T v] is `<field type as Into<T>>::into(v)`; a
    user method receives the value (what a reference denotes, as for every
    user function of the semantics) and is logged. *)
Definition spec_into (I : interp) (conv : toks -> value -> value) (st : store) (c : icfg)
           (T : toks) (x : value) : option (value * list event) :=
  match x with
  | VData vn xs =>
      match vget vn c with
      | Some l =>
          match into_designated T l with
          | Some f =>
              match lookup (if_key f) xs with
              | Some v =>
                  match into_method T f with
                  | Some p => match strip st v with
                              | Some w => Some (i_user I p [w], [EvUser p [w]])
                              | None => None
                              end
                  | None => if same_type T f then Some (v, []) else Some (conv T v, [])
                  end
              | None => None
              end
          | None => None
          end
      | None => None
      end
  | _ => None
  end.

(** ** running the emitted method: `into(self)` consumes self — `self` is the
    value itself; [st] is the heap the references held by [x] point to.  The
    `::core::convert::Into::into` call in the body of `fn into(self) -> T`
    is resolved by rustc from the return type, so the impl for T runs with
    [i_into] := [conv T]. *)
Definition with_into (I : interp) (f : value -> value) : interp :=
  {| i_ne := i_ne I; i_eq := i_eq I; i_cmp := i_cmp I; i_partial_cmp := i_partial_cmp I;
     i_user := i_user I; i_into := f;
       i_size_of_self := i_size_of_self I;
       i_clone := i_clone I;
       i_clone_from := i_clone_from I;
       i_default := i_default I |}.

Definition into_env (x : value) : env := [("self", x)].
Definition into_state (st : store) : state := {| st_store := st; st_trace := [] |}.

Definition run_into (I : interp) (conv : toks -> value -> value) (T : toks) (it : item)
           (x : value) (st : store) : option (value * list event) :=
  match method_body "into" it with
  | Some body =>
      match run_body (with_into I (conv T)) (into_env x) body (into_state st) with
      | (RVal r, s) => Some (r, st_trace s)
      | _ => None
      end
  | None => None
  end.

(** values of the declared shape (the fields may hold anything) *)
Definition ivalue_ok (c : icfg) (x : value) : Prop :=
  match x with
  | VData vn xs => exists l, vget vn c = Some l /\ map if_key l = map fst xs
  | _ => False
  end.

(** the target type an impl is for, read off its header and signature *)
Definition impl_of (d : dinput) (T : toks) (it : item) : Prop :=
  i_trait it = Some (into_trait T) /\ i_self it = d_name d /\
  exists body, i_members it = [MFn inline_attr "into" (into_sig T) ["self"] body].
