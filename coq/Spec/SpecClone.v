(** C07 — the meaning of an educed Clone (and of the Copy companion), written
    from the property statement:

    - `x.clone()` is the same variant as [x]; field [i] of the result is the
      field's custom method applied to (a reference to) field [i] of [x], or
      else the field type's own `Clone::clone` of it; every such call happens
      exactly once, in declaration order;
    - when Copy is educed as well and no custom method is in use, `clone` is a
      bitwise copy: the result is [x] and nothing at all is called;
    - after `a.clone_from(&b)` the place `a` holds what `b.clone()` returns. *)
From Educe.Sem Require Export Interp.
From Educe.Model Require Export Attr Expand_Clone.
From Educe.Spec Require Export SpecEq.   (* field_key, is_atom, fields_wf, data_wf *)

(** ** the request *)

(** per variant (None = the struct itself): the fields, keyed by name / index,
    each with its optional custom clone method *)
Definition creq := list (string * option toks).
Record ccfg := {
  cc_copy : bool;                                   (* Copy is educed as well *)
  cc_variants : list (option string * creq)
}.

Fixpoint creq_get (vn : option string) (c : list (option string * creq)) : option creq :=
  match c with
  | [] => None
  | (k, l) :: r =>
      match vn, k with
      | None, None => Some l
      | Some a, Some b => if String.eqb a b then Some l else creq_get vn r
      | _, _ => creq_get vn r
      end
  end.

Definition has_method (l : creq) : bool :=
  existsb (fun km => match snd km with Some _ => true | None => false end) l.

(** "Copy is educed and no custom clone method is in use" *)
Definition bitwise (c : ccfg) : bool :=
  cc_copy c && negb (existsb (fun e => has_method (snd e)) (cc_variants c)).

(** ** the meaning *)

(** the clone of one field, and the call it is observed as *)
Definition clone_field (I : interp) (m : option toks) (x : value) : value :=
  match m with Some p => i_user I p [x] | None => i_clone I x end.
Definition clone_event (m : option toks) (x : value) : event :=
  match m with Some p => EvUser p [x] | None => EvClone x end.

(** field by field, in declaration order; [None] if [xs] lacks a declared field *)
Fixpoint spec_clone_fields (I : interp) (l : creq) (xs : list (string * value))
  : option (list (string * value) * list event) :=
  match l with
  | [] => Some ([], [])
  | (k, m) :: r =>
      match lookup k xs, spec_clone_fields I r xs with
      | Some x, Some (vs, evs) => Some ((k, clone_field I m x) :: vs, clone_event m x :: evs)
      | _, _ => None
      end
  end.

(** the value `x.clone()` returns and the calls made, in order *)
Definition spec_clone (I : interp) (c : ccfg) (x : value) : option (value * list event) :=
  match x with
  | VData vn xs =>
      match creq_get vn (cc_variants c) with
      | Some l =>
          if bitwise c then Some (x, [])
          else match spec_clone_fields I l xs with
               | Some (vs, evs) => Some (VData vn vs, evs)
               | None => None
               end
      | None => None
      end
  | _ => None
  end.

Definition spec_clone_value (I : interp) (c : ccfg) (x : value) : option value :=
  option_map fst (spec_clone I c x).

(** a value of the shape the type definition prescribes *)
Definition cshape_ok (l : creq) (xs : list (string * value)) : bool :=
  (if list_eq_dec string_dec (map fst l) (map fst xs) then true else false)
  && forallb (fun kv => is_atom (snd kv)) xs.
Definition cvalue_ok (c : ccfg) (v : value) : bool :=
  match v with
  | VData vn xs => match creq_get vn (cc_variants c) with Some l => cshape_ok l xs | None => false end
  | _ => false
  end.

(** ** the request as the attribute analysis reads it *)
Definition ckeyed (l : list cfield) : creq :=
  map (fun '(i, (f, m)) => (field_key i f, m)) (indexed l).

Definition copy_educed (F : features) (traits : list trait) : bool :=
  has_trait TCopy F && has_trait TCopy traits.

Definition clone_cfg (F : features) (traits : list trait) (d : dinput) : outcome ccfg :=
  match d_data d with
  | DStruct fs =>
      (* with Copy educed a `method` is refused on a struct's fields *)
      let* l := clone_field_attrs F traits (negb (copy_educed F traits)) (fields_list fs) in
      Ok {| cc_copy := copy_educed F traits; cc_variants := [(None, ckeyed l)] |}
  | DEnum vs =>
      let* cvs := mapM (clone_variant F traits) vs in
      Ok {| cc_copy := copy_educed F traits;
            cc_variants := map (fun cv => (Some (cv_name cv), ckeyed (cv_plan cv))) cvs |}
  | DUnion _ => OutOfDomain "union"      (* C20 *)
  end.

(** ** clone_from: the calls made by `a.clone_from(&b)`

    same variant: per field, in declaration order, the custom method on the
    field of [b], or the field type's `clone_from` on the fields of [a] and
    [b]; another variant: one `clone` of [b] (the impl's own);
    bitwise: nothing. *)
Definition clone_from_event (m : option toks) (d y : value) : event :=
  match m with Some p => EvUser p [y] | None => EvCloneFrom d y end.

Fixpoint spec_clone_from_events (l : creq) (xs ys : list (string * value)) : list event :=
  match l with
  | [] => []
  | (k, m) :: r =>
      match lookup k xs, lookup k ys with
      | Some d, Some y => clone_from_event m d y :: spec_clone_from_events r xs ys
      | _, _ => spec_clone_from_events r xs ys
      end
  end.

Definition same_variant (va vb : option string) : bool :=
  match va, vb with
  | None, None => true
  | Some x, Some y => String.eqb x y
  | _, _ => false
  end.

Definition spec_clone_from_trace (c : ccfg) (a b : value) : list event :=
  match a, b with
  | VData va xs, VData vb ys =>
      if bitwise c then []
      else if same_variant va vb then
        match creq_get va (cc_variants c) with
        | Some l => spec_clone_from_events l xs ys
        | None => []
        end
      else [EvClone b]
  | _, _ => []
  end.

(** ** hypotheses of the clone_from statement *)

(** the field types' `clone_from(dst, src)` leaves `dst = src.clone()`
    (field values are the opaque atoms, see [cvalue_ok]) *)
Definition lawful_clone_from (I : interp) : Prop :=
  forall d s, is_atom s = true -> i_clone_from I d s = i_clone I s.

