(** Extraction of the executable model for the K1 / K2 correspondence runs.
    Directives in force: those of ExtrOcamlBasic (bool, option, unit, list,
    prod, sumbool, sumor -> OCaml's own types) and ExtrOcamlNativeString
    (ascii -> char, string -> string).  None of our own. *)
From Coq Require Import Extraction ExtrOcamlBasic ExtrOcamlNativeString.
From Educe.Model Require Import Driver.
From Educe.Spec Require Import Invalid.
From Educe.Extract Require Import RunI0.
Extraction Language OCaml.
Extraction "model.ml" expand expand_flat expand_alt_errs items_toks flat all_traits trait_name err_name
  invalid_classes invalid_classes_modulo_gap known_gap
  model_eq model_cmp model_partial_cmp model_hash model_debug model_clone model_clone_from
  model_deref model_deref_mut model_deref_mut_write model_into model_default
  model_union_eq model_union_hash model_union_debug model_union_clone.
