(** The fixed interpretation I0 used by the behavioural cross-check (tools/k2.py, suites eq / ord /
    hash / debug / clone / deref / into / default): the same tables as k2/src/support.rs.  An atom `A<K>(v)` is the integer 1000 * K + v;
    value 7 is NaN-like.  The emitted methods of the MODEL are run under I0 in the interpreter
    (extracted) and compared with what the REAL compiled code returns on the same values:
    implementation = model-under-Interp, for the semantics Sem/Interp.v that the theorems are about. *)
From Educe.Proofs Require Import P_C02 P_C03e P_C05.
From Educe.Model Require Import Driver.

Open Scope Z_scope.
Definition atom_k (z : Z) : Z := z / 1000.
Definition atom_v (z : Z) : Z := z mod 1000.
Definition nan : Z := 7.

Definition a_eq (a b : Z) : bool := (atom_v a =? atom_v b) && negb (atom_v a =? nan).
Definition ordv (c : comparison) : value := VOrd c.

(** the function a user path names: its last `m_...` segment (`m_eq`, `self::m_eq`, `crate::support::m_eq`,
    `crate::support::g::m_eq::<0, _>` all name support.rs's `m_eq`) *)
Definition method_name (path : toks) : list string :=
  match rev (filter (fun s => String.prefix "m_" s) (flat path)) with
  | m :: _ => [m]
  | [] => flat path
  end.

Definition user0 (path : toks) (args : list value) : value :=
  match method_name path, args with
  | [m], [VAtom a; VAtom b] =>
      if String.eqb m "m_eq" then VBool (atom_v a <=? atom_v b)
      else if String.eqb m "m_cmp" then VOrd (Z.compare (atom_v b) (atom_v a))
      else if String.eqb m "m_pcmp" then
        VOpt (if atom_v a =? nan then None else Some (VOrd (Z.compare (atom_v b) (atom_v a))))
      else VUnit
  | _, _ => VUnit
  end.

Definition I0 : interp :=
  {| i_ne := fun x y => match x, y with VAtom a, VAtom b => negb (a_eq a b) | _, _ => true end;
     i_eq := fun x y => match x, y with VAtom a, VAtom b => a_eq a b | _, _ => false end;
     i_cmp := fun x y => match x, y with VAtom a, VAtom b => Z.compare (atom_v a) (atom_v b) | _, _ => Eq end;
     i_partial_cmp := fun x y => match x, y with
                                 | VAtom a, VAtom b =>
                                     if (atom_v a =? nan) || (atom_v b =? nan) then None
                                     else Some (Z.compare (atom_v a) (atom_v b))
                                 | _, _ => None
                                 end;
     i_user := user0;
     i_size_of_self := 0%nat;
     i_clone := fun v => v; i_clone_from := fun _ v => v; i_into := fun v => v; i_default := fun _ => VUnit |}.
Close Scope Z_scope.

Definition item_with (fn : string) (items : list item) : option item :=
  find (fun it => match find_fn fn it with Some _ => true | None => false end) items.

Definition expanded (d : dinput) : list item :=
  match expand all_traits d with Ok its => its | _ => [] end.

Definition model_eq (d : dinput) (a b : value) : option bool :=
  match item_with "eq" (expanded d) with Some it => run_eq I0 it a b | None => None end.
Definition model_cmp (d : dinput) (a b : value) : option comparison :=
  match item_with "cmp" (expanded d) with Some it => run_cmp I0 it a b | None => None end.
Definition model_partial_cmp (d : dinput) (a b : value) : option (option comparison) :=
  match item_with "partial_cmp" (expanded d) with Some it => run_partial_cmp I0 it a b | None => None end.

(** the Hasher calls an event stands for under I0 (support.rs: `A<K>` writes 0xA0 + K then v; m_hash 0xB0 then v) *)
Definition event_strings (e : event) : list string :=
  match e with
  | EvHashUsize n => ["usize:" ^^ dec n]
  | EvHash (VAtom z) => ["u8:" ^^ decZ (160 + atom_k z); "u8:" ^^ decZ (atom_v z)]
  | EvUser _ (VAtom z :: _) => ["u8:176"; "u8:" ^^ decZ (atom_v z)]
  | _ => ["?"]
  end.
Definition model_hash (d : dinput) (v : value) : option (list string) :=
  match item_with "hash" (expanded d) with
  | Some it => option_map (flat_map event_strings) (run_hash I0 it v VUnit)
  | None => None
  end.

(** ** Debug: the builder-call trace of the model's `fmt`, rendered by Sem/Fmt.v (the transcription of
    core::fmt's builders), with the field values rendered as support.rs's `impl Debug for A<K>` / `m_fmt` do *)
From Educe.Sem Require Import Fmt.
From Educe.Proofs Require Import P_C06.

Definition render0 (alt : bool) (a : fmt_arg) : string :=
  match a with
  | FADebug (VAtom z) =>
      if alt then "A" ^^ decZ (atom_k z) ^^ "<" ^^ nl ^^ decZ (atom_v z) ^^ nl ^^ ">"
      else "A" ^^ decZ (atom_k z) ^^ "<" ^^ decZ (atom_v z) ^^ ">"
  | FAVia _ (VAtom z) =>
      if alt then "M<" ^^ nl ^^ decZ (atom_v z) ^^ nl ^^ ">" else "M<" ^^ decZ (atom_v z) ^^ ">"
  | _ => "?"
  end.

Definition model_debug (alt : bool) (d : dinput) (v : value) : option string :=
  match item_with "fmt" (expanded d) with
  | Some it =>
      match run_fmt I0 it v with
      | Some evs => run_events alt (render0 alt) None evs
      | None => None
      end
  | None => None
  end.

(** ** Clone / clone_from (C07): values rendered like the harness's `show`, call events like support.rs's log *)
From Educe.Proofs Require Import P_C07 P_C07c.

Open Scope Z_scope.
Definition user1 (path : toks) (args : list value) : value :=
  match method_name path, args with
  | [m], [VAtom z] => if String.eqb m "m_clone" then VAtom (z + 50) else user0 path args
  | _, _ => user0 path args
  end.
Close Scope Z_scope.
Definition I1 : interp :=
  {| i_ne := i_ne I0; i_eq := i_eq I0; i_cmp := i_cmp I0; i_partial_cmp := i_partial_cmp I0;
     i_user := user1; i_size_of_self := 0%nat;
     i_clone := fun v => v; i_clone_from := fun _ v => v; i_into := fun v => v; i_default := fun _ => VUnit |}.

Definition show_atom (v : value) : string :=
  match v with VAtom z => "A" ^^ decZ (atom_k z) ^^ ":" ^^ decZ (atom_v z) | _ => "?" end.
Fixpoint join (sep : string) (l : list string) : string :=
  match l with [] => "" | [x] => x | x :: r => x ^^ sep ^^ join sep r end.
Definition show_value (v : value) : string :=
  match v with
  | VData vn fs => (match vn with Some n => n | None => "T" end) ^^ "(" ^^ join "," (map (fun kv => show_atom (snd kv)) fs) ^^ ")"
  | _ => "?"
  end.
Definition clone_event_string (e : event) : string :=
  match e with
  | EvClone (VAtom z) => "clone A" ^^ decZ (atom_k z) ^^ " " ^^ decZ (atom_v z)
  | EvUser _ [VAtom z] => "m_clone A" ^^ decZ (atom_k z) ^^ " " ^^ decZ (atom_v z)
  | _ => "?"
  end.

Definition model_clone (d : dinput) (x : value) : option string :=
  match item_with "clone" (expanded d) with
  | Some it => match run_clone I1 it x with
               | Some (v, tr) => Some (show_value v ^^ "|" ^^ join ";" (map clone_event_string tr))
               | None => None
               end
  | None => None
  end.
Definition model_clone_from (d : dinput) (a b : value) : option string :=
  match item_with "clone" (expanded d) with
  | Some it => match run_clone_from (tie_clone I1 it) it a b with
               | Some (a', _, _) => Some (show_value a')
               | None => None
               end
  | None => None
  end.

(** ** Deref / DerefMut (C09): the place the emitted `deref` / `deref_mut` returns for the value [x] stored at
    root `self`, [h] being what the references held by [x] point to (the driver names the referent of the
    reference field `k` as the root `*k`).  rustc coerces the body to `&Target`, Target never being a
    reference type (C09_target_type): the dereferences it inserts follow the references up to the first
    place that does not hold one ([auto_deref]; [coercions] of Spec/SpecDeref.v counts the same steps from
    the declared type).  Printed as the field key, `*key` for the referent of a reference field. *)
From Educe.Spec Require Import SpecDeref SpecInto.

Fixpoint auto_deref (fuel : nat) (st : store) (v : value) : value :=
  match fuel with
  | 0 => v
  | S f => match v with
           | VRef p => match load st p with
                       | Some (VRef q) => auto_deref f st (VRef q)
                       | _ => v
                       end
           | _ => v
           end
  end.

Definition place_string (v : value) : string :=
  match v with
  | VRef p => match pl_path p with
              | [] => pl_root p
              | [k] => if String.eqb (pl_root p) "self" then k else "?"
              | _ => "?"
              end
  | _ => "?"
  end.

Definition model_ref_method (name : string) (d : dinput) (x : value) (h : store) : option string :=
  match item_with name (expanded d) with
  | Some it => match run_ref_method I0 name it x h with
               | Some (r, s) => Some (place_string (auto_deref 8 (st_store s) r))
               | None => None
               end
  | None => None
  end.
Definition model_deref := model_ref_method "deref".
Definition model_deref_mut := model_ref_method "deref_mut".

(** `*x = A(99)` through the emitted deref_mut: the content of `self` after the write at the returned place
    (the atom written keeps the K of the one it replaces) *)
Definition model_deref_mut_write (d : dinput) (x : value) (h : store) : option string :=
  match item_with "deref_mut" (expanded d) with
  | Some it =>
      match run_ref_method I0 "deref_mut" it x h with
      | Some (r, s) =>
          match auto_deref 8 (st_store s) r with
          | VRef p =>
              match load (st_store s) p with
              | Some (VAtom z) =>
                  match store_set (st_store s) p (VAtom (1000 * atom_k z + 99)%Z) with
                  | Some st' => option_map show_value (load st' self_pl)
                  | None => None
                  end
              | _ => None
              end
          | _ => None
          end
      | None => None
      end
  | None => None
  end.

(** ** Into (C10): the impl for the target [T] run with `Into::into` resolved for that target, as support.rs
    defines it: `From<A<K>> for B<J>` is `B(v + 100 + 1000 K)`, `A<K> : Into<A<J>>` exists for K = J only (the
    reflexive impl); `m_into` is `B(v + 200 + 1000 K)`, `m_same` is `A(v + 60)` in u8.  Printed like `sv`. *)
Open Scope Z_scope.
Definition user2 (path : toks) (args : list value) : value :=
  match method_name path, args with
  | [m], [VAtom z] =>
      if String.eqb m "m_into" then VAtom (atom_v z + 200 + 1000 * atom_k z)
      else if String.eqb m "m_same" then VAtom (1000 * atom_k z + (atom_v z + 60) mod 256)
      else user1 path args
  | _, _ => user1 path args
  end.
Definition I2 : interp :=
  {| i_ne := i_ne I0; i_eq := i_eq I0; i_cmp := i_cmp I0; i_partial_cmp := i_partial_cmp I0;
     i_user := user2; i_size_of_self := 0%nat;
     i_clone := fun v => v; i_clone_from := fun _ v => v; i_into := fun v => v; i_default := fun _ => VUnit |}.

(** `B<1>` : ("B", "1") *)
Definition target_kind (T : toks) : option (string * string) :=
  match flat T with
  | [c; "<"; j; ">"] => Some (c, j)
  | _ => None
  end.
Definition conv0 (T : toks) (v : value) : value :=
  match target_kind T, v with
  | Some (c, j), VAtom z =>
      if String.eqb c "B" then VAtom (atom_v z + 100 + 1000 * atom_k z)
      else if String.eqb c "A" && String.eqb j (decZ (atom_k z)) then v
      else VUnit
  | _, _ => VUnit
  end.
Close Scope Z_scope.
Definition show_into (T : toks) (r : value) : string :=
  match target_kind T, r with
  | Some (c, j), VAtom n =>
      if String.eqb c "B" then "B" ^^ j ^^ ":" ^^ decZ n
      else if String.eqb c "A" then show_atom r
      else "?"
  | _, _ => "?"
  end.

Definition into_item_for (T : toks) (items : list item) : option item :=
  find (fun it => match i_trait it with Some t => flat_eqb t (into_trait T) | None => false end) items.

Definition model_into (d : dinput) (T : toks) (x : value) : option string :=
  match into_item_for T (expanded d) with
  | Some it => match run_into I2 conv0 T it x [] with
               | Some (r, _) => Some (show_into T r)
               | None => None
               end
  | None => None
  end.

(** ** Default (C08): the emitted `default()` run under an interpretation that keeps `Into::into(e)` and
    `<ty as Default>::default()` symbolic (a user expression evaluates to its tokens, [VTok]); the printer then
    gives the literals, the conversions and the field types' defaults the meaning they have in the K2 crate
    (k2/src/support.rs and core), for the expression forms the default suite writes: integer / float / bool /
    char / byte / string literals, a leading minus, `A(n)`, `Some(n)`, `None`.  The printer is strict about
    kinds (a spliced literal must be of the field type's own kind, a converted one must have a `From` impl):
    anything else prints `?`.  Printed like the suite's `show`. *)
From Educe.Proofs Require Import P_C08.

Definition ID : interp :=
  {| i_ne := i_ne I0; i_eq := i_eq I0; i_cmp := i_cmp I0; i_partial_cmp := i_partial_cmp I0;
     i_user := user0; i_size_of_self := 0%nat;
     i_clone := fun v => v; i_clone_from := fun _ v => v;
     i_into := fun v => VData (Some "Into") [("0", v)];
     i_default := fun ty => VData (Some "Default") [("0", VTok ty)] |}.

Inductive dlit :=
| DLInt (z : Z) (suffix : string)
| DLFloat (text suffix : string)     (* text: sign and digits, suffix removed *)
| DLBool (b : bool)
| DLChar (text : string)             (* Debug prints the source text back (the suite's literals need no escape) *)
| DLStr (text : string)
| DLByte (n : nat)
| DLAtom (z : Z)                     (* A(n) *)
| DLSome (z : Z)                     (* Some(n) *)
| DLNone.

Definition drop_suffix (text suf : string) : string :=
  substring 0 (String.length text - String.length suf) text.

Definition lit_of (ts : toks) : option dlit :=
  match ts with
  | [TLit (LKInt z suf) _] => Some (DLInt z suf)
  | [TPunct "-"; TLit (LKInt z suf) _] => Some (DLInt (Z.opp z) suf)
  | [TLit (LKFloat suf) text] => Some (DLFloat (drop_suffix text suf) suf)
  | [TPunct "-"; TLit (LKFloat suf) text] => Some (DLFloat ("-" ^^ drop_suffix text suf) suf)
  | [TIdent "true"] => Some (DLBool true)
  | [TIdent "false"] => Some (DLBool false)
  | [TLit LKChar text] => Some (DLChar text)
  | [TStr text _ _] => Some (DLStr text)
  | [TLit LKByte text] =>
      match text with
      | String "b" (String "'" (String c (String "'" EmptyString))) => Some (DLByte (Ascii.nat_of_ascii c))
      | _ => None
      end
  | [TIdent "A"; TGroup Paren [TLit (LKInt z "") _]] => Some (DLAtom z)
  | [TIdent "Some"; TGroup Paren [TLit (LKInt z "") _]] => Some (DLSome z)
  | [TIdent "None"] => Some DLNone
  | _ => None
  end.

Definition suffix_ok (suf ty : string) : bool := String.eqb suf "" || String.eqb suf ty.
Definition str_ty : list string := ["&"; "'"; "static"; "str"].
Definition opt_u8_ty : list string := ["Option"; "<"; "u8"; ">"].
Definition list_str_eqb (a b : list string) : bool := if list_eq_dec string_dec a b then true else false.

(** the value of the expression [ts] for a field of type [ty], spliced ([into] = false) or through
    `::core::convert::Into::into` ([into] = true) *)
Definition show_dexpr (into : bool) (ty ts : toks) : string :=
  let fty := flat ty in
  match lit_of ts, fty with
  | Some (DLInt z suf), [s] =>
      if mem_str s int_types then (if negb into && suffix_ok suf s then decZ z else "?")
      else if String.eqb s "f64" then (if into && String.eqb suf "" then decZ z ^^ ".0" else "?")   (* From<i32> for f64 *)
      else if String.eqb s "N" then (if into && String.eqb suf "" then "N" ^^ decZ z else "?")      (* From<i32> for N *)
      else "?"
  | Some (DLFloat text suf), [s] =>
      if mem_str s float_types then (if negb into && suffix_ok suf s then text else "?")
      else if String.eqb s "Fl" then (if into && String.eqb suf "" then "Fl" ^^ text else "?")      (* From<f64> for Fl *)
      else "?"
  | Some (DLBool b), [s] => if String.eqb s "bool" && negb into then (if b then "true" else "false") else "?"
  | Some (DLChar text), [s] => if String.eqb s "char" && negb into then text else "?"
  | Some (DLByte n), [s] => if String.eqb s "u8" && negb into then dec n else "?"
  | Some (DLStr text), _ =>
      if list_str_eqb fty str_ty && negb into then text
      else if list_str_eqb fty ["String"] && into then text                                           (* From<&str> for String *)
      else "?"
  | Some (DLAtom z), ["A"; "<"; k; ">"] => if negb into then "A" ^^ k ^^ ":" ^^ decZ z else "?"
  | Some (DLSome z), _ => if list_str_eqb fty opt_u8_ty && negb into then "Some(" ^^ decZ z ^^ ")" else "?"
  | Some DLNone, _ => if list_str_eqb fty opt_u8_ty && negb into then "None" else "?"
  | _, _ => "?"
  end.

(** `<ty as Default>::default()` for the suite's field types *)
Definition show_ddefault (ty : toks) : string :=
  match flat ty with
  | [s] =>
      if mem_str s int_types then "0"
      else if mem_str s float_types then "0.0"
      else if String.eqb s "bool" then "false"
      else if String.eqb s "char" then "'\0'"
      else if String.eqb s "String" then """"""
      else if String.eqb s "N" then "N77"
      else if String.eqb s "Fl" then "Fl0.25"
      else "?"
  | ["A"; "<"; k; ">"] =>
      match find (fun n => String.eqb (dec n) k) (seq 0 10) with
      | Some n => "A" ^^ k ^^ ":" ^^ dec (40 + n)
      | None => "?"
      end
  | fty => if list_str_eqb fty str_ty then """"""
           else if list_str_eqb fty opt_u8_ty then "None"
           else "?"
  end.

Definition variant_fields (d : dinput) (vn : option string) : list field :=
  match d_data d, vn with
  | DStruct fs, None => fields_list fs
  | DEnum vs, Some n =>
      match find (fun v => String.eqb (v_name v) n) vs with
      | Some v => fields_list (v_fields v)
      | None => []
      end
  | _, _ => []
  end.
Definition field_types (d : dinput) (vn : option string) : list (string * toks) :=
  map (fun x => (field_key (fst x) (snd x), f_ty (snd x))) (indexed (variant_fields d vn)).

Definition show_dfield (tys : list (string * toks)) (kv : string * value) : string :=
  match lookup (fst kv) tys, snd kv with
  | Some ty, VTok ts => show_dexpr false ty ts
  | Some ty, VData (Some w) [(_, VTok ts)] =>
      if String.eqb w "Into" then show_dexpr true ty ts
      else if String.eqb w "Default" then (if flat_eqb ty ts then show_ddefault ts else "?")   (* the emitted call names the field's type *)
      else "?"
  | _, _ => "?"
  end.

Definition model_default (d : dinput) : option string :=
  match item_with "default" (expanded d) with
  | Some it =>
      match run_default ID it with
      | Some (VData vn fs) =>
          let tys := field_types d vn in
          if Nat.eqb (List.length fs) (List.length tys)
          then Some ((match vn with Some n => n | None => "T" end) ^^ "(" ^^ join "," (map (show_dfield tys) fs) ^^ ")")
          else Some "?"
      | Some _ => Some "?"
      | None => None
      end
  | None => None
  end.

(** ** Unions (C20): the value is its object representation [VBytes l]; `size_of::<Self>()` of the
    interpretation is the length of that list (the K2 harness reads it from rustc's `size_of::<T>()` and
    builds the same bytes on both sides).  [run_eq] / [run_hash] / [P_C06.run_fmt] / [P_C20b.run_clone] are the
    runners the theorems of Properties/C20.v are stated about; the texts go through Sem/Fmt.v
    ([run_events], a byte slice rendered by [bytes_text], i.e. [P_C20d.render_bytes]). *)
From Educe.Proofs Require P_C20d.

Definition IU (size : nat) : interp :=
  {| i_ne := i_ne I0; i_eq := i_eq I0; i_cmp := i_cmp I0; i_partial_cmp := i_partial_cmp I0;
     i_user := user0; i_size_of_self := size;
     i_clone := fun v => v; i_clone_from := fun _ v => v; i_into := fun v => v; i_default := fun _ => VUnit |}.

Definition model_union_eq (d : dinput) (l1 l2 : list nat) : option bool :=
  match item_with "eq" (expanded d) with
  | Some it => run_eq (IU (List.length l1)) it (VBytes l1) (VBytes l2)
  | None => None
  end.

(** `<[u8] as Hash>::hash`: the length prefix (`write_length_prefix` = `write_usize`), then one `write` of
    the bytes; support.rs's recording hasher prints `write` with the slice's `{:?}` text *)
Definition union_event_strings (e : event) : list string :=
  match e with
  | EvHash (VBytes l) => ["usize:" ^^ dec (List.length l); "write" ^^ bytes_text false l]
  | _ => event_strings e
  end.
Definition model_union_hash (d : dinput) (l : list nat) : option (list string) :=
  match item_with "hash" (expanded d) with
  | Some it => option_map (flat_map union_event_strings) (run_hash (IU (List.length l)) it (VBytes l) VUnit)
  | None => None
  end.

Definition model_union_debug (alt : bool) (d : dinput) (l : list nat) : option string :=
  match item_with "fmt" (expanded d) with
  | Some it =>
      match run_fmt (IU (List.length l)) it (VBytes l) with
      | Some evs => run_events alt (P_C20d.render_bytes alt) None evs
      | None => None
      end
  | None => None
  end.

(** the clone's bytes; no result if anything was called on the way (the real side logs no call either:
    a union's field types are plain Copy types) *)
Definition model_union_clone (d : dinput) (l : list nat) : option (list nat) :=
  match item_with "clone" (expanded d) with
  | Some it =>
      match P_C20b.run_clone (IU (List.length l)) it (VBytes l) with
      | Some (VBytes l', []) => Some l'
      | _ => None
      end
  | None => None
  end.
