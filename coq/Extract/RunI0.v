(** The fixed interpretation I0 used by the behavioural cross-check (tools/k2.py, suites eq / ord /
    hash): the same tables as k2/src/support.rs.  An atom `A<K>(v)` is the integer 1000 * K + v;
    value 7 is NaN-like.  The emitted methods of the MODEL are run under I0 in the interpreter
    (extracted) and compared with what the REAL compiled code returns on the same values:
    implementation = model-under-Interp, for the semantics Sem/Interp.v that the theorems are about. *)
From Educe.Proofs Require Import P_C02 P_C03e P_C05.
From Educe.Model Require Import Driver.

Open Scope Z_scope.
Definition atom_k (z : Z) : Z := z / 1000.
Definition atom_v (z : Z) : Z := z mod 1000.
Definition nan : Z := 7.

Definition a_eq (a b : Z) : bool := (atom_v a =? atom_v b) && negb (atom_v a =? nan).
Definition ordv (c : comparison) : value := VOrd c.

Definition user0 (path : toks) (args : list value) : value :=
  match flat path, args with
  | [m], [VAtom a; VAtom b] =>
      if String.eqb m "m_eq" then VBool (atom_v a <=? atom_v b)
      else if String.eqb m "m_cmp" then VOrd (Z.compare (atom_v b) (atom_v a))
      else if String.eqb m "m_pcmp" then
        VOpt (if atom_v a =? nan then None else Some (VOrd (Z.compare (atom_v b) (atom_v a))))
      else VUnit
  | _, _ => VUnit
  end.

Definition I0 : interp :=
  {| i_ne := fun x y => match x, y with VAtom a, VAtom b => negb (a_eq a b) | _, _ => true end;
     i_eq := fun x y => match x, y with VAtom a, VAtom b => a_eq a b | _, _ => false end;
     i_cmp := fun x y => match x, y with VAtom a, VAtom b => Z.compare (atom_v a) (atom_v b) | _, _ => Eq end;
     i_partial_cmp := fun x y => match x, y with
                                 | VAtom a, VAtom b =>
                                     if (atom_v a =? nan) || (atom_v b =? nan) then None
                                     else Some (Z.compare (atom_v a) (atom_v b))
                                 | _, _ => None
                                 end;
     i_user := user0;
     i_size_of_self := 0%nat;
     i_clone := fun v => v; i_clone_from := fun _ v => v; i_into := fun v => v; i_default := fun _ => VUnit |}.
Close Scope Z_scope.

Definition item_with (fn : string) (items : list item) : option item :=
  find (fun it => match find_fn fn it with Some _ => true | None => false end) items.

Definition expanded (d : dinput) : list item :=
  match expand all_traits d with Ok its => its | _ => [] end.

Definition model_eq (d : dinput) (a b : value) : option bool :=
  match item_with "eq" (expanded d) with Some it => run_eq I0 it a b | None => None end.
Definition model_cmp (d : dinput) (a b : value) : option comparison :=
  match item_with "cmp" (expanded d) with Some it => run_cmp I0 it a b | None => None end.
Definition model_partial_cmp (d : dinput) (a b : value) : option (option comparison) :=
  match item_with "partial_cmp" (expanded d) with Some it => run_partial_cmp I0 it a b | None => None end.

(** the Hasher calls an event stands for under I0 (support.rs: `A<K>` writes 0xA0 + K then v; m_hash 0xB0 then v) *)
Definition event_strings (e : event) : list string :=
  match e with
  | EvHashUsize n => ["usize:" ^^ dec n]
  | EvHash (VAtom z) => ["u8:" ^^ decZ (160 + atom_k z); "u8:" ^^ decZ (atom_v z)]
  | EvUser _ (VAtom z :: _) => ["u8:176"; "u8:" ^^ decZ (atom_v z)]
  | _ => ["?"]
  end.
Definition model_hash (d : dinput) (v : value) : option (list string) :=
  match item_with "hash" (expanded d) with
  | Some it => option_map (flat_map event_strings) (run_hash I0 it v VUnit)
  | None => None
  end.

(** ** Debug: the builder-call trace of the model's `fmt`, rendered by Sem/Fmt.v (the transcription of
    core::fmt's builders), with the field values rendered as support.rs's `impl Debug for A<K>` / `m_fmt` do *)
From Educe.Sem Require Import Fmt.
From Educe.Proofs Require Import P_C06.

Definition render0 (alt : bool) (a : fmt_arg) : string :=
  match a with
  | FADebug (VAtom z) =>
      if alt then "A" ^^ decZ (atom_k z) ^^ "<" ^^ nl ^^ decZ (atom_v z) ^^ nl ^^ ">"
      else "A" ^^ decZ (atom_k z) ^^ "<" ^^ decZ (atom_v z) ^^ ">"
  | FAVia _ (VAtom z) =>
      if alt then "M<" ^^ nl ^^ decZ (atom_v z) ^^ nl ^^ ">" else "M<" ^^ decZ (atom_v z) ^^ ">"
  | _ => "?"
  end.

Definition model_debug (alt : bool) (d : dinput) (v : value) : option string :=
  match item_with "fmt" (expanded d) with
  | Some it =>
      match run_fmt I0 it v with
      | Some evs => run_events alt (render0 alt) None evs
      | None => None
      end
  | None => None
  end.

(** ** Clone / clone_from (C07): values rendered like the harness's `show`, call events like support.rs's log *)
From Educe.Proofs Require Import P_C07 P_C07c.

Open Scope Z_scope.
Definition user1 (path : toks) (args : list value) : value :=
  match flat path, args with
  | [m], [VAtom z] => if String.eqb m "m_clone" then VAtom (z + 50) else user0 path args
  | _, _ => user0 path args
  end.
Close Scope Z_scope.
Definition I1 : interp :=
  {| i_ne := i_ne I0; i_eq := i_eq I0; i_cmp := i_cmp I0; i_partial_cmp := i_partial_cmp I0;
     i_user := user1; i_size_of_self := 0%nat;
     i_clone := fun v => v; i_clone_from := fun _ v => v; i_into := fun v => v; i_default := fun _ => VUnit |}.

Definition show_atom (v : value) : string :=
  match v with VAtom z => "A" ^^ decZ (atom_k z) ^^ ":" ^^ decZ (atom_v z) | _ => "?" end.
Fixpoint join (sep : string) (l : list string) : string :=
  match l with [] => "" | [x] => x | x :: r => x ^^ sep ^^ join sep r end.
Definition show_value (v : value) : string :=
  match v with
  | VData vn fs => (match vn with Some n => n | None => "T" end) ^^ "(" ^^ join "," (map (fun kv => show_atom (snd kv)) fs) ^^ ")"
  | _ => "?"
  end.
Definition clone_event_string (e : event) : string :=
  match e with
  | EvClone (VAtom z) => "clone A" ^^ decZ (atom_k z) ^^ " " ^^ decZ (atom_v z)
  | EvUser _ [VAtom z] => "m_clone A" ^^ decZ (atom_k z) ^^ " " ^^ decZ (atom_v z)
  | _ => "?"
  end.

Definition model_clone (d : dinput) (x : value) : option string :=
  match item_with "clone" (expanded d) with
  | Some it => match run_clone I1 it x with
               | Some (v, tr) => Some (show_value v ^^ "|" ^^ join ";" (map clone_event_string tr))
               | None => None
               end
  | None => None
  end.
Definition model_clone_from (d : dinput) (a b : value) : option string :=
  match item_with "clone" (expanded d) with
  | Some it => match run_clone_from (tie_clone I1 it) it a b with
               | Some (a', _, _) => Some (show_value a')
               | None => None
               end
  | None => None
  end.
