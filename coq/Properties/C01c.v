(** * C01, the converse, continued — documented TYPE-LEVEL parameter forms are accepted

    [Properties/C01.v]: the bare flag(s); [Properties/C01b.v]: field-level `ignore` / `method(f)`.
    Here: `#[educe(T(params))]`, ONE trait educed, on a type WITHOUT variant / field attributes
    ([plain_data]), for

      bound    `T(bound = false)`, `T(bound(false))`, `T(bound = true)`, `T(bound( * ))`, for the
               nine traits that take `bound` (Debug, Clone, Copy, PartialEq, Eq, PartialOrd, Ord,
               Hash, Default), under the side condition [flag_accepted T] of the bare flag, UNCHANGED
      name     `Debug(name = false)`, `Debug(name(false))`, `Debug(name = Ident)`,
               `Debug(name = "Ident")`, `Debug(name(Ident))` on a struct / an enum; with the name
               disabled a struct needs at least one field, an enum at least one variant
      new      `Default(new)`, `Default(new = b)`, `Default(new(b))`, side condition of the flag
      Into     `Into(T)` on a struct with exactly one field, [T] any type the parser reads entirely

    STILL MISSING: `bound(<where predicates>)`, `bound = "<where predicates>"`; `named_field`;
    `Default(expression = ..)`; `unsafe`; `Into(T)` on several fields / an enum / with `bound`
    or field `method`; [parse_type_with_metas [I s] = Ok ([I s], [])] for EVERY non-keyword [s]
    (here a hypothesis, discharged by computation for each concrete type); several parameters in
    one list; several traits beside a parameter list; variant attributes. *)
From Coq Require Import List String Bool.
From Educe.Proofs Require Import P_C01k.
Import ListNotations.
Open Scope string_scope.

(** ** 1. `bound` with a literal value, in its four documented spellings *)
Theorem C01_accepted_bound :
  forall (F : features) (d : dinput) (t : trait) (s : bform),
    takes_bound t -> has_trait t F = true ->
    d_attrs d = [educe_list t (bform_toks s)] ->
    plain_data (d_data d) -> flag_accepted t (d_data d) ->
    exists items, expand F d = Ok items.
Proof. exact expand_accepts_bound. Qed.
Print Assumptions C01_accepted_bound.

(** what the four spellings are *)
Theorem C01_bound_spellings :
  bform_toks BEqFalse = [I "bound"; P "="; I "false"] /\
  bform_toks BParenFalse = [I "bound"; G Paren [I "false"]] /\
  bform_toks BEqTrue = [I "bound"; P "="; I "true"] /\
  bform_toks BParenStar = [I "bound"; G Paren [P "*"]].
Proof. repeat split; reflexivity. Qed.
Print Assumptions C01_bound_spellings.

(** ** 2. `Debug(name ..)`: [name_accepted] = a struct with the name disabled has a field, an enum
    with the name disabled has a variant (a unit struct, `struct T()` and `struct T {}` with
    `name = false` are refused: `E_debug_unit_struct_name`); never a union (it needs `unsafe`) *)
Theorem C01_accepted_debug_name :
  forall (F : features) (d : dinput) (n : nform),
    has_trait TDebug F = true ->
    d_attrs d = [educe_list TDebug (nform_toks n)] ->
    plain_data (d_data d) -> nform_ok n -> name_accepted n (d_data d) ->
    exists items, expand F d = Ok items.
Proof. exact expand_accepts_debug_name. Qed.
Print Assumptions C01_accepted_debug_name.

(** the two cases of the brief, read separately: `name = false` / `name(false)` on a struct with
    at least one field, named or tuple .. *)
Theorem C01_accepted_debug_name_false :
  forall (F : features) (d : dinput) (n : nform) (fs : fields),
    has_trait TDebug F = true ->
    n = NEqFalse \/ n = NParenFalse ->
    d_attrs d = [educe_list TDebug (nform_toks n)] ->
    d_data d = DStruct fs -> plain_fields (fields_list fs) -> fields_list fs <> [] ->
    exists items, expand F d = Ok items.
Proof. exact expand_accepts_debug_name_false. Qed.
Print Assumptions C01_accepted_debug_name_false.

(** .. and a custom name on ANY struct (a unit struct included) or enum (an empty one included) *)
Theorem C01_accepted_debug_name_ident :
  forall (F : features) (d : dinput) (n : nform),
    has_trait TDebug F = true ->
    (exists s, n = NEqIdent s /\ path_seg_ok s = true) \/
    (exists raw s, n = NEqStr raw s /\ ident_ok s = true) \/
    (exists s, n = NParenIdent s /\ ident_ok s = true) ->
    d_attrs d = [educe_list TDebug (nform_toks n)] ->
    plain_data (d_data d) -> (forall fs, d_data d <> DUnion fs) ->
    exists items, expand F d = Ok items.
Proof. exact expand_accepts_debug_name_ident. Qed.
Print Assumptions C01_accepted_debug_name_ident.

(** ** 3. `Default(new)` *)
Theorem C01_accepted_default_new :
  forall (F : features) (d : dinput) (w : wform),
    has_trait TDefault F = true ->
    d_attrs d = [educe_list TDefault (wform_toks w)] ->
    plain_data (d_data d) -> flag_accepted TDefault (d_data d) ->
    exists items, expand F d = Ok items.
Proof. exact expand_accepts_default_new. Qed.
Print Assumptions C01_accepted_default_new.

(** ** 4. `Into(T)` on a struct with exactly one field *)
Theorem C01_accepted_into :
  forall (F : features) (d : dinput) (fs : fields) (f : field) (ty : toks),
    has_trait TInto F = true ->
    d_attrs d = [educe_list TInto ty] ->
    d_data d = DStruct fs -> fields_list fs = [f] -> f_attrs f = [] ->
    parse_type_with_metas ty = Ok (ty, []) ->
    exists items, expand F d = Ok items.
Proof. exact expand_accepts_into. Qed.
Print Assumptions C01_accepted_into.

Module Example.
  Definition fld (attrs : list attr) (n : option string) (ty : toks) : field :=
    {| f_attrs := attrs; f_name := n; f_ty := ty |}.
  Definition no_generics : generics :=
    {| g_params := []; g_trailing := false; g_where := []; g_where_trailing := false |}.
  (** `#[educe(T(g))] .. T ..` *)
  Definition mk (t : trait) (g : toks) (dt : data) : dinput :=
    {| d_attrs := [educe_list t g]; d_name := "T"; d_generics := no_generics; d_data := dt |}.

  Definition s1 := DStruct (FNamed [fld [] (Some "a") [I "u8"]]).           (* struct T { a: u8 } *)
  Definition s2 := DStruct (FNamed [fld [] (Some "a") [I "u8"]; fld [] (Some "b") [I "u32"]]).
  Definition t1 := DStruct (FUnnamed [fld [] None [I "u8"]]).               (* struct T(u8); *)
  Definition s0 := DStruct FUnit.                                           (* struct T; *)
  Definition t0 := DStruct (FUnnamed []).                                   (* struct T(); *)
  Definition n0 := DStruct (FNamed []).                                     (* struct T {} *)
  Definition u1 := DUnion [fld [] (Some "a") [I "u8"]].                     (* union T { a: u8 } *)
  Definition e0 := DEnum [].                                                (* enum T {} *)
  (** enum T { A, B(u8) } *)
  Definition e2 :=
    DEnum [{| v_attrs := []; v_name := "A"; v_fields := FUnit; v_discr := None |};
           {| v_attrs := []; v_name := "B"; v_fields := FUnnamed [fld [] None [I "u8"]];
              v_discr := None |}].

  Lemma s1_plain : plain_data s1.  Proof. intros f [<-|[]]. reflexivity. Qed.
  Lemma t1_plain : plain_data t1.  Proof. intros f [<-|[]]. reflexivity. Qed.
  Lemma s0_plain : plain_data s0.  Proof. intros f []. Qed.
  Lemma e0_plain : plain_data e0.  Proof. intros v []. Qed.
  Lemma e2_plain : plain_data e2.
  Proof.
    intros v [<-|[<-|[]]]; (split; [reflexivity|]); cbn; intros f Hf;
      repeat (destruct Hf as [<-|Hf]; [reflexivity|]); destruct Hf.
  Qed.

  (** *** bound: the theorem applies (non-vacuity) .. *)
  Example accepted_bound :
    (exists its, expand all_traits (mk TDebug (bform_toks BEqFalse) s1) = Ok its) /\
    (exists its, expand all_traits (mk TOrd (bform_toks BParenStar) e2) = Ok its) /\
    (exists its, expand all_traits (mk TCopy (bform_toks BEqTrue) u1) = Ok its) /\
    (exists its, expand all_traits (mk TDefault (bform_toks BParenFalse) s0) = Ok its).
  Proof.
    repeat split.
    - apply (C01_accepted_bound all_traits _ TDebug BEqFalse);
        [exact Logic.I|reflexivity|reflexivity|apply s1_plain|exact Logic.I].
    - apply (C01_accepted_bound all_traits _ TOrd BParenStar);
        [exact Logic.I|reflexivity|reflexivity|apply e2_plain|].
      eexists. vm_compute. reflexivity.
    - apply (C01_accepted_bound all_traits _ TCopy BEqTrue);
        [exact Logic.I|reflexivity|reflexivity| |exact Logic.I].
      intros f [<-|[]]. reflexivity.
    - apply (C01_accepted_bound all_traits _ TDefault BParenFalse);
        [exact Logic.I|reflexivity|reflexivity|apply s0_plain|exact Logic.I].
  Qed.
  (** .. and its hypotheses are needed: Deref knows no `bound` ([takes_bound]); the union forms of
      PartialEq / Hash / Debug know no `bound` and an enum of two variants has no default
      ([flag_accepted]); another value, a repeated `bound`, a bare `bound` are refused *)
  Example refused_bound :
    expand all_traits (mk TDeref (bform_toks BEqFalse) s1) = Err E_attr_format /\
    expand all_traits (mk TPartialEq (bform_toks BParenStar) u1) = Err E_attr_format /\
    expand all_traits (mk THash (bform_toks BEqTrue) u1) = Err E_attr_format /\
    expand all_traits (mk TDebug (bform_toks BEqTrue) u1) = Err E_attr_format /\
    expand all_traits (mk TDefault (bform_toks BParenStar) e2) = Err E_default_no_variant /\
    expand all_traits (mk TDebug (bform_toks BParenStar) e0) = Err E_debug_unit_enum_name /\
    expand all_traits (mk TClone [I "bound"; P "="; TLit (LKInt 1%Z "") "1"] s1) = Err E_syn /\
    expand all_traits (mk TClone (bform_toks BEqFalse ++ [P ","] ++ bform_toks BEqTrue)%list s1)
      = Err E_param_reset /\
    expand all_traits (mk TClone [I "bound"] s1) = Err E_syn.
  Proof. vm_compute. repeat split; reflexivity. Qed.

  (** *** Debug(name ..) *)
  Example accepted_debug_name :
    (exists its, expand all_traits (mk TDebug (nform_toks NEqFalse) s1) = Ok its) /\
    (exists its, expand all_traits (mk TDebug (nform_toks NParenFalse) t1) = Ok its) /\
    (exists its, expand all_traits (mk TDebug (nform_toks NEqFalse) e2) = Ok its) /\
    (exists its, expand all_traits (mk TDebug (nform_toks (NEqIdent "Foo")) s0) = Ok its) /\
    (exists its, expand all_traits (mk TDebug (nform_toks (NEqStr """Foo""" "Foo")) e0) = Ok its) /\
    (exists its, expand all_traits (mk TDebug (nform_toks (NParenIdent "Foo")) e2) = Ok its) /\
    (exists its, expand all_traits (mk TDebug (nform_toks (NEqIdent "self")) s1) = Ok its).
  Proof.
    repeat split.
    - apply (C01_accepted_debug_name_false all_traits _ NEqFalse (FNamed [fld [] (Some "a") [I "u8"]]));
        [reflexivity|left; reflexivity|reflexivity|reflexivity|apply s1_plain|discriminate].
    - apply (C01_accepted_debug_name_false all_traits _ NParenFalse (FUnnamed [fld [] None [I "u8"]]));
        [reflexivity|right; reflexivity|reflexivity|reflexivity|apply t1_plain|discriminate].
    - apply (C01_accepted_debug_name all_traits _ NEqFalse);
        [reflexivity|reflexivity|apply e2_plain|exact Logic.I|intros _; discriminate].
    - apply (C01_accepted_debug_name_ident all_traits _ (NEqIdent "Foo"));
        [reflexivity|left; eexists; split; reflexivity|reflexivity|apply s0_plain|discriminate].
    - apply (C01_accepted_debug_name_ident all_traits _ (NEqStr """Foo""" "Foo"));
        [reflexivity|right; left; do 2 eexists; split; reflexivity|reflexivity|apply e0_plain|discriminate].
    - apply (C01_accepted_debug_name_ident all_traits _ (NParenIdent "Foo"));
        [reflexivity|right; right; eexists; split; reflexivity|reflexivity|apply e2_plain|discriminate].
    - apply (C01_accepted_debug_name_ident all_traits _ (NEqIdent "self"));
        [reflexivity|left; eexists; split; reflexivity|reflexivity|apply s1_plain|discriminate].
  Qed.
  (** [name_accepted]: nothing left to show; [nform_ok]: a keyword is not a name (and `self` is
      a path segment -- accepted after `=` -- but not an identifier); no union *)
  Example refused_debug_name :
    expand all_traits (mk TDebug (nform_toks NEqFalse) s0) = Err E_debug_unit_struct_name /\
    expand all_traits (mk TDebug (nform_toks NParenFalse) t0) = Err E_debug_unit_struct_name /\
    expand all_traits (mk TDebug (nform_toks NEqFalse) n0) = Err E_debug_unit_struct_name /\
    expand all_traits (mk TDebug (nform_toks NEqFalse) e0) = Err E_debug_unit_enum_name /\
    expand all_traits (mk TDebug (nform_toks (NEqIdent "fn")) s1) = Err E_syn /\
    expand all_traits (mk TDebug (nform_toks (NParenIdent "self")) s1) = Err E_syn /\
    expand all_traits (mk TDebug (nform_toks (NEqStr """self""" "self")) s1) = Err E_syn /\
    expand all_traits (mk TDebug (nform_toks (NEqIdent "Foo")) u1) = Err E_union_without_unsafe.
  Proof. vm_compute. repeat split; reflexivity. Qed.

  (** *** Default(new) *)
  Example accepted_default_new :
    (exists its, expand all_traits (mk TDefault (wform_toks WFlag) s2) = Ok its) /\
    (exists its, expand all_traits (mk TDefault (wform_toks (WEq true)) t1) = Ok its) /\
    (exists its, expand all_traits (mk TDefault (wform_toks (WParen false)) u1) = Ok its).
  Proof.
    repeat split.
    - apply (C01_accepted_default_new all_traits _ WFlag); [reflexivity|reflexivity| |exact Logic.I].
      intros f [<-|[<-|[]]]; reflexivity.
    - apply (C01_accepted_default_new all_traits _ (WEq true));
        [reflexivity|reflexivity|apply t1_plain|exact Logic.I].
    - apply (C01_accepted_default_new all_traits _ (WParen false)); [reflexivity|reflexivity| |].
      + intros f [<-|[]]. reflexivity.
      + eexists. reflexivity.
  Qed.
  Example refused_default_new :
    expand all_traits (mk TDefault (wform_toks WFlag) e2) = Err E_default_no_variant /\
    expand all_traits (mk TDefault [I "new"; P "="; TLit (LKInt 1%Z "") "1"] s1) = Err E_syn /\
    expand all_traits (mk TDefault (wform_toks WFlag ++ [P ","] ++ wform_toks (WEq true))%list s1)
      = Err E_param_reset /\
    expand all_traits (mk TClone (wform_toks WFlag) s1) = Err E_attr_format.
  Proof. vm_compute. repeat split; reflexivity. Qed.

  (** *** Into(T): `#[educe(Into(u8))] struct T { a: u8 }`, and a target of another type *)
  Example accepted_into :
    (exists its, expand all_traits (mk TInto [I "u8"] s1) = Ok its) /\
    (exists its, expand all_traits (mk TInto [I "u16"] t1) = Ok its) /\
    (exists its, expand all_traits (mk TInto [P "&"; I "str"] s1) = Ok its).
  Proof.
    repeat split.
    - apply (C01_accepted_into all_traits _ (FNamed [fld [] (Some "a") [I "u8"]]) (fld [] (Some "a") [I "u8"]) [I "u8"]);
        [reflexivity|reflexivity|reflexivity|reflexivity|reflexivity|vm_compute; reflexivity].
    - apply (C01_accepted_into all_traits _ (FUnnamed [fld [] None [I "u8"]]) (fld [] None [I "u8"]) [I "u16"]);
        [reflexivity|reflexivity|reflexivity|reflexivity|reflexivity|vm_compute; reflexivity].
    - apply (C01_accepted_into all_traits _ (FNamed [fld [] (Some "a") [I "u8"]]) (fld [] (Some "a") [I "u8"]) [P "&"; I "str"]);
        [reflexivity|reflexivity|reflexivity|reflexivity|reflexivity|vm_compute; reflexivity].
  Qed.
  (** exactly one field: none / two of which none has the target's type; the target is a type;
      a struct; the bare flag `Into` *)
  Example refused_into :
    expand all_traits (mk TInto [I "u8"] s0) = Err E_into_no_field /\
    expand all_traits (mk TInto [I "u16"] s2) = Err E_into_no_field /\
    expand all_traits (mk TInto [I "fn"] s1) = Err E_syn /\
    expand all_traits (mk TInto [] s1) = Err E_syn /\
    expand all_traits (mk TInto [I "u8"] u1) = Err E_no_union /\
    expand all_traits {| d_attrs := [educe_flag "Into"]; d_name := "T"; d_generics := no_generics;
                         d_data := s1 |} = Err E_attr_format.
  Proof. vm_compute. repeat split; reflexivity. Qed.
End Example.
