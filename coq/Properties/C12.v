(** * C12 — explicit bound modes and the type's own generics are honoured verbatim

    Statements only; each is closed by [exact] of a lemma proved in
    Proofs/P_C12*.v and followed by [Print Assumptions].

    Reading guide.  [handlers] (Model/Driver.v) is the driver's table of the
    eleven single-meta handlers [h F traits d m] (Debug, Clone, Copy,
    PartialEq, Eq, PartialOrd, Ord, Hash, Default, Deref, DerefMut);
    [expand_into F traits d ms] is the twelfth, which receives every
    `Into(..)` meta and emits one impl per target.  An emitted [item] keeps
    its header structured: [i_generics] (parameters, user where-predicates
    followed by the added ones), [i_trait], [i_self]; [item_toks] prints it
    (the model of `generics.clone(); make_where_clause(); push(..);
    split_for_impl()`), token for token what the real macro prints (K1).

    Spec/SpecBounds.v, written from the property text:
    [type_mode t F traits d m] is the bound mode the trait's own attribute
    builder reads from the type-level meta [m] ([BDisabled] / [BAuto] /
    [BCustom ps] / [BAll]); [spec_added g r] is what may follow the user's
    predicates — nothing, the given predicates, `T : Trait` for the TYPE
    parameters [type_params], or the automatic predicates of C11;
    [req_of t F traits d b tys] collects the mode, the trait of the table
    ([required_trait]), the delegated types and the supertraits
    ([supers_of]); [header_ok d added it] says: the item's parameter list is
    the type's, its self type is the type's name, and its where-clause is
    the user's followed by [added]; [spec_header] is that header printed. *)
From Educe.Proofs Require Import P_C12g.

(** C12_header.  For every handler of the table, every feature set, every
    input and every meta: each emitted item (the Eq / Copy / PartialOrd
    companions and Default's inherent `new` impl included) has the type's
    parameter list, the type's name as self type, and as where-clause the
    user's predicates followed by exactly [spec_added] for the mode read
    from the trait's parameters — and nothing else. *)
Theorem C12_header :
  forall t h, In (t, h) handlers ->
  forall F traits d m items, h F traits d m = Ok items ->
  exists b tys,
    type_mode t F traits d m = Ok b /\
    delegated_of t F traits d m = Ok tys /\
    Forall (header_ok d (spec_added (d_generics d) (req_of t F traits d b tys))) items.
Proof. exact handlers_header. Qed.
Print Assumptions C12_header.

(** Into: one impl per target, in the order written, each with the mode
    written next to ITS target (`Into(T, bound(..))`). *)
Theorem C12_header_into :
  forall F traits d ms items, expand_into F traits d ms = Ok items ->
  exists targets c,
    into_cfg F traits d ms = Ok (targets, c) /\
    into_build_type true ms = Ok targets /\
    Forall2 (fun t it => header_ok d (spec_added (d_generics d) (into_req c t)) it /\
                         i_trait it = Some (into_trait (fst t))) targets items.
Proof. exact into_header. Qed.
Print Assumptions C12_header_into.

(** Deref / DerefMut have no `bound` parameter: the item carries the type's generics as they are. *)
Theorem C12_header_deref :
  forall F traits d m items,
    (expand_deref F traits d m = Ok items \/ expand_deref_mut F traits d m = Ok items) ->
    Forall (fun it => i_generics it = d_generics d) items.
Proof.
  intros F traits d m items [H|H];
    [exact (proj2 (deref_handler F traits d m items H))|exact (proj2 (deref_mut_handler F traits d m items H))].
Qed.
Print Assumptions C12_header_deref.

(** The header as printed: `impl<params minus defaults> Trait for Name<param
    names> where user-predicates, added-predicates { .. }` — [spec_header]
    prints each parameter with its inline bounds verbatim ([param_decl]) and
    applies the name to all parameters in order ([param_use]). *)
Theorem C12_header_printed :
  forall d added it, header_ok d added it ->
    item_toks it
    = i_attrs it ++ spec_header d (i_trait it) added ++ [G Brace (flat_map member_toks (i_members it))].
Proof. exact item_header. Qed.
Print Assumptions C12_header_printed.

(** Defaults are never printed: declarations that differ only in defaults print the same
    `impl<..>` and `Name<..>`. *)
Theorem C12_defaults_not_printed :
  forall g g',
    map erase_default (g_params g) = map erase_default (g_params g') -> g_trailing g = g_trailing g' ->
    impl_generics_toks g = impl_generics_toks g' /\ ty_generics_toks g = ty_generics_toks g'.
Proof. exact impl_generics_no_defaults. Qed.
Print Assumptions C12_defaults_not_printed.

(** C12_disabled.  `bound = false` / `bound(false)`: nothing is added — the generics are the type's. *)
Theorem C12_disabled :
  forall t h, In (t, h) handlers ->
  forall F traits d m items, h F traits d m = Ok items ->
    type_mode t F traits d m = Ok BDisabled ->
    Forall (fun it => i_generics it = d_generics d) items.
Proof. exact disabled_adds_nothing. Qed.
Print Assumptions C12_disabled.

(** C12_custom.  `bound(p1, p2, ..)` / `bound = "p1, p2, .."` (and `bound = ""`, [ps] = []):
    exactly the given predicates, after the user's. *)
Theorem C12_custom :
  forall t h, In (t, h) handlers ->
  forall F traits d m items, h F traits d m = Ok items ->
  forall ps, type_mode t F traits d m = Ok (BCustom ps) ->
    Forall (fun it => g_where (i_generics it) = g_where (d_generics d) ++ ps) items.
Proof. exact custom_adds_verbatim. Qed.
Print Assumptions C12_custom.

(** C12_all.  `bound( * )`: `T : Trait` for every type parameter, in order, with the trait the
    automatic mode uses ([required_trait], the same function as in C11_where_auto) ... *)
Theorem C12_all :
  forall t h, In (t, h) handlers ->
  forall F traits d m items, h F traits d m = Ok items ->
    type_mode t F traits d m = Ok BAll ->
    Forall (fun it => g_where (i_generics it)
                      = g_where (d_generics d)
                        ++ map (fun n => [I n; P ":"] ++ required_trait t F traits d)
                               (type_params (g_params (d_generics d)))) items.
Proof. exact all_bounds_type_params. Qed.
Print Assumptions C12_all.

(** ... and only type parameters: a name is in [type_params] iff the list declares it as a TYPE
    parameter — never for a lifetime or a const parameter. *)
Theorem C12_all_type_params_only :
  forall ps n, In n (type_params ps) <-> exists bs df, In (GType n bs df) ps.
Proof. exact type_params_in. Qed.
Print Assumptions C12_all_type_params_only.

(** The four modes for Into, per target. *)
Theorem C12_into_modes :
  forall F traits d ms items, expand_into F traits d ms = Ok items ->
  exists targets c,
    into_cfg F traits d ms = Ok (targets, c) /\
    Forall2 (fun t it =>
               let user := g_where (d_generics d) in
               match snd t with
               | BDisabled => i_generics it = d_generics d
               | BCustom ps => g_where (i_generics it) = user ++ ps
               | BAll => g_where (i_generics it)
                         = user ++ map (fun n => [I n; P ":"] ++ into_trait (fst t))
                                       (type_params (g_params (d_generics d)))
               | BAuto => g_where (i_generics it)
                          = user ++ map (fun ty => ty ++ [P ":"] ++ into_trait (fst t))
                                        (into_delegated (fst t) c)
               end) targets items.
Proof. exact into_modes. Qed.
Print Assumptions C12_into_modes.

(** C12_user_where_kept, on the whole macro.  Every item [expand] returns, for every feature set
    and input: the parameter list is the type's (so the printed `impl<..>` and `Name<..>` are
    those of the type's own generics), the self type is the type's name, and the user's
    where-clause is a prefix of the item's, unchanged. *)
Theorem C12_user_where_kept :
  forall F d items, expand F d = Ok items ->
  forall it, In it items ->
    g_params (i_generics it) = g_params (d_generics d) /\
    impl_generics_toks (i_generics it) = impl_generics_toks (d_generics d) /\
    ty_generics_toks (i_generics it) = ty_generics_toks (d_generics d) /\
    i_self it = d_name d /\
    firstn (List.length (g_where (d_generics d))) (g_where (i_generics it)) = g_where (d_generics d).
Proof.
  intros F d items H it Hin. apply keeps_header_spelled.
  pose proof (expand_headers F d items H) as Hall. rewrite Forall_forall in Hall. exact (Hall it Hin).
Qed.
Print Assumptions C12_user_where_kept.

(** Which handler calls [expand] makes: every item it returns was emitted by a handler of the
    table run on the first meta collected for its trait, or by the Into handler run on all the
    `Into(..)` metas — so C12_header / C12_header_into (and C11_where_auto) speak about every
    item of every expansion. *)
Theorem C12_items_origin :
  forall F d items, expand F d = Ok items ->
  exists tm, foldM (collect_attr F) [] (d_attrs d) = Ok tm /\ Forall (item_origin F d tm) items.
Proof. exact expand_origin. Qed.
Print Assumptions C12_items_origin.

(** From the spelling to the mode.  [bound_from_meta] is what every builder calls on its `bound`
    parameter.  [one_pred p]: [p] has no top-level comma, balanced angle brackets and a `:` after
    its first token (the modelled domain of where-predicates). *)
Theorem C12_spelling :
  (forall p, bound_from_meta (MNameValue p (XLit (I "false"))) = Ok BDisabled) /\
  (forall p dl, bound_from_meta (MList p dl [I "false"]) = Ok BDisabled) /\
  (forall p text relex b,
     bound_from_meta (MNameValue p (XLit (TStr text "" relex))) = Ok b ->
     (relex = Some [] -> b = BCustom []) /\ (relex = None -> b = BDisabled)) /\
  (forall p dl, bound_from_meta (MList p dl [P "*"]) = Ok BAll) /\
  (forall p dl trailing ps t0 r0,
     Forall one_pred ps -> ps <> [] -> list_toks trailing ps = t0 :: r0 ->
     is_lit_tok t0 = false -> is_punct "-" t0 = false -> is_punct "*" t0 = false ->
     bound_from_meta (MList p dl (list_toks trailing ps)) = Ok (BCustom ps)) /\
  (forall p text value trailing ps,
     Forall one_pred ps -> ps <> [] ->
     bound_from_meta (MNameValue p (XLit (TStr text value (Some (list_toks trailing ps)))))
     = Ok (BCustom ps)) /\
  (forall p, bound_from_meta (MNameValue p (XLit (I "true"))) = Ok BAuto).
Proof.
  split; [exact bound_eq_false|]. split; [exact bound_list_false|].
  split; [exact bound_eq_empty_string|]. split; [exact bound_list_star|].
  split; [exact bound_list_preds|]. split; [exact bound_eq_string|exact bound_eq_true].
Qed.
Print Assumptions C12_spelling.

(** The mode of [type_mode] is the one the trait's parameter list asks for ([requested]: automatic
    without a `bound` parameter, else what the single `bound` parameter spells; a second one is
    an error), for every trait; a bare `Trait` is automatic; likewise for each Into target. *)
Theorem C12_mode_requested :
  (forall t F traits d p dl ts b,
     type_mode t F traits d (MList p dl ts) = Ok b ->
     b = BAuto \/ exists u ms, (parse_metas ts = Ok ms \/ parse_unsafe_metas ts = Ok (u, ms)) /\
                               requested ms b) /\
  (forall t F traits d p b, type_mode t F traits d (MPath p) = Ok b -> b = BAuto) /\
  (forall ms targets, into_build_type true ms = Ok targets -> Forall2 written_bound ms targets).
Proof.
  split; [exact type_mode_requested|]. split; [exact type_mode_bare|].
  intros ms targets H. unfold into_build_type in H.
  destruct (into_targets_requested ms [] targets H) as [new [Hr Hw]]. cbn [app] in Hr. subst new. exact Hw.
Qed.
Print Assumptions C12_mode_requested.

(** Debug's helper impls (`Educe__DebugField`, one per field with a custom method), as they are:
    generic over the type's parameters, for the type itself, under the type's ORIGINAL
    where-clause — the predicates added for `bound` (any mode) are absent from them. *)
Theorem C12_debug_helper :
  forall F traits d m items, expand_debug F traits d m = Ok items ->
    Forall (fun it => Forall (helper_ok d) (item_helpers it)) items.
Proof. exact debug_helpers. Qed.
Print Assumptions C12_debug_helper.

(** Non-vacuity.  `struct S<'a, T: 'a + Clone = u8, U, const N: usize = 3> where U: Sized,`
    with three fields (one ignored by PartialEq, one by Hash) and
    `#[educe(PartialEq(bound( * )), Hash(bound = false), Debug(bound(T: ::core::fmt::Debug, U: Copy)),
             Clone, Default(new, bound = "T: Default"))]`: the whole macro runs, the hypotheses of
    the theorems hold in each mode, and both sides compute. *)
Module Example.
  Definition educe (ts : toks) : attr := {| a_path := ["educe"]; a_meta := AMList Paren ts |}.
  Definition fld (n : string) (ty : toks) (ts : list toks) : field :=
    {| f_attrs := map educe ts; f_name := Some n; f_ty := ty |}.
  Definition gen : generics :=
    {| g_params := [GLife "a" []; GType "T" [TLife "a"; P "+"; I "Clone"] (Some [I "u8"]);
                    GType "U" [] None; GConst "N" [I "usize"] (Some [TLit (LKInt 3 "") "3"])];
       g_trailing := false;
       g_where := [[I "U"; P ":"; I "Sized"]]; g_where_trailing := true |}.
  Definition dbg_path : toks := [P "::"; I "core"; P "::"; I "fmt"; P "::"; I "Debug"].
  Definition dbg_preds : list toks := [[I "T"; P ":"] ++ dbg_path; [I "U"; P ":"; I "Copy"]].
  Definition m_peq : toks := [I "bound"; G Paren [P "*"]].
  Definition m_hash : toks := [I "bound"; P "="; I "false"].
  Definition m_dbg : toks := [I "bound"; G Paren (list_toks false dbg_preds)].
  Definition m_default : toks :=
    [I "new"; P ","; I "bound"; P "=";
     TStr """T: Default""" "T: Default" (Some [I "T"; P ":"; I "Default"])].
  Definition d : dinput :=
    {| d_attrs := [educe [I "PartialEq"; G Paren m_peq; P ","; I "Hash"; G Paren m_hash; P ",";
                          I "Debug"; G Paren m_dbg; P ","; I "Clone"; P ",";
                          I "Default"; G Paren m_default]];
       d_name := "S"; d_generics := gen;
       d_data := DStruct (FNamed [fld "a" [P "&"; TLife "a"; I "T"] [];
                                  fld "b" [I "U"] [[I "PartialEq"; G Paren [I "ignore"]]];
                                  fld "c" [G Bracket [I "u8"; P ";"; I "N"]]
                                      [[I "Hash"; G Paren [I "ignore"]]]]) |}.
  Definition mp (s : string) : mpath := {| mp_lead := false; mp_segs := [s] |}.
  Definition traits := [TPartialEq; THash; TDebug; TClone; TDefault].
  Definition items := match expand all_traits d with Ok l => l | _ => [] end.
  Definition user : list toks := [[I "U"; P ":"; I "Sized"]].
  Definition peq_path : toks := [P "::"; I "core"; P "::"; I "cmp"; P "::"; I "PartialEq"].
  Definition clone_path : toks := [P "::"; I "core"; P "::"; I "clone"; P "::"; I "Clone"].

  (** the macro runs: Debug, Clone, PartialEq, Hash, Default, `new` — six impls *)
  Example runs : expand all_traits d = Ok items /\ List.length items = 6.
  Proof. split; vm_compute; reflexivity. Qed.

  (** the modes read from the four spellings *)
  Example modes :
    type_mode TPartialEq all_traits traits d (MList (mp "PartialEq") Paren m_peq) = Ok BAll /\
    type_mode THash all_traits traits d (MList (mp "Hash") Paren m_hash) = Ok BDisabled /\
    type_mode TDebug all_traits traits d (MList (mp "Debug") Paren m_dbg) = Ok (BCustom dbg_preds) /\
    type_mode TClone all_traits traits d (MPath (mp "Clone")) = Ok BAuto /\
    type_mode TDefault all_traits traits d (MList (mp "Default") Paren m_default)
    = Ok (BCustom [[I "T"; P ":"; I "Default"]]).
  Proof. repeat split; vm_compute; reflexivity. Qed.

  (** the hypotheses of [C12_spelling]'s list form hold for the Debug predicates *)
  Example preds_in_domain : Forall one_pred dbg_preds /\ dbg_preds <> [].
  Proof. split; [repeat constructor|discriminate]. Qed.

  (** the where-clauses of the six items: user predicate first, then per mode
      (custom / automatic / all: T and U but neither 'a nor N / nothing / custom twice) *)
  Example where_clauses :
    map (fun it => g_where (i_generics it)) items
    = [ user ++ dbg_preds;
        user ++ [[P "&"; TLife "a"; I "T"; P ":"] ++ clone_path; [I "U"; P ":"] ++ clone_path;
                 [G Bracket [I "u8"; P ";"; I "N"]; P ":"] ++ clone_path];
        user ++ [[I "T"; P ":"] ++ peq_path; [I "U"; P ":"] ++ peq_path];
        user;
        user ++ [[I "T"; P ":"; I "Default"]];
        user ++ [[I "T"; P ":"; I "Default"]] ].
  Proof. vm_compute. reflexivity. Qed.

  (** the printed header of the Debug impl: defaults gone, bounds verbatim, where-clause extended *)
  Example printed_header :
    option_map (fun it => flat (spec_header d (i_trait it) dbg_preds)) (hd_error items)
    = Some ["impl"; "<"; "'"; "a"; ","; "T"; ":"; "'"; "a"; "+"; "Clone"; ","; "U"; ",";
            "const"; "N"; ":"; "usize"; ">";
            ":"; ":"; "core"; ":"; ":"; "fmt"; ":"; ":"; "Debug"; "for";
            "S"; "<"; "'"; "a"; ","; "T"; ","; "U"; ","; "N"; ">";
            "where"; "U"; ":"; "Sized"; ",";
            "T"; ":"; ":"; ":"; "core"; ":"; ":"; "fmt"; ":"; ":"; "Debug"; ","; "U"; ":"; "Copy"] /\
    option_map (fun it => flat (firstn 47 (item_toks it))) (hd_error items)
    = option_map (fun it => flat (firstn 47 (spec_header d (i_trait it) dbg_preds))) (hd_error items).
  Proof. split; vm_compute; reflexivity. Qed.

  (** the Hash impl keeps the user's trailing comma (nothing was pushed) *)
  Example disabled_keeps_generics :
    option_map i_generics (nth_error items 3) = Some gen.
  Proof. vm_compute. reflexivity. Qed.

  (** a Debug helper impl: a field with a method under `bound(..)` — the helper repeats the
      ORIGINAL where-clause `where U: Sized,` only *)
  Definition d2 : dinput :=
    {| d_attrs := []; d_name := "S"; d_generics := gen;
       d_data := DStruct (FNamed [fld "a" [P "&"; TLife "a"; I "T"]
                                      [[I "Debug"; G Paren [I "method"; G Paren [I "fmt_a"]]]];
                                  fld "b" [I "U"] []; fld "c" [I "u8"] []]) |}.
  Example helper_where :
    match expand_debug all_traits [TDebug] d2 (MList (mp "Debug") Paren m_dbg) with
    | Ok [it] => map (fun h => flat (hi_where h)) (item_helpers it) = [["where"; "U"; ":"; "Sized"; ","]]
                 /\ g_where (i_generics it) = user ++ dbg_preds
    | _ => False
    end.
  Proof. vm_compute. split; reflexivity. Qed.
End Example.
