(** * C10 — Into returns the designated field for every requested target type

    Statements only; each is closed by [exact] of a lemma proved in
    Proofs/P_C10*.v and followed by [Print Assumptions].

    Reading guide.  [expand_into F traits d ms] is the model of
    src/trait_handlers/into (tied to /repo by K1); [ms] are the type-level
    `Into(..)` metas.  [into_cfg F traits d ms] is the request as read from the
    attributes by the model's analysis: the targets in the order they are
    written (each with its bound), and per variant every field with its key,
    declared type and `Into(T[, method])` marks.  Types are compared the way
    the macro's [HashType] compares them: as token sequences ([flat_eqb]),
    reference types normalised by [hash_type] to `&'static T`.
    [run_into I conv T it x st] runs the `into` method of the emitted impl
    [it] with `self` bound to the VALUE [x] (into consumes self), [st] being
    the heap the references held by [x] point to; it returns the result and the
    trace of user-function calls.  The body's `::core::convert::Into::into`
    is resolved by rustc from the method's return type T, hence the impl for T
    runs with [i_into := conv T], [conv : toks -> value -> value] being an
    ARBITRARY family of conversions `<_ as Into<T>>::into`; [i_user] gives
    arbitrary behaviour to the user's `method` functions.
    [spec_into I conv st c T x] is the meaning written from the property
    statement: the field designated for T in the variant [x] is in
    ([spec_into_select]: the sole field, else the field marked `Into(T)`, else
    the unique field whose declared type is T — for a sole field the first two
    coincide), passed through the method registered on it for T, returned
    unchanged when its declared type is T, otherwise [conv T]. *)
From Educe.Proofs Require Import P_C10b.

(** For every struct and enum, every set of targets, every placement of marks,
    every value of the declared shape, every heap, every behaviour of methods
    and conversions: the emitted items are, in order, one `impl Into<T>` per
    requested target, each with exactly the member `fn into(self) -> T`, and
    running it equals the spec (result and trace; [None] on both sides only
    when a method is handed a dangling reference). *)
Theorem C10_into :
  forall (I : interp) (conv : toks -> value -> value) (st : store) F traits d ms items targets c,
    data_wf (d_data d) ->
    expand_into F traits d ms = Ok items ->
    into_cfg F traits d ms = Ok (targets, c) ->
    into_build_type true ms = Ok targets /\
    Forall2 (fun t it =>
               impl_of d (fst t) it /\
               forall x, ivalue_ok c x ->
                         run_into I conv (fst t) it x st = spec_into I conv st c (fst t) x)
            targets items.
Proof. exact (fun I conv st F traits => into_correct F traits I conv st). Qed.
Print Assumptions C10_into.

(** The hypothesis "[into_cfg] = Ok" excludes no input. *)
Theorem C10_cfg_total :
  forall F traits d ms items,
    expand_into F traits d ms = Ok items -> exists tc, into_cfg F traits d ms = Ok tc.
Proof. exact into_cfg_total. Qed.
Print Assumptions C10_cfg_total.

(** "For each Into(T) requested on the type, and for no other T": the items
    are exactly one impl per written target ([written]: the i-th target is the
    normalised type parsed from the i-th `Into(..)` meta), in that order, the
    targets pairwise different as token sequences, every item an
    `impl ::core::convert::Into<T> for Name` whose only member is `into`. *)
Theorem C10_impl_set :
  forall F traits d ms items,
    expand_into F traits d ms = Ok items ->
    exists targets,
      into_build_type true ms = Ok targets /\
      Forall2 written ms targets /\ ty_distinct targets /\
      Forall2 (fun t it => impl_of d (fst t) it) targets items.
Proof. exact impl_set. Qed.
Print Assumptions C10_impl_set.

(** Selection.  [fs] are the analysed fields of a struct / variant (field,
    marks), [ifs fs] the same as the request lists them.  (a) the analysis
    returns exactly what the rule says — the same field (index, field, it is
    the i-th, with the method registered on it for T) or the same error;
    (b) two marked ⇒ Err; (c) none determinable ⇒ Err; (d) a field-level
    target not requested at type level ⇒ Err, and (e) in a successful
    expansion every mark is a requested target; (f) unit variant ⇒ Err;
    (g) an enum without variants ⇒ Err. *)
Theorem C10_selection :
  (forall T fs,
     match into_select T fs with
     | Ok (i, f, m) =>
         exists fa, nth_error fs i = Some (f, fa) /\
                    spec_into_select T (ifs fs) = Ok (mk_ifield i f fa) /\
                    m = into_method T (mk_ifield i f fa)
     | Err e => spec_into_select T (ifs fs) = Err e
     | _ => False
     end) /\
  (forall T fs, List.length fs <> 1 -> 2 <= List.length (filter (marked T) (ifs fs)) ->
                into_select T fs = Err E_into_multi) /\
  (forall T fs, List.length fs <> 1 -> filter (marked T) (ifs fs) = [] ->
                List.length (filter (same_type T) (ifs fs)) <> 1 ->
                into_select T fs = Err E_into_no_field) /\
  (forall F traits targets f ms fa,
     into_collect F traits (f_attrs f) = Ok ms ->
     foldM into_field_meta [] ms = Ok fa ->
     (exists k m, In (k, m) fa /\ ty_mem k targets = false) ->
     into_field_attr F traits targets f = Err E_into_no_impl) /\
  (forall F traits d ms items targets c,
     expand_into F traits d ms = Ok items ->
     into_cfg F traits d ms = Ok (targets, c) ->
     forall vn l f k m, In (vn, l) c -> In f l -> In (k, m) (if_marks f) -> ty_mem k targets = true) /\
  (forall T v fl, v_fields v = FUnit -> into_variant_choice T (v, fl) = Err E_no_unit_variant) /\
  (forall t, into_enum_target [] t = Err E_into_no_field).
Proof.
  split; [exact into_select_spec|].
  split; [exact select_two_marked|].
  split; [exact select_none_determinable|].
  split; [exact into_field_attr_no_impl|].
  split; [exact marks_requested|].
  split; [exact variant_choice_unit|exact enum_target_empty].
Qed.
Print Assumptions C10_selection.

(** Non-vacuity: three targets on an enum with a four-field tuple variant
    (two same-typed decoys, a mark with a method registered for ANOTHER target
    than the plain mark next to it, a unique same-typed field), a named
    variant (same-typed fields returned unchanged, a marked field converted)
    and a single-field variant (converted for every target).  Every
    hypothesis holds and both sides compute. *)
Module Example.
  Definition educe (ts : toks) : attr := {| a_path := ["educe"]; a_meta := AMList Paren ts |}.
  Definition fld (n : option string) (ts ty : toks) : field :=
    {| f_attrs := [educe ts]; f_name := n; f_ty := ty |}.
  Definition fld0 (n : option string) (ty : toks) : field := {| f_attrs := []; f_name := n; f_ty := ty |}.
  Definition u8 : toks := [I "u8"].
  Definition u16 : toks := [I "u16"].
  Definition u32 : toks := [I "u32"].
  Definition u64 : toks := [I "u64"].
  Definition into_m (inner : toks) : meta :=
    MList {| mp_lead := false; mp_segs := ["Into"] |} Paren inner.
  Definition ms : list meta := [into_m u8; into_m u16; into_m u32].
  Definition d : dinput :=
    {| d_attrs := [educe [I "Into"; G Paren u8; P ","; I "Into"; G Paren u16; P ","; I "Into"; G Paren u32]];
       d_name := "E";
       d_generics := {| g_params := []; g_trailing := false; g_where := []; g_where_trailing := false |};
       d_data := DEnum
         [ {| v_attrs := []; v_name := "T"; v_discr := None;
              v_fields := FUnnamed
                [fld0 None u8;
                 fld None [I "Into"; G Paren [I "u16"; P ","; I "method"; G Paren [I "m16"]]] u8;
                 fld0 None u32;
                 fld None [I "Into"; G Paren u8] u8] |};
           {| v_attrs := []; v_name := "N"; v_discr := None;
              v_fields := FNamed [fld0 (Some "x") u8; fld0 (Some "y") u16;
                                  fld (Some "z") [I "Into"; G Paren u32] u64] |};
           {| v_attrs := []; v_name := "S"; v_discr := None; v_fields := FUnnamed [fld0 None u64] |} ] |}.
  (** user method m16(a) = a + 1000; conversion of atom a to u8 / u16 / u32 = a + 100 / 200 / 300 *)
  Definition I0 : interp :=
    {| i_ne := fun _ _ => false; i_eq := fun _ _ => true; i_cmp := fun _ _ => Eq;
       i_partial_cmp := fun _ _ => None;
       i_user := fun _ args => match args with [VAtom a] => VAtom (a + 1000) | _ => VUnit end;
       i_into := fun v => v;
       i_size_of_self := 0;
       i_clone := fun v => v;
       i_clone_from := fun _ v => v;
       i_default := fun _ => VUnit |}.
  Definition conv0 (T : toks) (v : value) : value :=
    match v with
    | VAtom a => VAtom (a + (if flat_eqb T u8 then 100 else if flat_eqb T u16 then 200 else 300))
    | _ => VUnit
    end.
  Definition items := match expand_into all_traits [TInto] d ms with Ok l => l | _ => [] end.
  Definition tc := match into_cfg all_traits [TInto] d ms with Ok x => x | _ => ([], []) end.
  Definition tup : value := VData (Some "T") [("0", VAtom 1); ("1", VAtom 2); ("2", VAtom 3); ("3", VAtom 4)].
  Definition named : value := VData (Some "N") [("x", VAtom 5); ("y", VAtom 6); ("z", VAtom 7)].
  Definition single : value := VData (Some "S") [("0", VAtom 8)].

  Example hypotheses_hold :
    expand_into all_traits [TInto] d ms = Ok items /\
    into_cfg all_traits [TInto] d ms = Ok tc /\
    map fst (fst tc) = [u8; u16; u32] /\ List.length items = 3 /\
    data_wf (d_data d) /\
    ivalue_ok (snd tc) tup /\ ivalue_ok (snd tc) named /\ ivalue_ok (snd tc) single.
  Proof.
    repeat split; try (vm_compute; reflexivity); try (eexists; split; vm_compute; reflexivity).
    intros v [H|[H|[H|[]]]]; subst v; cbn [v_fields fields_wf].
    - intros f [H|[H|[H|[H|[]]]]]; subst f; reflexivity.
    - split.
      + intros f [H|[H|[H|[]]]]; subst f; discriminate.
      + vm_compute. repeat constructor; cbn; intuition discriminate.
    - intros f [H|[]]; subst f; reflexivity.
  Qed.

  Definition run (T : toks) (n : nat) (x : value) : option (option (value * list event)) :=
    option_map (fun it => run_into I0 conv0 T it x []) (nth_error items n).
  Definition spec (T : toks) (x : value) := spec_into I0 conv0 [] (snd tc) T x.
  Definition m16 : toks := [I "m16"].

  (** T: u8 -> the marked field 3, unchanged (not the same-typed decoys 0, 1);
         u16 -> field 1 through m16 (2 + 1000); u32 -> the unique u32 field 2, unchanged.
      N: u8 -> x, u16 -> y unchanged; u32 -> the marked z converted (7 + 300).
      S: the sole field converted for every target. *)
  Example computes :
    run u8 0 tup = Some (Some (VAtom 4, [])) /\ spec u8 tup = Some (VAtom 4, []) /\
    run u16 1 tup = Some (Some (VAtom 1002, [EvUser m16 [VAtom 2]])) /\
    spec u16 tup = Some (VAtom 1002, [EvUser m16 [VAtom 2]]) /\
    run u32 2 tup = Some (Some (VAtom 3, [])) /\ spec u32 tup = Some (VAtom 3, []) /\
    run u8 0 named = Some (Some (VAtom 5, [])) /\ spec u8 named = Some (VAtom 5, []) /\
    run u16 1 named = Some (Some (VAtom 6, [])) /\ spec u16 named = Some (VAtom 6, []) /\
    run u32 2 named = Some (Some (VAtom 307, [])) /\ spec u32 named = Some (VAtom 307, []) /\
    run u8 0 single = Some (Some (VAtom 108, [])) /\ spec u8 single = Some (VAtom 108, []) /\
    run u16 1 single = Some (Some (VAtom 208, [])) /\ spec u16 single = Some (VAtom 208, []) /\
    run u32 2 single = Some (Some (VAtom 308, [])) /\ spec u32 single = Some (VAtom 308, []).
  Proof. repeat split; vm_compute; reflexivity. Qed.
End Example.
