(** * C15 — each trait's impl depends only on that trait's own attributes

    [restrict keep d] is the input [d] in which, in every `#[educe(...)]` list attribute — on the
    type, on every variant, on every field — every comma-separated meta whose path is the name of
    a trait outside [keep] has been deleted, at the token level (the chunk goes together with the
    comma that follows it; an attribute left without tokens is dropped; non-list `#[educe]`
    attributes and other attributes are kept as they are).

    Theorems (for EVERY input, feature set and partner-closed set [keep] — in particular
    [keep_for t] = {t, its coupled partner}):
      - the restricted tokens parse to exactly the kept metas, each parsed as before;
      - the generic scanners return on the restricted attributes what they returned on the
        original ones, with any trait list that agrees on the kept traits;
      - each of the twelve handlers, given the restricted input and such a trait list, returns the
        items it returned on the original input;
      - the whole expansion of the restricted input consists of exactly the items the original
        expansion produced for the kept traits (same items, same order), the other handlers
        contributing nothing;
      - hence two inputs that differ only in other traits' metas (added, removed, reordered,
        re-configured — anything that leaves [restrict keep] unchanged) get the same items
        for the kept traits.
    The statements are one-directional (original succeeds => restricted succeeds with the same
    items): the restricted input has fewer attributes that could be refused.

    The handler reads other traits' metas only to validate them ([scan_meta]: known trait, trait
    educed on the type) and reads [traits] only for the three documented couplings
    (Copy-Clone, Eq-PartialEq, Ord-PartialOrd): that is what [partner_closed keep] pays for.

    Statements only; proofs in Proofs/P_C15.v (tokens, scanners), P_C15b.v (handlers),
    P_C15c.v (driver). *)
From Coq Require Import List String Bool.
From Educe.Proofs Require Import P_C15 P_C15b P_C15c.
Import ListNotations.

(** ** the definitions, unfolded *)
Theorem C15_restrict_def :
  (forall keep c, chunk_kept keep c =
     match parse_mpath c with
     | Some (p, _) => match get_ident p with
                      | Some s => match trait_of_name s with Some t => keep t | None => true end
                      | None => true
                      end
     | None => true
     end) /\
  (forall keep ts, restrict_toks keep ts = join_commas (restrict_cs keep (split_commas ts))) /\
  (forall keep c, restrict_cs keep [c] = [if chunk_kept keep c then c else []]) /\
  (forall keep c c2 r, restrict_cs keep (c :: c2 :: r) =
     if chunk_kept keep c then c :: restrict_cs keep (c2 :: r) else restrict_cs keep (c2 :: r)) /\
  (forall c c2 r, join_commas (c :: c2 :: r) = c ++ P "," :: join_commas (c2 :: r)) /\
  (forall c, join_commas [c] = c) /\
  (forall keep a, restrict_attr keep a =
     if is_educe a then
       match a_meta a with
       | AMList dl ts => let ts' := restrict_toks keep ts in
                         if is_nil ts' then [] else [{| a_path := a_path a; a_meta := AMList dl ts' |}]
       | _ => [a]
       end
     else [a]) /\
  (forall keep attrs, restrict_attrs keep attrs = flat_map (restrict_attr keep) attrs) /\
  (forall keep d, restrict keep d =
     {| d_attrs := restrict_attrs keep (d_attrs d); d_name := d_name d; d_generics := d_generics d;
        d_data := map_data (restrict_attrs keep) (d_data d) |}) /\
  (forall r f, map_field r f = {| f_attrs := r (f_attrs f); f_name := f_name f; f_ty := f_ty f |}) /\
  (forall r v, map_variant r v = {| v_attrs := r (v_attrs v); v_name := v_name v;
                                    v_fields := map_fields r (v_fields v); v_discr := v_discr v |}) /\
  (forall t, partner t = match t with
                         | TCopy => Some TClone | TClone => Some TCopy
                         | TEq => Some TPartialEq | TPartialEq => Some TEq
                         | TOrd => Some TPartialOrd | TPartialOrd => Some TOrd
                         | _ => None
                         end) /\
  (forall t t', keep_for t t' =
     (trait_eqb t' t || match partner t with Some p => trait_eqb t' p | None => false end)) /\
  (forall keep, partner_closed keep <-> forall t p, keep t = true -> partner t = Some p -> keep p = true) /\
  (forall t, partner_closed (keep_for t) /\ keep_for t t = true).
Proof.
  repeat split; try reflexivity; try (intros H; exact H).
  - intros keep c. unfold chunk_kept, chunk_trait. destruct (parse_mpath c) as [[p r]|]; [|reflexivity].
    destruct (get_ident p); reflexivity.
  - apply keep_for_closed.
  - apply keep_for_self.
Qed.

(** ** tokens *)
Theorem C15_parse_restricted :
  forall keep ts ms,
    parse_metas ts = Ok ms ->
    parse_metas (restrict_toks keep ts) = Ok (filter (meta_kept keep) ms).
Proof. exact parse_metas_restrict. Qed.
Print Assumptions C15_parse_restricted.

(** ** the generic scanners *)
Theorem C15_scan_restrict :
  forall (F : features) (keep : trait -> bool) (traits traits' : list trait),
    (forall t, keep t = true -> has_trait t traits = true -> has_trait t traits' = true) ->
    (forall A (own own' : trait -> bool) (build : meta -> outcome A) attrs r,
        (forall t, own t = true -> keep t = true) ->
        (forall t, keep t = true -> own' t = own t) ->
        scan_attrs F own build traits attrs = Ok r ->
        scan_attrs F own' build traits' (restrict_attrs keep attrs) = Ok r)
    /\ (forall attrs r, keep TInto = true ->
        into_collect F traits attrs = Ok r ->
        into_collect F traits' (restrict_attrs keep attrs) = Ok r)
    /\ (forall attrs tm,
        foldM (collect_attr F) [] attrs = Ok tm ->
        foldM (collect_attr F) [] (restrict_attrs keep attrs)
        = Ok (filter (fun kv => keep (fst kv)) tm)).
Proof.
  intros F keep tr tr' Htr. split; [|split].
  - intros A own own' build attrs r. exact (scan_restrict F keep tr tr' Htr own own' build attrs r).
  - intros attrs r. exact (into_collect_restrict F keep tr tr' Htr attrs r).
  - intros attrs tm. exact (collect_restrict F keep attrs tm).
Qed.
Print Assumptions C15_scan_restrict.

(** ** handler by handler *)
Theorem C15_handlers :
  forall (F : features) (keep : trait -> bool) (traits traits' : list trait) (d : dinput),
    partner_closed keep ->
    (forall t, keep t = true -> has_trait t traits' = has_trait t traits) ->
    (forall t h, In (t, h) handlers -> keep t = true ->
       forall m its, h F traits d m = Ok its -> h F traits' (restrict keep d) m = Ok its)
    /\ (keep TInto = true ->
        forall ms its, expand_into F traits d ms = Ok its ->
                       expand_into F traits' (restrict keep d) ms = Ok its).
Proof.
  intros F keep tr tr' d Hc Htr. split.
  - intros t h Hin Hk.
    exact (proj1 (Forall_forall _ _) (handlers_restrict F keep tr tr' Htr Hc d) (t, h) Hin Hk).
  - intros Hk ms its. exact (expand_into_r F keep tr tr' Htr Hk d ms its).
Qed.
Print Assumptions C15_handlers.

(** ** the whole expansion *)

(** [expand_parts] is [expand] with each handler's items tagged by its trait *)
Theorem C15_expand_parts_spec :
  forall F d,
    expand F d = (let* ps := expand_parts F d in
                  if is_nil (parts_items ps) then Err E_not_set_up else Ok (parts_items ps))
    /\ expand_parts F d =
       (let* tm := foldM (collect_attr F) [] (d_attrs d) in
        let traits := map fst tm in
        let* ps := mapM (handler_part F traits d tm) handlers in
        let* l := (match tmap_get TInto tm with
                   | Some ms => if has_trait TInto F then expand_into F traits d ms else Ok []
                   | None => Ok []
                   end) in
        Ok (ps ++ [(TInto, l)])).
Proof. intros F d. split; [exact (expand_parts_spec F d)|reflexivity]. Qed.

Theorem C15_restrict :
  forall (F : features) (keep : trait -> bool) (d : dinput) (ps : list (trait * list item)),
    partner_closed keep ->
    expand_parts F d = Ok ps ->
    expand_parts F (restrict keep d)
    = Ok (map (fun p => (fst p, if keep (fst p) then snd p else [])) ps).
Proof. exact expand_parts_restrict. Qed.
Print Assumptions C15_restrict.

Theorem C15_restrict_expand :
  forall (F : features) (keep : trait -> bool) (d : dinput) (items : list item),
    partner_closed keep ->
    expand F d = Ok items ->
    exists ps, expand_parts F d = Ok ps /\ items = parts_items ps /\
      expand F (restrict keep d)
      = (if is_nil (parts_items (map (keep_part keep) ps)) then Err E_not_set_up
         else Ok (parts_items (map (keep_part keep) ps))).
Proof. exact expand_restrict. Qed.
Print Assumptions C15_restrict_expand.

(** the property as stated: whatever is done to the OTHER traits' metas, the items of the kept
    traits (t and its partner) do not change *)
Theorem C15_own_attributes_only :
  forall (F : features) (keep : trait -> bool) (d1 d2 : dinput) ps1 ps2,
    partner_closed keep ->
    restrict keep d1 = restrict keep d2 ->
    expand_parts F d1 = Ok ps1 -> expand_parts F d2 = Ok ps2 ->
    map (keep_part keep) ps1 = map (keep_part keep) ps2.
Proof.
  intros F keep d1 d2 ps1 ps2 Hc Hr H1 H2.
  apply (expand_parts_restrict F keep d1 ps1 Hc) in H1.
  apply (expand_parts_restrict F keep d2 ps2 Hc) in H2.
  rewrite Hr in H1. rewrite H1 in H2. injection H2 as H2. exact H2.
Qed.
Print Assumptions C15_own_attributes_only.

Module Example.
  Definition educe (ts : toks) : attr := {| a_path := ["educe"]; a_meta := AMList Paren ts |}.
  Definition fld (n : option string) (ts ty : toks) : field :=
    {| f_attrs := [educe ts]; f_name := n; f_ty := ty |}.
  Definition fld0 (n : option string) (ty : toks) : field := {| f_attrs := []; f_name := n; f_ty := ty |}.
  Definition u8 : toks := [I "u8"].
  Definition gT : generics :=
    {| g_params := [GType "T" [] None]; g_trailing := false; g_where := []; g_where_trailing := false |}.

  (** Debug, Clone, PartialEq, Eq, Hash on one enum; Hash(ignore) and PartialEq(ignore) on
      different fields (the cross-talk the property is about), an `Eq(..)` meta addressed to
      the PartialEq scanner, a Debug rename, a Clone method *)
  Definition d1 : dinput :=
    {| d_attrs := [educe [I "Debug"; P ","; I "Clone"]; educe [I "PartialEq"; P ","; I "Eq"; P ","; I "Hash"]];
       d_name := "E"; d_generics := gT;
       d_data := DEnum
         [ {| v_attrs := [educe [I "Debug"; G Paren [I "name"; P "="; I "AA"]]]; v_name := "A";
              v_discr := None;
              v_fields := FNamed
                [fld (Some "x") [I "Hash"; G Paren [I "ignore"]; P ",";
                                 I "Debug"; G Paren [I "name"; P "="; I "xx"]] [I "T"];
                 fld (Some "y") [I "Debug"; G Paren [I "ignore"]; P ",";
                                 I "PartialEq"; G Paren [I "ignore"]] u8;
                 fld0 (Some "z") u8] |};
           {| v_attrs := []; v_name := "B"; v_discr := None;
              v_fields := FUnnamed [fld None [I "Clone"; G Paren [I "method"; G Paren [I "f"]]] u8;
                                    fld None [I "Eq"; G Paren [I "method"; G Paren [I "g"]]] [I "T"]] |} ] |}.

  Definition keep := keep_for TPartialEq.
  Example keep_val : map keep all_traits
    = [false; false; false; true; true; false; false; false; false; false; false; false].
  Proof. reflexivity. Qed.

  (** the restricted input: only the PartialEq / Eq metas are left; emptied attributes are gone *)
  Example restricted :
    restrict keep d1 =
    {| d_attrs := [educe [I "PartialEq"; P ","; I "Eq"; P ","]];
       d_name := "E"; d_generics := gT;
       d_data := DEnum
         [ {| v_attrs := []; v_name := "A"; v_discr := None;
              v_fields := FNamed
                [fld0 (Some "x") [I "T"];
                 fld (Some "y") [I "PartialEq"; G Paren [I "ignore"]] u8;
                 fld0 (Some "z") u8] |};
           {| v_attrs := []; v_name := "B"; v_discr := None;
              v_fields := FUnnamed [fld0 None u8;
                                    fld None [I "Eq"; G Paren [I "method"; G Paren [I "g"]]] [I "T"]] |} ] |}.
  Proof. vm_compute. reflexivity. Qed.

  Example both_compute :
    exists ps, expand_parts all_traits d1 = Ok ps
      /\ expand_parts all_traits (restrict keep d1) = Ok (map (keep_part keep) ps)
      /\ map (fun p => (fst p, List.length (snd p))) ps
         = [(TDebug, 1); (TClone, 1); (TCopy, 0); (TPartialEq, 2); (TEq, 0); (TPartialOrd, 0);
            (TOrd, 0); (THash, 1); (TDefault, 0); (TDeref, 0); (TDerefMut, 0); (TInto, 0)]
      /\ map (fun p => (fst p, List.length (snd p))) (map (keep_part keep) ps)
         = [(TDebug, 0); (TClone, 0); (TCopy, 0); (TPartialEq, 2); (TEq, 0); (TPartialOrd, 0);
            (TOrd, 0); (THash, 0); (TDefault, 0); (TDeref, 0); (TDerefMut, 0); (TInto, 0)].
  Proof.
    eexists. split; [vm_compute; reflexivity|].
    split; [vm_compute; reflexivity|]. split; vm_compute; reflexivity.
  Qed.

  (** another input: Hash re-configured, Debug removed, Clone moved, Default added — same
      PartialEq / Eq attributes; the theorem applies and the PartialEq + Eq items coincide *)
  Definition d2 : dinput :=
    {| d_attrs := [educe [I "Default"; P ","; I "PartialEq"; P ","; I "Eq"; P ","; I "Hash"; P ","; I "Clone"]];
       d_name := "E"; d_generics := gT;
       d_data := DEnum
         [ {| v_attrs := [educe [I "Default"]]; v_name := "A"; v_discr := None;
              v_fields := FNamed
                [fld0 (Some "x") [I "T"];
                 fld (Some "y") [I "Hash"; G Paren [I "method"; G Paren [I "h"]]; P ",";
                                 I "PartialEq"; G Paren [I "ignore"]] u8;
                 fld (Some "z") [I "Default"; P "="; TLit (LKInt 7 "") "7"] u8] |};
           {| v_attrs := []; v_name := "B"; v_discr := None;
              v_fields := FUnnamed [fld0 None u8;
                                    fld None [I "Eq"; G Paren [I "method"; G Paren [I "g"]]] [I "T"]] |} ] |}.
  Example same_restriction : restrict keep d1 = restrict keep d2.
  Proof. vm_compute. reflexivity. Qed.
  Example d2_computes : exists ps2, expand_parts all_traits d2 = Ok ps2.
  Proof. eexists. vm_compute. reflexivity. Qed.
  Example same_peq_items :
    forall ps1 ps2, expand_parts all_traits d1 = Ok ps1 -> expand_parts all_traits d2 = Ok ps2 ->
                    map (keep_part keep) ps1 = map (keep_part keep) ps2.
  Proof.
    intros ps1 ps2. apply (C15_own_attributes_only all_traits keep d1 d2);
      [apply keep_for_closed|exact same_restriction].
  Qed.
End Example.
