(** * C05 — Hash input is a function of the variant and the non-ignored fields only

    Statements only; each is closed by [exact] of a lemma proved in
    Proofs/P_C05*.v and followed by [Print Assumptions].

    Reading guide.  [expand_hash F traits d m] is the model of
    src/trait_handlers/hash (tied to /repo by K1).  [run_hash I it v h] runs the
    `hash` method of the emitted impl [it] on the value [v] with the caller's
    hasher [h] (an opaque value) in the semantics of Sem/Interp.v and returns
    the trace: the sequence of feeds, [EvHashUsize n] = `<usize as Hash>::hash(&n, state)`,
    [EvHash x] = the field type's own `Hash::hash(&x, state)`, [EvUser path [x; h]] =
    the user's `method = path` applied to (&x, state).  A hasher sees nothing
    but this sequence ("recording hasher"), so statements about the trace hold
    for every hasher.  [hash_cfg] is the request as read from the attributes
    (per variant: keyed fields with ignore flag and optional method);
    [spec_hash_trace] (Spec/SpecHash.v) is the meaning written from the
    property statement: for an enum first the variant's index, then one feed
    per non-ignored field in declaration order.  [obs] is any observation of
    events (identity, the bytes a hasher receives, ...). *)
From Educe.Proofs Require Import P_C05b.

(** The emitted `hash` feeds exactly the specified sequence (struct and enum,
    any number of fields / variants, named / tuple / unit). *)
Theorem C05_hash_trace :
  forall (I : interp) F traits d m items c v h,
    data_wf (d_data d) ->
    expand_hash F traits d m = Ok items ->
    hash_cfg F traits d = Ok c ->
    keys_ok c v = true ->
    exists it, items = [it] /\ run_hash I it v h = spec_hash_trace c h v.
Proof. exact hash_trace. Qed.
Print Assumptions C05_hash_trace.

(** Values agreeing on the variant and on the non-ignored fields feed identical data. *)
Theorem C05_determined :
  forall (I : interp) F traits d m items c h va xs xs' l,
    data_wf (d_data d) ->
    expand_hash F traits d m = Ok items ->
    hash_cfg F traits d = Ok c ->
    vcfg_get va c = Some l -> map fst l = map fst xs -> map fst l = map fst xs' ->
    agree_on l xs xs' ->
    exists it t, items = [it] /\ run_hash I it (VData va xs) h = Some t /\
                 run_hash I it (VData va xs') h = Some t.
Proof. exact run_hash_determined. Qed.
Print Assumptions C05_determined.

(** Values differing in the variant, or (same variant) in a non-ignored field
    whose own feed differs, feed different data. *)
Theorem C05_distinguishes :
  forall X (obs : event -> X) (I : interp) F traits d m items c h a b,
    data_wf (d_data d) ->
    expand_hash F traits d m = Ok items ->
    hash_cfg F traits d = Ok c ->
    keys_ok c a = true -> keys_ok c b = true ->
    exists it ta tb, items = [it] /\ run_hash I it a h = Some ta /\ run_hash I it b h = Some tb /\
      (forall na xs nb ys, a = VData (Some na) xs -> b = VData (Some nb) ys -> na <> nb ->
         (forall i j, obs (EvHashUsize i) = obs (EvHashUsize j) -> i = j) ->
         map obs ta <> map obs tb) /\
      (forall va xs ys l k fa x y, a = VData va xs -> b = VData va ys ->
         vcfg_get va c = Some l -> In (k, fa) l -> fa_ignore fa = false ->
         lookup k xs = Some x -> lookup k ys = Some y ->
         obs (field_event h fa x) <> obs (field_event h fa y) ->
         map obs ta <> map obs tb).
Proof. exact @run_hash_distinguishes. Qed.
Print Assumptions C05_distinguishes.

(** When PartialEq is educed with the same ignore choices and the per-field
    comparisons are coherent with the per-field feeds, `a == b` (through the
    emitted `eq`) implies equal feeds (through the emitted `hash`). *)
Theorem C05_eq_implies_hash :
  forall X (obs : event -> X) (I : interp) F traits d me mh items_e items_h ce ch a b h,
    data_wf (d_data d) ->
    expand_partial_eq F traits d me = Ok items_e ->
    expand_hash F traits d mh = Ok items_h ->
    peq_cfg F traits d = Ok ce -> hash_cfg F traits d = Ok ch ->
    methods_typed_cfg I ce ->
    value_ok ce a = true -> value_ok ce b = true ->
    same_choices ce ch -> cfg_coherent obs I h ce ch ->
    exists ie rest ih, items_e = ie :: rest /\ items_h = [ih] /\
      (run_eq I ie a b = Some true ->
       exists ta tb, run_hash I ih a h = Some ta /\ run_hash I ih b h = Some tb /\
                     map obs ta = map obs tb).
Proof. exact @run_eq_implies_hash. Qed.
Print Assumptions C05_eq_implies_hash.

(** The same implication on the specifications alone. *)
Theorem C05_eq_implies_hash_spec :
  forall X (obs : event -> X) (I : interp) h ce ch a b,
    same_choices ce ch -> cfg_coherent obs I h ce ch ->
    spec_eq I ce a b = Some true ->
    exists ta tb, spec_hash_trace ch h a = Some ta /\ spec_hash_trace ch h b = Some tb /\
                  map obs ta = map obs tb.
Proof. intros X obs I h. exact (eq_implies_hash h obs I). Qed.
Print Assumptions C05_eq_implies_hash_spec.

(** Non-vacuity: an enum with a tuple variant (plain field, ignored field,
    method field), a named variant (with a raw identifier) and a unit variant,
    PartialEq and Hash educed with the same choices. *)
Module Example.
  Definition educe (ts : toks) : attr := {| a_path := ["educe"]; a_meta := AMList Paren ts |}.
  Definition fld (n : option string) (ts : toks) : field :=
    {| f_attrs := [educe ts]; f_name := n; f_ty := [I "i8"] |}.
  Definition fld0 (n : option string) : field := {| f_attrs := []; f_name := n; f_ty := [I "i8"] |}.
  Definition d : dinput :=
    {| d_attrs := [educe [I "PartialEq"; P ","; I "Hash"]]; d_name := "E";
       d_generics := {| g_params := []; g_trailing := false; g_where := []; g_where_trailing := false |};
       d_data := DEnum
         [ {| v_attrs := []; v_name := "U"; v_discr := None; v_fields := FUnit |};
           {| v_attrs := []; v_name := "T"; v_discr := None;
              v_fields := FUnnamed
                [fld0 None;
                 fld None [I "PartialEq"; G Paren [I "ignore"]; P ","; I "Hash"; G Paren [I "ignore"]];
                 fld None [I "PartialEq"; G Paren [I "method"; G Paren [I "em"]]; P ",";
                           I "Hash"; G Paren [I "method"; G Paren [I "hm"]]]] |};
           {| v_attrs := []; v_name := "N"; v_discr := None;
              v_fields := FNamed [fld0 (Some "x");
                                  fld (Some "r#type") [I "Hash"; P "="; I "false"; P ",";
                                                       I "PartialEq"; P "="; I "false"]] |} ] |}.
  (** `em(a, b)` compares absolute values; the field type's `!=` is plain inequality *)
  Definition I0 : interp :=
    {| i_ne := fun x y => match x, y with VAtom a, VAtom b => negb (Z.eqb a b) | _, _ => true end;
       i_eq := fun x y => match x, y with VAtom a, VAtom b => Z.eqb a b | _, _ => false end;
       i_cmp := fun _ _ => Eq; i_partial_cmp := fun _ _ => None;
       i_user := fun _ args => match args with
                               | [VAtom a; VAtom b] => VBool (Z.eqb (Z.abs a) (Z.abs b))
                               | _ => VBool false
                               end;
       i_size_of_self := 0;
       i_clone := fun v => v;
       i_clone_from := fun _ v => v;
       i_into := fun v => v;
       i_default := fun _ => VUnit |}.
  (** what the hasher receives: `hm(x, state)` feeds |x| *)
  Definition obs (e : event) : event :=
    match e with
    | EvUser _ (VAtom a :: _) => EvHash (VAtom (Z.abs a))
    | e => e
    end.
  Definition h : value := VStr "the hasher".
  Definition tup (a b c : Z) : value := VData (Some "T") [("0", VAtom a); ("1", VAtom b); ("2", VAtom c)].
  Definition named (a b : Z) : value := VData (Some "N") [("x", VAtom a); ("r#type", VAtom b)].
  Definition tr := [TPartialEq; THash].
  Definition mh : meta := MPath {| mp_lead := false; mp_segs := ["Hash"] |}.
  Definition me : meta := MPath {| mp_lead := false; mp_segs := ["PartialEq"] |}.
  Definition items_h := match expand_hash all_traits tr d mh with Ok l => l | _ => [] end.
  Definition items_e := match expand_partial_eq all_traits tr d me with Ok l => l | _ => [] end.
  Definition ch := match hash_cfg all_traits tr d with Ok c => c | _ => [] end.
  Definition ce := match peq_cfg all_traits tr d with Ok c => c | _ => [] end.
  Definition hm : toks := [I "hm"].

  Lemma wf : data_wf (d_data d).
  Proof.
    cbn. intros v [<-|[<-|[<-|[]]]]; cbn; auto.
    - intros f [<-|[<-|[<-|[]]]]; reflexivity.
    - split.
      + intros f [<-|[<-|[]]]; discriminate.
      + repeat constructor; cbn; intuition discriminate.
  Qed.

  Example hypotheses_hold :
    expand_hash all_traits tr d mh = Ok items_h /\
    expand_partial_eq all_traits tr d me = Ok items_e /\
    hash_cfg all_traits tr d = Ok ch /\ peq_cfg all_traits tr d = Ok ce /\
    keys_ok ch (tup 1 2 3) = true /\ value_ok ce (tup 1 2 3) = true /\
    value_ok ce (tup 1 9 (-3)) = true /\ List.length items_h = 1.
  Proof. repeat split; vm_compute; reflexivity. Qed.

  (** index of `T` first, then field 0 by its own Hash, field 1 skipped, field 2 through `hm` *)
  Example computes :
    option_map (fun it => run_hash I0 it (tup 1 2 3) h) (hd_error items_h)
      = Some (Some [EvHashUsize 1; EvHash (VAtom 1); EvUser hm [VAtom 3; h]]) /\
    spec_hash_trace ch h (tup 1 2 3)
      = Some [EvHashUsize 1; EvHash (VAtom 1); EvUser hm [VAtom 3; h]] /\
    option_map (fun it => run_hash I0 it (named 7 8) h) (hd_error items_h)
      = Some (Some [EvHashUsize 2; EvHash (VAtom 7)]) /\
    option_map (fun it => run_hash I0 it (VData (Some "U") []) h) (hd_error items_h)
      = Some (Some [EvHashUsize 0]) /\
    (* a == b although field 1 differs (ignored) and field 2 differs in sign (method) ... *)
    option_map (fun it => run_eq I0 it (tup 1 2 3) (tup 1 9 (-3))) (hd_error items_e) = Some (Some true) /\
    (* ... and the observed feeds are equal *)
    option_map (map obs) (spec_hash_trace ch h (tup 1 2 3))
      = option_map (map obs) (spec_hash_trace ch h (tup 1 9 (-3))).
  Proof. repeat split; vm_compute; reflexivity. Qed.

  (** the hypotheses of [C05_eq_implies_hash] hold for this request *)
  Lemma ce_eq : ce = [(Some "U", []);
                      (Some "T", [("0", fattr_default);
                                  ("1", {| fa_ignore := true; fa_method := None |});
                                  ("2", {| fa_ignore := false; fa_method := Some [I "em"] |})]);
                      (Some "N", [("x", fattr_default);
                                  ("r#type", {| fa_ignore := true; fa_method := None |})])].
  Proof. vm_compute. reflexivity. Qed.
  Lemma ch_eq : ch = [(Some "U", []);
                      (Some "T", [("0", fattr_default);
                                  ("1", {| fa_ignore := true; fa_method := None |});
                                  ("2", {| fa_ignore := false; fa_method := Some hm |})]);
                      (Some "N", [("x", fattr_default);
                                  ("r#type", {| fa_ignore := true; fa_method := None |})])].
  Proof. vm_compute. reflexivity. Qed.

  Lemma choices : same_choices ce ch.
  Proof. rewrite ce_eq, ch_eq. repeat constructor. Qed.

  Lemma typed : methods_typed_cfg I0 ce.
  Proof.
    intros vn l Hin k fa m x y _ _. cbn.
    destruct x; try (eexists; reflexivity). destruct y; eexists; reflexivity.
  Qed.

  Lemma own_coherent x y : field_eq I0 fattr_default x y = true ->
                           obs (field_event h fattr_default x) = obs (field_event h fattr_default y).
  Proof.
    unfold field_eq. cbn. destruct x; try discriminate. destruct y; try discriminate.
    intros H. apply negb_true_iff, negb_false_iff, Z.eqb_eq in H. subst. reflexivity.
  Qed.
  Lemma method_coherent x y :
    field_eq I0 {| fa_ignore := false; fa_method := Some [I "em"] |} x y = true ->
    obs (field_event h {| fa_ignore := false; fa_method := Some hm |} x)
    = obs (field_event h {| fa_ignore := false; fa_method := Some hm |} y).
  Proof.
    unfold field_eq. cbn. destruct x; try discriminate. destruct y; try discriminate.
    cbn. intros H. apply Z.eqb_eq in H. rewrite H. reflexivity.
  Qed.

  Lemma coherent : cfg_coherent obs I0 h ce ch.
  Proof.
    rewrite ce_eq, ch_eq. intros vn le lh Hle Hlh. cbn [vcfg_get] in Hle, Hlh.
    destruct vn as [n|]; [|discriminate Hle].
    destruct (String.eqb n "U"); [inversion Hle; inversion Hlh; subst; constructor|].
    destruct (String.eqb n "T").
    { inversion Hle; inversion Hlh; subst. repeat constructor; cbn [snd fa_ignore]; intros Hig;
        try discriminate Hig; intros x y; [apply own_coherent|apply method_coherent]. }
    destruct (String.eqb n "N"); [|discriminate Hle].
    inversion Hle; inversion Hlh; subst. repeat constructor; cbn [snd fa_ignore]; intros Hig;
      try discriminate Hig. intros x y. apply own_coherent.
  Qed.

  (** so the theorem applies: *)
  Example eq_implies_hash_instance :
    exists ie rest ih, items_e = ie :: rest /\ items_h = [ih] /\
      (run_eq I0 ie (tup 1 2 3) (tup 1 9 (-3)) = Some true ->
       exists ta tb, run_hash I0 ih (tup 1 2 3) h = Some ta /\
                     run_hash I0 ih (tup 1 9 (-3)) h = Some tb /\ map obs ta = map obs tb).
  Proof.
    destruct hypotheses_hold as [H1 [H2 [H3 [H4 [_ [H6 [H7 _]]]]]]].
    exact (C05_eq_implies_hash event obs I0 all_traits tr d me mh items_e items_h ce ch
             (tup 1 2 3) (tup 1 9 (-3)) h wf H2 H1 H4 H3 typed H6 H7 choices coherent).
  Qed.
End Example.
