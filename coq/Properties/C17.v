(** * C17 — the macro is total: it never panics, aborts or hangs

    Three parts.
    1. TERMINATION.  [expand] is a Gallina function: it is total by construction (the kernel's
       guard checker accepted every fixpoint; no fuel is exhausted silently -- the few fuelled
       helpers return on every path).
    2. NO PANIC.  A panic of the real macro is the outcome [Panic site] of the model, with
       [site : panic_site].  K1 (the token-level correspondence, run on a stream of malformed
       attribute arguments) forces the model to answer [Panic] wherever the real macro panics.
       On the current tree [panic_site] has NO constructor, so no panic can be modelled at all:
       the theorem below is proved by case analysis on an empty type, for every input, every
       feature set.  (Before the repair of hash/panic.rs and partial_eq/panic.rs the type had a
       constructor and this theorem was false: `#[educe(Hash())]` on a union.)
    3. EVERY FAILURE IS A DIAGNOSTIC.  The only other non-Ok outcomes are [Err e] (a
       [syn::Error], which carries a span by construction) and [OutOfDomain] (the input lies
       outside the modelled token grammar -- counted by K1, 0 on the generated streams).

    The inventory of panic-capable sites of the source (unwrap / expect / unreachable! / panic! /
    assert! / indexing / insert_str / narrowing casts / loops), regenerated from /repo/src on every
    run, must be the reviewed one: a new `unwrap()` anywhere breaks [C17_inventory_matches]. *)
From Coq Require Import List String.
From Educe.Gen Require Sources.
From Educe.Model Require Inventory.
From Educe.Model Require Import Driver.

Theorem C17_no_panic :
  forall (F : features) (d : dinput) (s : panic_site), expand F d <> Panic s.
Proof. intros F d s. destruct s. Qed.
Print Assumptions C17_no_panic.

(** ... and the same for the flattened token output the correspondence check compares *)
Theorem C17_no_panic_flat :
  forall (F : features) (d : dinput) (s : panic_site), expand_flat F d <> Panic s.
Proof. intros F d s. destruct s. Qed.
Print Assumptions C17_no_panic_flat.

(** every outcome is: items, a diagnostic, or "outside the modelled grammar" *)
Theorem C17_outcomes :
  forall (F : features) (d : dinput),
    (exists its, expand F d = Ok its) \/ (exists e, expand F d = Err e) \/
    (exists w, expand F d = OutOfDomain w).
Proof.
  intros F d. destruct (expand F d) as [its|e|s|w]; eauto. destruct s.
Qed.
Print Assumptions C17_outcomes.

(** an empty output is never returned as success: it is the `not set up` diagnostic *)
Theorem C17_ok_nonempty :
  forall (F : features) (d : dinput) its, expand F d = Ok its -> its <> [].
Proof.
  intros F d its H. unfold expand in H.
  repeat match type of H with
         | bind ?m _ = Ok _ => destruct m; cbn [bind] in H; try discriminate H
         end.
  match type of H with
  | (if is_nil ?l then _ else _) = _ => destruct l; cbn [is_nil] in H; [discriminate H|]
  end.
  inversion H. discriminate.
Qed.
Print Assumptions C17_ok_nonempty.

Theorem C17_inventory_matches : Sources.panic_sites = Inventory.panic_sites.
Proof. vm_compute. reflexivity. Qed.
Print Assumptions C17_inventory_matches.
