(** * C09 — Deref and DerefMut expose exactly the designated field

    Statements only; each is closed by [exact] of a lemma proved in
    Proofs/P_C09*.v and followed by [Print Assumptions].

    Reading guide.  [expand_deref] / [expand_deref_mut] are the models of
    src/trait_handlers/deref and deref_mut (tied to /repo by K1).
    [run_deref I it x h] runs the `deref` method of the emitted impl [it] in
    the semantics of Sem/Interp.v with `self` a reference to the root `self`
    of the store, which holds [x]; [h] is the rest of the heap (whatever the
    references stored in [x] point to); it returns the resulting value and the
    final state.  [deref_cfg F own traits d] is the request as read from the
    attributes by the model's analysis (per variant: key, declared type and
    marker of every field; [own] = [TDeref] reads the `Deref` markers,
    [TDerefMut] the `DerefMut` ones, which may sit elsewhere).
    [designated_of c x] is the spec-level designated field of the variant [x]
    is in: the sole field, else the unique marked one.  [field_place fd] is the
    place `self.<key>`; [spec_deref st c x] is the reference the property
    speaks of: [VRef (field_place fd)] for a value field, and for a field of
    type `&..&T` (n references) the reference reached by following n loads
    from it — the referent.  References are places, so equality of references
    is address identity.

    The interpreter is untyped and the emitted tokens contain no coercion;
    rustc's deref coercion of the body to the return type `&Target` is
    accounted for explicitly by [coercions]: 0 for a value field; for a
    reference field of depth n, n-1 in a struct (the body `self.f` already
    reads the reference the field holds) and n in an enum (the body is the
    binding of the pattern, a reference to the field).  [ref_facts] states the
    result both ways: what the emitted expression evaluates to, and that
    following the inserted dereferences from it reaches [spec_deref]. *)
From Educe.Proofs Require Import P_C09b.

(** `&*x` : for every struct and enum, every position of the `Deref` marker,
    named and tuple shapes, value and reference field types, every value [x]
    of the declared shape (its fields may hold anything) and every heap. *)
Theorem C09_deref_place :
  forall (I : interp) F traits d m items c x h,
    data_wf (d_data d) ->
    expand_deref F traits d m = Ok items ->
    deref_cfg F TDeref traits d = Ok c ->
    dvalue_ok c x ->
    exists it fd r,
      items = [it] /\ designated_of c x = Some fd /\
      run_deref I it x h = Some (r, deref_state x h) /\
      (* after the deref coercions rustc inserts: the reference the property speaks of *)
      chase (("self", x) :: h) (coercions (is_struct d) (df_ty fd)) r = spec_deref (("self", x) :: h) c x /\
      (* a value field: exactly its place *)
      (is_ref_type (df_ty fd) = false -> r = VRef (field_place fd)) /\
      (* struct, reference field: the reference the field holds *)
      (is_struct d = true -> is_ref_type (df_ty fd) = true ->
       load (("self", x) :: h) (field_place fd) = Some r) /\
      (* enum: the place of the field (the binding of the pattern) *)
      (is_struct d = false -> r = VRef (field_place fd)).
Proof. exact deref_place. Qed.
Print Assumptions C09_deref_place.

(** `&mut *x` : the same for the `DerefMut` marker. *)
Theorem C09_deref_mut_place :
  forall (I : interp) F traits d m items c x h,
    data_wf (d_data d) ->
    expand_deref_mut F traits d m = Ok items ->
    deref_cfg F TDerefMut traits d = Ok c ->
    dvalue_ok c x ->
    exists it fd r,
      items = [it] /\ designated_of c x = Some fd /\
      run_deref_mut I it x h = Some (r, deref_state x h) /\
      chase (("self", x) :: h) (coercions (is_struct d) (df_ty fd)) r = spec_deref (("self", x) :: h) c x /\
      (is_ref_type (df_ty fd) = false -> r = VRef (field_place fd)) /\
      (is_struct d = true -> is_ref_type (df_ty fd) = true ->
       load (("self", x) :: h) (field_place fd) = Some r) /\
      (is_struct d = false -> r = VRef (field_place fd)).
Proof. exact deref_mut_place. Qed.
Print Assumptions C09_deref_mut_place.

(** The hypothesis "[deref_cfg] = Ok c" excludes no input: the request is
    readable whenever the expansion succeeds. *)
Theorem C09_cfg_total :
  forall F traits d m items,
    (expand_deref F traits d m = Ok items -> exists c, deref_cfg F TDeref traits d = Ok c) /\
    (expand_deref_mut F traits d m = Ok items -> exists c, deref_cfg F TDerefMut traits d = Ok c).
Proof.
  intros. split; [apply deref_cfg_total|apply deref_mut_cfg_total].
Qed.
Print Assumptions C09_cfg_total.

(** A write through a place changes what is read there and nothing that is
    read at any disjoint place (another root, or a path diverging at some
    key); no root appears or disappears. *)
Theorem C09_write_frame :
  forall st p v st',
    store_set st p v = Some st' ->
    load st' p = Some v /\
    (forall q, disjoint p q -> load st' q = load st q) /\
    map fst st' = map fst st.
Proof. exact write_frame. Qed.
Print Assumptions C09_write_frame.

(** `*x = v` through the educed DerefMut, the designated field being a value
    field: the write happens at the returned place, [x] stays in its variant
    with the same fields, the designated field reads [v], every other field
    and the rest of the heap are unchanged.  (For a reference field the
    returned place is the referent's, and [C09_write_frame] applies to it.) *)
Theorem C09_deref_mut_write :
  forall (I : interp) F traits d m items c vn xs h v,
    data_wf (d_data d) ->
    expand_deref_mut F traits d m = Ok items ->
    deref_cfg F TDerefMut traits d = Ok c ->
    dvalue_ok c (VData vn xs) ->
    exists it fd xs',
      items = [it] /\ designated_of c (VData vn xs) = Some fd /\
      (is_ref_type (df_ty fd) = false ->
       run_deref_mut I it (VData vn xs) h = Some (VRef (field_place fd), deref_state (VData vn xs) h) /\
       store_set (("self", VData vn xs) :: h) (field_place fd) v = Some (("self", VData vn xs') :: h) /\
       lookup (df_key fd) xs' = Some v /\
       (forall k', k' <> df_key fd -> lookup k' xs' = lookup k' xs) /\
       map fst xs' = map fst xs).
Proof. exact deref_mut_write. Qed.
Print Assumptions C09_deref_mut_write.

(** Selection.  [spec_select own l] is the rule of the statement: the sole
    field; else the unique marked one; none marked / several marked is an
    error.  (a) success reads every field's marker; (b) the markers being
    readable, the analysis returns exactly what the rule says — the same
    field (index, field, and it is the i-th) or the same error; (c)–(f) the
    error cases spelled out. *)
Theorem C09_selection :
  forall F own traits,
    (forall fs x, deref_select F own traits fs = Ok x ->
                  exists l, deref_dfields F own traits fs = Ok l) /\
    (forall fs l, deref_dfields F own traits fs = Ok l ->
       match deref_select F own traits fs with
       | Ok (i, f) => exists b, spec_select own l = Ok (mk_dfield i f b) /\ nth_error fs i = Some f
       | Err e => spec_select own l = Err e
       | _ => False
       end) /\
    (forall fs l, deref_dfields F own traits fs = Ok l -> List.length fs <> 1 ->
       filter df_flag l = [] -> deref_select F own traits fs = Err (deref_err_none own)) /\
    (forall fs l, deref_dfields F own traits fs = Ok l -> List.length fs <> 1 ->
       2 <= List.length (filter df_flag l) -> deref_select F own traits fs = Err (deref_err_multi own)) /\
    (forall v, deref_variant_attr F own traits (v_attrs v) = Ok Datatypes.tt -> v_fields v = FUnit ->
       deref_variant F own traits v = Err E_no_unit_variant) /\
    (forall d m, d_data d = DEnum [] -> deref_build true m = Ok true ->
       deref_analyse F own traits d m = Err (deref_err_none own)).
Proof.
  intros F own traits.
  split; [exact (deref_select_flags F own traits)|].
  split; [exact (deref_select_spec F own traits)|].
  split; [exact (select_none_marked F own traits)|].
  split; [exact (select_several_marked F own traits)|].
  split; [exact (variant_unit F own traits)|exact (enum_empty F own traits)].
Qed.
Print Assumptions C09_selection.

(** `type Target` is the declared type of the designated field of the struct /
    of the FIRST variant, with every leading reference stripped (never a
    reference type); the impl has this member and `deref`, nothing else. *)
Theorem C09_target_type :
  forall F traits d m items,
    expand_deref F traits d m = Ok items ->
    exists it c vn l fd body,
      items = [it] /\ deref_cfg F TDeref traits d = Ok c /\
      hd_error c = Some (vn, l) /\ designated l = Some fd /\
      i_members it = [MType "Target" (strip_refs (df_ty fd));
                      MFn inline_attr "deref" deref_sig ["self"] body] /\
      is_ref_type (strip_refs (df_ty fd)) = false.
Proof. exact target_type. Qed.
Print Assumptions C09_target_type.

(** Non-vacuity: an enum whose `Deref` and `DerefMut` markers sit on different
    fields of a three-field tuple variant, a named variant with a raw
    identifier, and a single-field variant of reference type; a tuple struct
    with a marked `&mut` field.  Every hypothesis holds and both sides compute. *)
Module Example.
  Definition educe (ts : toks) : attr := {| a_path := ["educe"]; a_meta := AMList Paren ts |}.
  Definition fld (n : option string) (ts ty : toks) : field :=
    {| f_attrs := [educe ts]; f_name := n; f_ty := ty |}.
  Definition fld0 (n : option string) (ty : toks) : field := {| f_attrs := []; f_name := n; f_ty := ty |}.
  Definition u8 : toks := [I "u8"].
  Definition g0 : generics :=
    {| g_params := []; g_trailing := false; g_where := []; g_where_trailing := false |}.
  Definition d : dinput :=
    {| d_attrs := [educe [I "Deref"; P ","; I "DerefMut"]]; d_name := "E"; d_generics := g0;
       d_data := DEnum
         [ {| v_attrs := []; v_name := "T"; v_discr := None;
              v_fields := FUnnamed [fld0 None u8; fld None [I "DerefMut"] u8; fld None [I "Deref"] u8] |};
           {| v_attrs := []; v_name := "N"; v_discr := None;
              v_fields := FNamed [fld0 (Some "x") u8;
                                  fld (Some "r#type") [I "Deref"; P ","; I "DerefMut"] u8;
                                  fld0 (Some "z") u8] |};
           {| v_attrs := []; v_name := "S"; v_discr := None;
              v_fields := FUnnamed [fld0 None [P "&"; TLife "a"; I "u8"]] |} ] |}.
  Definition ds : dinput :=
    {| d_attrs := [educe [I "Deref"]]; d_name := "P"; d_generics := g0;
       d_data := DStruct (FUnnamed [fld0 None u8;
                                    fld None [I "Deref"] [P "&"; TLife "a"; I "mut"; I "u8"];
                                    fld0 None u8]) |}.
  Definition I0 : interp :=
    {| i_ne := fun _ _ => false; i_eq := fun _ _ => true; i_cmp := fun _ _ => Eq;
       i_partial_cmp := fun _ _ => None; i_user := fun _ _ => VUnit; i_into := fun v => v;
       i_size_of_self := 0;
       i_clone := fun v => v;
       i_clone_from := fun _ v => v;
       i_default := fun _ => VUnit |}.
  Definition mD : meta := MPath {| mp_lead := false; mp_segs := ["Deref"] |}.
  Definition mM : meta := MPath {| mp_lead := false; mp_segs := ["DerefMut"] |}.
  Definition tr := [TDeref; TDerefMut].
  Definition itemsD := match expand_deref all_traits tr d mD with Ok l => l | _ => [] end.
  Definition itemsM := match expand_deref_mut all_traits tr d mM with Ok l => l | _ => [] end.
  Definition itemsS := match expand_deref all_traits [TDeref] ds mD with Ok l => l | _ => [] end.
  Definition cD := match deref_cfg all_traits TDeref tr d with Ok c => c | _ => [] end.
  Definition cM := match deref_cfg all_traits TDerefMut tr d with Ok c => c | _ => [] end.
  Definition cS := match deref_cfg all_traits TDeref [TDeref] ds with Ok c => c | _ => [] end.

  Definition ext : place := {| pl_root := "ext"; pl_path := [] |}.
  Definition heap : store := [("ext", VAtom 7)].
  Definition tup : value := VData (Some "T") [("0", VAtom 1); ("1", VAtom 2); ("2", VAtom 3)].
  Definition named : value := VData (Some "N") [("x", VAtom 1); ("r#type", VAtom 2); ("z", VAtom 3)].
  Definition sref : value := VData (Some "S") [("0", VRef ext)].
  Definition pstruct : value := VData None [("0", VAtom 1); ("1", VRef ext); ("2", VAtom 3)].
  Definition at_self (k : string) : value := VRef {| pl_root := "self"; pl_path := [k] |}.

  Example hypotheses_hold :
    expand_deref all_traits tr d mD = Ok itemsD /\ expand_deref_mut all_traits tr d mM = Ok itemsM /\
    expand_deref all_traits [TDeref] ds mD = Ok itemsS /\
    deref_cfg all_traits TDeref tr d = Ok cD /\ deref_cfg all_traits TDerefMut tr d = Ok cM /\
    deref_cfg all_traits TDeref [TDeref] ds = Ok cS /\
    itemsD <> [] /\ itemsM <> [] /\ itemsS <> [] /\
    data_wf (d_data d) /\ data_wf (d_data ds) /\
    dvalue_ok cD tup /\ dvalue_ok cM tup /\ dvalue_ok cD named /\ dvalue_ok cD sref /\ dvalue_ok cS pstruct.
  Proof.
    repeat split; try (vm_compute; reflexivity); try (vm_compute; discriminate);
      try (eexists; split; vm_compute; reflexivity).
    - intros v [H|[H|[H|[]]]]; subst v; cbn [v_fields fields_wf].
      + intros f [H|[H|[H|[]]]]; subst f; reflexivity.
      + split.
        * intros f [H|[H|[H|[]]]]; subst f; discriminate.
        * vm_compute. repeat constructor; cbn; intuition discriminate.
      + intros f [H|[]]; subst f; reflexivity.
    - intros f [H|[H|[H|[]]]]; subst f; reflexivity.
  Qed.

  Definition result (o : option (value * state)) : option value := option_map fst o.

  (** Deref goes to index 2 and DerefMut to index 1 of `T`; both to `r#type` of `N`;
      `S(&'a u8)` yields the binding `&self.0`, one coercion away from the referent;
      the struct body `self.1` is the reference the field holds *)
  Example computes :
    option_map (fun it => result (run_deref I0 it tup heap)) (hd_error itemsD) = Some (Some (at_self "2")) /\
    spec_deref (("self", tup) :: heap) cD tup = Some (at_self "2") /\
    option_map (fun it => result (run_deref_mut I0 it tup heap)) (hd_error itemsM) = Some (Some (at_self "1")) /\
    spec_deref (("self", tup) :: heap) cM tup = Some (at_self "1") /\
    option_map (fun it => result (run_deref I0 it named heap)) (hd_error itemsD) = Some (Some (at_self "r#type")) /\
    spec_deref (("self", named) :: heap) cD named = Some (at_self "r#type") /\
    option_map (fun it => result (run_deref I0 it sref heap)) (hd_error itemsD) = Some (Some (at_self "0")) /\
    chase (("self", sref) :: heap) 1 (at_self "0") = Some (VRef ext) /\
    spec_deref (("self", sref) :: heap) cD sref = Some (VRef ext) /\
    option_map (fun it => result (run_deref I0 it pstruct heap)) (hd_error itemsS) = Some (Some (VRef ext)) /\
    spec_deref (("self", pstruct) :: heap) cS pstruct = Some (VRef ext) /\
    option_map (fun it => i_members it) (hd_error itemsS) =
      Some [MType "Target" u8; MFn inline_attr "deref" deref_sig ["self"] [EField (EVar "self") "1"]].
  Proof. repeat split; vm_compute; reflexivity. Qed.

  (** writing 9 through `&mut *tup` changes field 1 only *)
  Example write_computes :
    store_set (("self", tup) :: heap) {| pl_root := "self"; pl_path := ["1"] |} (VAtom 9) =
    Some (("self", VData (Some "T") [("0", VAtom 1); ("1", VAtom 9); ("2", VAtom 3)]) :: heap).
  Proof. vm_compute. reflexivity. Qed.
End Example.
