(** * C01 — every accepted derive request expands to code that compiles

    Property text: "whenever educe accepts a derive request for a struct, enum or union whose
    user-written parts are well-typed [..], the items it generates compile without errors or
    warnings [..].  Conversely, every documented attribute form on a supported shape is accepted".

    Rustc's parser, name resolution and type checker are not formalised, so "compiles" cannot be
    stated.  What is proved here are DECIDABLE STATIC JUDGMENTS on the emitted AST
    (Spec/WellFormed.v) that every item emitted by every handler satisfies, for EVERY derive input
    and feature set.  Each is a NECESSARY condition for the property (a violation is a rustc
    error), none is sufficient:

    - J2 [C01_patterns_fit]        a pattern for `Self::V` has the shape and arity of variant V
    - J3 [C01_constructors_fit]    a constructor names every field once / one argument per field
    - J4 [C01_match_exhaustive]    `match self` has one arm per variant, in declaration order
    - J7 [C01_call_arity]          `::core` functions, `Formatter` and `Debug*` builder methods are
                                   called with the arity of their signatures
    - J8 [C01_no_unsafe]           no `unsafe`, no `as` cast, unless the type is a union
    (J1 "the token stream parses" is the printer's concern, J5 = C12 the impl header and J6 =
     C11 the bounds are other properties.)

    and, for the converse, [C01_documented_accepted_partial]: the bare flag of each trait on a
    type without field / variant attributes is accepted, with the exact side conditions.

    Hypothesis [data_named_ok] = what rustc guarantees before a derive runs: the fields of a braced
    struct / variant / union are named, with pairwise distinct names; tuple fields are unnamed. *)
From Coq Require Import List String Bool.
From Educe.Proofs Require Import P_C01f P_C01g.
Import ListNotations.
Open Scope string_scope.

(** ** J7.  `f.debug_tuple(name)` / `f.debug_struct(name)` / `f.write_str(s)` take exactly one
    argument (the nameless tuple variant that emitted `f.debug_tuple()` is the bug that was fixed),
    `builder.field` two (DebugStruct) or one (DebugTuple) according to the builder its block
    created, `builder.entry` two (DebugMap), `finish` none; `::core::cmp::PartialEq::ne` two,
    `::core::clone::Clone::clone` one, .. (table [core_fn_arities]); `size_of::<Self>()` none;
    a user `method` one or two. *)
Theorem C01_call_arity :
  forall (F : features) (d : dinput) (items : list item),
    expand F d = Ok items -> forallb item_arity items = true.
Proof. exact expand_arity. Qed.
Print Assumptions C01_call_arity.

(** ** J2, J3, J4, J8 are proved in one traversal ... *)
Theorem C01_well_formed :
  forall (F : features) (d : dinput) (items : list item),
    data_named_ok (d_data d) -> expand F d = Ok items ->
    forallb (item_wf (d_data d)) items = true.
Proof. exact expand_wf. Qed.
Print Assumptions C01_well_formed.

(** ... and read separately *)
Lemma forallb_imp {A} (p q : A -> bool) l :
  (forall x, p x = true -> q x = true) -> forallb p l = true -> forallb q l = true.
Proof. exact (forallb_impl p q l). Qed.

Theorem C01_patterns_fit :
  forall F d items, data_named_ok (d_data d) -> expand F d = Ok items ->
    forallb (item_pats (variants_of (d_data d))) items = true.
Proof.
  intros F d items Hok H. apply (forallb_imp _ _ _ (item_wf_pats (d_data d))).
  apply (expand_wf F d items Hok H).
Qed.
Print Assumptions C01_patterns_fit.

Theorem C01_constructors_fit :
  forall F d items, data_named_ok (d_data d) -> expand F d = Ok items ->
    forallb (item_ctors (d_data d)) items = true.
Proof.
  intros F d items Hok H. apply (forallb_imp _ _ _ (item_wf_ctors (d_data d))).
  apply (expand_wf F d items Hok H).
Qed.
Print Assumptions C01_constructors_fit.

Theorem C01_match_exhaustive :
  forall F d items, data_named_ok (d_data d) -> expand F d = Ok items ->
    forallb (item_matches (variants_of (d_data d))) items = true.
Proof.
  intros F d items Hok H. apply (forallb_imp _ _ _ (item_wf_matches (d_data d))).
  apply (expand_wf F d items Hok H).
Qed.
Print Assumptions C01_match_exhaustive.

(** generalises C04_no_memory_read from Ord / PartialOrd to all twelve handlers *)
Theorem C01_no_unsafe :
  forall F d items, data_named_ok (d_data d) -> is_union (d_data d) = false ->
    expand F d = Ok items -> forallb item_safe items = true.
Proof.
  intros F d items Hok Hu H. apply (forallb_imp _ _ _ (fun it => item_wf_safe (d_data d) it Hu)).
  apply (expand_wf F d items Hok H).
Qed.
Print Assumptions C01_no_unsafe.

(** ** the converse, PARTIAL: `#[educe(Trait)]` alone (the simplest documented request of each
    trait) on a type whose variants and fields carry no attribute at all is accepted, exactly when
    [flag_accepted] holds:
      Clone, Copy, Eq            any struct / enum / union
      PartialEq, Hash            any struct / enum             (a union needs `unsafe`)
      Debug                      any struct, any enum with at least one variant
                                 (NOTE: `#[educe(Debug)] enum Void {}` is REFUSED; a union needs `unsafe`)
      PartialOrd, Ord            any struct; an enum whose discriminants are integer literals
      Default                    any struct; an enum with exactly one variant; a union with one field
      Deref, DerefMut            a struct with exactly one field; an enum with >= 1 variant, each
                                 with exactly one field
      Into                       never: the documented form is `Into(Type)`
    Several traits at once: [C01_documented_accepted_flags] below.
    MISSING (hence `_partial`): requests with parameters (`name = ..`, `bound(..)`, `method(..)`,
    `ignore`, `rank`, `Into(T)` ..), types with variant / field attributes (see Properties/C01b.v
    for what is proved about field-level attributes). *)
Theorem C01_documented_accepted_partial :
  forall (F : features) (d : dinput) (t : trait),
    has_trait t F = true ->
    d_attrs d = [educe_flag (trait_name t)] ->
    plain_data (d_data d) -> flag_accepted t (d_data d) ->
    exists items, expand F d = Ok items.
Proof. exact expand_accepts_flag. Qed.
Print Assumptions C01_documented_accepted_partial.

(** ** several traits in one request: `#[educe(T1, T2, .., Tn)]` (any non-empty duplicate-free list
    of enabled traits other than `Into`, in ANY order) on a type without other attributes is
    accepted as soon as every flag is accepted alone -- no handler refuses because of another
    trait's presence.  (The companions write nothing of their own when their primary is educed too --
    Copy beside Clone, Eq beside PartialEq, PartialOrd beside Ord: the primary's handler writes both
    impls -- so non-emptiness of the result needs the primary's items; that is the case analysis
    of the proof.)  Still `_partial` as a converse: no parameters, no variant / field attributes. *)
Theorem C01_documented_accepted_flags :
  forall (F : features) (d : dinput) (ts : list trait),
    ts <> [] -> NoDup ts ->
    (forall t, In t ts -> has_trait t F = true) ->
    d_attrs d = [educe_flags ts] ->
    plain_data (d_data d) ->
    (forall t, In t ts -> flag_accepted t (d_data d)) ->
    exists items, expand F d = Ok items.
Proof. exact expand_accepts_flags. Qed.
Print Assumptions C01_documented_accepted_flags.

(** an enum without explicit discriminants meets the side condition of PartialOrd / Ord *)
Theorem C01_implicit_discriminants :
  forall vs, (forall v, In v vs -> v_discr v = None) -> exists ds, discriminant_values vs = Ok ds.
Proof. intros vs H. apply (discr_values_implicit vs 0%Z H). Qed.
Print Assumptions C01_implicit_discriminants.

(** * A concrete instance *)
Module Example.
  Definition ed (ts : toks) : attr := {| a_path := ["educe"]; a_meta := AMList Paren ts |}.
  Definition fld (attrs : list attr) (n : option string) (ty : toks) : field :=
    {| f_attrs := attrs; f_name := n; f_ty := ty |}.
  Definition no_generics : generics :=
    {| g_params := []; g_trailing := false; g_where := []; g_where_trailing := false |}.

  (** #[educe(Debug(name = false), Clone, PartialEq, PartialOrd, Hash, Default, Into(u8))]
      enum E { A { #[educe(Into(u8))] x: u8, #[educe(Debug(ignore))] y: u8, r#type: u8 },
               #[educe(Debug(name = false))] B(#[educe(Into(u8))] u8, u16), #[educe(Default)] C(u8) }
      -- named / tuple variants, an ignored field, a raw identifier, a NAMELESS tuple variant *)
  Definition d0 : dinput :=
    {| d_attrs := [ed [I "Debug"; P ","; I "Clone"; P ","; I "PartialEq"; P ","; I "PartialOrd"; P ",";
                       I "Hash"; P ","; I "Default"; P ","; I "Into"; G Paren [I "u8"]]];
       d_name := "E"; d_generics := no_generics;
       d_data := DEnum
         [{| v_attrs := []; v_name := "A";
             v_fields := FNamed [fld [ed [I "Into"; G Paren [I "u8"]]] (Some "x") [I "u8"];
                                 fld [ed [I "Debug"; G Paren [I "ignore"]]] (Some "y") [I "u8"];
                                 fld [] (Some "r#type") [I "u8"]];
             v_discr := None |};
          {| v_attrs := [ed [I "Debug"; G Paren [I "name"; P "="; I "false"]]]; v_name := "B";
             v_fields := FUnnamed [fld [ed [I "Into"; G Paren [I "u8"]]] None [I "u8"];
                                   fld [] None [I "u16"]];
             v_discr := None |};
          {| v_attrs := [ed [I "Default"]]; v_name := "C"; v_fields := FUnnamed [fld [] None [I "u8"]];
             v_discr := None |}] |}.

  Definition items0 : list item :=
    match expand all_traits d0 with Ok its => its | _ => [] end.

  Example accepted : expand all_traits d0 = Ok items0 /\ List.length items0 = 7.
  Proof. vm_compute. split; reflexivity. Qed.

  Example named_ok : data_named_ok (d_data d0).
  Proof.
    intros v [<-|[<-|[<-|[]]]]; cbn.
    - split; [intros f [<-|[<-|[<-|[]]]]; discriminate|].
      repeat constructor; cbn; intuition discriminate.
    - intros f [<-|[<-|[]]]; reflexivity.
    - intros f [<-|[]]; reflexivity.
  Qed.

  Example judged :
    forallb item_arity items0 = true /\
    forallb (item_pats (variants_of (d_data d0))) items0 = true /\
    forallb (item_ctors (d_data d0)) items0 = true /\
    forallb (item_matches (variants_of (d_data d0))) items0 = true /\
    forallb item_safe items0 = true.
  Proof. vm_compute. repeat split; reflexivity. Qed.

  (** NON-VACUITY: each judgment refuses what it is meant to refuse *)
  Definition vs0 := variants_of (d_data d0).
  (** J7: the call the nameless tuple variant used to get; a `field` with the wrong arity for its
      builder; a three-argument comparison *)
  Example rejects_arity :
    expr_arity None (ELet true "builder" (EMethod (EVar "f") "debug_tuple" [])) = false /\
    expr_arity None (EBlock [ELet true "builder" (EMethod (EVar "f") "debug_tuple" [EStr "B"]);
                             ESemi (EMethod (EVar "builder") "field" [EStr "a"; EVar "_0"])]) = false /\
    expr_arity None (EBlock [ELet true "builder" (EMethod (EVar "f") "debug_struct" [EStr "A"]);
                             ESemi (EMethod (EVar "builder") "field" [EVar "_x"])]) = false /\
    expr_arity None (ECall (EPath (RCore ["cmp"; "PartialEq"; "ne"])) [EVar "a"; EVar "b"; EVar "c"]) = false /\
    expr_arity None (EMethod (EVar "builder") "finish" [EUnit]) = false.
  Proof. vm_compute. repeat split; reflexivity. Qed.
  (** J2: one sub-pattern too few for B(u8, u16); a field that A does not have; a field twice *)
  Example rejects_patterns :
    expr_pats vs0 (EMatch (EVar "x") [(PTuple (RSelfV "B") [PBind "_0"] true false, EUnit)]) = false /\
    expr_pats vs0 (EMatch (EVar "x") [(PTuple (RSelfV "B") [PBind "_0"] false true, EUnit)]) = true /\
    expr_pats vs0 (EMatch (EVar "x") [(PStruct (RSelfV "A") [("x", None); ("w", None)] false true, EUnit)]) = false /\
    expr_pats vs0 (EMatch (EVar "x") [(PStruct (RSelfV "A") [("x", None); ("x", None)] false true, EUnit)]) = false /\
    expr_pats vs0 (EMatch (EVar "x") [(PStruct (RSelfV "A") [("x", None); ("y", None)] false false, EUnit)]) = false /\
    expr_pats vs0 (EMatch (EVar "x") [(PPath (RSelfV "B"), EUnit)]) = false.
  Proof. vm_compute. repeat split; reflexivity. Qed.
  (** J3: a missing field, a missing argument *)
  Example rejects_constructors :
    expr_ctors (d_data d0) (EStruct (RSelfV "A") [("x", EUnit); ("y", EUnit)] true) = false /\
    expr_ctors (d_data d0) (ECallT (EPath (RSelfV "B")) [EUnit]) = false /\
    expr_ctors (d_data d0) (ECallT (EPath (RSelfV "B")) [EUnit; EUnit]) = true.
  Proof. vm_compute. repeat split; reflexivity. Qed.
  (** J4: a missing arm, arms out of order *)
  Example rejects_matches :
    expr_matches vs0 (EMatch (EVar "self") [(PPath (RSelfV "A"), EUnit); (PPath (RSelfV "B"), EUnit)]) = false /\
    expr_matches vs0 (EMatch (EVar "self") [(PPath (RSelfV "B"), EUnit); (PPath (RSelfV "A"), EUnit);
                                            (PPath (RSelfV "C"), EUnit)]) = false.
  Proof. vm_compute. split; reflexivity. Qed.
  (** J8 *)
  Example rejects_unsafe :
    expr_safe (ECast (EVar "self") [P "*"; I "const"; I "u8"]) = false /\
    expr_safe (EBlock [EUnsafe [EVar "x"]]) = false.
  Proof. vm_compute. split; reflexivity. Qed.

  (** the acceptance theorem is not vacuous, and its side conditions are sharp *)
  Definition plain (t : string) (dt : data) : dinput :=
    {| d_attrs := [educe_flag t]; d_name := "T"; d_generics := no_generics; d_data := dt |}.
  Definition two_variants : data :=
    DEnum [{| v_attrs := []; v_name := "A"; v_fields := FUnit; v_discr := None |};
           {| v_attrs := []; v_name := "B"; v_fields := FUnnamed [fld [] None [I "u8"]]; v_discr := None |}].
  Example accepted_plain :
    (exists its, expand all_traits (plain "Debug" two_variants) = Ok its) /\
    (exists its, expand all_traits (plain "PartialOrd" two_variants) = Ok its).
  Proof.
    assert (Hp : plain_data two_variants).
    { intros v [<-|[<-|[]]]; (split; [reflexivity|]); cbn; intros f Hf;
        repeat (destruct Hf as [<-|Hf]; [reflexivity|]); destruct Hf. }
    split.
    - apply (C01_documented_accepted_partial all_traits _ TDebug); try reflexivity; [exact Hp|].
      discriminate.
    - apply (C01_documented_accepted_partial all_traits _ TPartialOrd); try reflexivity; [exact Hp|].
      eexists. vm_compute. reflexivity.
  Qed.
  (** several flags: the eleven flag-able traits at once on a one-field struct; the hypotheses of
      [C01_documented_accepted_flags] are met, and the model indeed answers Ok with 11 impls
      + the companions folded into their primaries *)
  Definition one_field : data := DStruct (FNamed [fld [] (Some "a") [I "u8"]]).
  Definition eleven : list trait :=
    [TOrd; TDebug; TClone; TCopy; TPartialEq; TEq; TPartialOrd; THash; TDefault; TDeref; TDerefMut].
  Definition d_eleven : dinput :=
    {| d_attrs := [educe_flags eleven]; d_name := "T"; d_generics := no_generics; d_data := one_field |}.
  Example accepted_eleven :
    (exists its, expand all_traits d_eleven = Ok its) /\
    (match expand all_traits d_eleven with Ok its => List.length its | _ => 0 end) = 11.
  Proof.
    split; [|vm_compute; reflexivity].
    apply (C01_documented_accepted_flags all_traits d_eleven eleven).
    - discriminate.
    - unfold eleven. repeat constructor; cbn [In]; intuition discriminate.
    - intros t Ht. unfold eleven in Ht. cbn [In] in Ht.
      repeat (destruct Ht as [<-|Ht]; [reflexivity|]). destruct Ht.
    - reflexivity.
    - intros f [<-|[]]. reflexivity.
    - intros t Ht. unfold eleven in Ht. cbn [In] in Ht.
      repeat (destruct Ht as [<-|Ht]; [cbn; try exact I; try (eexists; reflexivity)|]). destruct Ht.
  Qed.
  (** the side conditions are needed flag by flag: one refused flag refuses the request *)
  Example flags_refused_when_one_is :
    expand all_traits {| d_attrs := [educe_flags [TClone; TDeref]]; d_name := "T"; d_generics := no_generics;
                         d_data := two_variants |} = Err E_no_unit_variant /\
    expand all_traits {| d_attrs := [educe_flags [TClone; TClone]]; d_name := "T"; d_generics := no_generics;
                         d_data := two_variants |} = Err E_reuse_trait.
  Proof. vm_compute. split; reflexivity. Qed.

  Example refused_outside_the_side_conditions :
    expand all_traits (plain "Debug" (DEnum [])) = Err E_debug_unit_enum_name /\
    expand all_traits (plain "Default" two_variants) = Err E_default_no_variant /\
    expand all_traits (plain "Deref" two_variants) = Err E_no_unit_variant /\
    expand all_traits (plain "Into" two_variants) = Err E_attr_format /\
    expand all_traits (plain "Hash" (DUnion [fld [] (Some "a") [I "u8"]])) = Err E_union_without_unsafe.
  Proof. vm_compute. repeat split; reflexivity. Qed.
End Example.
