(** * C02 — PartialEq is exactly field-wise equality over the compared fields

    Statements only; each is closed by [exact] of a lemma proved in
    Proofs/P_C02*.v and followed by [Print Assumptions].

    Reading guide.  [expand_partial_eq F traits d m] is the model of
    src/trait_handlers/partial_eq (tied to /repo by K1); [run_eq I it a b]
    runs the `eq` method of the emitted impl [it] on operands [a], [b] in the
    semantics of Sem/Interp.v, where [I : interp] gives ARBITRARY behaviour
    to the field types' own `ne` and to the user's `method` functions;
    [peq_cfg] is the request as read from the attributes (per variant: keyed
    fields with ignore flag and optional method); [spec_eq] is the meaning
    written from the property statement: same variant, and every non-ignored
    field equal under its method (left operand first) or `!(x != y)`. *)
From Educe.Proofs Require Import P_C02c.

Theorem C02_struct_eq_fieldwise :
  forall (I : interp) F traits d m fs items c a b,
    d_data d = DStruct fs ->
    expand_partial_eq F traits d m = Ok items ->
    peq_cfg F traits d = Ok c ->
    methods_typed_cfg I c ->
    value_ok c a = true -> value_ok c b = true ->
    exists it rest, items = it :: rest /\ run_eq I it a b = spec_eq I c a b.
Proof. exact struct_eq_fieldwise. Qed.
Print Assumptions C02_struct_eq_fieldwise.

Theorem C02_enum_eq_fieldwise :
  forall (I : interp) F traits d m vs items c a b,
    d_data d = DEnum vs ->
    (forall v, In v vs -> fields_wf (v_fields v)) ->
    expand_partial_eq F traits d m = Ok items ->
    peq_cfg F traits d = Ok c ->
    methods_typed_cfg I c ->
    value_ok c a = true -> value_ok c b = true ->
    exists it rest, items = it :: rest /\ run_eq I it a b = spec_eq I c a b.
Proof. exact enum_eq_fieldwise. Qed.
Print Assumptions C02_enum_eq_fieldwise.

(** Ignored fields never influence the result. *)
Theorem C02_ignored_irrelevant :
  forall (I : interp) c va xs xs' vb ys ys' l,
    vcfg_get va c = Some l ->
    agree_on l xs xs' -> agree_on l ys ys' ->
    spec_eq I c (VData va xs) (VData vb ys) = spec_eq I c (VData va xs') (VData vb ys').
Proof. exact ignored_irrelevant. Qed.
Print Assumptions C02_ignored_irrelevant.

(** `a != b` is always the negation: the impl defines `eq` only. *)
Theorem C02_only_eq_defined :
  forall F traits d m items it rest,
    expand_partial_eq F traits d m = Ok items -> items = it :: rest ->
    map (fun mb => match mb with MFn _ n _ _ _ => n | MType n _ => n end) (i_members it) = ["eq"].
Proof. exact only_eq_defined. Qed.
Print Assumptions C02_only_eq_defined.

(** With well-behaved field comparisons the relation is an equivalence. *)
Theorem C02_equivalence :
  forall (I : interp) c,
    (field_refl I -> forall a, value_ok c a = true -> spec_eq I c a a = Some true) /\
    (field_sym I -> forall a b, value_ok c a = true -> value_ok c b = true ->
                    spec_eq I c a b = spec_eq I c b a) /\
    (field_trans I -> forall a b z, spec_eq I c a b = Some true -> spec_eq I c b z = Some true ->
                      spec_eq I c a z = Some true).
Proof.
  intros I c. split; [|split].
  - intros H a. exact (eq_reflexive I c a H).
  - intros H a b. exact (eq_symmetric I c a b H).
  - intros H a b z. exact (eq_transitive I c a b z H).
Qed.
Print Assumptions C02_equivalence.

(** Non-vacuity: a concrete request (a tuple variant with an ignored field and
    a method field, a named variant, a unit variant), a concrete
    interpretation, concrete values: every hypothesis of
    [C02_enum_eq_fieldwise] holds and both sides compute. *)
Module Example.
  Definition educe (ts : toks) : attr := {| a_path := ["educe"]; a_meta := AMList Paren ts |}.
  Definition fld (n : option string) (ts : toks) : field :=
    {| f_attrs := [educe ts]; f_name := n; f_ty := [I "u8"] |}.
  Definition fld0 (n : option string) : field := {| f_attrs := []; f_name := n; f_ty := [I "u8"] |}.
  Definition d : dinput :=
    {| d_attrs := [educe [I "PartialEq"]]; d_name := "E";
       d_generics := {| g_params := []; g_trailing := false; g_where := []; g_where_trailing := false |};
       d_data := DEnum
         [ {| v_attrs := []; v_name := "T"; v_discr := None;
              v_fields := FUnnamed [fld0 None; fld None [I "PartialEq"; G Paren [I "ignore"]];
                                    fld None [I "PartialEq"; G Paren [I "method"; G Paren [I "m"]]]] |};
           {| v_attrs := []; v_name := "N"; v_discr := None;
              v_fields := FNamed [fld0 (Some "x"); fld (Some "r#type") [I "PartialEq"; P "="; I "false"]] |};
           {| v_attrs := []; v_name := "U"; v_discr := None; v_fields := FUnit |} ] |}.
  Definition I0 : interp :=
    {| i_ne := fun x y => match x, y with VAtom a, VAtom b => negb (Z.eqb a b) | _, _ => true end;
       i_eq := fun x y => match x, y with VAtom a, VAtom b => Z.eqb a b | _, _ => false end;
       i_cmp := fun _ _ => Eq; i_partial_cmp := fun _ _ => None;
       i_user := fun _ args => match args with
                               | [VAtom a; VAtom b] => VBool (Z.ltb a b)   (* asymmetric on purpose *)
                               | _ => VBool false
                               end;
       i_size_of_self := 0;

       i_clone := fun v => v; i_clone_from := fun _ v => v; i_into := fun v => v;
       i_default := fun _ => VUnit |}.
  Definition tup (a b c : Z) : value := VData (Some "T") [("0", VAtom a); ("1", VAtom b); ("2", VAtom c)].
  Definition m : meta := MPath {| mp_lead := false; mp_segs := ["PartialEq"] |}.
  Definition items := match expand_partial_eq all_traits [TPartialEq] d m with Ok l => l | _ => [] end.
  Definition c := match peq_cfg all_traits [TPartialEq] d with Ok c => c | _ => [] end.

  Example hypotheses_hold :
    expand_partial_eq all_traits [TPartialEq] d m = Ok items /\
    peq_cfg all_traits [TPartialEq] d = Ok c /\
    value_ok c (tup 1 2 3) = true /\ value_ok c (tup 1 9 4) = true /\ items <> [].
  Proof. repeat split; try (vm_compute; reflexivity). vm_compute. discriminate. Qed.

  (** field 1 is ignored (2 vs 9), field 2 goes through the method m(3, 4) = (3 < 4) = true,
      m(4, 3) = false: argument order matters *)
  Example computes :
    option_map (fun it => run_eq I0 it (tup 1 2 3) (tup 1 9 4)) (hd_error items) = Some (Some true) /\
    option_map (fun it => run_eq I0 it (tup 1 9 4) (tup 1 2 3)) (hd_error items) = Some (Some false) /\
    spec_eq I0 c (tup 1 2 3) (tup 1 9 4) = Some true /\
    spec_eq I0 c (tup 1 9 4) (tup 1 2 3) = Some false /\
    spec_eq I0 c (tup 1 2 3) (VData (Some "U") []) = Some false.
  Proof. repeat split; vm_compute; reflexivity. Qed.
End Example.
