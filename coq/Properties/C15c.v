(** * C15c — the whole request is accepted IF AND ONLY IF every educed trait's own part is

    C15 (Properties/C15.v): whole accepted => the request restricted to a partner-closed set of
    traits expands to the kept traits' items — PROVIDED that list is not empty (otherwise the
    restricted request is refused with [E_not_set_up]).
    C15b (Properties/C15b.v): every part accepted => whole accepted.

    This file closes the gap.  For a trait [t] NAMED at type level, the items kept by
    [keep_for t] = {t, its coupled partner} are never empty:
      - every handler returns at least one item, except Copy beside an educed Clone, Eq beside an
        educed PartialEq, PartialOrd beside an educed Ord, whose impl is written by the primary's
        handler — and then the primary is the partner, it is kept, and its part is not empty;
      - an accepted `Into` request with at least one meta yields at least one item;
      - a trait named at type level is enabled, and its list of metas is not empty.
    Hence the restricted expansion is [Ok] with exactly the kept items ([C15_whole_to_parts]; this
    direction needs neither [tm <> []] nor [metas_educed]), and with C15b:

      [C15_acceptance_iff] : whole accepted <-> each named trait's part accepted.

    Statements only; proofs in Proofs/P_C15g.v. *)
From Coq Require Import List String Bool.
From Educe.Proofs Require Import P_C15g.
Import ListNotations.

(** ** what the type-level collection returns: enabled traits, each with at least one meta *)
Theorem C15_collected_good :
  forall (F : features) (attrs : list attr) (tm : tmap),
    foldM (collect_attr F) [] attrs = Ok tm ->
    Forall (fun kv => has_trait (fst kv) F = true /\ snd kv <> []) tm.
Proof. exact collect_good. Qed.
Print Assumptions C15_collected_good.

(** a NAMED trait whose feature is disabled is impossible once the collection has succeeded *)
Theorem C15_named_enabled :
  forall (F : features) (attrs : list attr) (tm : tmap) (t : trait),
    foldM (collect_attr F) [] attrs = Ok tm -> In t (map fst tm) -> has_trait t F = true.
Proof. exact collected_enabled. Qed.
Print Assumptions C15_named_enabled.

(** ** an accepted `Into` request with at least one meta yields at least one item *)
Theorem C15_into_nonempty :
  forall (F : features) (traits : list trait) (d : dinput) (ms : list meta) (items : list item),
    ms <> [] -> expand_into F traits d ms = Ok items -> items <> [].
Proof. exact expand_into_nonempty. Qed.
Print Assumptions C15_into_nonempty.

(** ** the items kept for a named trait and its partner are not empty *)
Theorem C15_kept_nonempty :
  forall (F : features) (d : dinput) (tm : tmap) (ps : list (trait * list item)) (t : trait),
    foldM (collect_attr F) [] (d_attrs d) = Ok tm ->
    expand_parts F d = Ok ps ->
    In t (map fst tm) ->
    parts_items (map (keep_part (keep_for t)) ps) <> [].
Proof. exact kept_nonempty. Qed.
Print Assumptions C15_kept_nonempty.

(** ** whole accepted => each named trait's part accepted, with exactly the kept items
       (C15_restrict_expand without its [E_not_set_up] branch) *)
Theorem C15_whole_to_parts :
  forall (F : features) (d : dinput) (tm : tmap) (items : list item),
    foldM (collect_attr F) [] (d_attrs d) = Ok tm ->
    expand F d = Ok items ->
    exists ps, expand_parts F d = Ok ps /\ items = parts_items ps /\
      forall t, In t (map fst tm) ->
        parts_items (map (keep_part (keep_for t)) ps) <> [] /\
        expand F (restrict (keep_for t) d) = Ok (parts_items (map (keep_part (keep_for t)) ps)).
Proof. exact whole_to_parts. Qed.
Print Assumptions C15_whole_to_parts.

(** ** the equivalence *)
Theorem C15_acceptance_iff :
  forall (F : features) (d : dinput) (tm : tmap),
    foldM (collect_attr F) [] (d_attrs d) = Ok tm ->
    tm <> [] ->
    metas_educed F d = true ->
    ((exists items, expand F d = Ok items) <->
     (forall t, In t (map fst tm) -> exists its, expand F (restrict (keep_for t) d) = Ok its)).
Proof. exact acceptance_iff. Qed.
Print Assumptions C15_acceptance_iff.

Module Tests.
  Definition educe (ts : toks) : attr := {| a_path := ["educe"]; a_meta := AMList Paren ts |}.
  Definition fld (n : option string) (ts ty : toks) : field :=
    {| f_attrs := [educe ts]; f_name := n; f_ty := ty |}.
  Definition fld0 (n : option string) (ty : toks) : field := {| f_attrs := []; f_name := n; f_ty := ty |}.
  Definition u8 : toks := [I "u8"].
  Definition u16 : toks := [I "u16"].
  Definition g0 : generics :=
    {| g_params := []; g_trailing := false; g_where := []; g_where_trailing := false |}.
  Definition is_ok {A} (o : outcome A) : bool := match o with Ok _ => true | _ => false end.
  Definition outcome_tag {A} (o : outcome A) : string :=
    match o with Ok _ => "Ok" | Err e => err_name e | Panic _ => "Panic" | OutOfDomain w => w end.
  Definition mk (attrs : list attr) (dd : data) : dinput :=
    {| d_attrs := attrs; d_name := "S"; d_generics := g0; d_data := dd |}.
  Definition ign (t : string) : toks := [I t; G Paren [I "ignore"]].
  Definition flags (l : list string) : toks := flat_map (fun s => [I s; P ","]) l.

  (** the hypotheses ([collected]: the collection succeeds with a non-empty map; [metas_educed])
      and the two sides of the equivalence, as booleans *)
  Definition collected (F : features) (d : dinput) : bool :=
    match foldM (collect_attr F) [] (d_attrs d) with Ok tm => negb (is_nil tm) | _ => false end.
  Definition each_accepted (F : features) (d : dinput) : bool :=
    match foldM (collect_attr F) [] (d_attrs d) with
    | Ok tm => forallb (fun t => is_ok (expand F (restrict (keep_for t) d))) (map fst tm)
    | _ => false
    end.
  (** (collected, metas_educed, whole accepted, every part accepted) *)
  Definition verdict (F : features) (d : dinput) : bool * bool * bool * bool :=
    (collected F d, metas_educed F d, is_ok (expand F d), each_accepted F d).

  Definition two := DStruct (FNamed [fld0 (Some "a") u8; fld0 (Some "b") u16]).
  Definition en := DEnum [ {| v_attrs := []; v_name := "A"; v_discr := None;
                              v_fields := FNamed [fld0 (Some "x") u8; fld0 (Some "y") u16] |};
                           {| v_attrs := []; v_name := "B"; v_discr := None; v_fields := FUnit |} ].

  (* 1 Copy beside Clone (Copy's own part is empty) *)
  Definition c1 := mk [educe (flags ["Copy"; "Clone"])] two.
  (* 2 Eq beside PartialEq, on an enum, a field attribute of each *)
  Definition c2 := mk [educe (flags ["Eq"; "PartialEq"])]
    (DEnum [ {| v_attrs := []; v_name := "A"; v_discr := None;
                v_fields := FNamed [fld (Some "x") (ign "PartialEq") u8;
                                    fld (Some "y") [I "Eq"; G Paren [I "method"; G Paren [I "g"]]] u16] |};
             {| v_attrs := []; v_name := "B"; v_discr := None; v_fields := FUnit |} ]).
  (* 3 PartialOrd beside Ord *)
  Definition c3 := mk [educe (flags ["PartialOrd"; "Ord"; "PartialEq"; "Eq"])] en.
  (* 4 Into(u8), Into(u16) beside Debug *)
  Definition c4 := mk [educe [I "Into"; G Paren [I "u8"]; P ","; I "Debug"; P ","; I "Into"; G Paren [I "u16"]]] two.
  (* 5 Into alone *)
  Definition c5 := mk [educe [I "Into"; G Paren [I "u16"]]] two.
  (* 6 the three companions WITHOUT their primaries: each writes its own impl *)
  Definition c6 := mk [educe (flags ["Copy"; "Eq"; "PartialOrd"])] two.
  (* 7 all three couplings and four more traits on a union-free struct *)
  Definition c7 := mk [educe (flags ["Debug"; "Clone"; "Copy"; "PartialEq"; "Eq"; "PartialOrd"; "Ord"; "Hash"; "Default"])]
    (DStruct (FNamed [fld (Some "a") (ign "Debug" ++ [P ","] ++ ign "Hash") u8; fld0 (Some "b") u16])).
  (* 8 a union *)
  Definition c8 := mk [educe [I "Clone"; P ","; I "Copy"; P ","; I "Debug"; G Paren [I "unsafe"]]]
    (DUnion [fld0 (Some "a") u8; fld0 (Some "b") u16]).
  (* 9 refused: Deref with two candidate fields *)
  Definition r1 := mk [educe (flags ["Debug"; "Deref"])] two.
  (* 10 refused: `Into` without a target type *)
  Definition r2 := mk [educe (flags ["Into"; "Clone"])] two.
  (* 11 refused: an Into target that no field converts to *)
  Definition r3 := mk [educe [I "Into"; G Paren [I "u32"]; P ","; I "Clone"]] two.
  (* 12 refused: Ord on a union, PartialOrd beside it *)
  Definition r4 := mk [educe (flags ["PartialOrd"; "Ord"])] (DUnion [fld0 (Some "a") u8]).

  (** both sides true *)
  Example accepted_both :
    map (verdict all_traits) [c1; c2; c3; c4; c5; c6; c7; c8] = repeat (true, true, true, true) 8.
  Proof. vm_compute. reflexivity. Qed.
  (** both sides false *)
  Example refused_both :
    map (fun d => (verdict all_traits d, outcome_tag (expand all_traits d))) [r1; r2; r3; r4]
    = [((true, true, false, false), "E_deref_none"); ((true, true, false, false), "E_attr_format");
       ((true, true, false, false), "E_into_no_field"); ((true, true, false, false), "E_no_union")].
  Proof. vm_compute. reflexivity. Qed.

  (** Copy beside Clone: Copy's own part is empty, the part kept for Copy is Clone's, and the
      request restricted to [keep_for TCopy] is accepted with those items *)
  Example copy_part_empty :
    exists ps, expand_parts all_traits c1 = Ok ps
      /\ map (fun p => (fst p, List.length (snd p))) ps
         = [(TDebug, 0); (TClone, 2); (TCopy, 0); (TPartialEq, 0); (TEq, 0); (TPartialOrd, 0);
            (TOrd, 0); (THash, 0); (TDefault, 0); (TDeref, 0); (TDerefMut, 0); (TInto, 0)]
      /\ expand all_traits (restrict (keep_for TCopy) c1)
         = Ok (parts_items (map (keep_part (keep_for TCopy)) ps)).
  Proof. eexists. split; [vm_compute; reflexivity|]. split; vm_compute; reflexivity. Qed.
  (** the same for the two other couplings *)
  Example companion_parts_empty :
    (exists ps, expand_parts all_traits c2 = Ok ps
       /\ map (fun p => List.length (snd p)) ps = [0; 0; 0; 2; 0; 0; 0; 0; 0; 0; 0; 0]
       /\ is_ok (expand all_traits (restrict (keep_for TEq) c2)) = true)
    /\ (exists ps, expand_parts all_traits c3 = Ok ps
       /\ map (fun p => List.length (snd p)) ps = [0; 0; 0; 2; 0; 0; 2; 0; 0; 0; 0; 0]
       /\ is_ok (expand all_traits (restrict (keep_for TPartialOrd) c3)) = true).
  Proof.
    split; (eexists; split; [vm_compute; reflexivity|]; split; vm_compute; reflexivity).
  Qed.
  (** `Into`: one item per target *)
  Example into_items :
    exists ps, expand_parts all_traits c4 = Ok ps
      /\ map (fun p => List.length (snd p)) ps = [1; 0; 0; 0; 0; 0; 0; 0; 0; 0; 0; 2]
      /\ expand all_traits (restrict (keep_for TInto) c4)
         = Ok (parts_items (map (keep_part (keep_for TInto)) ps)).
  Proof. eexists. split; [vm_compute; reflexivity|]. split; vm_compute; reflexivity. Qed.

  (** a disabled feature: a trait whose feature is off cannot be NAMED — the collection itself
      refuses ([C15_named_enabled]), so the hypothesis of the equivalence does not hold; naming the
      companion alone is fine, its handler then writes its own impl *)
  Definition noClone : features := filter (fun t => negb (trait_eqb t TClone)) all_traits.
  Example disabled_named :
    foldM (collect_attr noClone) [] (d_attrs c1) = Err E_unsupported_trait
    /\ verdict noClone c1 = (false, false, false, false).
  Proof. split; vm_compute; reflexivity. Qed.
  Example disabled_partner :
    verdict noClone c6 = (true, true, true, true)
    /\ map (fun t => is_ok (expand noClone (restrict (keep_for t) c6))) [TCopy; TEq; TPartialOrd]
       = [true; true; true].
  Proof. split; vm_compute; reflexivity. Qed.

  (** [->] needs no [metas_educed]: a field attribute of a trait that is not educed makes the whole
      request refused — and then there is nothing to show; [<-] does need it (C15b, the need_ examples) *)
  Definition u1 := mk [educe [I "Debug"]] (DStruct (FNamed [fld (Some "x") (ign "Hash") u8])).
  Example without_metas_educed : verdict all_traits u1 = (true, false, false, true).
  Proof. vm_compute. reflexivity. Qed.

  (** the theorem applied *)
  Example iff_applied :
    exists tm, foldM (collect_attr all_traits) [] (d_attrs c7) = Ok tm
      /\ map fst tm = [TDebug; TClone; TCopy; TPartialEq; TEq; TPartialOrd; TOrd; THash; TDefault]
      /\ ((exists items, expand all_traits c7 = Ok items) <->
          (forall t, In t (map fst tm) ->
             exists its, expand all_traits (restrict (keep_for t) c7) = Ok its)).
  Proof.
    eexists. split; [vm_compute; reflexivity|]. split; [reflexivity|].
    apply C15_acceptance_iff; [vm_compute; reflexivity|discriminate|vm_compute; reflexivity].
  Qed.
  Example parts_from_whole :
    forall t, In t [TDebug; TClone; TCopy; TPartialEq; TEq; TPartialOrd; TOrd; THash; TDefault] ->
      exists its, expand all_traits (restrict (keep_for t) c7) = Ok its.
  Proof.
    destruct iff_applied as [tm [_ [Hk Hiff]]]. rewrite <- Hk. apply Hiff.
    eexists. vm_compute. reflexivity.
  Qed.
End Tests.
