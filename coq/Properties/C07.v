(** * C07 — Clone and clone_from reproduce the source value field by field

    Statements only; each is closed by [exact] of a lemma proved in
    Proofs/P_C07*.v and followed by [Print Assumptions].

    Reading guide.  [expand_clone F traits d m] is the model of
    src/trait_handlers/clone (tied to /repo by K1); it emits the Clone impl
    and, when Copy is educed as well, the Copy impl.  [run_clone I it x] runs
    the `clone` method of the emitted impl [it] on a place holding [x] in the
    semantics of Sem/Interp.v and returns the result together with the trace
    of calls; [run_clone_from I it a b] runs `a.clone_from(&b)` (the emitted
    `clone_from`, or the method the trait provides, `*self = source.clone()`,
    when the impl does not define one) on a store holding [a] under the
    mutable root `self` and [b] under `source`, and returns the final contents
    of both roots and the trace.  [I : interp] gives ARBITRARY behaviour to the
    field types' own `clone` / `clone_from` and to the user's `method`
    functions.  [clone_cfg] is the request as read from the attributes (per
    variant: the keyed fields, each with its optional method; whether Copy is
    educed).  [spec_clone] is the meaning written from the property statement:
    the same variant, field [k] := method(&x.k) or <field type>::clone(&x.k),
    with exactly one call event per field, in declaration order, on that
    field; or, when Copy is educed and no method is in use ([bitwise]), [x]
    itself and no call at all.  Unions are C20. *)
From Educe.Proofs Require Import P_C07c.

(** `x.clone()` is the field-wise clone, each field cloned exactly once, in order
    (structs and enums, every shape, with or without Copy). *)
Theorem C07_clone :
  forall (I : interp) F traits d m items c x,
    data_wf (d_data d) ->
    expand_clone F traits d m = Ok items ->
    clone_cfg F traits d = Ok c ->
    cvalue_ok c x = true ->
    exists it rest, items = it :: rest /\ run_clone I it x = spec_clone I c x.
Proof. exact clone_correct. Qed.
Print Assumptions C07_clone.

(** what [spec_clone] is: the same variant with the same fields, and one call per field
    (none at all in the bitwise case) *)
Theorem C07_clone_shape :
  forall (I : interp) c vn xs v tr l,
    spec_clone I c (VData vn xs) = Some (v, tr) ->
    creq_get vn (cc_variants c) = Some l ->
    if bitwise c then v = VData vn xs /\ tr = []
    else exists vs, v = VData vn vs /\ map fst vs = map fst l /\ List.length tr = List.length l.
Proof. exact spec_clone_shape. Qed.
Print Assumptions C07_clone_shape.

(** After `a.clone_from(&b)`, for ANY prior [a] of the type (same or another
    variant, any field contents), `self` holds exactly what `b.clone()`
    returns and `source` still holds [b]; the calls made are those of
    [spec_clone_from_trace].  Hypotheses: the field types' `clone_from(dst,
    src)` leaves `dst = src.clone()` ([lawful_clone_from]); `Clone::clone` on
    a value of type Self is the emitted `clone` itself ([self_dispatch];
    satisfiable over any field behaviour, see [C07_self_dispatch]). *)
Theorem C07_clone_from :
  forall (I : interp) F traits d m it rest c a b,
    data_wf (d_data d) ->
    expand_clone F traits d m = Ok (it :: rest) ->
    clone_cfg F traits d = Ok c ->
    lawful_clone_from I ->
    self_dispatch I it c ->
    cvalue_ok c a = true -> cvalue_ok c b = true ->
    exists v tr, spec_clone I c b = Some (v, tr) /\
                 run_clone_from I it a b = Some (v, b, spec_clone_from_trace c a b).
Proof. exact clone_from_correct. Qed.
Print Assumptions C07_clone_from.

(** [self_dispatch] can always be arranged without constraining the field types
    or the user's methods: [tie_clone I it] behaves as [I] everywhere except
    that `Clone::clone` on Self-shaped values is the emitted `clone`. *)
Theorem C07_self_dispatch :
  forall (I : interp) F traits d m it rest c,
    data_wf (d_data d) ->
    expand_clone F traits d m = Ok (it :: rest) ->
    clone_cfg F traits d = Ok c ->
    self_dispatch (tie_clone I it) it c /\
    (forall x, is_atom x = true -> i_clone (tie_clone I it) x = i_clone I x) /\
    (forall dst src, i_clone_from (tie_clone I it) dst src = i_clone_from I dst src) /\
    (forall p args, i_user (tie_clone I it) p args = i_user I p args).
Proof. exact self_dispatch_tie. Qed.
Print Assumptions C07_self_dispatch.

(** The Copy impl is emitted exactly when Copy is educed, with the generics
    and where-clause of the Clone impl; and when no custom method is in use
    ([bitwise]) the body of `clone` is `*self` — a bitwise copy, no call event
    at all — and no `clone_from` is defined. *)
Theorem C07_copy :
  forall (I : interp) F traits d m items c,
    expand_clone F traits d m = Ok items ->
    clone_cfg F traits d = Ok c ->
    exists it,
      items = it :: (if cc_copy c then [copy_impl d (i_generics it)] else []) /\
      i_self it = d_name d /\ i_trait it = Some (core_path ["clone"; "Clone"]) /\
      (bitwise c = true ->
       find_fn "clone" it = Some [EDeref (EVar "self")] /\
       find_fn "clone_from" it = None /\
       forall x, run_clone I it x = Some (x, [])).
Proof. exact copy_correct. Qed.
Print Assumptions C07_copy.

(** The request is readable whenever the handler succeeds (struct / enum): the
    hypothesis [clone_cfg .. = Ok c] of the theorems above costs nothing. *)
Theorem C07_cfg_total :
  forall F traits d m items,
    expand_clone F traits d m = Ok items ->
    (forall fs, d_data d <> DUnion fs) ->
    exists c, clone_cfg F traits d = Ok c.
Proof. exact clone_cfg_total. Qed.
Print Assumptions C07_cfg_total.

(** Non-vacuity: an enum with a tuple variant (plain field, method field, plain
    field), a named variant with a raw identifier, a unit variant; field
    clones that change the value (so a skipped or crossed field shows), a
    `clone_from` that is lawful; all hypotheses hold and both sides compute. *)
Module Example.
  Definition educe (ts : toks) : attr := {| a_path := ["educe"]; a_meta := AMList Paren ts |}.
  Definition fld (n : option string) (ts : toks) : field :=
    {| f_attrs := [educe ts]; f_name := n; f_ty := [I "u8"] |}.
  Definition fld0 (n : option string) : field := {| f_attrs := []; f_name := n; f_ty := [I "u8"] |}.
  Definition variants : list variant :=
    [ {| v_attrs := []; v_name := "T"; v_discr := None;
         v_fields := FUnnamed [fld0 None; fld None [I "Clone"; G Paren [I "method"; G Paren [I "m"]]];
                               fld0 None] |};
      {| v_attrs := []; v_name := "N"; v_discr := None;
         v_fields := FNamed [fld0 (Some "x"); fld0 (Some "r#type")] |};
      {| v_attrs := []; v_name := "U"; v_discr := None; v_fields := FUnit |} ].
  Definition d : dinput :=
    {| d_attrs := [educe [I "Clone"]]; d_name := "E";
       d_generics := {| g_params := []; g_trailing := false; g_where := []; g_where_trailing := false |};
       d_data := DEnum variants |}.
  (* the same fields without the method, Clone and Copy both educed *)
  Definition dc : dinput :=
    {| d_attrs := [educe [I "Clone"; P ","; I "Copy"]]; d_name := "S";
       d_generics := d_generics d;
       d_data := DStruct (FUnnamed [fld0 None; fld0 None; fld0 None]) |}.
  Definition I1 : interp :=
    {| i_ne := fun _ _ => true; i_eq := fun _ _ => false;
       i_cmp := fun _ _ => Eq; i_partial_cmp := fun _ _ => None;
       i_user := fun _ args => match args with [VAtom a] => VAtom (a + 1000) | _ => VUnit end;
       i_clone := fun v => match v with VAtom a => VAtom (a + 100) | _ => v end;
       i_clone_from := fun _ v => match v with VAtom a => VAtom (a + 100) | _ => v end;
       i_into := fun v => v; i_default := fun _ => VUnit;
       i_size_of_self := 0 |}.
  Definition m : meta := MPath {| mp_lead := false; mp_segs := ["Clone"] |}.
  Definition items := match expand_clone all_traits [TClone] d m with Ok l => l | _ => [] end.
  Definition it := hd (copy_impl d (d_generics d)) items.
  Definition c := match clone_cfg all_traits [TClone] d with
                  | Ok c => c | _ => {| cc_copy := false; cc_variants := [] |} end.
  Definition I0 : interp := tie_clone I1 it.
  Definition tup (a b c : Z) : value := VData (Some "T") [("0", VAtom a); ("1", VAtom b); ("2", VAtom c)].
  Definition nam (a b : Z) : value := VData (Some "N") [("x", VAtom a); ("r#type", VAtom b)].
  Definition unit : value := VData (Some "U") [].

  Example hypotheses_hold :
    expand_clone all_traits [TClone] d m = Ok (it :: tl items) /\
    clone_cfg all_traits [TClone] d = Ok c /\
    cvalue_ok c (tup 1 2 3) = true /\ cvalue_ok c (nam 4 5) = true /\ cvalue_ok c unit = true /\
    bitwise c = false /\
    lawful_clone_from I0 /\ self_dispatch I0 it c.
  Proof.
    assert (He : expand_clone all_traits [TClone] d m = Ok (it :: tl items)) by (vm_compute; reflexivity).
    assert (Hc : clone_cfg all_traits [TClone] d = Ok c) by (vm_compute; reflexivity).
    assert (Hwf : data_wf (d_data d)).
    { cbn. intros v [<-|[<-|[<-|[]]]]; cbn; auto.
      - intros f [<-|[<-|[<-|[]]]]; reflexivity.
      - split; [intros f [<-|[<-|[]]]; cbn; congruence|].
        repeat constructor; cbn; intuition congruence. }
    split; [exact He|]. split; [exact Hc|].
    do 4 (split; [vm_compute; reflexivity|]).
    split.
    - intros dst s Hs. destruct s; try discriminate Hs. reflexivity.
    - exact (proj1 (C07_self_dispatch I1 all_traits [TClone] d m it (tl items) c Hwf He Hc)).
  Qed.

  (** clone: field 1 goes through the method (+1000), the others through the
      field type's clone (+100); one call per field, in order *)
  Example clone_computes :
    run_clone I0 it (tup 1 2 3)
    = Some (tup 101 1002 103, [EvClone (VAtom 1); EvUser [I "m"] [VAtom 2]; EvClone (VAtom 3)]) /\
    spec_clone I0 c (tup 1 2 3)
    = Some (tup 101 1002 103, [EvClone (VAtom 1); EvUser [I "m"] [VAtom 2]; EvClone (VAtom 3)]) /\
    run_clone I0 it (nam 4 5) = Some (nam 104 105, [EvClone (VAtom 4); EvClone (VAtom 5)]) /\
    run_clone I0 it unit = Some (unit, []).
  Proof. repeat split; vm_compute; reflexivity. Qed.

  (** clone_from: same variant (field-wise, through the places of `self`),
      another variant (the fallback replaces `self` by a clone of `source`) *)
  Example clone_from_computes :
    run_clone_from I0 it (tup 7 8 9) (tup 1 2 3)
    = Some (tup 101 1002 103, tup 1 2 3,
            [EvCloneFrom (VAtom 7) (VAtom 1); EvUser [I "m"] [VAtom 2]; EvCloneFrom (VAtom 9) (VAtom 3)]) /\
    spec_clone_from_trace c (tup 7 8 9) (tup 1 2 3)
    = [EvCloneFrom (VAtom 7) (VAtom 1); EvUser [I "m"] [VAtom 2]; EvCloneFrom (VAtom 9) (VAtom 3)] /\
    run_clone_from I0 it (nam 4 5) (tup 1 2 3) = Some (tup 101 1002 103, tup 1 2 3, [EvClone (tup 1 2 3)]) /\
    run_clone_from I0 it unit (nam 4 5) = Some (nam 104 105, nam 4 5, [EvClone (nam 4 5)]) /\
    run_clone_from I0 it (tup 1 2 3) unit = Some (unit, unit, [EvClone unit]).
  Proof. repeat split; vm_compute; reflexivity. Qed.

  (** Copy educed as well, no method: `*self`, no call, and the Copy impl *)
  Definition mc : meta := MPath {| mp_lead := false; mp_segs := ["Clone"] |}.
  Definition items_c := match expand_clone all_traits [TClone; TCopy] dc mc with Ok l => l | _ => [] end.
  Definition cc := match clone_cfg all_traits [TClone; TCopy] dc with
                   | Ok c => c | _ => {| cc_copy := false; cc_variants := [] |} end.
  Definition s3 (a b c : Z) : value := VData None [("0", VAtom a); ("1", VAtom b); ("2", VAtom c)].
  Example copy_computes :
    expand_clone all_traits [TClone; TCopy] dc mc = Ok items_c /\
    clone_cfg all_traits [TClone; TCopy] dc = Ok cc /\
    bitwise cc = true /\ List.length items_c = 2 /\
    option_map (fun it => run_clone I1 it (s3 1 2 3)) (hd_error items_c) = Some (Some (s3 1 2 3, [])) /\
    spec_clone I1 cc (s3 1 2 3) = Some (s3 1 2 3, []) /\
    option_map (fun it => run_clone_from I1 it (s3 7 8 9) (s3 1 2 3)) (hd_error items_c)
    = Some (Some (s3 1 2 3, s3 1 2 3, [])).
  Proof. repeat split; vm_compute; reflexivity. Qed.

  (** Observation (replayed on the real macro, rustc rejects the expansion with
      E0204): on an enum with Clone and Copy educed and a custom method on one
      field, the clone is field-wise and the Copy impl — emitted with the Clone
      impl's where-clause, as [C07_copy] states — bounds the generic field
      type by `Clone` only:
        #[derive(Educe)] #[educe(Clone, Copy)]
        enum E<T> { V(#[educe(Clone(method = dup))] u8, T), W }
      gives `impl<T> ::core::marker::Copy for E<T> where T: ::core::clone::Clone {}`. *)
  Definition dg : dinput :=
    {| d_attrs := [educe [I "Clone"; P ","; I "Copy"]]; d_name := "E";
       d_generics := {| g_params := [GType "T" [] None]; g_trailing := false; g_where := [];
                        g_where_trailing := false |};
       d_data := DEnum
         [ {| v_attrs := []; v_name := "V"; v_discr := None;
              v_fields := FUnnamed [ {| f_attrs := [educe [I "Clone"; G Paren [I "method"; P "="; I "dup"]]];
                                        f_name := None; f_ty := [I "u8"] |};
                                     {| f_attrs := []; f_name := None; f_ty := [I "T"] |} ] |};
           {| v_attrs := []; v_name := "W"; v_discr := None; v_fields := FUnit |} ] |}.
  Example copy_impl_bounded_by_clone :
    match expand_clone all_traits [TClone; TCopy] dg mc with
    | Ok l => map (fun it => (i_trait it, g_where (i_generics it))) l
    | _ => []
    end
    = [(Some (core_path ["clone"; "Clone"]), [[I "T"; P ":"] ++ core_path ["clone"; "Clone"]]);
       (Some (core_path ["marker"; "Copy"]), [[I "T"; P ":"] ++ core_path ["clone"; "Clone"]])].
  Proof. vm_compute. reflexivity. Qed.
End Example.
