(** * C04 — enum variants order by declared discriminant, never by memory layout

    Statements only; each is closed by [exact] of a lemma proved in
    Proofs/P_C04.v / P_C03*.v and followed by [Print Assumptions].
    See Properties/C03.v for the reading guide.

    The emitted enum comparison starts with [EDiscrMatch ds eq gt lt]
    (ord_enum.rs / partial_ord_enum.rs: a `match` on
    `Ord::cmp(&match self { Self::V {..} => <d>i128, .. }, &match other { .. })`),
    whose meaning in Sem/Interp.v compares the DECLARED discriminant values
    [ds] of the variants `self` and `other` are in.  The semantics has no
    notion of layout at all: values are variant name + fields.  What ties this
    to "every payload and layout the compiler may choose" is
    [C04_no_memory_read]: for every input, the emitted items are built only
    from constructs whose Rust meaning does not depend on representation (no
    `unsafe`, cast, dereference, spliced tokens, macro, assignment, `&mut`). *)
From Educe.Proofs Require Import P_C04.

(** different variants: the result is the comparison of the declared discriminants *)
Theorem C04_cross_variant :
  forall (I : interp) F traits d m items c na nb xs ys da la db lb,
    data_wf (d_data d) ->
    expand_ord F traits d m = Ok items ->
    ord_cfg F (own_ord F traits) traits d = Ok c ->
    omethods_typed false I c ->
    ovalue_ok c (VData (Some na) xs) = true -> ovalue_ok c (VData (Some nb) ys) = true ->
    oc_get (Some na) c = Some (da, la) -> oc_get (Some nb) c = Some (db, lb) -> na <> nb ->
    exists it rest, items = it :: rest /\
      run_cmp I it (VData (Some na) xs) (VData (Some nb) ys) = Some (Z.compare da db).
Proof. exact ord_cross_variant. Qed.
Print Assumptions C04_cross_variant.

Theorem C04_partial_cross_variant :
  forall (I : interp) F traits d m items c na nb xs ys da la db lb,
    has_trait TOrd F && has_trait TOrd traits = false ->
    data_wf (d_data d) ->
    expand_partial_ord F traits d m = Ok items ->
    ord_cfg F (trait_eqb TPartialOrd) traits d = Ok c ->
    omethods_typed true I c ->
    ovalue_ok c (VData (Some na) xs) = true -> ovalue_ok c (VData (Some nb) ys) = true ->
    oc_get (Some na) c = Some (da, la) -> oc_get (Some nb) c = Some (db, lb) -> na <> nb ->
    exists it rest, items = it :: rest /\
      run_partial_cmp I it (VData (Some na) xs) (VData (Some nb) ys) = Some (Some (Z.compare da db)).
Proof. exact partial_ord_cross_variant. Qed.
Print Assumptions C04_partial_cross_variant.

(** the discriminants in the request are [discriminant_values] of the enum ... *)
Theorem C04_cfg_discriminants :
  forall F own traits d vs c n da la,
    d_data d = DEnum vs -> ord_cfg F own traits d = Ok c ->
    oc_get (Some n) c = Some (da, la) ->
    exists ds, discriminant_values vs = Ok ds /\ lookup n ds = Some da.
Proof. exact ord_cfg_discriminants. Qed.
Print Assumptions C04_cfg_discriminants.

(** ... which are: the explicit literal where written ([discr_value] reads
    it), otherwise the predecessor's value plus one (`saturating_add`, as in
    the real code), the first being 0 — an exact characterisation ... *)
Theorem C04_discriminant_values_rule :
  forall vs ds, discriminant_values vs = Ok ds <-> discrs_ok None vs ds.
Proof. exact discriminant_values_rule. Qed.
Print Assumptions C04_discriminant_values_rule.

(** ... and, on enums rustc accepts (no implicit discriminant after
    i128::MAX: E0370), the Rust reference's rule [spec_discrs] *)
Theorem C04_discriminant_values_declared :
  forall vs ds,
    discriminant_values vs = Ok ds -> no_discr_overflow (-1)%Z vs ds -> spec_discrs vs = Ok ds.
Proof. exact discriminant_values_declared. Qed.
Print Assumptions C04_discriminant_values_declared.

(** same variant: the fields alone decide (C03's result; no discriminant occurs in it) *)
Theorem C04_same_variant_fields_only :
  forall (I : interp) F traits d m items c n xs ys da la,
    data_wf (d_data d) ->
    expand_ord F traits d m = Ok items ->
    ord_cfg F (own_ord F traits) traits d = Ok c ->
    omethods_typed false I c ->
    ovalue_ok c (VData (Some n) xs) = true -> ovalue_ok c (VData (Some n) ys) = true ->
    oc_get (Some n) c = Some (da, la) ->
    exists it rest, items = it :: rest /\
      run_cmp I it (VData (Some n) xs) (VData (Some n) ys) = Some (lex_cmp I (visit_order la) xs ys).
Proof. exact (fun I F traits d m items c n => ord_same_variant I F traits d m items c (Some n)). Qed.
Print Assumptions C04_same_variant_fields_only.

Theorem C04_partial_same_variant_fields_only :
  forall (I : interp) F traits d m items c n xs ys da la,
    has_trait TOrd F && has_trait TOrd traits = false ->
    data_wf (d_data d) ->
    expand_partial_ord F traits d m = Ok items ->
    ord_cfg F (trait_eqb TPartialOrd) traits d = Ok c ->
    omethods_typed true I c ->
    ovalue_ok c (VData (Some n) xs) = true -> ovalue_ok c (VData (Some n) ys) = true ->
    oc_get (Some n) c = Some (da, la) ->
    exists it rest, items = it :: rest /\
      run_partial_cmp I it (VData (Some n) xs) (VData (Some n) ys) =
      Some (lex_partial_cmp I (visit_order la) xs ys).
Proof.
  exact (fun I F traits d m items c n => partial_ord_same_variant I F traits d m items c (Some n)).
Qed.
Print Assumptions C04_partial_same_variant_fields_only.

(** no memory read: for EVERY input on which the handlers succeed, every
    method body of every emitted item passes [no_mem] *)
Theorem C04_no_memory_read :
  forall F traits d m items,
    (expand_ord F traits d m = Ok items -> forallb item_no_mem items = true) /\
    (expand_partial_ord F traits d m = Ok items -> forallb item_no_mem items = true).
Proof.
  intros F traits d m items. split;
    [exact (ord_no_memory_read F traits d m items)|exact (partial_ord_no_memory_read F traits d m items)].
Qed.
Print Assumptions C04_no_memory_read.

(** ... in particular the two bodies, for all plans and all discriminant tables *)
Theorem C04_bodies_no_memory_read :
  forall partial,
    (forall p, forallb no_mem (cmp_struct_body partial p) = true) /\
    (forall ds vps, forallb no_mem (cmp_enum_body partial ds vps) = true).
Proof.
  intros partial. split; [exact (cmp_struct_body_no_mem partial)|exact (cmp_enum_body_no_mem partial)].
Qed.
Print Assumptions C04_bodies_no_memory_read.

(** Non-vacuity:
      enum E { A = 5, B(#[educe(Ord(rank = 3))] u8, #[educe(Ord(ignore))] u8, #[educe(Ord(rank = -7))] u8),
               C { x: u8, #[educe(Ord(method(m)))] y: u8 } = -3, D }
    declared discriminants A = 5, B = 6, C = -3, D = -2: C < D < A < B, which is
    neither the declaration order nor any tag order a layout would give. *)
Module Example.
  Definition educe (ts : toks) : attr := {| a_path := ["educe"]; a_meta := AMList Paren ts |}.
  Definition fld (n : option string) (ts : toks) : field :=
    {| f_attrs := [educe ts]; f_name := n; f_ty := [I "u8"] |}.
  Definition fld0 (n : option string) : field := {| f_attrs := []; f_name := n; f_ty := [I "u8"] |}.
  Definition int (z : Z) (s : string) : tt := TLit (LKInt z "") s.
  Definition nog : generics :=
    {| g_params := []; g_trailing := false; g_where := []; g_where_trailing := false |}.
  Definition vs : list variant :=
    [ {| v_attrs := []; v_name := "A"; v_fields := FUnit; v_discr := Some [int 5 "5"] |};
      {| v_attrs := []; v_name := "B"; v_discr := None;
         v_fields := FUnnamed [fld None [I "Ord"; G Paren [I "rank"; P "="; int 3 "3"]];
                               fld None [I "Ord"; G Paren [I "ignore"]];
                               fld None [I "Ord"; G Paren [I "rank"; P "="; P "-"; int 7 "7"]]] |};
      {| v_attrs := []; v_name := "C"; v_discr := Some [P "-"; int 3 "3"];
         v_fields := FNamed [fld0 (Some "x");
                             fld (Some "y") [I "Ord"; G Paren [I "method"; G Paren [I "m"]]]] |};
      {| v_attrs := []; v_name := "D"; v_fields := FUnit; v_discr := None |} ].
  Definition d : dinput :=
    {| d_attrs := [educe [I "Ord"]]; d_name := "E"; d_generics := nog; d_data := DEnum vs |}.
  Definition m : meta := MPath {| mp_lead := false; mp_segs := ["Ord"] |}.
  Definition I0 : interp :=
    {| i_ne := fun _ _ => true; i_eq := fun _ _ => false;
       i_cmp := fun x y => match x, y with VAtom a, VAtom b => Z.compare a b | _, _ => Eq end;
       i_partial_cmp := fun _ _ => None;
       i_user := fun _ args => match args with
                               | [VAtom a; VAtom b] => VOrd (Z.compare b a)
                               | _ => VOrd Eq
                               end;
       i_size_of_self := 0;
       i_clone := fun v => v;
       i_clone_from := fun _ v => v;
       i_into := fun v => v;
       i_default := fun _ => VUnit |}.
  Definition vA : value := VData (Some "A") [].
  Definition vB (a b c : Z) : value := VData (Some "B") [("0", VAtom a); ("1", VAtom b); ("2", VAtom c)].
  Definition vC (x y : Z) : value := VData (Some "C") [("x", VAtom x); ("y", VAtom y)].
  Definition vD : value := VData (Some "D") [].

  Definition items := match expand_ord all_traits [TOrd] d m with Ok l => l | _ => [] end.
  Definition c := match ord_cfg all_traits (own_ord all_traits [TOrd]) [TOrd] d with Ok c => c | _ => [] end.

  Example discriminants :
    discriminant_values vs = Ok [("A", 5); ("B", 6); ("C", -3); ("D", -2)]%Z /\
    spec_discrs vs = Ok [("A", 5); ("B", 6); ("C", -3); ("D", -2)]%Z /\
    no_discr_overflow (-1)%Z vs [("A", 5); ("B", 6); ("C", -3); ("D", -2)]%Z.
  Proof.
    split; [vm_compute; reflexivity|]. split; [vm_compute; reflexivity|].
    cbn. repeat split; intros; try discriminate; reflexivity.
  Qed.

  Example typed : omethods_typed false I0 c.
  Proof.
    intros vn dd l Hin k fa x y Hk mm Hm.
    exists (Some (match x, y with VAtom a, VAtom b => Z.compare b a | _, _ => Eq end)).
    split; [|discriminate].
    destruct x as [| | | | |a| | | | | |]; try reflexivity.
    destruct y as [| | | | |b| | | | | |]; reflexivity.
  Qed.

  Example hypotheses_hold :
    data_wf (d_data d) /\
    expand_ord all_traits [TOrd] d m = Ok items /\
    ord_cfg all_traits (own_ord all_traits [TOrd]) [TOrd] d = Ok c /\
    ovalue_ok c vA = true /\ ovalue_ok c (vB 1 2 3) = true /\ ovalue_ok c (vC 1 2) = true /\
    ovalue_ok c vD = true /\
    option_map fst (oc_get (Some "C") c) = Some (-3)%Z /\
    forallb item_no_mem items = true /\ List.length items = 1.
  Proof.
    split.
    - cbn. intros v Hv. repeat (destruct Hv as [<-|Hv]; [|]); try destruct Hv; cbn; auto.
      + intros f Hf. repeat (destruct Hf as [<-|Hf]; [reflexivity|]). destruct Hf.
      + split.
        * intros f Hf. repeat (destruct Hf as [<-|Hf]; [discriminate|]). destruct Hf.
        * vm_compute. repeat constructor; cbn; intuition discriminate.
    - repeat split; vm_compute; reflexivity.
  Qed.

  Definition run a b := option_map (fun it => run_cmp I0 it a b) (hd_error items).

  (** cross-variant: by discriminant (C = -3 < D = -2 < A = 5 < B = 6), whatever the payloads;
      same variant B: field 2 (rank -7) before field 0, field 1 ignored;
      same variant C: x, then the method on y with the left operand first *)
  Example computes :
    run vA (vC 9 9) = Some (Some Gt) /\ spec_cmp I0 c vA (vC 9 9) = Some Gt /\
    run (vC 9 9) vD = Some (Some Lt) /\ spec_cmp I0 c (vC 9 9) vD = Some Lt /\
    run vD vA = Some (Some Lt) /\
    run (vB 0 0 0) vA = Some (Some Gt) /\ spec_cmp I0 c (vB 0 0 0) vA = Some Gt /\
    run (vB 1 5 2) (vB 2 6 1) = Some (Some Gt) /\ spec_cmp I0 c (vB 1 5 2) (vB 2 6 1) = Some Gt /\
    run (vB 1 5 2) (vB 2 6 2) = Some (Some Lt) /\
    run (vB 1 5 2) (vB 1 6 2) = Some (Some Eq) /\
    run (vC 1 2) (vC 1 3) = Some (Some Gt) /\ spec_cmp I0 c (vC 1 2) (vC 1 3) = Some Gt /\
    run vA vA = Some (Some Eq).
  Proof. repeat split; vm_compute; reflexivity. Qed.
End Example.
