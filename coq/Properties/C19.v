(** * C19 — generated code is insulated from the names at the derive site

    Property text: "the generated impls compile and behave the same whatever names surround or
    appear in the type: in #![no_std] crates (only ::core paths are used), in modules that shadow
    prelude names such as Option, Some, None, Result, Ok, Err, Ordering, Clone, Default or Debug,
    and for types whose field, variant, lifetime, const- or type-parameter names coincide with
    whatever identifiers the generated code happens to use internally".

    Rustc's name resolution is not formalised.  What is proved here are DECIDABLE STATIC JUDGMENTS
    on the AST the model emits (Spec/Hygiene.v), for EVERY derive input and feature set -- each a
    NECESSARY condition for the property, not the property itself:

    - H1 [C19_absolute_paths]      every name a template writes is `::core::..`, `Self`, `Self::V`,
                                   a helper type its own block declares, a `::core::name!` macro, or
                                   -- in raw token fragments -- an identifier of the explicit
                                   allowlist [template_idents] (plus the computed hasher parameter);
    - H1p [C19_primitives_qualified] that allowlist admits none of the primitive type names the
                                   templates mention (`bool`, `u8`, `str`): wherever a template writes
                                   one, it is a segment of a global path (`::core::primitive::bool`,
                                   `*const ::core::primitive::u8`, `&'static ::core::primitive::str`);
    - H2 [C19_bindings_distinct]   the bindings introduced in one scope are pairwise distinct and
                                   never rebind a parameter or an enclosing binding;
    - H3 [C19_hasher_fresh]        the type parameter of `fn hash<..>` differs from every type and
                                   const parameter of the type;
    - H4 [C19_no_std]              no path written by a template starts with `std` or `alloc`.

    RESIDUAL EXPOSURES (the property as worded is FALSE on the current tree; each is shown below by
    a witness of the model and was confirmed with rustc 1.95 on the real macro):
    - R1 (CLOSED by the repair of the templates: primitive type names used to be written unqualified,
      `-> bool` (PartialEq), `*const u8` (unions), `&'static str` (Debug helper), and `struct bool;`
      next to `#[educe(PartialEq)]` gave E0053.  They are now `::core::primitive::..`; the allowance
      for them is gone from [template_idents] and [C19_primitives_qualified] replaces the witness.)
    - R2 user fragments are spliced INSIDE the scope of the template's parameters and bindings: a
      `method = state` / a default expression / a where-predicate mentioning `state`, `other`, `f`,
      `source`, `__H`, `_s_x` .. is captured.  `Hash(method(state))` => E0618.
    - R3 identifier patterns resolve to constants: a `const _0: u8`, a unit struct `_s_a` or a const
      generic parameter named like a binding (`_0`, `_x`, `v_x`, `_s_x` ..) or like a parameter
      (`struct S<const f: usize>` under Debug => "`f` is interpreted as a const parameter") in scope
      at the derive site turns the template's binding into a constant pattern.  H2 is about the
      names the TEMPLATE introduces; it cannot exclude this (std's own derives have the same
      exposure).
    - R4 built-in attribute names (`#[inline]`, `#[allow(..)]`, `#[doc = ..]`) are ambiguous with
      a user attribute macro of the same name in scope (E0659), as for every derive. *)
From Coq Require Import List String Bool.
From Educe.Proofs Require Import P_C19c P_C19d P_C19f P_C19g.
Import ListNotations.
Open Scope string_scope.

(** ** H1 : absolute paths.  [request_cfg F d] lists what is USER-supplied in the three mixed
    positions (default expressions; Into targets and the Deref `Target`; the hasher name); field
    types, `method` paths and the pieces of the Debug helper impl that come from the type's header
    are user positions by construction of the AST.  [item_hyg] covers the impl's attributes, trait
    path, every method's attributes, signature and body. *)
Theorem C19_absolute_paths :
  forall (F : features) (d : dinput) (items : list item),
    expand F d = Ok items -> forallb (item_hyg (request_cfg F d)) items = true.
Proof. exact expand_hyg. Qed.
Print Assumptions C19_absolute_paths.

(** ... under an allowlist that admits NONE of the primitive type names `bool`, `u8`, `str`
    ([prim_idents]): in every expansion, no token fragment written by a template has one of them
    (or any identifier outside [template_idents] and the hasher parameter) in a position where it is
    looked up at the derive site.  The templates spell them `::core::primitive::bool` (signature of
    `eq`), `*const ::core::primitive::u8` (byte views of the union impls) and
    `&'static ::core::primitive::str` (the helper `Educe__RawString`): segments of a global `::core`
    path, which [tok_step] reads without consulting the allowlist. *)
Theorem C19_primitives_qualified :
  forall (F : features) (d : dinput) (items : list item),
    expand F d = Ok items ->
    (forall s, In s prim_idents -> tallow (u_fresh (request_cfg F d)) s = false) /\
    forallb (item_hyg (request_cfg F d)) items = true.
Proof.
  intros F d items H. split; [|exact (expand_hyg F d items H)].
  intros s Hs. change (u_fresh (request_cfg F d)) with (hasher_ident (d_generics d)).
  destruct (hasher_ident_prefix (d_generics d)) as [k ->].
  cbn in Hs. destruct Hs as [<-|[<-|[<-|[]]]]; reflexivity.
Qed.
Print Assumptions C19_primitives_qualified.

(** ... and the predicates the handlers add to the where-clause (all twelve build them with
    [bound_preds] from `::core` trait paths): each is a predicate of the request's `bound(..)`, or
    bounds a field type / `Self` / a type parameter by an absolute `::core` trait. *)
Theorem C19_where_predicates :
  forall cfg (b : bound) (g : generics) (tr : toks) (tys sups : list toks),
    trait_hyg cfg tr = true -> forallb (trait_hyg cfg) sups = true ->
    forallb (pred_hyg cfg (bound_custom b)) (bound_preds b g tr tys sups) = true.
Proof. exact bound_preds_hyg. Qed.
Print Assumptions C19_where_predicates.

(** ** H4 : no `std`, no `alloc` (a corollary of H1) *)
Theorem C19_no_std :
  forall (F : features) (d : dinput) (items : list item),
    expand F d = Ok items -> forallb (item_nostd (request_cfg F d)) items = true.
Proof. exact expand_nostd. Qed.
Print Assumptions C19_no_std.

(** ** H2 : bindings.  Hypotheses = what rustc guarantees before a derive runs: named fields have
    pairwise distinct names (raw prefix aside), tuple fields are unnamed ([data_wf], Spec/SpecEq.v);
    no field is called `self` ([field_names_ok]; used by Deref / DerefMut / Into only, whose arms
    `Self::V { name, .. } => name` bind the field's own name).
    With these, NO clash between two bindings of a template, or between a binding and a parameter
    (`self`, `other`, `state`, `f`, `source`) or a template `let` (`builder`, `arg`, `size`, `data`
    ..), remains possible: a field called `f`, `state`, `other`, `_0`, `_s_a` .. is bound as
    `_f` / `v_state` / `_s_other` / `__0` / `_s__s_a`, prefixing is injective, and `_<i>` never
    equals `__<j>`. *)
Theorem C19_bindings_distinct :
  forall (F : features) (d : dinput) (items : list item),
    data_wf (d_data d) -> field_names_ok (d_data d) ->
    expand F d = Ok items -> forallb item_binds items = true.
Proof. exact expand_binds. Qed.
Print Assumptions C19_bindings_distinct.

(** ** H3 : the hasher parameter *)
Theorem C19_hasher_fresh :
  forall (g : generics) (p : gparam) (n : string),
    In p (g_params g) -> gparam_tc_name p = Some n -> n <> hasher_ident g.
Proof. exact hasher_ident_fresh. Qed.
Print Assumptions C19_hasher_fresh.

(** it is `__H` followed by underscores, hence none of the identifiers of the templates either *)
Theorem C19_hasher_shape :
  forall g, (exists k, hasher_ident g = "__H" ++ k) /\ mem_str (hasher_ident g) template_idents = false.
Proof. intros g. split; [apply hasher_ident_prefix|apply hasher_ident_not_template]. Qed.
Print Assumptions C19_hasher_shape.

(** * A concrete instance: both sides compute, and the checker is not vacuous *)
Module Example.
  Definition ed (ts : toks) : attr := {| a_path := ["educe"]; a_meta := AMList Paren ts |}.
  Definition fld (attrs : list attr) (n : option string) (ty : toks) : field :=
    {| f_attrs := attrs; f_name := n; f_ty := ty |}.

  (** #[derive(Educe)] #[educe(Debug, Clone, PartialEq, Eq, PartialOrd, Ord, Hash)]
      enum E<__H> { A { x: __H, r#type: u8, #[educe(Hash(method(my_hash)), PartialEq(ignore))] z: u8 },
                    B(__H, u8), C }
      -- a type parameter called like the hasher, a raw identifier, a method, an ignored field *)
  Definition d0 : dinput :=
    {| d_attrs := [ed [I "Debug"; P ","; I "Clone"; P ","; I "PartialEq"; P ","; I "Eq"; P ",";
                       I "PartialOrd"; P ","; I "Ord"; P ","; I "Hash"]];
       d_name := "E";
       d_generics := {| g_params := [GType "__H" [] None]; g_trailing := false; g_where := [];
                        g_where_trailing := false |};
       d_data := DEnum
         [{| v_attrs := []; v_name := "A";
             v_fields := FNamed [fld [] (Some "x") [I "__H"]; fld [] (Some "r#type") [I "u8"];
                                 fld [ed [I "Hash"; G Paren [I "method"; G Paren [I "my_hash"]]; P ",";
                                          I "PartialEq"; G Paren [I "ignore"]]] (Some "z") [I "u8"]];
             v_discr := None |};
          {| v_attrs := []; v_name := "B";
             v_fields := FUnnamed [fld [] None [I "__H"]; fld [] None [I "u8"]]; v_discr := None |};
          {| v_attrs := []; v_name := "C"; v_fields := FUnit; v_discr := None |}] |}.

  Definition items0 : list item :=
    match expand all_traits d0 with Ok its => its | _ => [] end.

  (** the request is accepted: seven impls *)
  Example accepted : expand all_traits d0 = Ok items0 /\ List.length items0 = 7.
  Proof. vm_compute. split; reflexivity. Qed.

  (** the hypotheses of H2 hold of it *)
  Example wf : data_wf (d_data d0) /\ field_names_ok (d_data d0).
  Proof.
    split.
    - intros v [<-|[<-|[<-|[]]]]; cbn.
      + split; [intros f [<-|[<-|[<-|[]]]]; discriminate|].
        repeat constructor; cbn; intuition discriminate.
      + intros f [<-|[<-|[]]]; reflexivity.
      + exact Logic.I.
    - intros f Hf. cbn in Hf. intuition (subst; discriminate).
  Qed.

  (** the judgments compute, on this input, to what the theorems say *)
  Example judged :
    forallb (item_hyg (request_cfg all_traits d0)) items0 = true /\
    forallb (item_nostd (request_cfg all_traits d0)) items0 = true /\
    forallb item_binds items0 = true /\
    hasher_ident (d_generics d0) = "__H_".
  Proof. vm_compute. repeat split; reflexivity. Qed.

  (** NON-VACUITY: what a template must not write is refused *)
  Definition cfg0 := request_cfg all_traits d0.
  (** unqualified prelude names, as paths of the AST ... *)
  Example rejects_Some :
    expr_hyg cfg0 [] (ECall (EPath (RLocal ["Some"])) [EVar "x"]) = false /\
    expr_hyg cfg0 [] (EPath (RLocal ["None"])) = false /\
    expr_hyg cfg0 [] (ECall (EPath (RLocal ["Ok"])) [EUnit]) = false /\
    expr_hyg cfg0 [] (EMatch (EVar "x") [(PTuple (RLocal ["Some"]) [PBind "y"] false false, EUnit)]) = false /\
    expr_hyg cfg0 [] (EPath (RLocal ["Option"; "None"])) = false.
  Proof. vm_compute. repeat split; reflexivity. Qed.
  (** ... the helper type outside the block that declares it ... *)
  Example rejects_undeclared_helper :
    expr_hyg cfg0 [] (EBlock [ECall (EPath (RLocal ["Educe__RawString"])) [EStr "a"]]) = false /\
    expr_hyg cfg0 [] (EBlock [EDebugMapBuilder; ECall (EPath (RLocal ["Educe__RawString"])) [EStr "a"]]) = true.
  Proof. vm_compute. split; reflexivity. Qed.
  (** ... and inside raw token fragments: `-> Option<::core::cmp::Ordering>` (the signature the
      pinned tree emitted), `::std::..`, `std::..`, an unqualified macro, a global path that is
      not `::core` *)
  Example rejects_tokens :
    toks_hyg (tallow "__H") [G Paren [P "&"; I "self"]; P "->"; I "Option"; P "<"; P "::"; I "core";
                             P "::"; I "cmp"; P "::"; I "Ordering"; P ">"] = false /\
    toks_hyg (tallow "__H") [P "::"; I "std"; P "::"; I "mem"; P "::"; I "size_of"] = false /\
    toks_hyg (tallow "__H") [I "std"; P "::"; I "mem"; P "::"; I "size_of"] = false /\
    toks_hyg (tallow "__H") [I "stringify"; P "!"; G Paren [I "x"]] = false /\
    toks_hyg (tallow "__H") [P "&"; I "mut"; P "::"; I "alloc"; P "::"; I "string"; P "::"; I "String"] = false /\
    toks_hyg (tallow "__H") partial_cmp_sig = true.
  Proof. vm_compute. repeat split; reflexivity. Qed.
  (** primitive type names: the unqualified spellings the templates used before the repair are
      refused, the qualified ones they emit now pass *)
  Example rejects_bare_primitives :
    toks_hyg (tallow "__H") [G Paren [P "&"; I "self"; P ","; I "other"; P ":"; P "&"; I "Self"];
                             P "->"; I "bool"] = false /\
    toks_hyg (tallow "__H") [P "*"; I "const"; I "u8"] = false /\
    toks_hyg (tallow "__H") [P "&"; TLife "static"; I "str"] = false /\
    toks_hyg (tallow "__H") eq_sig = true /\
    toks_hyg (tallow "__H") const_u8_ty = true /\
    toks_hyg (tallow "__H") [P "&"; TLife "static"; P "::"; I "core"; P "::"; I "primitive"; P "::"; I "str"] = true /\
    toks_hyg (tallow "__H") map_builder_template = true.
  Proof. vm_compute. repeat split; reflexivity. Qed.
  (** bindings: the same name twice in a pattern, a binding equal to a parameter *)
  Example rejects_binders :
    expr_binds (["self"; "other"], [])
      (EMatch (EVar "self") [(PTuple (RSelfV "B") [PBind "_0"; PBind "_0"] true false, EUnit)]) = false /\
    expr_binds (["self"; "other"], [])
      (EMatch (EVar "self") [(PTuple (RSelfV "B") [PBind "other"] true false, EUnit)]) = false /\
    expr_binds (["self"; "other"], [])
      (EMatch (EVar "self")
         [(PTuple (RSelfV "B") [PBind "_0"] true false,
           EBlock [EIfLet (PTuple (RSelfV "B") [PBind "_0"] true false) (EVar "other") [] None])]) = false.
  Proof. vm_compute. repeat split; reflexivity. Qed.
End Example.

(** * The residual exposures, by witnesses *)
Module Residual.
  Import Example.

  (** (R1, unqualified primitive type names, is closed: see [C19_primitives_qualified] and
      [Example.rejects_bare_primitives] above) *)

  (** R2: #[educe(Hash)] struct S { #[educe(Hash(method(state)))] a: u8 } is accepted and emits
      `fn hash<__H: ::core::hash::Hasher>(&self, state: &mut __H) { state(&self.a, state); }`:
      the user's path `state` is spliced inside the scope of the parameter `state`
      (rustc: E0618 expected function, found `&mut __H`) *)
  Definition d_state : dinput :=
    {| d_attrs := [ed [I "Hash"]]; d_name := "S";
       d_generics := {| g_params := []; g_trailing := false; g_where := []; g_where_trailing := false |};
       d_data := DStruct (FNamed [fld [ed [I "Hash"; G Paren [I "method"; G Paren [I "state"]]]]
                                      (Some "a") [I "u8"]]) |}.
  Theorem C19_residual_spliced_method :
    expand_flat all_traits d_state =
    Ok ["impl"; ":"; ":"; "core"; ":"; ":"; "hash"; ":"; ":"; "Hash"; "for"; "S"; "{";
        "#"; "["; "inline"; "]"; "fn"; "hash"; "<"; "__H"; ":"; ":"; ":"; "core"; ":"; ":"; "hash";
        ":"; ":"; "Hasher"; ">"; "("; "&"; "self"; ","; "state"; ":"; "&"; "mut"; "__H"; ")"; "{";
        "state"; "("; "&"; "self"; "."; "a"; ","; "state"; ")"; ";"; "}"; "}"].
  Proof. vm_compute. reflexivity. Qed.

  (** R3: #[educe(Debug)] struct S<const f: usize>([u8; f]); is accepted and emits
      `fn fmt(&self, f: &mut ::core::fmt::Formatter) ..` inside `impl<const f: usize>`:
      rustc reads the parameter `f` as the const parameter *)
  Definition d_const_f : dinput :=
    {| d_attrs := [ed [I "Debug"]]; d_name := "S";
       d_generics := {| g_params := [GConst "f" [I "usize"] None]; g_trailing := false; g_where := [];
                        g_where_trailing := false |};
       d_data := DStruct (FUnnamed [fld [] None [G Bracket [I "u8"; P ";"; I "f"]]]) |}.
  Theorem C19_residual_const_param :
    exists it, expand all_traits d_const_f = Ok [it] /\
      g_params (i_generics it) = [GConst "f" [I "usize"] None] /\
      exists attrs sig body, i_members it = [MFn attrs "fmt" sig ["self"; "f"] body].
  Proof. vm_compute. eexists. split; [reflexivity|]. split; [reflexivity|]. do 3 eexists. reflexivity. Qed.
End Residual.
