(** * C16 (continued) — the order of the list [traits] is irrelevant, for every handler

    lib.rs: `let traits: Vec<Trait> = trait_meta_map.keys().copied().collect();` — the keys of a
    randomly seeded HashMap.  It is the one unordered iteration left in the source
    ([C16.C16_unordered_iterations_reviewed]).  The model's [expand] passes [map fst tm] (order of
    first appearance); the theorems below show that every handler, and every analysis function
    below it, reads the list through MEMBERSHIP only, so any other order (any list with the same
    members, duplicates included) gives the same outcome: the same items in the same order, the
    same error, the same OutOfDomain.

    Statements only; proofs in Proofs/P_C16.v (function by function) and Proofs/P_C16b.v. *)
From Coq Require Import List String Permutation.
From Educe.Proofs Require Import P_C16 P_C16b.
Import ListNotations.

(** every handler of the fixed dispatch list *)
Theorem C16_traits_order_irrelevant :
  forall (F : features) (traits traits' : list trait) (d : dinput),
    (forall t, has_trait t traits = has_trait t traits') ->
    forall h, In h (map snd handlers) -> forall m, h F traits d m = h F traits' d m.
Proof.
  intros F tr tr' d H h Hin m. apply in_map_iff in Hin as [th [<- Hin]].
  exact (proj1 (Forall_forall _ _) (handlers_membership_only F tr tr' H d) th Hin m).
Qed.
Print Assumptions C16_traits_order_irrelevant.

(** ... which are the eleven single-meta handlers *)
Theorem C16_handlers_listed :
  map snd handlers = [expand_debug; expand_clone; expand_copy; expand_partial_eq; expand_eq;
                      expand_partial_ord; expand_ord; expand_hash; expand_default;
                      expand_deref; expand_deref_mut].
Proof. reflexivity. Qed.

(** the Into handler (which receives all the `Into(..)` metas) and its alternative errors *)
Theorem C16_traits_order_irrelevant_into :
  forall (F : features) (traits traits' : list trait) (d : dinput) (ms : list meta),
    (forall t, has_trait t traits = has_trait t traits') ->
    expand_into F traits d ms = expand_into F traits' d ms
    /\ into_alt_errs F traits d ms = into_alt_errs F traits' d ms.
Proof.
  intros F tr tr' d ms H. split.
  - exact (into_membership_only F tr tr' H d ms).
  - exact (into_alt_errs_membership_only F tr tr' H d ms).
Qed.
Print Assumptions C16_traits_order_irrelevant_into.

(** the driver that hands the handlers the list [perm (keys)] instead of [keys] *)
Theorem C16_expand_with_def :
  forall perm F d,
    expand_with perm F d =
    (let* tm := foldM (collect_attr F) [] (d_attrs d) in
     let traits := perm (map fst tm) in
     let* its := foldM (run_handler F traits d tm) [] handlers in
     let* its := (match tmap_get TInto tm with
                  | Some ms => if has_trait TInto F
                               then let* l := expand_into F traits d ms in Ok (its ++ l)
                               else Ok its
                  | None => Ok its
                  end) in
     if is_nil its then Err E_not_set_up else Ok its).
Proof. reflexivity. Qed.

Theorem C16_expand_any_order :
  forall (perm : list trait -> list trait) (F : features) (d : dinput),
    (forall l, Permutation (perm l) l) ->
    expand_with perm F d = expand F d
    /\ expand_alt_errs_with perm F d = expand_alt_errs F d.
Proof.
  intros perm F d H. split.
  - exact (expand_with_perm perm F d H).
  - exact (expand_alt_errs_with_perm perm F d H).
Qed.
Print Assumptions C16_expand_any_order.

(** more generally: any list with the same members *)
Theorem C16_expand_any_list_with_same_members :
  forall (perm : list trait -> list trait) (F : features) (d : dinput),
    (forall l t, has_trait t (perm l) = has_trait t l) ->
    expand_with perm F d = expand F d.
Proof. exact expand_with_membership. Qed.
Print Assumptions C16_expand_any_list_with_same_members.

(** every analysis function that receives [traits] (directly, or inside its [own] predicate),
    one by one: they use it through [has_trait] and through [scan_attrs] / [into_collect] only *)
Theorem C16_analysis_order_irrelevant :
  forall (F : features) (tr tr' : list trait),
    (forall t, has_trait t tr = has_trait t tr') ->
    (* PartialEq *)
    (forall t, own_partial_eq tr t = own_partial_eq tr' t) /\
    (forall attrs, peq_type_attr F tr attrs = peq_type_attr F tr' attrs) /\
    (forall ei em attrs, peq_field_attr F tr ei em attrs = peq_field_attr F tr' ei em attrs) /\
    (forall fs, field_attrs F tr fs = field_attrs F tr' fs) /\
    (forall v, peq_variant F tr v = peq_variant F tr' v) /\
    (forall d g b, peq_items tr F d g b = peq_items tr' F d g b) /\
    (* Eq, Copy *)
    (forall own attrs, marker_field_attr F own tr attrs = marker_field_attr F own tr' attrs) /\
    (forall own attrs, marker_variant_attr F own tr attrs = marker_variant_attr F own tr' attrs) /\
    (forall own dd, all_field_types F own tr dd = all_field_types F own tr' dd) /\
    (* Hash *)
    (forall attrs, hash_type_attr F tr attrs = hash_type_attr F tr' attrs) /\
    (forall ei em attrs, hash_field_attr F tr ei em attrs = hash_field_attr F tr' ei em attrs) /\
    (forall fs, hash_field_attrs F tr fs = hash_field_attrs F tr' fs) /\
    (forall iv, hash_variant F tr iv = hash_variant F tr' iv) /\
    (* Clone *)
    (forall em attrs, clone_field_attr F tr em attrs = clone_field_attr F tr' em attrs) /\
    (forall attrs, clone_variant_attr F tr attrs = clone_variant_attr F tr' attrs) /\
    (forall em fs, clone_field_attrs F tr em fs = clone_field_attrs F tr' em fs) /\
    (forall v, clone_variant F tr v = clone_variant F tr' v) /\
    (* Debug *)
    (forall b attrs, debug_variant_attr F tr b attrs = debug_variant_attr F tr' b attrs) /\
    (forall a b c attrs, debug_field_attr F tr a b c attrs = debug_field_attr F tr' a b c attrs) /\
    (forall en fs, debug_field_attrs F tr en fs = debug_field_attrs F tr' en fs) /\
    (forall n v, debug_variant F tr n v = debug_variant F tr' n v) /\
    (* PartialOrd, Ord *)
    (forall t, own_ord F tr t = own_ord F tr' t) /\
    (ord_supertraits F tr = ord_supertraits F tr') /\
    (forall d g b, ord_items F tr d g b = ord_items F tr' d g b) /\
    (forall own i attrs, ord_field_attr F own tr i attrs = ord_field_attr F own tr' i attrs) /\
    (forall own attrs, ord_variant_attr F own tr attrs = ord_variant_attr F own tr' attrs) /\
    (forall own fs, plan_fields F own tr fs = plan_fields F own tr' fs) /\
    (forall own v, plan_variant F own tr v = plan_variant F own tr' v) /\
    (* Default *)
    (forall fl attrs, default_variant_attr F tr fl attrs = default_variant_attr F tr' fl attrs) /\
    (forall a b f, default_field_attr F tr a b f = default_field_attr F tr' a b f) /\
    (forall fs, ensure_no_attribute F tr fs = ensure_no_attribute F tr' fs) /\
    (forall f, default_field_value F tr f = default_field_value F tr' f) /\
    (forall p fs, default_fields_body F tr p fs = default_fields_body F tr' p fs) /\
    (forall vs, select_variant F tr vs = select_variant F tr' vs) /\
    (forall fs, select_field F tr fs = select_field F tr' fs) /\
    (forall d m, default_plan F tr d m = default_plan F tr' d m) /\
    (* Deref, DerefMut *)
    (forall own attrs, deref_field_flag F own tr attrs = deref_field_flag F own tr' attrs) /\
    (forall own attrs, deref_variant_attr F own tr attrs = deref_variant_attr F own tr' attrs) /\
    (forall own fs, deref_select F own tr fs = deref_select F own tr' fs) /\
    (forall own v, deref_variant F own tr v = deref_variant F own tr' v) /\
    (forall own d m, deref_analyse F own tr d m = deref_analyse F own tr' d m) /\
    (* Into *)
    (forall attrs, into_collect F tr attrs = into_collect F tr' attrs) /\
    (forall attrs, into_variant_attr F tr attrs = into_variant_attr F tr' attrs) /\
    (forall tg f, into_field_attr F tr tg f = into_field_attr F tr' tg f) /\
    (forall d ms, into_results F tr d ms = into_results F tr' d ms) /\
    (forall d ms, into_analyse F tr d ms = into_analyse F tr' d ms).
Proof. exact analysis_membership_only. Qed.
Print Assumptions C16_analysis_order_irrelevant.

(** Non-vacuity: an enum educing six traits (two couplings among them: Clone+Copy, and
    PartialEq+Eq whose `Eq` metas are addressed to the PartialEq scanner because Eq is in [traits]),
    with attributes of several traits on the same fields; [rev] really changes the list, and both
    drivers compute the same six items. *)
Module Example.
  Definition educe (ts : toks) : attr := {| a_path := ["educe"]; a_meta := AMList Paren ts |}.
  Definition fld (n : option string) (ts ty : toks) : field :=
    {| f_attrs := [educe ts]; f_name := n; f_ty := ty |}.
  Definition fld0 (n : option string) (ty : toks) : field := {| f_attrs := []; f_name := n; f_ty := ty |}.
  Definition u8 : toks := [I "u8"].
  Definition d : dinput :=
    {| d_attrs := [educe [I "Debug"; P ","; I "Clone"; P ","; I "Copy"];
                   educe [I "PartialEq"; P ","; I "Eq"; P ","; I "Hash"]];
       d_name := "E";
       d_generics := {| g_params := [GType "T" [] None]; g_trailing := false; g_where := [];
                        g_where_trailing := false |};
       d_data := DEnum
         [ {| v_attrs := []; v_name := "A"; v_discr := None;
              v_fields := FNamed
                [fld (Some "x") [I "Hash"; G Paren [I "ignore"]; P ",";
                                 I "Debug"; G Paren [I "name"; P "="; I "xx"]] [I "T"];
                 fld (Some "y") [I "Eq"; G Paren [I "ignore"]] u8;
                 fld0 (Some "z") u8] |};
           {| v_attrs := []; v_name := "B"; v_discr := None;
              v_fields := FUnnamed [fld None [I "PartialEq"; G Paren [I "method"; G Paren [I "f"]]] u8;
                                    fld0 None [I "T"]] |};
           {| v_attrs := []; v_name := "C"; v_discr := None; v_fields := FUnit |} ] |}.

  Definition keys : list trait :=
    match foldM (collect_attr all_traits) [] (d_attrs d) with Ok tm => map fst tm | _ => [] end.
  Example keys_val : keys = [TDebug; TClone; TCopy; TPartialEq; TEq; THash] /\ rev keys <> keys.
  Proof. split; [vm_compute; reflexivity|vm_compute; discriminate]. Qed.

  Example rev_is_perm : forall l : list trait, Permutation (rev l) l.
  Proof. intros l. apply Permutation_sym, Permutation_rev. Qed.

  Example same : expand_with (@rev trait) all_traits d = expand all_traits d.
  Proof. exact (proj1 (C16_expand_any_order (@rev trait) all_traits d rev_is_perm)). Qed.

  Example both_compute :
    exists its, expand_with (@rev trait) all_traits d = Ok its /\ expand all_traits d = Ok its
                /\ List.length its = 6.
  Proof. eexists. split; [vm_compute; reflexivity|split; [vm_compute; reflexivity|vm_compute; reflexivity]]. Qed.
End Example.
