(** * C13 — contradictory, ambiguous or misplaced attributes are rejected, not guessed

    Statements only; each is closed by [exact] of a lemma proved in Proofs/P_C13*.v and
    followed by [Print Assumptions].

    Reading guide.  [expand F d] is the model of the whole derive (src/lib.rs and the twelve
    handlers, tied token-for-token to /repo by K1), [F] the enabled cargo features, [d] the
    derive input.  Spec/Invalid.v defines, for each class of invalid construct the property
    names, a DECIDABLE, SYNTACTIC test [invalid_<class> F d] on the input as written: it
    parses attribute arguments into their comma-separated items ([parse_metas], the model of
    syn's parser) and looks at names, places and counts; it never runs the analysis of the
    model.  Every theorem has the form

        expand F d = Ok items  ->  invalid_<class> F d = false          (for ALL F, d)

    i.e. an ACCEPTED request contains no construct of that class; no hypothesis about the rest
    of the input, about which attribute is scanned first, or about well-formedness is needed.
    [C13_rejected] is the same read forwards: if a classifier fires, [expand] answers with a
    diagnostic [Err e] (or the input lies outside the modelled token grammar, [OutOfDomain],
    which K1 counts: 0 on its streams); [C17_no_panic] excludes the fourth outcome.

    KNOWN GAP, carved out explicitly: when Clone is educed together with Copy, `Copy(...)`
    items on variants and fields are validated by nobody (the Copy handler returns early, the
    Clone handler only looks at `Clone(...)`).  [known_gap F d] says exactly that: Clone and
    Copy are educed and some variant / field carries a `Copy` item.  The four classes that
    inspect the CONTENT of below-type items (a trait twice on one element, a parameter twice,
    an unknown parameter, a misplaced parameter) are stated under [known_gap F d = false]; [C13_known_gap_witness]
    exhibits an accepted input inside the gap on which a classifier fires. *)
From Educe.Proofs Require Import P_C13k.

(** ** R0 — an `educe` attribute on the type that is not a list (`#[educe]`, `#[educe = ".."]`) *)
Theorem C13_educe_format :
  forall F d items, expand F d = Ok items -> invalid_educe_format d = false.
Proof. exact R0_educe_format. Qed.
Print Assumptions C13_educe_format.

(** ** R1 — a trait named twice at the type level (Into exempt) *)
Theorem C13_trait_twice :
  forall F d items, expand F d = Ok items -> invalid_trait_twice F d = false.
Proof. exact R1_trait_twice. Qed.
Print Assumptions C13_trait_twice.

(** ** R10 — an unknown (or feature-disabled) trait name at the type level *)
Theorem C13_unknown_trait :
  forall F d items, expand F d = Ok items -> invalid_unknown_trait F d = false.
Proof. exact R10_unknown_trait. Qed.
Print Assumptions C13_unknown_trait.

(** ** R9 — a variant / field attribute naming a trait that is not educed on the type *)
Theorem C13_trait_not_educed :
  forall F d items, expand F d = Ok items -> invalid_trait_not_educed F d = false.
Proof. exact R9_trait_not_educed. Qed.
Print Assumptions C13_trait_not_educed.

(** ** R10' — a variant / field attribute naming an unknown trait *)
Theorem C13_attr_unknown_trait :
  forall F d items, expand F d = Ok items -> invalid_attr_unknown_trait F d = false.
Proof. exact R10'_attr_unknown_trait. Qed.
Print Assumptions C13_attr_unknown_trait.

(** ** which handler scans which element.  Every handler that succeeds has visited EVERY
    variant and EVERY field ([visited d]), validated every educe item there (known trait,
    educed on the type), found at most one item of its own trait(s) and built it with the
    builder of that place ([acc_<handler> place item]).  Copy next to Clone, Eq next to
    PartialEq and PartialOrd next to Ord visit nothing themselves (the companion does, with
    both names as its own — except Clone, which does not own `Copy`: the gap). *)
Theorem C13_handlers_visit_everything :
  forall F traits d m its,
    (Expand_Debug.expand_debug F traits d m = Ok its -> all_visited F traits (trait_eqb TDebug) acc_debug d) /\
    (expand_clone F traits d m = Ok its -> all_visited F traits (trait_eqb TClone) acc_clone d) /\
    ((has_trait TClone F && has_trait TClone traits) = false ->
     expand_copy F traits d m = Ok its -> all_visited F traits (trait_eqb TCopy) acc_marker d) /\
    (expand_partial_eq F traits d m = Ok its -> all_visited F traits (own_partial_eq traits) acc_peq d) /\
    ((has_trait TPartialEq F && has_trait TPartialEq traits) = false ->
     expand_eq F traits d m = Ok its -> all_visited F traits (trait_eqb TEq) acc_marker d) /\
    ((has_trait TOrd F && has_trait TOrd traits) = false ->
     expand_partial_ord F traits d m = Ok its -> all_visited F traits (trait_eqb TPartialOrd) acc_ord d) /\
    (expand_ord F traits d m = Ok its -> all_visited F traits (own_ord F traits) acc_ord d) /\
    (expand_hash F traits d m = Ok its -> all_visited F traits (trait_eqb THash) acc_peq d) /\
    (Expand_Default.expand_default F traits d m = Ok its -> all_visited F traits (trait_eqb TDefault) acc_default d) /\
    (expand_deref F traits d m = Ok its -> all_visited F traits (trait_eqb TDeref) acc_deref d) /\
    (expand_deref_mut F traits d m = Ok its -> all_visited F traits (trait_eqb TDerefMut) acc_deref d) /\
    (forall ms, expand_into F traits d ms = Ok its -> all_visited_into F traits d).
Proof.
  intros F traits d m its.
  split; [exact (debug_visits F traits d m its)|]. split; [exact (clone_visits F traits d m its)|].
  split; [exact (copy_visits F traits d m its)|]. split; [exact (peq_visits F traits d m its)|].
  split; [exact (eq_visits F traits d m its)|]. split; [exact (partial_ord_visits F traits d m its)|].
  split; [exact (ord_visits F traits d m its)|]. split; [exact (hash_visits F traits d m its)|].
  split; [exact (default_visits F traits d m its)|]. split; [exact (deref_visits F traits d m its)|].
  split; [exact (deref_mut_visits F traits d m its)|]. intros ms. exact (into_visits F traits d ms its).
Qed.
Print Assumptions C13_handlers_visit_everything.

(** ... so that, in an accepted request and outside the gap, every item below the type level
    names an educed trait and was accepted by that trait's builder for that place. *)
Theorem C13_items_accepted :
  forall F d items, expand F d = Ok items -> known_gap F d = false ->
  forall x, In x (item_metas d) ->
    exists t, meta_trait F (snd x) = Some t /\ educed F t d = true /\ acc_of t (fst x) (snd x).
Proof. exact items_accepted. Qed.
Print Assumptions C13_items_accepted.

(** ** R1' — a trait named twice on one variant / field (modulo the gap) *)
Theorem C13_attr_trait_twice :
  forall F d items, expand F d = Ok items -> known_gap F d = false ->
                    invalid_attr_trait_twice F d = false.
Proof. exact R1'_attr_trait_twice. Qed.
Print Assumptions C13_attr_trait_twice.

(** ** R2 — a parameter given twice in one trait's parameter list.  The engine
    ([run_params] over ANY parameter handler that records what it has seen), each of the
    seven parameter handlers of the model, then the type level (no gap) and the items below
    it (modulo the gap). *)
Theorem C13_engine_param_twice :
  forall S (h : S -> meta -> outcome (option S)) (seen : S -> string -> bool),
    (forall s m s', h s m = Ok (Some s') ->
       exists k, param_key m = Some k /\ seen s k = false /\
                 forall k', seen s' k' = seen s k' || String.eqb k' k) ->
    forall ms s s', run_params h s ms = Ok s' -> dup_param ms = false.
Proof.
  intros S h seen Hstep ms s s' H. exact (proj2 (run_params_nodup h seen Hstep ms s s' H)).
Qed.
Print Assumptions C13_engine_param_twice.

(** ... and the diagnostic of the two shared engines is exactly `parameter_reset` when the
    repeated parameter is one they accept and its value parses *)
Theorem C13_shared_engines_reset :
  (forall s m v, param_is m ["bound"] = true -> bound_from_meta m = Ok v -> fst s = true ->
                 bound_param true s m = Err E_param_reset) /\
  (forall em s m v, param_is m ["ignore"] = true -> meta_2_bool_allow_path m = Ok v ->
                    fs_ignore_set s = true -> im_param true em s m = Err E_param_reset) /\
  (forall ei s m v, param_is m ["ignore"] = false -> param_is m ["method"] = true ->
                    meta_2_path m = Ok v -> fs_method_set s = true ->
                    im_param ei true s m = Err E_param_reset).
Proof. exact shared_engines_reset. Qed.
Print Assumptions C13_shared_engines_reset.

Theorem C13_builders_param_twice :
  (forall ef eu eb m x, build_tattr ef eu eb m = Ok x ->
                        dup_param (params (if eu then LUnsafe else LPlain) m) = false) /\
  (forall ei em m x, build_fattr ei em m = Ok x -> dup_param (params LPlain m) = false) /\
  (forall ei em er r m x, build_ofattr ei em er r m = Ok x -> dup_param (params LPlain m) = false) /\
  (forall b m x, Expand_Debug.build_dtattr b m = Ok x ->
                 dup_param (params (if Expand_Debug.tb_unsafe b then LUnsafe else LPlain) m) = false) /\
  (forall a b c m x, Expand_Debug.build_dfattr a b c m = Ok x -> dup_param (params LPlain m) = false) /\
  (forall a b c e m x, Expand_Default.build_dtattr a b c e m = Ok x -> dup_param (params LPlain m) = false) /\
  (forall a b ty m x, Expand_Default.build_dfattr a b ty m = Ok x -> dup_param (params LPlain m) = false) /\
  (forall et acc m acc', into_type_meta et acc m = Ok acc' -> dup_param (params LType m) = false) /\
  (forall acc m acc', into_field_meta acc m = Ok acc' -> dup_param (params LType m) = false).
Proof.
  split; [exact build_tattr_nodup|]. split; [exact build_fattr_nodup|].
  split; [exact build_ofattr_nodup|]. split; [exact debug_build_dtattr_nodup|].
  split; [exact debug_build_dfattr_nodup|]. split; [exact default_build_dtattr_nodup|].
  split; [exact default_build_dfattr_nodup|]. split; [exact into_type_meta_nodup|exact into_field_meta_nodup].
Qed.
Print Assumptions C13_builders_param_twice.

Theorem C13_type_param_twice :
  forall F d items, expand F d = Ok items -> invalid_type_param_twice F d = false.
Proof. exact R2_type_param_twice. Qed.
Print Assumptions C13_type_param_twice.

Theorem C13_param_twice :
  forall F d items, expand F d = Ok items -> known_gap F d = false -> invalid_param_twice F d = false.
Proof. exact R2_param_twice. Qed.
Print Assumptions C13_param_twice.

(** ** R11 — a parameter the trait does not know anywhere ([known_params]); type level: no gap *)
Theorem C13_type_unknown_param :
  forall F d items, expand F d = Ok items -> invalid_type_unknown_param F d = false.
Proof. exact R11_type_unknown_param. Qed.
Print Assumptions C13_type_unknown_param.

Theorem C13_unknown_param :
  forall F d items, expand F d = Ok items -> known_gap F d = false -> invalid_unknown_param F d = false.
Proof. exact R11_unknown_param. Qed.
Print Assumptions C13_unknown_param.

(** ** R13 — union Debug / PartialEq / Hash whose first parameter is not `unsafe` *)
Theorem C13_union_without_unsafe :
  forall F d items, expand F d = Ok items -> invalid_union_without_unsafe F d = false.
Proof. exact R13_union_without_unsafe. Qed.
Print Assumptions C13_union_without_unsafe.

(** ** R14 — a union given PartialOrd / Ord / Deref / DerefMut / Into *)
Theorem C13_union_unsupported :
  forall F d items, expand F d = Ok items -> invalid_union_unsupported F d = false.
Proof. exact R14_union_unsupported. Qed.
Print Assumptions C13_union_unsupported.

(** ** R15 — a unit variant under Deref / DerefMut / Into *)
Theorem C13_unit_variant :
  forall F d items, expand F d = Ok items -> invalid_unit_variant F d = false.
Proof. exact R15_unit_variant. Qed.
Print Assumptions C13_unit_variant.

(** ** R6 — the default variant / union field is missing or given twice (no type-level expression) *)
Theorem C13_default_designation :
  forall F d items, expand F d = Ok items -> invalid_default_designation F d = false.
Proof. exact R6_default_designation. Qed.
Print Assumptions C13_default_designation.

(** ** R7 — the Deref / DerefMut field is not designated, or twice, among several; no variant *)
Theorem C13_deref_designation :
  forall F d items, expand F d = Ok items -> invalid_deref_designation F d = false.
Proof. exact R7_deref_designation. Qed.
Print Assumptions C13_deref_designation.

(** ** R8 / R5 — Into: a target twice; two fields marked for one target; no field determinable
    for a target (or an enum without variants); a field naming an undeclared target *)
Theorem C13_into_target_twice :
  forall F d items, expand F d = Ok items -> invalid_into_target_twice F d = false.
Proof. exact R8_into_target_twice. Qed.
Print Assumptions C13_into_target_twice.

Theorem C13_into_multi :
  forall F d items, expand F d = Ok items -> invalid_into_multi F d = false.
Proof. exact R5_into_multi. Qed.
Print Assumptions C13_into_multi.

Theorem C13_into_none :
  forall F d items, expand F d = Ok items -> invalid_into_none F d = false.
Proof. exact R5_into_none. Qed.
Print Assumptions C13_into_none.

Theorem C13_into_undeclared :
  forall F d items, expand F d = Ok items -> invalid_into_undeclared F d = false.
Proof. exact R5_into_undeclared. Qed.
Print Assumptions C13_into_undeclared.

(** ** R3 — two compared fields of one struct / variant with the same explicit rank *)
Theorem C13_rank_twice :
  forall F d items, expand F d = Ok items -> invalid_rank_twice F d = false.
Proof. exact R3_rank_twice. Qed.
Print Assumptions C13_rank_twice.

(** ** R12 — a parameter not accepted at that position: anything but the bare word on
    Deref / DerefMut (and anything at all on a variant); the bare flag, `= v` or any parameter
    (`bound` ...) of Clone / Copy / PartialEq / Eq / PartialOrd / Ord / Hash on a variant; the
    bare flag or `bound` of Debug on a variant; any Into on a variant; `ignore` / `method` /
    `name` (any parameter) of Debug / Clone / PartialEq / Hash on a union field; any Copy on
    a field; type level also: `bound` on the byte-wise Debug / PartialEq / Hash of a union.
    Type level: no gap; below: modulo the gap. *)
Theorem C13_type_param_misplaced :
  forall F d items, expand F d = Ok items -> invalid_type_param_misplaced F d = false.
Proof. exact R12_type_param_misplaced. Qed.
Print Assumptions C13_type_param_misplaced.

Theorem C13_param_misplaced :
  forall F d items, expand F d = Ok items -> known_gap F d = false ->
                    invalid_param_misplaced F d = false.
Proof. exact R12_param_misplaced. Qed.
Print Assumptions C13_param_misplaced.

(** `bound` (any spelling) in the type-level attribute of a COMPANION trait whose primary is
    educed on the same type: `Eq(bound ..)` next to PartialEq, `Copy(bound ..)` next to Clone,
    `PartialOrd(bound ..)` next to Ord.  The companion impl is then emitted by the primary's
    handler with the primary's bounds; the written bound would be dropped, so it is refused.
    ("Educed" = named at the type level with its feature in [F]: [educed F].)  Type level: no gap. *)
Theorem C13_companion_bound :
  forall F d items, expand F d = Ok items -> invalid_companion_bound F d = false.
Proof. exact R12_companion_bound. Qed.
Print Assumptions C13_companion_bound.

(** a `Default` item on a variant or a field (`Default`, `Default = v`, `Default(expression ..)`,
    anything but the empty list `Default()`) while the type-level `Default(...)` carries an
    `expression` / `expr`: the value is that expression, no designation and no field value is
    read, the item would be dropped.  Structs, enums and unions alike; no gap (the Default
    handler scans every variant and field itself). *)
Theorem C13_default_beside_type_expression :
  forall F d items, expand F d = Ok items -> invalid_default_beside_type_expression F d = false.
Proof. exact R12_default_beside_type_expression. Qed.
Print Assumptions C13_default_beside_type_expression.

(** `name` / `rename`, or the shorthand `Debug = name` (any name-value `Debug` item whose value is
    not a boolean literal), on a field that Debug shows positionally: the struct's / variant's
    Debug item says `named_field = false`, or the fields are tuple fields and it says nothing *)
Theorem C13_name_on_positional :
  forall F d items, expand F d = Ok items -> invalid_name_on_positional F d = false.
Proof. exact R12_name_on_positional. Qed.
Print Assumptions C13_name_on_positional.

(** ** R16 — Debug asked to print nothing: a field-less struct with the name switched off, an
    enum without variants and without a name, a field-less variant with its name switched off
    in an enum without a name *)
Theorem C13_debug_nothing :
  forall F d items, expand F d = Ok items -> invalid_debug_nothing F d = false.
Proof. exact R16_debug_nothing. Qed.
Print Assumptions C13_debug_nothing.

(** ** All classes at once: on an accepted request [invalid_classes] is empty outside the gap,
    and [invalid_classes_modulo_gap] is empty always. *)
Theorem C13_accepted_clean :
  forall F d items, expand F d = Ok items ->
    invalid_classes_modulo_gap F d = [] /\ (known_gap F d = false -> invalid_classes F d = []).
Proof.
  intros F d items H. split; [exact (accepted_clean_modulo_gap F d items H)|exact (accepted_clean F d items H)].
Qed.
Print Assumptions C13_accepted_clean.

(** ... read forwards: a request containing an invalid construct is refused with a diagnostic
    (or lies outside the modelled token grammar); never silently resolved, never a panic. *)
Theorem C13_rejected :
  forall F d, invalid_classes_modulo_gap F d <> [] ->
    (exists e, expand F d = Err e) \/ (exists w, expand F d = OutOfDomain w).
Proof. exact invalid_rejected. Qed.
Print Assumptions C13_rejected.

(** the same for one class *)
Theorem C13_class_rejected :
  forall (c : features -> dinput -> bool) F d,
    (forall items, expand F d = Ok items -> c F d = false) -> c F d = true ->
    (exists e, expand F d = Err e) \/ (exists w, expand F d = OutOfDomain w).
Proof. exact class_rejects. Qed.
Print Assumptions C13_class_rejected.

(** * Concrete inputs: on each, the classifier fires and [expand] computes to the diagnostic *)
Module Example.
  Definition educe (ts : toks) : attr := {| a_path := ["educe"]; a_meta := AMList Paren ts |}.
  Definition gen0 := {| g_params := []; g_trailing := false; g_where := []; g_where_trailing := false |}.
  Definition fld (attrs : list attr) (n : option string) (ty : string) : field :=
    {| f_attrs := attrs; f_name := n; f_ty := [I ty] |}.
  Definition var (attrs : list attr) (n : string) (fs : fields) : variant :=
    {| v_attrs := attrs; v_name := n; v_fields := fs; v_discr := None |}.
  Definition mk (attrs : list attr) (n : string) (data : data) : dinput :=
    {| d_attrs := attrs; d_name := n; d_generics := gen0; d_data := data |}.
  Definition one : tt := TLit (LKInt 1 "") "1".
  Definition abc : fields :=
    FNamed [fld [] (Some "a") "u8"; fld [] (Some "b") "u16"; fld [] (Some "c") "u32"].
  Definition A := all_traits.

  (** #[educe = "Debug"] #[educe(Debug)] struct S {..} *)
  Definition d_educe_format :=
    mk [{| a_path := ["educe"]; a_meta := AMNameValue [TStr """Debug""" "Debug" (Some [I "Debug"])] |};
        educe [I "Debug"]] "S" (DStruct abc).
  (** #[educe(Debug, Clone, Debug)] struct S { a: u8, b: u16, c: u32 } *)
  Definition d_trait_twice := mk [educe [I "Debug"; P ","; I "Clone"; P ","; I "Debug"]] "S" (DStruct abc).
  (** #[educe(Debug, Serialize)] struct S {..} *)
  Definition d_unknown_trait := mk [educe [I "Debug"; P ","; I "Serialize"]] "S" (DStruct abc).
  (** #[educe(Debug)] struct S { a: u8, b: u16, #[educe(Clone(method(f)))] c: u32 } *)
  Definition d_not_educed :=
    mk [educe [I "Debug"]] "S"
       (DStruct (FNamed [fld [] (Some "a") "u8"; fld [] (Some "b") "u16";
                         fld [educe [I "Clone"; G Paren [I "method"; G Paren [I "f"]]]] (Some "c") "u32"])).
  (** #[educe(PartialEq)] enum E { A, #[educe(Partialeq(ignore))] B(u8), C } — misspelt, on the middle variant *)
  Definition d_attr_unknown :=
    mk [educe [I "PartialEq"]] "E"
       (DEnum [var [] "A" FUnit;
               var [educe [I "Partialeq"; G Paren [I "ignore"]]] "B" (FUnnamed [fld [] None "u8"]);
               var [] "C" FUnit]).
  (** #[educe(Hash)] struct S(u8, #[educe(Hash(ignore))] #[educe(Hash(method(h)))] u16, u32) *)
  Definition d_attr_twice :=
    mk [educe [I "Hash"]] "S"
       (DStruct (FUnnamed [fld [] None "u8";
                           fld [educe [I "Hash"; G Paren [I "ignore"]];
                                educe [I "Hash"; G Paren [I "method"; G Paren [I "h"]]]] None "u16";
                           fld [] None "u32"])).
  (** #[educe(Debug(name = A, rename = B))] struct S {..}  (the alias counts) *)
  Definition d_param_twice_type :=
    mk [educe [I "Debug"; G Paren [I "name"; P "="; I "A"; P ","; I "rename"; P "="; I "B"]]] "S" (DStruct abc).
  (** #[educe(PartialOrd)] struct S { a: u8, #[educe(PartialOrd(rank = 1, ignore, rank = 1))] b: u16, c: u32 } *)
  Definition d_param_twice_field :=
    mk [educe [I "PartialOrd"]] "S"
       (DStruct (FNamed [fld [] (Some "a") "u8";
                         fld [educe [I "PartialOrd"; G Paren [I "rank"; P "="; one; P ","; I "ignore"; P ",";
                                                               I "rank"; P "="; one]]] (Some "b") "u16";
                         fld [] (Some "c") "u32"])).
  (** #[educe(Hash())] union U { a: u8, b: u16, c: u32 }   (`unsafe` missing) *)
  Definition union3 : list field := [fld [] (Some "a") "u8"; fld [] (Some "b") "u16"; fld [] (Some "c") "u32"].
  Definition d_union_no_unsafe :=
    mk [educe [I "Hash"; G Paren []]] "U" (DUnion union3).
  (** #[educe(Clone, Ord)] union U {..} *)
  Definition d_union_unsupported := mk [educe [I "Clone"; P ","; I "Ord"]] "U" (DUnion union3).
  (** #[educe(DerefMut, Deref)] enum E { A(u8), B, C(u16) } *)
  Definition d_unit_variant :=
    mk [educe [I "DerefMut"; P ","; I "Deref"]] "E"
       (DEnum [var [] "A" (FUnnamed [fld [] None "u8"]); var [] "B" FUnit;
               var [] "C" (FUnnamed [fld [] None "u16"])]).
  (** #[educe(Default)] enum E { A, B, C }  /  ... { #[educe(Default)] A, B, #[educe(Default)] C } *)
  Definition d_default_none := mk [educe [I "Default"]] "E" (DEnum [var [] "A" FUnit; var [] "B" FUnit; var [] "C" FUnit]).
  Definition d_default_two :=
    mk [educe [I "Default"]] "E"
       (DEnum [var [educe [I "Default"]] "A" FUnit; var [] "B" FUnit; var [educe [I "Default"]] "C" FUnit]).
  (** #[educe(Default)] union U { a: u8, #[educe(Default)] b: u16, #[educe(Default = 1)] c: u32 } *)
  Definition d_default_union_two :=
    mk [educe [I "Default"]] "U"
       (DUnion [fld [] (Some "a") "u8"; fld [educe [I "Default"]] (Some "b") "u16";
                fld [educe [I "Default"; P "="; one]] (Some "c") "u32"]).
  (** #[educe(Deref)] struct S { a, b, c }   /   two marked *)
  Definition d_deref_none := mk [educe [I "Deref"]] "S" (DStruct abc).
  Definition d_deref_two :=
    mk [educe [I "Deref"; P ","; I "DerefMut"]] "S"
       (DStruct (FUnnamed [fld [educe [I "Deref"]] None "u8"; fld [educe [I "DerefMut"]] None "u16";
                           fld [educe [I "DerefMut"]] None "u32"])).
  (** #[educe(Into(u8), Into(u16), Into(u8))] struct S { a: u8, b: u16, c: u32 } *)
  Definition d_into_twice :=
    mk [educe [I "Into"; G Paren [I "u8"]; P ","; I "Into"; G Paren [I "u16"]; P ","; I "Into"; G Paren [I "u8"]]]
       "S" (DStruct abc).
  (** #[educe(Into(u64))] struct S { #[educe(Into(u64))] a: u8, b: u16, #[educe(Into(u64))] c: u32 } *)
  Definition into64 : attr := educe [I "Into"; G Paren [I "u64"]].
  Definition d_into_multi :=
    mk [into64] "S" (DStruct (FNamed [fld [into64] (Some "a") "u8"; fld [] (Some "b") "u16";
                                      fld [into64] (Some "c") "u32"])).
  (** #[educe(Into(u64))] struct S { a: u8, b: u16, c: u32 }   (nothing marked, no field of type u64) *)
  Definition d_into_none := mk [into64] "S" (DStruct abc).
  (** #[educe(Into(u64))] struct S { a: u8, #[educe(Into(u16))] b: u16, c: u64 } *)
  Definition d_into_undeclared :=
    mk [into64] "S" (DStruct (FNamed [fld [] (Some "a") "u8";
                                      fld [educe [I "Into"; G Paren [I "u16"]]] (Some "b") "u16";
                                      fld [] (Some "c") "u64"])).
  (** #[educe(Ord)] struct S { #[educe(Ord(rank = 1))] a: u8, b: u16, #[educe(Ord(rank = 1))] c: u32 } *)
  Definition rank1 : attr := educe [I "Ord"; G Paren [I "rank"; P "="; one]].
  Definition d_rank_twice :=
    mk [educe [I "Ord"]] "S" (DStruct (FNamed [fld [rank1] (Some "a") "u8"; fld [] (Some "b") "u16";
                                               fld [rank1] (Some "c") "u32"])).
  (** #[educe(Deref(x))] struct S(u8);  a `bound` on a variant;  `ignore` on a union field *)
  Definition d_misplaced_deref := mk [educe [I "Deref"; G Paren [I "x"]]] "S" (DStruct (FUnnamed [fld [] None "u8"])).
  Definition d_misplaced_variant :=
    mk [educe [I "PartialEq"]] "E"
       (DEnum [var [] "A" FUnit;
               var [educe [I "PartialEq"; G Paren [I "bound"; G Paren [I "T"; P ":"; I "X"]]]] "B" FUnit;
               var [] "C" FUnit]).
  Definition d_misplaced_union :=
    mk [educe [I "Hash"; G Paren [I "unsafe"]]] "U"
       (DUnion [fld [] (Some "a") "u8"; fld [] (Some "b") "u16";
                fld [educe [I "Hash"; G Paren [I "ignore"]]] (Some "c") "u32"]).
  (** #[educe(Debug(name = false))] struct S;   #[educe(Debug)] enum E {}
      #[educe(Debug)] enum E { A, #[educe(Debug(name = false))] B, C } *)
  Definition name_false : toks := [I "Debug"; G Paren [I "name"; P "="; I "false"]].
  Definition d_debug_unit_struct := mk [educe name_false] "S" (DStruct FUnit).
  Definition d_debug_empty_enum := mk [educe [I "Debug"]] "E" (DEnum []).
  Definition d_debug_unit_variant :=
    mk [educe [I "Debug"]] "E" (DEnum [var [] "A" FUnit; var [educe name_false] "B" FUnit; var [] "C" FUnit]).

  (** #[educe(Debug(nam = X))] struct S {..};   #[educe(Clone)] struct S { a, #[educe(Clone(ignore))] b, c } *)
  Definition d_unknown_param_type :=
    mk [educe [I "Debug"; G Paren [I "nam"; P "="; I "X"]]] "S" (DStruct abc).
  Definition d_unknown_param_field :=
    mk [educe [I "Clone"]] "S"
       (DStruct (FNamed [fld [] (Some "a") "u8"; fld [educe [I "Clone"; G Paren [I "ignore"]]] (Some "b") "u16";
                         fld [] (Some "c") "u32"])).
  (** #[educe(Debug)] struct S(u8, #[educe(Debug(name = x))] u16, u32);
      #[educe(Debug)] enum E { A, #[educe(Debug(named_field = false))] B { x: u8, #[educe(Debug(name = y))] z: u16 }, C } *)
  Definition name_x : attr := educe [I "Debug"; G Paren [I "name"; P "="; I "x"]].
  Definition d_name_positional_struct :=
    mk [educe [I "Debug"]] "S" (DStruct (FUnnamed [fld [] None "u8"; fld [name_x] None "u16"; fld [] None "u32"])).
  Definition d_name_positional_variant :=
    mk [educe [I "Debug"]] "E"
       (DEnum [var [] "A" FUnit;
               var [educe [I "Debug"; G Paren [I "named_field"; P "="; I "false"]]] "B"
                   (FNamed [fld [] (Some "x") "u8"; fld [name_x] (Some "z") "u16"]);
               var [] "C" FUnit]).
  (** #[educe(Hash(unsafe, bound(T: X)))] union U {..} *)
  Definition d_misplaced_union_bound :=
    mk [educe [I "Hash"; G Paren [I "unsafe"; P ","; I "bound"; G Paren [I "T"; P ":"; I "X"]]]] "U" (DUnion union3).

  Example fires_and_rejected :
    (invalid_classes A d_educe_format = ["educe_format"] /\ expand A d_educe_format = Err E_educe_format) /\
    (invalid_classes A d_trait_twice = ["trait_twice"] /\ expand A d_trait_twice = Err E_reuse_trait) /\
    (invalid_classes A d_unknown_trait = ["unknown_trait"] /\ expand A d_unknown_trait = Err E_unsupported_trait) /\
    (invalid_classes A d_not_educed = ["trait_not_educed"] /\ expand A d_not_educed = Err E_trait_not_used) /\
    (invalid_classes A d_attr_unknown = ["attr_unknown_trait"] /\ expand A d_attr_unknown = Err E_unsupported_trait) /\
    (invalid_classes A d_attr_twice = ["attr_trait_twice"] /\ expand A d_attr_twice = Err E_reuse_trait) /\
    (invalid_classes A d_param_twice_type = ["param_twice"] /\ expand A d_param_twice_type = Err E_param_reset) /\
    (invalid_classes A d_param_twice_field = ["param_twice"] /\ expand A d_param_twice_field = Err E_param_reset) /\
    (invalid_classes A d_union_no_unsafe = ["union_without_unsafe"] /\
     expand A d_union_no_unsafe = Err E_union_without_unsafe) /\
    (invalid_classes A d_union_unsupported = ["union_unsupported"] /\ expand A d_union_unsupported = Err E_no_union) /\
    (invalid_classes A d_unit_variant = ["unit_variant"; "deref_designation"] /\ expand A d_unit_variant = Err E_no_unit_variant) /\
    (invalid_classes A d_default_none = ["default_designation"] /\ expand A d_default_none = Err E_default_no_variant) /\
    (invalid_classes A d_default_two = ["default_designation"] /\ expand A d_default_two = Err E_default_multi_variants) /\
    (invalid_classes A d_default_union_two = ["default_designation"] /\
     expand A d_default_union_two = Err E_default_multi_fields) /\
    (invalid_classes A d_deref_none = ["deref_designation"] /\ expand A d_deref_none = Err E_deref_none) /\
    (invalid_classes A d_deref_two = ["deref_designation"] /\ expand A d_deref_two = Err E_deref_mut_multi) /\
    (invalid_classes A d_into_twice = ["into_target_twice"] /\ expand A d_into_twice = Err E_into_reset_type) /\
    (invalid_classes A d_into_multi = ["into_multi"] /\ expand A d_into_multi = Err E_into_multi) /\
    (invalid_classes A d_into_none = ["into_none"] /\ expand A d_into_none = Err E_into_no_field) /\
    (invalid_classes A d_into_undeclared = ["into_undeclared"] /\ expand A d_into_undeclared = Err E_into_no_impl) /\
    (invalid_classes A d_rank_twice = ["rank_twice"] /\ expand A d_rank_twice = Err E_rank_reuse) /\
    (invalid_classes A d_misplaced_deref = ["unknown_param"; "param_misplaced"] /\ expand A d_misplaced_deref = Err E_attr_format) /\
    (invalid_classes A d_misplaced_variant = ["param_misplaced"] /\ expand A d_misplaced_variant = Err E_attr_format) /\
    (invalid_classes A d_misplaced_union = ["param_misplaced"] /\ expand A d_misplaced_union = Err E_attr_format) /\
    (invalid_classes A d_unknown_param_type = ["unknown_param"] /\ expand A d_unknown_param_type = Err E_attr_format) /\
    (invalid_classes A d_unknown_param_field = ["unknown_param"] /\ expand A d_unknown_param_field = Err E_attr_format) /\
    (invalid_classes A d_name_positional_struct = ["name_on_positional"] /\
     expand A d_name_positional_struct = Err E_attr_format) /\
    (invalid_classes A d_name_positional_variant = ["name_on_positional"] /\
     expand A d_name_positional_variant = Err E_attr_format) /\
    (invalid_classes A d_misplaced_union_bound = ["param_misplaced"] /\
     expand A d_misplaced_union_bound = Err E_attr_format) /\
    (invalid_classes A d_debug_unit_struct = ["debug_nothing"] /\
     expand A d_debug_unit_struct = Err E_debug_unit_struct_name) /\
    (invalid_classes A d_debug_empty_enum = ["debug_nothing"] /\
     expand A d_debug_empty_enum = Err E_debug_unit_enum_name) /\
    (invalid_classes A d_debug_unit_variant = ["debug_nothing"] /\
     expand A d_debug_unit_variant = Err E_debug_unit_variant_name).
  Proof. repeat split; vm_compute; reflexivity. Qed.

  (** the classifiers are silent on valid requests (one of each shape, many traits and items) *)
  Definition d_valid_struct :=
    mk [educe [I "Debug"; G Paren [I "name"; P "="; I "Z"; P ","; I "bound"; G Paren [P "*"]]; P ",";
               I "Clone"; P ","; I "PartialEq"; P ","; I "Eq"; P ","; I "PartialOrd"; P ","; I "Ord"; P ",";
               I "Hash"; P ","; I "Default"; P ","; I "Deref"; P ","; I "DerefMut"; P ",";
               I "Into"; G Paren [I "u16"]; P ","; I "Into"; G Paren [I "u64"]]] "S"
       (DStruct (FNamed
          [fld [educe [I "Debug"; G Paren [I "ignore"]]; educe [I "Ord"; G Paren [I "rank"; P "="; one]]]
               (Some "a") "u8";
           fld [educe [I "Deref"; P ","; I "DerefMut"; P ","; I "Into"; G Paren [I "u64"]];
                educe [I "PartialEq"; G Paren [I "ignore"]]] (Some "b") "u16";
           fld [educe [I "Default"; P "="; one; P ","; I "Hash"; G Paren [I "method"; G Paren [I "h"]]]]
               (Some "c") "u32"])).
  Definition d_valid_enum :=
    mk [educe [I "Debug"; P ","; I "Clone"; P ","; I "Copy"; P ","; I "Default"; P ","; I "PartialOrd"]] "E"
       (DEnum [var [] "A" FUnit;
               var [educe [I "Default"]; educe [I "Debug"; G Paren [I "name"; P "="; I "Bee"]]] "B"
                   (FUnnamed [fld [educe [I "PartialOrd"; G Paren [I "ignore"]]] None "u8"; fld [] None "u16"]);
               var [] "C" (FNamed [fld [] (Some "x") "u32"])]).
  Definition d_valid_union :=
    mk [educe [I "Debug"; G Paren [I "unsafe"]; P ","; I "PartialEq"; G Paren [I "unsafe"]; P ",";
               I "Clone"; P ","; I "Copy"; P ","; I "Default"]] "U"
       (DUnion [fld [] (Some "a") "u8"; fld [educe [I "Default"]] (Some "b") "u16"; fld [] (Some "c") "u32"]).

  Example silent_on_valid :
    (invalid_classes A d_valid_struct = [] /\ exists its, expand A d_valid_struct = Ok its) /\
    (invalid_classes A d_valid_enum = [] /\ exists its, expand A d_valid_enum = Ok its) /\
    (invalid_classes A d_valid_union = [] /\ exists its, expand A d_valid_union = Ok its).
  Proof. repeat split; try (vm_compute; reflexivity); eexists; vm_compute; reflexivity. Qed.

  (** `bound` on a companion next to its primary:
      #[educe(PartialEq, Eq(bound(T: Copy)))] struct S {..}
      #[educe(Clone, Copy(bound = false))] struct S {..}
      #[educe(PartialOrd(bound(T: Copy)), Ord)] enum E { A, B(u8) }
      and the valid counterpart #[educe(PartialEq(bound(T: Copy)), Eq)] struct S {..} *)
  Definition bound_T_Copy : toks := [I "bound"; G Paren [I "T"; P ":"; I "Copy"]].
  Definition d_companion_eq :=
    mk [educe [I "PartialEq"; P ","; I "Eq"; G Paren bound_T_Copy]] "S" (DStruct abc).
  Definition d_companion_copy :=
    mk [educe [I "Clone"; P ","; I "Copy"; G Paren [I "bound"; P "="; I "false"]]] "S" (DStruct abc).
  Definition d_companion_partial_ord :=
    mk [educe [I "PartialOrd"; G Paren bound_T_Copy; P ","; I "Ord"]] "E"
       (DEnum [var [] "A" FUnit; var [] "B" (FUnnamed [fld [] None "u8"])]).
  Definition d_primary_bound :=
    mk [educe [I "PartialEq"; G Paren bound_T_Copy; P ","; I "Eq"]] "S" (DStruct abc).
  (** the companion alone: #[educe(Eq(bound(T: Copy)))] struct S {..} *)
  Definition d_companion_alone := mk [educe [I "Eq"; G Paren bound_T_Copy]] "S" (DStruct abc).

  Example companion_bound_fires :
    (invalid_classes A d_companion_eq = ["companion_bound"] /\ expand A d_companion_eq = Err E_attr_format) /\
    (invalid_classes A d_companion_copy = ["companion_bound"] /\ expand A d_companion_copy = Err E_attr_format) /\
    (invalid_classes A d_companion_partial_ord = ["companion_bound"] /\
     expand A d_companion_partial_ord = Err E_attr_format) /\
    (invalid_classes A d_primary_bound = [] /\ exists its, expand A d_primary_bound = Ok its) /\
    (invalid_classes A d_companion_alone = [] /\ exists its, expand A d_companion_alone = Ok its) /\
    (* with the primary's feature off the primary is not educed (its name is then unknown) *)
    invalid_companion_bound [TPartialOrd] d_companion_partial_ord = false.
  Proof. repeat split; try (vm_compute; reflexivity); eexists; vm_compute; reflexivity. Qed.

  (** a Default item below a type-level expression:
      #[educe(Default(expression = U { a: 1 }))] union U { #[educe(Default = 5)] a: u8, b: u16 }
      #[educe(Default(expr = E::A))] enum E { #[educe(Default)] A, B(#[educe(Default(expression = 5))] u8) }
      #[educe(Default(expression = f()))] struct S { a: u8, #[educe(Default = 5)] b: u16, c: u32 }
      and, without the type-level expression,
      #[educe(Default)] union U { #[educe(Default = 5)] a: u8, b: u16 };
      the empty list says nothing:
      #[educe(Default(expression = U { a: 1 }))] union U { #[educe(Default())] a: u8, b: u16 } *)
  Definition five : tt := TLit (LKInt 5 "") "5".
  Definition default_5 : attr := educe [I "Default"; P "="; five].
  Definition default_expr_U : attr :=
    educe [I "Default"; G Paren [I "expression"; P "="; I "U"; G Brace [I "a"; P ":"; one]]].
  Definition d_default_beside_union :=
    mk [default_expr_U] "U" (DUnion [fld [default_5] (Some "a") "u8"; fld [] (Some "b") "u16"]).
  Definition d_default_beside_enum :=
    mk [educe [I "Default"; G Paren [I "expr"; P "="; I "E"; P "::"; I "A"]]] "E"
       (DEnum [var [educe [I "Default"]] "A" FUnit;
               var [] "B" (FUnnamed [fld [educe [I "Default"; G Paren [I "expression"; P "="; five]]] None "u8"])]).
  Definition d_default_beside_struct :=
    mk [educe [I "Default"; G Paren [I "expression"; P "="; I "f"; G Paren []]]] "S"
       (DStruct (FNamed [fld [] (Some "a") "u8"; fld [default_5] (Some "b") "u16"; fld [] (Some "c") "u32"])).
  Definition d_default_no_type_expression :=
    mk [educe [I "Default"]] "U" (DUnion [fld [default_5] (Some "a") "u8"; fld [] (Some "b") "u16"]).
  Definition d_default_empty_beside :=
    mk [default_expr_U] "U"
       (DUnion [fld [educe [I "Default"; G Paren []]] (Some "a") "u8"; fld [] (Some "b") "u16"]).

  Example default_beside_type_expression_fires :
    (invalid_classes A d_default_beside_union = ["default_beside_type_expression"] /\
     expand A d_default_beside_union = Err E_attr_format) /\
    (invalid_classes A d_default_beside_enum = ["default_beside_type_expression"] /\
     expand A d_default_beside_enum = Err E_attr_format) /\
    (invalid_classes A d_default_beside_struct = ["default_beside_type_expression"] /\
     expand A d_default_beside_struct = Err E_attr_format) /\
    (invalid_classes A d_default_no_type_expression = [] /\
     exists its, expand A d_default_no_type_expression = Ok its) /\
    (invalid_classes A d_default_empty_beside = [] /\
     exists its, expand A d_default_empty_beside = Ok its).
  Proof. repeat split; try (vm_compute; reflexivity); eexists; vm_compute; reflexivity. Qed.

  (** the shorthand `Debug = name` on a positionally shown field:
      #[educe(Debug)] struct T(#[educe(Debug = first)] u8);
      #[educe(Debug)] enum E { A, B(u8, #[educe(Debug = "x")] u16) }
      #[educe(Debug(named_field = false))] struct S { a: u8, #[educe(Debug = first)] b: u16, c: u32 }
      and the valid counterparts: a boolean value on a positional field,
      #[educe(Debug)] struct T(#[educe(Debug = false)] u8);
      the same shorthand on a field shown by name,
      #[educe(Debug)] struct S { a: u8, #[educe(Debug = first)] b: u16, c: u32 } *)
  Definition debug_first : attr := educe [I "Debug"; P "="; I "first"].
  Definition debug_str_x : attr := educe [I "Debug"; P "="; TStr """x""" "x" (Some [I "x"])].
  Definition a_first_c : fields :=
    FNamed [fld [] (Some "a") "u8"; fld [debug_first] (Some "b") "u16"; fld [] (Some "c") "u32"].
  Definition d_shorthand_tuple_struct :=
    mk [educe [I "Debug"]] "T" (DStruct (FUnnamed [fld [debug_first] None "u8"])).
  Definition d_shorthand_tuple_variant :=
    mk [educe [I "Debug"]] "E"
       (DEnum [var [] "A" FUnit; var [] "B" (FUnnamed [fld [] None "u8"; fld [debug_str_x] None "u16"])]).
  Definition d_shorthand_named_off :=
    mk [educe [I "Debug"; G Paren [I "named_field"; P "="; I "false"]]] "S" (DStruct a_first_c).
  Definition d_shorthand_bool :=
    mk [educe [I "Debug"]] "T" (DStruct (FUnnamed [fld [educe [I "Debug"; P "="; I "false"]] None "u8"])).
  Definition d_shorthand_named := mk [educe [I "Debug"]] "S" (DStruct a_first_c).

  Example name_shorthand_on_positional_fires :
    (invalid_classes A d_shorthand_tuple_struct = ["name_on_positional"] /\
     expand A d_shorthand_tuple_struct = Err E_syn) /\
    (invalid_classes A d_shorthand_tuple_variant = ["name_on_positional"] /\
     expand A d_shorthand_tuple_variant = Err E_syn) /\
    (invalid_classes A d_shorthand_named_off = ["name_on_positional"] /\
     expand A d_shorthand_named_off = Err E_syn) /\
    (invalid_classes A d_shorthand_bool = [] /\ exists its, expand A d_shorthand_bool = Ok its) /\
    (invalid_classes A d_shorthand_named = [] /\ exists its, expand A d_shorthand_named = Ok its).
  Proof. repeat split; try (vm_compute; reflexivity); eexists; vm_compute; reflexivity. Qed.

  (** the hypothesis of [C13_rejected] holds on every invalid example *)
  Example rejected_applies : invalid_classes_modulo_gap A d_rank_twice <> [].
  Proof. vm_compute. discriminate. Qed.
End Example.

(** ** The known gap is real: #[educe(Clone, Copy)] struct S(#[educe(Copy(anything(at, all)))] u8);
    is accepted although `Copy` takes nothing on a field. *)
Definition gap_input : dinput :=
  Example.mk [Example.educe [I "Clone"; P ","; I "Copy"]] "S"
    (DStruct (FUnnamed
       [Example.fld [Example.educe [I "Copy"; G Paren [I "anything"; G Paren [I "at"; P ","; I "all"]]]]
                    None "u8"])).

Theorem C13_known_gap_witness :
  exists d, known_gap all_traits d = true /\ invalid_param_misplaced all_traits d = true /\
            exists its, expand all_traits d = Ok its.
Proof.
  exists gap_input. split; [vm_compute; reflexivity|]. split; [vm_compute; reflexivity|].
  eexists. vm_compute. reflexivity.
Qed.
Print Assumptions C13_known_gap_witness.

(** the same on a variant, with a parameter given twice *)
Theorem C13_known_gap_witness_variant :
  exists d, known_gap all_traits d = true /\ invalid_param_twice all_traits d = true /\
            invalid_classes_modulo_gap all_traits d = [] /\
            exists its, expand all_traits d = Ok its.
Proof.
  exists (Example.mk [Example.educe [I "Copy"; P ","; I "Clone"]] "E"
            (DEnum [Example.var [] "A" FUnit;
                    Example.var [Example.educe [I "Copy"; G Paren [I "bound"; G Paren [I "T"; P ":"; I "X"]; P ",";
                                                                   I "bound"; G Paren [I "T"; P ":"; I "Y"]]]]
                                "B" FUnit])).
  split; [vm_compute; reflexivity|]. split; [vm_compute; reflexivity|]. split; [vm_compute; reflexivity|].
  eexists. vm_compute. reflexivity.
Qed.
Print Assumptions C13_known_gap_witness_variant.

(** ** NOT rejected (outside the classes the property names, reported separately): the same
    malformed attribute on a FIELD or a VARIANT is silently ignored —
    #[educe(Debug)] struct S { #[educe = "x"] a: u8, #[educe] b: u16 } expands as if it were not there. *)
Theorem C13_educe_format_ignored_witness :
  exists d, invalid_item_educe_format d = true /\ invalid_classes all_traits d = [] /\
            exists its, expand all_traits d = Ok its.
Proof.
  exists (Example.mk [Example.educe [I "Debug"]] "S"
            (DStruct (FNamed
               [Example.fld [{| a_path := ["educe"]; a_meta := AMNameValue [TStr """x""" "x" (Some [I "x"])] |}]
                            (Some "a") "u8";
                Example.fld [{| a_path := ["educe"]; a_meta := AMPath |}] (Some "b") "u16"]))).
  split; [vm_compute; reflexivity|]. split; [vm_compute; reflexivity|]. eexists. vm_compute. reflexivity.
Qed.
Print Assumptions C13_educe_format_ignored_witness.
