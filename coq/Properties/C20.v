(** * C20 — union impls are byte-wise and only generated behind an explicit `unsafe`

    Statements only; each is closed by [exact] of a lemma proved in
    Proofs/P_C20*.v and followed by [Print Assumptions].

    Reading guide.  Byte model (Sem/Value.v, Sem/Interp.v): a union value is its
    object representation [VBytes l]; [i_size_of_self I] is
    `::core::mem::size_of::<Self>()` and a union value has exactly that many
    bytes.  `unsafe { ::core::slice::from_raw_parts(p as *const Self as *const u8, n) }`
    yields the first [n] bytes of the object [p] points to (stuck when [n]
    exceeds the object: an out-of-bounds read), `PartialEq::eq` on byte slices is
    list equality ([bytes_eqb]), `Hash::hash` on a byte slice is the single
    event [EvHash (VBytes l)].  [run_eq] / [run_hash] / [run_clone] run the
    emitted method in that semantics. *)
From Educe.Proofs Require Import P_C20b.

(** `==` compares exactly the size_of::<Self>() bytes of both operands. *)
Theorem C20_eq_bytes :
  forall (I : interp) F traits d m fs items la lb,
    d_data d = DUnion fs ->
    expand_partial_eq F traits d m = Ok items ->
    List.length la = i_size_of_self I -> List.length lb = i_size_of_self I ->
    exists it rest, items = it :: rest /\
      run_eq I it (VBytes la) (VBytes lb) = Some (spec_union_eq la lb).
Proof. exact union_eq_bytes. Qed.
Print Assumptions C20_eq_bytes.

(** ... and [spec_union_eq] is equality of the byte lists. *)
Theorem C20_eq_bytes_iff : forall la lb, spec_union_eq la lb = true <-> la = lb.
Proof. exact bytes_eqb_spec. Qed.
Print Assumptions C20_eq_bytes_iff.

(** Hash feeds exactly those bytes, as one byte slice. *)
Theorem C20_hash_one_slice :
  forall (I : interp) F traits d m fs items l h,
    d_data d = DUnion fs ->
    expand_hash F traits d m = Ok items ->
    List.length l = i_size_of_self I ->
    exists it, items = [it] /\ run_hash I it (VBytes l) h = Some [EvHash (VBytes l)].
Proof. exact union_hash_one_slice. Qed.
Print Assumptions C20_hash_one_slice.

(** Debug / PartialEq / Hash on a union whose attribute does not carry `unsafe` as
    its first parameter: never an impl; the dedicated error whenever the attribute is
    otherwise well-formed.  For all inputs. *)
Theorem C20_needs_unsafe :
  forall F traits d m fs,
    d_data d = DUnion fs -> has_unsafe_marker m = false ->
    (forall items, Expand_Debug.expand_debug F traits d m <> Ok items) /\
    (forall items, expand_partial_eq F traits d m <> Ok items) /\
    (forall items, expand_hash F traits d m <> Ok items) /\
    (forall ta, Expand_Debug.build_dtattr debug_union_builder m = Ok ta ->
                Expand_Debug.expand_debug F traits d m = Err E_union_without_unsafe) /\
    (forall ta, build_tattr true true false m = Ok ta ->
                expand_partial_eq F traits d m = Err E_union_without_unsafe /\
                expand_hash F traits d m = Err E_union_without_unsafe).
Proof. exact union_needs_unsafe. Qed.
Print Assumptions C20_needs_unsafe.

(** The flag the handlers test is exactly "the first parameter is `unsafe`". *)
Theorem C20_unsafe_flag_is_marker :
  forall ef eb m ta, build_tattr ef true eb m = Ok ta -> ta_unsafe ta = has_unsafe_marker m.
Proof. exact tattr_unsafe_is_marker. Qed.
Print Assumptions C20_unsafe_flag_is_marker.

(** Clone is `*self`: the result is the operand bit for bit, nobody's Clone is
    called, and (unless the user overrides bounds) every field type is bound by Copy. *)
Theorem C20_clone_bitwise :
  forall (I : interp) F traits d m fs items,
    d_data d = DUnion fs ->
    expand_clone F traits d m = Ok items ->
    exists it rest, items = it :: rest /\
      find_fn "clone" it = Some [EDeref (EVar "self")] /\
      (forall v, run_clone I it v = Some (v, [])) /\
      find_fn "clone_from" it = None /\
      (forall ta, build_tattr true false true m = Ok ta -> ta_bound ta = BAuto ->
         forall f, In f fs -> In (copy_bound (f_ty f)) (g_where (i_generics it))) /\
      (forall it', In it' rest -> i_generics it' = i_generics it /\ i_members it' = []).
Proof. exact union_clone_bitwise. Qed.
Print Assumptions C20_clone_bitwise.

(** Default: `Self { f: init, }` for exactly the designated field [f] (the only field,
    or the unique field carrying a Default attribute), [init] = its expression or
    `<ty as Default>::default()`; with a type-level expression, that expression. *)
Theorem C20_default_designated :
  forall F traits d m fs items ta,
    d_data d = DUnion fs ->
    Expand_Default.expand_default F traits d m = Ok items ->
    Expand_Default.build_dtattr true true true true m = Ok ta ->
    exists it rest, items = it :: rest /\
      match Expand_Default.dt_expr ta with
      | None =>
          exists l f fa, default_requests F traits fs = Ok l /\ designated l = Some (f, fa) /\
                         In f fs /\ find_fn "default" it = Some (spec_union_default_body f fa)
      | Some e => find_fn "default" it = Some [Expand_Default.dvalue_expr e]
      end.
Proof. exact union_default_designated. Qed.
Print Assumptions C20_default_designated.

(** ... which evaluates to a value with exactly that field (spliced-expression case). *)
Theorem C20_default_run :
  forall (I : interp) it f fa ts,
    find_fn "default" it = Some (spec_union_default_body f fa) ->
    Expand_Default.df_expr fa = Some (Expand_Default.DVExpr ts) ->
    run_default I it = Some (VData None [(match f_name f with Some n => n | None => "" end, VTok ts)]).
Proof. exact union_default_run_expr. Qed.
Print Assumptions C20_default_run.

(** Debug, syntactically: `debug_tuple(name).field(&bytes).finish()` under the effective
    name, `Debug::fmt(bytes, f)` when the name is disabled ... *)
Theorem C20_debug_shape_partial :
  forall F traits d m fs items,
    d_data d = DUnion fs ->
    Expand_Debug.expand_debug F traits d m = Ok items ->
    exists ta it, Expand_Debug.build_dtattr debug_union_builder m = Ok ta /\ items = [it] /\
      find_fn "fmt" it =
      Some (spec_union_debug_body (effective_name (Expand_Debug.dt_name ta) (d_name d))).
Proof. exact union_debug_shape. Qed.
Print Assumptions C20_debug_shape_partial.
(* FULL statement wanted (not proved here): running `fmt` on [VBytes l] produces the
   builder program  debug_tuple(name); field(<[u8] as Debug> l); finish  (resp. the
   slice's own Debug output).  Missing: a meaning for `f.debug_tuple(..)`,
   `builder.field(..)`, `builder.finish()` and `Debug::fmt` in Sem/Interp.v (the C06
   builder semantics, developed by another agent); the two theorems here pin the
   shape and the bytes, so that statement follows once those calls have a meaning. *)

(** ... and, semantically, in both shapes `data` is exactly the size_of::<Self>() bytes of `*self`. *)
Theorem C20_debug_data :
  forall (I : interp) name en p l s,
    lookup "self" en = Some (VRef p) ->
    load (st_store s) p = Some (VBytes l) ->
    List.length l = i_size_of_self I ->
    exists pre rest,
      spec_union_debug_body name = pre ++ let_size :: ELet false "data" (raw_bytes "self") :: rest /\
      List.length pre <= 1 /\
      eval_block (eval I) en (let_size :: ELet false "data" (raw_bytes "self") :: rest) s =
      eval_block (eval I) (("data", VRefTmp (VBytes l)) :: ("size", VUsize (i_size_of_self I)) :: en) rest s.
Proof. exact union_debug_data. Qed.
Print Assumptions C20_debug_data.

(** Non-vacuity: a three-field union of size 4, every trait educed. *)
Module Example.
  Definition educe (ts : toks) : attr := {| a_path := ["educe"]; a_meta := AMList Paren ts |}.
  Definition d : dinput :=
    {| d_attrs := [educe [I "Debug"; G Paren [I "unsafe"]; P ","; I "PartialEq"; G Paren [I "unsafe"]; P ",";
                          I "Hash"; G Paren [I "unsafe"]; P ","; I "Clone"; P ","; I "Default"]];
       d_name := "U";
       d_generics := {| g_params := []; g_trailing := false; g_where := []; g_where_trailing := false |};
       d_data := DUnion
         [ {| f_attrs := []; f_name := Some "a"; f_ty := [I "u8"] |};
           {| f_attrs := [educe [I "Default"; G Paren [I "expression"; P "="; I "X"]]];
              f_name := Some "b"; f_ty := [I "u16"] |};
           {| f_attrs := []; f_name := Some "c"; f_ty := [G Bracket [I "u8"; P ";"; TLit (LKInt 4 "") "4"]] |} ] |}.
  Definition tr := [TDebug; TPartialEq; THash; TClone; TDefault].
  Definition mp (n : string) : mpath := {| mp_lead := false; mp_segs := [n] |}.
  Definition with_unsafe (n : string) : meta := MList (mp n) Paren [I "unsafe"].
  Definition I0 : interp :=
    {| i_ne := fun _ _ => true; i_eq := fun _ _ => false; i_cmp := fun _ _ => Eq;
       i_partial_cmp := fun _ _ => None; i_user := fun _ _ => VUnit; i_size_of_self := 4;
       i_clone := fun v => v;
       i_clone_from := fun _ v => v;
       i_into := fun v => v;
       i_default := fun _ => VUnit |}.
  Definition x := [1; 2; 3; 4].
  Definition y := [1; 2; 3; 5].
  Definition first {A} (o : outcome (list A)) : option A := match o with Ok (a :: _) => Some a | _ => None end.

  Example computes :
    option_map (fun it => run_eq I0 it (VBytes x) (VBytes x))
               (first (expand_partial_eq all_traits tr d (with_unsafe "PartialEq"))) = Some (Some true) /\
    (* the LAST byte matters: no prefix comparison *)
    option_map (fun it => run_eq I0 it (VBytes x) (VBytes y))
               (first (expand_partial_eq all_traits tr d (with_unsafe "PartialEq"))) = Some (Some false) /\
    option_map (fun it => run_hash I0 it (VBytes x) (VStr "hasher"))
               (first (expand_hash all_traits tr d (with_unsafe "Hash"))) = Some (Some [EvHash (VBytes x)]) /\
    option_map (fun it => run_clone I0 it (VBytes y))
               (first (expand_clone all_traits tr d (MPath (mp "Clone")))) = Some (Some (VBytes y, [])) /\
    option_map (fun it => g_where (i_generics it))
               (first (expand_clone all_traits tr d (MPath (mp "Clone"))))
      = Some [copy_bound [I "u8"]; copy_bound [I "u16"];
              copy_bound [G Bracket [I "u8"; P ";"; TLit (LKInt 4 "") "4"]]] /\
    (* Default: exactly field `b`, with its expression *)
    option_map (fun it => run_default I0 it)
               (first (Expand_Default.expand_default all_traits tr d (MPath (mp "Default"))))
      = Some (Some (VData None [("b", VTok [I "X"])])) /\
    option_map (find_fn "fmt") (first (Expand_Debug.expand_debug all_traits tr d (with_unsafe "Debug")))
      = Some (Some (spec_union_debug_body (Some "U"))) /\
    option_map (find_fn "fmt")
               (first (Expand_Debug.expand_debug all_traits tr d
                         (MList (mp "Debug") Paren [I "unsafe"; P ","; I "name"; P "="; I "false"])))
      = Some (Some (spec_union_debug_body None)).
  Proof. repeat split; vm_compute; reflexivity. Qed.

  (** without the marker: `Hash`, `Hash()`, `Hash(bound(..))`-like forms are all refused *)
  Example refused :
    expand_hash all_traits tr d (MPath (mp "Hash")) = Err E_union_without_unsafe /\
    expand_hash all_traits tr d (MList (mp "Hash") Paren []) = Err E_union_without_unsafe /\
    expand_partial_eq all_traits tr d (MList (mp "PartialEq") Paren []) = Err E_union_without_unsafe /\
    Expand_Debug.expand_debug all_traits tr d (MList (mp "Debug") Paren [I "name"; P "="; I "V"])
      = Err E_union_without_unsafe /\
    (* `unsafe` not in first position is not the marker *)
    has_unsafe_marker (MList (mp "Debug") Paren [I "name"; P "="; I "V"; P ","; I "unsafe"]) = false /\
    has_unsafe_marker (with_unsafe "Hash") = true.
  Proof. repeat split; vm_compute; reflexivity. Qed.

  (** the hypotheses of the theorems hold here *)
  Example hypotheses_hold :
    d_data d = DUnion (match d_data d with DUnion fs => fs | _ => [] end) /\
    List.length x = i_size_of_self I0 /\ List.length y = i_size_of_self I0 /\
    (exists items, expand_partial_eq all_traits tr d (with_unsafe "PartialEq") = Ok items) /\
    (exists items, expand_hash all_traits tr d (with_unsafe "Hash") = Ok items) /\
    (exists ta, build_tattr true false true (MPath (mp "Clone")) = Ok ta /\ ta_bound ta = BAuto) /\
    (exists ta, Expand_Default.build_dtattr true true true true (MPath (mp "Default")) = Ok ta /\
                Expand_Default.dt_expr ta = None).
  Proof. repeat split; try reflexivity; eexists; vm_compute; try split; reflexivity. Qed.
End Example.
