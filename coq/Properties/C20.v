(** * C20 — union impls are byte-wise and only generated behind an explicit `unsafe`

    Statements only; each is closed by [exact] of a lemma proved in
    Proofs/P_C20*.v and followed by [Print Assumptions].

    Reading guide.  Byte model (Sem/Value.v, Sem/Interp.v): a union value is its
    object representation [VBytes l]; [i_size_of_self I] is
    `::core::mem::size_of::<Self>()` and a union value has exactly that many
    bytes.  `unsafe { ::core::slice::from_raw_parts(p as *const Self as *const u8, n) }`
    yields the first [n] bytes of the object [p] points to (stuck when [n]
    exceeds the object: an out-of-bounds read), `PartialEq::eq` on byte slices is
    list equality ([bytes_eqb]), `Hash::hash` on a byte slice is the single
    event [EvHash (VBytes l)].  [run_eq] / [run_hash] / [run_clone] run the
    emitted method in that semantics.
    Debug: [P_C06.run_fmt I it v] is C06's runner (Proofs/P_C06.v): the emitted `fmt` on a
    receiver holding [v], with an OPAQUE formatter `f`; the result is the complete sequence
    of calls made on the formatter and on core::fmt builders.  A byte slice handed to a
    builder is [FADebug (VRefTmp (VBytes l))] (`data : &[u8]`, through its own Debug);
    [EvDebugFmt (FADebug (VBytes l))] is `<[u8] as Debug>::fmt(data, f)` called directly on
    the formatter.  [run_events alt render] (Sem/Fmt.v) turns such a sequence into text;
    [bytes_text alt l] is core's text of a `[u8]` (DebugList, decimal bytes). *)
From Educe.Proofs Require Import P_C20d.
From Educe.Sem Require Import Fmt.

(** `==` compares exactly the size_of::<Self>() bytes of both operands. *)
Theorem C20_eq_bytes :
  forall (I : interp) F traits d m fs items la lb,
    d_data d = DUnion fs ->
    expand_partial_eq F traits d m = Ok items ->
    List.length la = i_size_of_self I -> List.length lb = i_size_of_self I ->
    exists it rest, items = it :: rest /\
      run_eq I it (VBytes la) (VBytes lb) = Some (spec_union_eq la lb).
Proof. exact union_eq_bytes. Qed.
Print Assumptions C20_eq_bytes.

(** ... and [spec_union_eq] is equality of the byte lists. *)
Theorem C20_eq_bytes_iff : forall la lb, spec_union_eq la lb = true <-> la = lb.
Proof. exact bytes_eqb_spec. Qed.
Print Assumptions C20_eq_bytes_iff.

(** Hash feeds exactly those bytes, as one byte slice. *)
Theorem C20_hash_one_slice :
  forall (I : interp) F traits d m fs items l h,
    d_data d = DUnion fs ->
    expand_hash F traits d m = Ok items ->
    List.length l = i_size_of_self I ->
    exists it, items = [it] /\ run_hash I it (VBytes l) h = Some [EvHash (VBytes l)].
Proof. exact union_hash_one_slice. Qed.
Print Assumptions C20_hash_one_slice.

(** Debug / PartialEq / Hash on a union whose attribute does not carry `unsafe` as
    its first parameter: never an impl; the dedicated error whenever the attribute is
    otherwise well-formed.  For all inputs. *)
Theorem C20_needs_unsafe :
  forall F traits d m fs,
    d_data d = DUnion fs -> has_unsafe_marker m = false ->
    (forall items, Expand_Debug.expand_debug F traits d m <> Ok items) /\
    (forall items, expand_partial_eq F traits d m <> Ok items) /\
    (forall items, expand_hash F traits d m <> Ok items) /\
    (forall ta, Expand_Debug.build_dtattr debug_union_builder m = Ok ta ->
                Expand_Debug.expand_debug F traits d m = Err E_union_without_unsafe) /\
    (forall ta, build_tattr true true false m = Ok ta ->
                expand_partial_eq F traits d m = Err E_union_without_unsafe /\
                expand_hash F traits d m = Err E_union_without_unsafe).
Proof. exact union_needs_unsafe. Qed.
Print Assumptions C20_needs_unsafe.

(** The flag the handlers test is exactly "the first parameter is `unsafe`". *)
Theorem C20_unsafe_flag_is_marker :
  forall ef eb m ta, build_tattr ef true eb m = Ok ta -> ta_unsafe ta = has_unsafe_marker m.
Proof. exact tattr_unsafe_is_marker. Qed.
Print Assumptions C20_unsafe_flag_is_marker.

(** Clone is `*self`: the result is the operand bit for bit, nobody's Clone is
    called, and (unless the user overrides bounds) every field type is bound by Copy. *)
Theorem C20_clone_bitwise :
  forall (I : interp) F traits d m fs items,
    d_data d = DUnion fs ->
    expand_clone F traits d m = Ok items ->
    exists it rest, items = it :: rest /\
      find_fn "clone" it = Some [EDeref (EVar "self")] /\
      (forall v, run_clone I it v = Some (v, [])) /\
      find_fn "clone_from" it = None /\
      (forall ta, build_tattr true false true m = Ok ta -> ta_bound ta = BAuto ->
         forall f, In f fs -> In (copy_bound (f_ty f)) (g_where (i_generics it))) /\
      (forall it', In it' rest -> i_generics it' = i_generics it /\ i_members it' = []).
Proof. exact union_clone_bitwise. Qed.
Print Assumptions C20_clone_bitwise.

(** Default: `Self { f: init, }` for exactly the designated field [f] (the only field,
    or the unique field carrying a Default attribute), [init] = its expression or
    `<ty as Default>::default()`; with a type-level expression, that expression. *)
Theorem C20_default_designated :
  forall F traits d m fs items ta,
    d_data d = DUnion fs ->
    Expand_Default.expand_default F traits d m = Ok items ->
    Expand_Default.build_dtattr true true true true m = Ok ta ->
    exists it rest, items = it :: rest /\
      match Expand_Default.dt_expr ta with
      | None =>
          exists l f fa, default_requests F traits fs = Ok l /\ designated l = Some (f, fa) /\
                         In f fs /\ find_fn "default" it = Some (spec_union_default_body f fa)
      | Some e => find_fn "default" it = Some [Expand_Default.dvalue_expr e]
      end.
Proof. exact union_default_designated. Qed.
Print Assumptions C20_default_designated.

(** ... which evaluates to a value with exactly that field (spliced-expression case). *)
Theorem C20_default_run :
  forall (I : interp) it f fa ts,
    find_fn "default" it = Some (spec_union_default_body f fa) ->
    Expand_Default.df_expr fa = Some (Expand_Default.DVExpr ts) ->
    run_default I it = Some (VData None [(match f_name f with Some n => n | None => "" end, VTok ts)]).
Proof. exact union_default_run_expr. Qed.
Print Assumptions C20_default_run.

(** Debug, syntactically: `debug_tuple(name).field(&bytes).finish()` under the effective
    name, `Debug::fmt(bytes, f)` when the name is disabled ... *)
Theorem C20_debug_shape_partial :
  forall F traits d m fs items,
    d_data d = DUnion fs ->
    Expand_Debug.expand_debug F traits d m = Ok items ->
    exists ta it, Expand_Debug.build_dtattr debug_union_builder m = Ok ta /\ items = [it] /\
      find_fn "fmt" it =
      Some (spec_union_debug_body (effective_name (Expand_Debug.dt_name ta) (d_name d))).
Proof. exact union_debug_shape. Qed.
Print Assumptions C20_debug_shape_partial.
(* The full (semantic) statement is [C20_debug_run] below; this one only pins the syntax of the
   body, and [C20_debug_data] the `data` binding. *)

(** Debug, semantically: running the emitted `fmt` on a union value with bytes [l] makes exactly
    these calls and no other: `f.debug_tuple(name)`, `.field(<the size_of::<Self>() bytes as a
    byte slice, through the slice's own Debug>)`, `.finish()` under the effective name; with the
    name disabled the single call `<[u8] as Debug>::fmt(<those bytes>, f)` directly on the
    formatter.  For every interpretation, every formatter state (the formatter is opaque),
    every [l].  ([spec_union_debug_program], Spec/SpecUnion.v, is that event list.) *)
Theorem C20_debug_run :
  forall (I : interp) F traits d m fs items l,
    d_data d = DUnion fs ->
    Expand_Debug.expand_debug F traits d m = Ok items ->
    List.length l = i_size_of_self I ->
    exists ta it, Expand_Debug.build_dtattr debug_union_builder m = Ok ta /\ items = [it] /\
      P_C06.run_fmt I it (VBytes l) =
      Some (spec_union_debug_program (effective_name (Expand_Debug.dt_name ta) (d_name d)) l).
Proof. exact union_debug_run. Qed.
Print Assumptions C20_debug_run.

(** the event list, spelled out *)
Theorem C20_debug_program_forms :
  forall l,
    (forall n, spec_union_debug_program (Some n) l =
               [EvBuilderNew BTuple n; EvBuilderField None (FADebug (VRefTmp (VBytes l))); EvBuilderFinish]) /\
    spec_union_debug_program None l = [EvDebugFmt (FADebug (VBytes l))].
Proof. intros l. split; reflexivity. Qed.
Print Assumptions C20_debug_program_forms.

(** `{:?}` / `{:#?}`: `Name([1, 2, 3])`, resp. the bare list when the name is disabled
    ([spec_union_debug_text], Proofs/P_C20d.v), under Sem/Fmt.v's transcription of core::fmt's
    builders, for every [render] that formats a byte slice as core does ([renders_bytes]:
    `[u8]` and `&[u8]` both give [bytes_text alt l]; [render_bytes] is such a function).
    Plain `{:?}` / `{:#?}` only: with `{:x?}`, a width or a precision the bytes' own texts differ. *)
Theorem C20_debug_string :
  forall (I : interp) F traits alt render d m fs items l,
    d_data d = DUnion fs ->
    Expand_Debug.expand_debug F traits d m = Ok items ->
    List.length l = i_size_of_self I ->
    renders_bytes alt render ->
    exists ta it tr, Expand_Debug.build_dtattr debug_union_builder m = Ok ta /\ items = [it] /\
      P_C06.run_fmt I it (VBytes l) = Some tr /\
      run_events alt render None tr =
      Some (spec_union_debug_text alt (effective_name (Expand_Debug.dt_name ta) (d_name d)) l).
Proof. exact union_debug_string. Qed.
Print Assumptions C20_debug_string.

(** ... in closed form *)
Theorem C20_debug_text_forms :
  forall l,
    (forall n, spec_union_debug_text false (Some n) l =
               n ^^ "(" ^^ bytes_text false l ^^ (if is_empty n then "," else "") ^^ ")") /\
    (forall n, spec_union_debug_text true (Some n) l =
               n ^^ "(" ^^ nl ^^ indent (bytes_text true l ^^ "," ^^ nl) ^^ ")") /\
    (forall alt, spec_union_debug_text alt None l = bytes_text alt l).
Proof. intros l. repeat split. Qed.
Print Assumptions C20_debug_text_forms.

Theorem C20_bytes_text_forms :
  (forall alt, bytes_text alt [] = "[]") /\
  (forall x r, bytes_text false (x :: r) =
               "[" ^^ dec x ^^ fold_right append "" (map (fun y => ", " ^^ dec y) r) ^^ "]") /\
  (forall x r, bytes_text true (x :: r) =
               "[" ^^ nl ^^ fold_right append "" (map (fun y => indent (dec y ^^ "," ^^ nl)) (x :: r)) ^^ "]").
Proof. exact bytes_text_forms. Qed.
Print Assumptions C20_bytes_text_forms.

Theorem C20_render_bytes_ok : forall alt, renders_bytes alt (render_bytes alt).
Proof. exact render_bytes_ok. Qed.
Print Assumptions C20_render_bytes_ok.

(** ... and, semantically, in both shapes `data` is exactly the size_of::<Self>() bytes of `*self`. *)
Theorem C20_debug_data :
  forall (I : interp) name en p l s,
    lookup "self" en = Some (VRef p) ->
    load (st_store s) p = Some (VBytes l) ->
    List.length l = i_size_of_self I ->
    exists pre rest,
      spec_union_debug_body name = pre ++ let_size :: ELet false "data" (raw_bytes "self") :: rest /\
      List.length pre <= 1 /\
      eval_block (eval I) en (let_size :: ELet false "data" (raw_bytes "self") :: rest) s =
      eval_block (eval I) (("data", VRefTmp (VBytes l)) :: ("size", VUsize (i_size_of_self I)) :: en) rest s.
Proof. exact union_debug_data. Qed.
Print Assumptions C20_debug_data.

(** Non-vacuity: a three-field union of size 4, every trait educed. *)
Module Example.
  Definition educe (ts : toks) : attr := {| a_path := ["educe"]; a_meta := AMList Paren ts |}.
  Definition d : dinput :=
    {| d_attrs := [educe [I "Debug"; G Paren [I "unsafe"]; P ","; I "PartialEq"; G Paren [I "unsafe"]; P ",";
                          I "Hash"; G Paren [I "unsafe"]; P ","; I "Clone"; P ","; I "Default"]];
       d_name := "U";
       d_generics := {| g_params := []; g_trailing := false; g_where := []; g_where_trailing := false |};
       d_data := DUnion
         [ {| f_attrs := []; f_name := Some "a"; f_ty := [I "u8"] |};
           {| f_attrs := [educe [I "Default"; G Paren [I "expression"; P "="; I "X"]]];
              f_name := Some "b"; f_ty := [I "u16"] |};
           {| f_attrs := []; f_name := Some "c"; f_ty := [G Bracket [I "u8"; P ";"; TLit (LKInt 4 "") "4"]] |} ] |}.
  Definition tr := [TDebug; TPartialEq; THash; TClone; TDefault].
  Definition mp (n : string) : mpath := {| mp_lead := false; mp_segs := [n] |}.
  Definition with_unsafe (n : string) : meta := MList (mp n) Paren [I "unsafe"].
  Definition I0 : interp :=
    {| i_ne := fun _ _ => true; i_eq := fun _ _ => false; i_cmp := fun _ _ => Eq;
       i_partial_cmp := fun _ _ => None; i_user := fun _ _ => VUnit; i_size_of_self := 4;
       i_clone := fun v => v;
       i_clone_from := fun _ v => v;
       i_into := fun v => v;
       i_default := fun _ => VUnit |}.
  Definition x := [1; 2; 3; 4].
  Definition y := [1; 2; 3; 5].
  Definition first {A} (o : outcome (list A)) : option A := match o with Ok (a :: _) => Some a | _ => None end.

  Example computes :
    option_map (fun it => run_eq I0 it (VBytes x) (VBytes x))
               (first (expand_partial_eq all_traits tr d (with_unsafe "PartialEq"))) = Some (Some true) /\
    (* the LAST byte matters: no prefix comparison *)
    option_map (fun it => run_eq I0 it (VBytes x) (VBytes y))
               (first (expand_partial_eq all_traits tr d (with_unsafe "PartialEq"))) = Some (Some false) /\
    option_map (fun it => run_hash I0 it (VBytes x) (VStr "hasher"))
               (first (expand_hash all_traits tr d (with_unsafe "Hash"))) = Some (Some [EvHash (VBytes x)]) /\
    option_map (fun it => run_clone I0 it (VBytes y))
               (first (expand_clone all_traits tr d (MPath (mp "Clone")))) = Some (Some (VBytes y, [])) /\
    option_map (fun it => g_where (i_generics it))
               (first (expand_clone all_traits tr d (MPath (mp "Clone"))))
      = Some [copy_bound [I "u8"]; copy_bound [I "u16"];
              copy_bound [G Bracket [I "u8"; P ";"; TLit (LKInt 4 "") "4"]]] /\
    (* Default: exactly field `b`, with its expression *)
    option_map (fun it => run_default I0 it)
               (first (Expand_Default.expand_default all_traits tr d (MPath (mp "Default"))))
      = Some (Some (VData None [("b", VTok [I "X"])])) /\
    option_map (find_fn "fmt") (first (Expand_Debug.expand_debug all_traits tr d (with_unsafe "Debug")))
      = Some (Some (spec_union_debug_body (Some "U"))) /\
    option_map (find_fn "fmt")
               (first (Expand_Debug.expand_debug all_traits tr d
                         (MList (mp "Debug") Paren [I "unsafe"; P ","; I "name"; P "="; I "false"])))
      = Some (Some (spec_union_debug_body None)).
  Proof. repeat split; vm_compute; reflexivity. Qed.

  (** without the marker: `Hash`, `Hash()`, `Hash(bound(..))`-like forms are all refused *)
  Example refused :
    expand_hash all_traits tr d (MPath (mp "Hash")) = Err E_union_without_unsafe /\
    expand_hash all_traits tr d (MList (mp "Hash") Paren []) = Err E_union_without_unsafe /\
    expand_partial_eq all_traits tr d (MList (mp "PartialEq") Paren []) = Err E_union_without_unsafe /\
    Expand_Debug.expand_debug all_traits tr d (MList (mp "Debug") Paren [I "name"; P "="; I "V"])
      = Err E_union_without_unsafe /\
    (* `unsafe` not in first position is not the marker *)
    has_unsafe_marker (MList (mp "Debug") Paren [I "name"; P "="; I "V"; P ","; I "unsafe"]) = false /\
    has_unsafe_marker (with_unsafe "Hash") = true.
  Proof. repeat split; vm_compute; reflexivity. Qed.

  (** the hypotheses of the theorems hold here *)
  Example hypotheses_hold :
    d_data d = DUnion (match d_data d with DUnion fs => fs | _ => [] end) /\
    List.length x = i_size_of_self I0 /\ List.length y = i_size_of_self I0 /\
    (exists items, expand_partial_eq all_traits tr d (with_unsafe "PartialEq") = Ok items) /\
    (exists items, expand_hash all_traits tr d (with_unsafe "Hash") = Ok items) /\
    (exists ta, build_tattr true false true (MPath (mp "Clone")) = Ok ta /\ ta_bound ta = BAuto) /\
    (exists ta, Expand_Default.build_dtattr true true true true (MPath (mp "Default")) = Ok ta /\
                Expand_Default.dt_expr ta = None).
  Proof. repeat split; try reflexivity; eexists; vm_compute; try split; reflexivity. Qed.

  (** Debug, run: the calls made and the texts; name shown, custom, and `name = false` *)
  Definition named : meta := with_unsafe "Debug".
  Definition custom : meta := MList (mp "Debug") Paren [I "unsafe"; P ","; I "name"; P "="; I "V"].
  Definition nameless : meta := MList (mp "Debug") Paren [I "unsafe"; P ","; I "name"; P "="; I "false"].
  Definition run_debug (m : meta) (l : list nat) : option (option (list event)) :=
    option_map (fun it => P_C06.run_fmt I0 it (VBytes l)) (first (Expand_Debug.expand_debug all_traits tr d m)).
  Definition text_debug (alt : bool) (m : meta) (l : list nat) : option string :=
    match run_debug m l with
    | Some (Some evs) => run_events alt (render_bytes alt) None evs
    | _ => None
    end.

  Example debug_runs :
    run_debug named x =
      Some (Some [EvBuilderNew BTuple "U"; EvBuilderField None (FADebug (VRefTmp (VBytes [1; 2; 3; 4])));
                  EvBuilderFinish]) /\
    spec_union_debug_program (Some "U") x =
      [EvBuilderNew BTuple "U"; EvBuilderField None (FADebug (VRefTmp (VBytes [1; 2; 3; 4]))); EvBuilderFinish] /\
    run_debug custom y =
      Some (Some [EvBuilderNew BTuple "V"; EvBuilderField None (FADebug (VRefTmp (VBytes [1; 2; 3; 5])));
                  EvBuilderFinish]) /\
    run_debug nameless x = Some (Some [EvDebugFmt (FADebug (VBytes [1; 2; 3; 4]))]) /\
    spec_union_debug_program None x = [EvDebugFmt (FADebug (VBytes [1; 2; 3; 4]))] /\
    (* a value of the wrong size is an out-of-bounds read: no result *)
    run_debug named [1; 2; 3] = Some None.
  Proof. repeat split; vm_compute; reflexivity. Qed.

  Example debug_texts :
    text_debug false named x = Some "U([1, 2, 3, 4])" /\
    spec_union_debug_text false (Some "U") x = "U([1, 2, 3, 4])" /\
    text_debug false custom y = Some "V([1, 2, 3, 5])" /\
    text_debug false nameless x = Some "[1, 2, 3, 4]" /\
    spec_union_debug_text false None x = "[1, 2, 3, 4]" /\
    text_debug true named x =
      Some ("U(" ^^ nl ^^ "    [" ^^ nl ^^ "        1," ^^ nl ^^ "        2," ^^ nl ^^ "        3," ^^ nl ^^
            "        4," ^^ nl ^^ "    ]," ^^ nl ^^ ")") /\
    spec_union_debug_text true (Some "U") x =
      "U(" ^^ nl ^^ "    [" ^^ nl ^^ "        1," ^^ nl ^^ "        2," ^^ nl ^^ "        3," ^^ nl ^^
      "        4," ^^ nl ^^ "    ]," ^^ nl ^^ ")" /\
    text_debug true nameless x =
      Some ("[" ^^ nl ^^ "    1," ^^ nl ^^ "    2," ^^ nl ^^ "    3," ^^ nl ^^ "    4," ^^ nl ^^ "]") /\
    spec_union_debug_text true None x =
      "[" ^^ nl ^^ "    1," ^^ nl ^^ "    2," ^^ nl ^^ "    3," ^^ nl ^^ "    4," ^^ nl ^^ "]".
  Proof. repeat split; vm_compute; reflexivity. Qed.

  Example debug_hypotheses_hold :
    (exists items, Expand_Debug.expand_debug all_traits tr d named = Ok items) /\
    (exists items, Expand_Debug.expand_debug all_traits tr d custom = Ok items) /\
    (exists items, Expand_Debug.expand_debug all_traits tr d nameless = Ok items) /\
    (exists ta, Expand_Debug.build_dtattr debug_union_builder nameless = Ok ta /\
                effective_name (Expand_Debug.dt_name ta) (d_name d) = None) /\
    (exists ta, Expand_Debug.build_dtattr debug_union_builder custom = Ok ta /\
                effective_name (Expand_Debug.dt_name ta) (d_name d) = Some "V").
  Proof. repeat split; eexists; vm_compute; try split; reflexivity. Qed.
End Example.
