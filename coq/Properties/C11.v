(** * C11 — automatic bounds are exactly those the generated code needs

    Statements only; each is closed by [exact] of a lemma proved in
    Proofs/P_C11.v / P_C12*.v and followed by [Print Assumptions].

    Reading guide (see also Properties/C12.v).  In the automatic mode
    ([type_mode] = [BAuto]: no `bound` parameter, or `bound = true`) the
    predicates a handler adds after the user's are, by C11_where_auto,
    `ty : Trait` for each DELEGATED field type, then `Self : S` for each
    supertrait.  Spec/SpecBounds.v defines these from the property text:

    - [delegated_of t F traits d m], the delegated types of trait [t]: the
      fields "not ignored and without a custom method" ([delegated], over the
      field views read by the trait's own attribute analysis), struct fields
      or all variants' fields in turn — for Ord / PartialOrd in ascending rank
      within each struct / variant ([by_rank]); for Default "only fields
      actually defaulted" ([default_delegated]: none under a type-level
      expression, else the fields of the constructed struct / default variant /
      union field without an expression of their own); for Into<T> "only chosen
      fields that need conversion" ([into_delegated]: per variant the designated
      field unless it has a method for T or is of type T); for Copy, a
      stand-alone Eq and a union Clone every field ([every_field_type]); for
      the unions of PartialEq / Hash / Debug (bytes compared / hashed / printed)
      and for Deref / DerefMut none;
    - [required_trait t F traits d], the trait asked of them: the trait itself;
      `PartialEq` for a stand-alone Eq, as documented; for Clone `Copy` instead
      of `Clone` exactly when the body is `*self` ([clone_by_copy]: a union, or
      Copy educed and no field has a clone method);
    - [supers_of t F traits]: Copy: `Self: Clone`; Eq: `Self: PartialEq`;
      PartialOrd: `Self: PartialEq`; Ord: `Self: Eq`, and `Self: PartialOrd`
      unless PartialOrd is educed alongside (only when the crate's PartialOrd
      feature is compiled in).

    "Applies exactly when": a Rust impl applies to an instantiation iff its
    where-predicates hold; [C11_applies_iff] unfolds that for the automatic
    predicates over an arbitrary trait environment. *)
From Educe.Proofs Require Import P_C11.

(** C11_where_auto.  For every handler of the driver's table, every feature
    set, every input: in the automatic mode every emitted item's where-clause
    is the user's, then `ty : required_trait` for exactly the delegated types
    of the specification, in order, then `Self : S` for the supertraits. *)
Theorem C11_where_auto :
  forall t h, In (t, h) handlers ->
  forall F traits d m items, h F traits d m = Ok items ->
    type_mode t F traits d m = Ok BAuto ->
    exists tys,
      delegated_of t F traits d m = Ok tys /\
      Forall (fun it => g_where (i_generics it)
                        = g_where (d_generics d)
                          ++ map (fun ty => ty ++ [P ":"] ++ required_trait t F traits d) tys
                          ++ map (fun s => [I "Self"; P ":"] ++ s) (supers_of t F traits)) items.
Proof. exact auto_bounds_delegated. Qed.
Print Assumptions C11_where_auto.

(** In every mode the handler's collected types are the specification's delegated types
    (they matter in the automatic mode only): the full statement behind C11_where_auto. *)
Theorem C11_delegated_types :
  forall t h, In (t, h) handlers ->
  forall F traits d m items, h F traits d m = Ok items ->
  exists b tys,
    type_mode t F traits d m = Ok b /\
    delegated_of t F traits d m = Ok tys /\
    Forall (fun it =>
              i_generics it
              = push_preds (d_generics d)
                  (bound_preds b (d_generics d) (required_trait t F traits d) tys (supers_of t F traits))
              /\ i_self it = d_name d) items.
Proof. exact handlers_ok. Qed.
Print Assumptions C11_delegated_types.

(** Into: per target T (with its own mode), `ty : Into<T>` for the chosen fields that need
    conversion; no supertrait. *)
Theorem C11_where_auto_into :
  forall F traits d ms items, expand_into F traits d ms = Ok items ->
  exists targets c,
    into_cfg F traits d ms = Ok (targets, c) /\
    Forall2 (fun t it =>
               snd t = BAuto ->
               g_where (i_generics it)
               = g_where (d_generics d)
                 ++ map (fun ty => ty ++ [P ":"] ++ into_trait (fst t)) (into_delegated (fst t) c))
            targets items.
Proof.
  intros F traits d ms items H. destruct (into_modes F traits d ms items H) as [targets [c [Hc Hall]]].
  exists targets, c. split; [exact Hc|].
  eapply Forall2_impl; [|exact Hall]. intros [T b] it Hm Hb. cbn [fst snd] in *. subst b. exact Hm.
Qed.
Print Assumptions C11_where_auto_into.

(** C11_applies_iff.  Over any trait environment [env] (type, trait |-> implemented), the
    automatic predicates hold iff every delegated type implements the required trait and `Self`
    implements every supertrait. *)
Theorem C11_applies_iff :
  forall (env : tenv) (r : breq),
    preds_hold env (auto_preds r) = true <->
    (forall ty, In ty (rq_types r) -> env ty (rq_trait r) = true) /\
    (forall s, In s (rq_supers r) -> env [I "Self"] s = true).
Proof. exact auto_applies_iff. Qed.
Print Assumptions C11_applies_iff.

(** C11_unused_params_free.  A name [n] (a type parameter: never `Self`) that occurs as a token
    in no delegated type bounds nothing: no automatic predicate has it in its bounded type ... *)
Theorem C11_unused_params_free_lhs :
  forall (n : string) (r : breq),
    n <> "Self" ->
    (forall ty, In ty (rq_types r) -> mentions n ty = false) ->
    forall p, In p (auto_preds r) -> mentions n (fst p) = false.
Proof. exact auto_lhs_free. Qed.
Print Assumptions C11_unused_params_free_lhs.

(** ... and on the emitted items it occurs nowhere in what follows the user's predicates
    (provided the trait paths themselves do not spell it — a parameter named `core` would). *)
Theorem C11_unused_params_free :
  forall t h, In (t, h) handlers ->
  forall F traits d m items tys n,
    h F traits d m = Ok items ->
    type_mode t F traits d m = Ok BAuto ->
    delegated_of t F traits d m = Ok tys ->
    n <> "Self" ->
    (forall ty, In ty tys -> mentions n ty = false) ->
    mentions n (required_trait t F traits d) = false ->
    (forall s, In s (supers_of t F traits) -> mentions n s = false) ->
    forall it p, In it items ->
                 In p (skipn (List.length (g_where (d_generics d))) (g_where (i_generics it))) ->
                 mentions n p = false.
Proof. exact handlers_unused_free. Qed.
Print Assumptions C11_unused_params_free.

(** C11_companions.  The companion impl is emitted exactly when its trait is educed too, right
    after the primary, with the SAME generics record (parameters and where-clause): it applies
    to exactly the same instantiations. *)
Theorem C11_companions :
  (forall F traits d m items, expand_partial_eq F traits d m = Ok items ->
     exists it, i_trait it = Some (core_path ["cmp"; "PartialEq"]) /\
       if educed TEq F traits
       then exists it', items = [it; it'] /\ companion_of it it' (core_path ["cmp"; "Eq"])
       else items = [it]) /\
  (forall F traits d m items, expand_clone F traits d m = Ok items ->
     exists it, i_trait it = Some (core_path ["clone"; "Clone"]) /\
       if educed TCopy F traits
       then exists it', items = [it; it'] /\ companion_of it it' (core_path ["marker"; "Copy"])
       else items = [it]) /\
  (forall F traits d m items, expand_ord F traits d m = Ok items ->
     exists it, i_trait it = Some (core_path ["cmp"; "Ord"]) /\
       if educed TPartialOrd F traits
       then exists it', items = [it; it'] /\
                        i_generics it' = i_generics it /\ i_self it' = i_self it /\
                        i_trait it' = Some (core_path ["cmp"; "PartialOrd"]) /\
                        i_members it' = [MFn inline_attr "partial_cmp" partial_cmp_sig ["self"; "other"]
                                             partial_ord_via_ord_body]
       else items = [it]).
Proof. split; [exact eq_companion|]. split; [exact copy_companion|exact partial_ord_companion]. Qed.
Print Assumptions C11_companions.

(** The Copy companion against the property text ("for Copy every field").  Either `Copy` is
    required of EVERY field type (whenever clone is the bitwise copy), or — the known deviation,
    [known_copy_bound]: Copy educed on an enum with a custom clone method — the companion carries
    the Clone impl's clause: `Clone`, and only of the fields without a method. *)
Theorem C11_copy_companion_bound :
  forall F traits d m items,
    expand_clone F traits d m = Ok items -> educed TCopy F traits = true ->
    exists ta l it it',
      items = [it; it'] /\ companion_of it it' (core_path ["marker"; "Copy"]) /\
      build_tattr true false true m = Ok ta /\ clone_fields F traits d = Ok l /\
      ((clone_by_copy F traits d l = true /\
        i_generics it' = push_preds (d_generics d)
                           (bound_preds (ta_bound ta) (d_generics d) (core_path ["marker"; "Copy"])
                              (every_field_type (d_data d)) []))
       \/
       (known_copy_bound F traits d /\
        i_generics it' = push_preds (d_generics d)
                           (bound_preds (ta_bound ta) (d_generics d) (core_path ["clone"; "Clone"])
                              (delegated l) []))).
Proof. exact copy_companion_bound. Qed.
Print Assumptions C11_copy_companion_bound.

(** Non-vacuity, and the witness of the deviation.
    `#[educe(PartialEq, Eq, Clone, Copy, Ord, PartialOrd)]
     enum E<T, U, V> {
         A(T, #[educe(PartialEq(ignore), Ord(ignore))] U),
         B { #[educe(PartialEq(method(eq_v)), Clone(method(clone_v)), Ord(method(cmp_v), rank = 1))] v: V,
             #[educe(Ord(rank = 0))] n: u8 } }` *)
Module Example.
  Definition educe (ts : toks) : attr := {| a_path := ["educe"]; a_meta := AMList Paren ts |}.
  Definition fld (n : option string) (ty : string) (ts : list toks) : field :=
    {| f_attrs := map educe ts; f_name := n; f_ty := [I ty] |}.
  Definition lit (z : Z) (s : string) : tt := TLit (LKInt z "") s.
  Definition gen : generics :=
    {| g_params := [GType "T" [] None; GType "U" [] None; GType "V" [] None];
       g_trailing := false; g_where := []; g_where_trailing := false |}.
  Definition variants : list variant :=
    [ {| v_attrs := []; v_name := "A"; v_discr := None;
         v_fields := FUnnamed [fld None "T" [];
                               fld None "U" [[I "PartialEq"; G Paren [I "ignore"]; P ",";
                                              I "Ord"; G Paren [I "ignore"]]]] |};
      {| v_attrs := []; v_name := "B"; v_discr := None;
         v_fields := FNamed [fld (Some "v") "V"
                               [[I "PartialEq"; G Paren [I "method"; G Paren [I "eq_v"]]; P ",";
                                 I "Clone"; G Paren [I "method"; G Paren [I "clone_v"]]; P ",";
                                 I "Ord"; G Paren [I "method"; G Paren [I "cmp_v"]; P ",";
                                                   I "rank"; P "="; lit 1 "1"]]];
                             fld (Some "n") "u8" [[I "Ord"; G Paren [I "rank"; P "="; lit 0 "0"]]]] |} ].
  Definition d : dinput :=
    {| d_attrs := [educe [I "PartialEq"; P ","; I "Eq"; P ","; I "Clone"; P ","; I "Copy"; P ",";
                          I "Ord"; P ","; I "PartialOrd"]];
       d_name := "E"; d_generics := gen; d_data := DEnum variants |}.
  Definition traits := [TPartialEq; TEq; TClone; TCopy; TOrd; TPartialOrd].
  Definition mp (s : string) : mpath := {| mp_lead := false; mp_segs := [s] |}.
  Definition items := match expand all_traits d with Ok l => l | _ => [] end.
  Definition path (a b : string) : toks := [P "::"; I "core"; P "::"; I a; P "::"; I b].
  Definition bnd (ty : string) (tr : toks) : toks := [I ty; P ":"] ++ tr.

  (** Clone, Copy (companion), PartialEq, Eq (companion), Ord, PartialOrd (companion) *)
  Example runs :
    expand all_traits d = Ok items /\
    map i_trait items = map Some [path "clone" "Clone"; path "marker" "Copy"; path "cmp" "PartialEq";
                                  path "cmp" "Eq"; path "cmp" "Ord"; path "cmp" "PartialOrd"].
  Proof. split; vm_compute; reflexivity. Qed.

  (** the hypotheses of C11_where_auto hold, and the delegated types of the specification are:
      PartialEq — T and u8 (U ignored, V compared by a method);
      Ord — T, then u8 (rank 0 before V's rank 1, V compared by a method);
      Clone — T, U, u8 (V cloned by a method), required to be `Clone` since clone is not `*self` *)
  Example spec_side :
    type_mode TPartialEq all_traits traits d (MPath (mp "PartialEq")) = Ok BAuto /\
    delegated_of TPartialEq all_traits traits d (MPath (mp "PartialEq")) = Ok [[I "T"]; [I "u8"]] /\
    delegated_of TOrd all_traits traits d (MPath (mp "Ord")) = Ok [[I "T"]; [I "u8"]] /\
    supers_of TOrd all_traits traits = [path "cmp" "Eq"] /\
    supers_of TOrd all_traits [TOrd] = [path "cmp" "Eq"; path "cmp" "PartialOrd"] /\
    delegated_of TClone all_traits traits d (MPath (mp "Clone")) = Ok [[I "T"]; [I "U"]; [I "u8"]] /\
    required_trait TClone all_traits traits d = path "clone" "Clone" /\
    required_trait TClone all_traits traits
      {| d_attrs := d_attrs d; d_name := "E"; d_generics := gen;
         d_data := DEnum [ {| v_attrs := []; v_name := "A"; v_discr := None;
                              v_fields := FUnnamed [fld None "T" []] |} ] |}
    = path "marker" "Copy".
  Proof. repeat split; vm_compute; reflexivity. Qed.

  (** the emitted where-clauses: exactly those; U and V are unconstrained by PartialEq and Ord;
      each companion repeats its primary's *)
  Example where_clauses :
    map (fun it => g_where (i_generics it)) items
    = [ [bnd "T" (path "clone" "Clone"); bnd "U" (path "clone" "Clone"); bnd "u8" (path "clone" "Clone")];
        [bnd "T" (path "clone" "Clone"); bnd "U" (path "clone" "Clone"); bnd "u8" (path "clone" "Clone")];
        [bnd "T" (path "cmp" "PartialEq"); bnd "u8" (path "cmp" "PartialEq")];
        [bnd "T" (path "cmp" "PartialEq"); bnd "u8" (path "cmp" "PartialEq")];
        [bnd "T" (path "cmp" "Ord"); bnd "u8" (path "cmp" "Ord"); bnd "Self" (path "cmp" "Eq")];
        [bnd "T" (path "cmp" "Ord"); bnd "u8" (path "cmp" "Ord"); bnd "Self" (path "cmp" "Eq")] ].
  Proof. vm_compute. reflexivity. Qed.

  Example unused_hypotheses :
    forallb (fun ty => negb (mentions "U" ty)) [[I "T"]; [I "u8"]] = true /\
    mentions "U" (required_trait TPartialEq all_traits traits d) = false.
  Proof. split; vm_compute; reflexivity. Qed.

  (** the witness of the deviation: [known_copy_bound] holds for [d], and `impl Copy for E<T, U, V>`
      is emitted `where T: Clone, U: Clone, u8: Clone` — neither `Copy` nor a word about V
      (for generic field types rustc refuses such a Copy impl, so the derive does not compile;
      with concrete field types the clause is merely not the documented one). *)
  Example deviation_witness :
    known_copy_bound all_traits traits d /\
    option_map (fun it => (i_trait it, g_where (i_generics it))) (nth_error items 1)
    = Some (Some (path "marker" "Copy"),
            [bnd "T" (path "clone" "Clone"); bnd "U" (path "clone" "Clone"); bnd "u8" (path "clone" "Clone")]).
  Proof.
    split; [|vm_compute; reflexivity].
    split; [vm_compute; reflexivity|].
    exists variants. eexists. split; [reflexivity|]. split; [vm_compute; reflexivity|]. vm_compute. reflexivity.
  Qed.

  (** "applies exactly when", on the PartialEq request: with T := String (implements PartialEq)
      the predicates hold whatever U and V are; with T := a type that does not, they fail *)
  Definition r_peq : breq :=
    req_of TPartialEq all_traits traits d BAuto [[I "T"]; [I "u8"]].
  Definition env_ok : tenv := fun _ _ => true.
  Definition env_no_T : tenv := fun ty _ => negb (flat_eqb ty [I "T"]).
  Example applies : preds_hold env_ok (auto_preds r_peq) = true /\ preds_hold env_no_T (auto_preds r_peq) = false.
  Proof. split; vm_compute; reflexivity. Qed.
End Example.
