(** * C03 — ordering is lexicographic over non-ignored fields in rank order

    Statements only; each is closed by [exact] of a lemma proved in
    Proofs/P_C03*.v and followed by [Print Assumptions].

    Reading guide.  [expand_ord] / [expand_partial_ord] are the models of
    src/trait_handlers/ord and src/trait_handlers/partial_ord (tied to /repo
    by K1).  [run_cmp I it a b] / [run_partial_cmp I it a b] run the `cmp` /
    `partial_cmp` method of the emitted impl [it] on operands [a], [b] in the
    semantics of Sem/Interp.v, where [I : interp] gives ARBITRARY behaviour to
    the field types' own `Ord::cmp` / `PartialOrd::partial_cmp` and to the
    user's `method` functions.  [ord_cfg F own traits d] is the request as the
    attribute analysis reads it: per variant (None = the struct) its declared
    discriminant and, in declaration order, each field's key with its
    ignore / method / rank ([own] = which `#[educe(T(..))]` entries carry the
    attribute: [own_ord F traits] for the Ord handler, i.e. `Ord(..)` and —
    when PartialOrd is educed too — `PartialOrd(..)`).  Spec/SpecOrd.v writes
    the meaning from the property statement: [visit_order] = the non-ignored
    requests sorted by ascending rank (its own insertion sort), [lex_cmp] /
    [lex_partial_cmp] = first non-Equal result in that order, each field
    compared by its method (left operand first) or [i_cmp] / [i_partial_cmp];
    [spec_cmp] / [spec_partial_cmp] = that for operands of the same struct or
    variant, the comparison of the declared discriminants otherwise (C04).

    Hypotheses: [data_wf] (rustc: named fields have distinct names, tuple
    fields are unnamed), [ovalue_ok] (the operands are values of the type),
    [omethods_typed] (a `method` returns an Ordering / Option<Ordering>). *)
From Educe.Proofs Require Import P_C03g P_C03r.

(** `cmp` on operands of the same struct / same variant = the first non-Equal
    field comparison in ascending rank order over the non-ignored fields. *)
Theorem C03_cmp_lex :
  forall (I : interp) F traits d m items c va xs ys da la,
    data_wf (d_data d) ->
    expand_ord F traits d m = Ok items ->
    ord_cfg F (own_ord F traits) traits d = Ok c ->
    omethods_typed false I c ->
    ovalue_ok c (VData va xs) = true -> ovalue_ok c (VData va ys) = true ->
    oc_get va c = Some (da, la) ->
    exists it rest, items = it :: rest /\
      run_cmp I it (VData va xs) (VData va ys) = Some (lex_cmp I (visit_order la) xs ys).
Proof. exact ord_same_variant. Qed.
Print Assumptions C03_cmp_lex.

(** the same for `partial_cmp` of the PartialOrd handler (Ord not educed):
    an incomparable field reached before any decisive one gives None *)
Theorem C03_partial_cmp_lex :
  forall (I : interp) F traits d m items c va xs ys da la,
    has_trait TOrd F && has_trait TOrd traits = false ->
    data_wf (d_data d) ->
    expand_partial_ord F traits d m = Ok items ->
    ord_cfg F (trait_eqb TPartialOrd) traits d = Ok c ->
    omethods_typed true I c ->
    ovalue_ok c (VData va xs) = true -> ovalue_ok c (VData va ys) = true ->
    oc_get va c = Some (da, la) ->
    exists it rest, items = it :: rest /\
      run_partial_cmp I it (VData va xs) (VData va ys) =
      Some (lex_partial_cmp I (visit_order la) xs ys).
Proof. exact partial_ord_same_variant. Qed.
Print Assumptions C03_partial_cmp_lex.

(** all pairs of operands (same or different variants) *)
Theorem C03_cmp_spec :
  forall (I : interp) F traits d m items c a b,
    data_wf (d_data d) ->
    expand_ord F traits d m = Ok items ->
    ord_cfg F (own_ord F traits) traits d = Ok c ->
    omethods_typed false I c ->
    ovalue_ok c a = true -> ovalue_ok c b = true ->
    exists it rest, items = it :: rest /\ run_cmp I it a b = spec_cmp I c a b.
Proof. exact ord_cmp_spec. Qed.
Print Assumptions C03_cmp_spec.

Theorem C03_partial_cmp_spec :
  forall (I : interp) F traits d m items c a b,
    has_trait TOrd F && has_trait TOrd traits = false ->
    data_wf (d_data d) ->
    expand_partial_ord F traits d m = Ok items ->
    ord_cfg F (trait_eqb TPartialOrd) traits d = Ok c ->
    omethods_typed true I c ->
    ovalue_ok c a = true -> ovalue_ok c b = true ->
    exists it rest, items = it :: rest /\ run_partial_cmp I it a b = spec_partial_cmp I c a b.
Proof. exact partial_ord_cmp_spec. Qed.
Print Assumptions C03_partial_cmp_spec.

(** The analysis keeps every field in declaration order with the attribute
    read at its index; the fields the emitter visits ([sorted_fields]) are
    strictly ascending in rank, a permutation of the non-ignored ones, and
    exactly the specification's [visit_order]. *)
Theorem C03_rank_order_sorted :
  forall F own traits fs p,
    plan_fields F own traits fs = Ok p ->
    map opos (fp_declared p) = indexed fs /\
    Forall (decl_ok F own traits) (fp_declared p) /\
    StronglySorted (fun a b => (orank a < orank b)%Z) (sorted_fields p) /\
    Permutation (sorted_fields p) (filter nonign (fp_declared p)) /\
    map okey (sorted_fields p) = visit_order (map okey (fp_declared p)).
Proof. exact rank_order_sorted. Qed.
Print Assumptions C03_rank_order_sorted.

(** [visit_order] is ascending in rank and a permutation of the compared requests *)
Theorem C03_visit_order_spec :
  forall l, StronglySorted rank_le (visit_order l) /\ Permutation (visit_order l) (filter compared l).
Proof. exact visit_order_spec. Qed.
Print Assumptions C03_visit_order_spec.

(** the rank of a field: isize::MIN + declaration index, unless a `rank`
    parameter (any spelling [meta_2_isize] accepts) is written in one of the
    field's `#[educe(..)]` entries *)
Theorem C03_rank_explicit_or_default :
  forall F own traits index attrs fa,
    ord_field_attr F own traits index attrs = Ok fa ->
    oa_rank fa = (isize_min + Z.of_nat index)%Z \/
    exists at_ d ts ms m, In at_ attrs /\ a_meta at_ = AMList d ts /\ parse_metas ts = Ok ms /\
                          In m ms /\ explicit_rank m (oa_rank fa).
Proof. exact rank_explicit_or_default. Qed.
Print Assumptions C03_rank_explicit_or_default.

(** Both traits educed: the Ord handler emits [Ord impl; PartialOrd impl], the
    latter with the same generics / where-clause and the body
    `Some(::core::cmp::Ord::cmp(self, other))`; run on any operands it
    answers Some(<Self as Ord>::cmp(a, b)), i.e. Some(cmp(a, b)) for the
    emitted `cmp`.  (The field attributes were read with [own_ord], i.e. from
    `Ord(..)` and `PartialOrd(..)` entries alike: see [C03_cmp_spec] and
    [C03_attr_carrier_irrelevant].) *)
Theorem C03_partial_is_some_cmp :
  forall F traits d m items,
    has_trait TPartialOrd F = true -> has_trait TPartialOrd traits = true ->
    expand_ord F traits d m = Ok items ->
    exists ito itp,
      items = [ito; itp] /\
      i_trait ito = Some (core_path ["cmp"; "Ord"]) /\
      i_trait itp = Some (core_path ["cmp"; "PartialOrd"]) /\
      i_generics itp = i_generics ito /\
      i_members itp = [MFn inline_attr "partial_cmp" partial_cmp_sig ["self"; "other"]
                           partial_ord_via_ord_body] /\
      (forall I a b, run_partial_cmp I itp a b = Some (Some (i_cmp I a b))) /\
      (forall I a b r, run_cmp I ito a b = Some r -> i_cmp I a b = r ->
                       run_partial_cmp I itp a b = Some (Some r)).
Proof. exact partial_is_some_cmp. Qed.
Print Assumptions C03_partial_is_some_cmp.

(** The same with `<Self as Ord>::cmp` resolved to the emitted `cmp` itself
    ([tie I ito]: comparisons of two struct / enum values go to the `cmp` of
    the emitted Ord impl, all other comparisons to [I]): for all operands of
    the type whose fields are values of other types,
    partial_cmp(a, b) = Some(cmp(a, b)), and cmp(a, b) is the specification's. *)
Theorem C03_partial_is_some_cmp_tied :
  forall (I : interp) F traits d m items c a b,
    has_trait TPartialOrd F = true -> has_trait TPartialOrd traits = true ->
    data_wf (d_data d) ->
    expand_ord F traits d m = Ok items ->
    ord_cfg F (own_ord F traits) traits d = Ok c ->
    omethods_typed false I c ->
    ovalue_ok c a = true -> ovalue_ok c b = true ->
    fields_opaque a = true ->
    exists ito itp,
      items = [ito; itp] /\
      run_cmp (tie I ito) ito a b = spec_cmp I c a b /\
      run_partial_cmp (tie I ito) itp a b = option_map Some (run_cmp (tie I ito) ito a b).
Proof. exact partial_is_some_cmp_tied. Qed.
Print Assumptions C03_partial_is_some_cmp_tied.

(** ... and the PartialOrd handler emits nothing of its own then *)
Theorem C03_partial_ord_defers_to_ord :
  forall F traits d m items,
    has_trait TOrd F = true -> has_trait TOrd traits = true ->
    expand_partial_ord F traits d m = Ok items -> items = [].
Proof. exact partial_ord_defers_to_ord. Qed.
Print Assumptions C03_partial_ord_defers_to_ord.

(** an `Ord(args)` entry and a `PartialOrd(args)` entry on a field are read alike *)
Theorem C03_attr_carrier_irrelevant :
  forall F traits ei em er rank acc m1 m2,
    has_trait TOrd traits = true ->
    has_trait TPartialOrd F = true -> has_trait TPartialOrd traits = true ->
    trait_from_path F (meta_path m1) = Some TOrd ->
    trait_from_path F (meta_path m2) = Some TPartialOrd ->
    same_args m1 m2 ->
    scan_meta F (own_ord F traits) (build_ofattr ei em er rank) traits acc m1 =
    scan_meta F (own_ord F traits) (build_ofattr ei em er rank) traits acc m2.
Proof. exact attr_carrier_irrelevant. Qed.
Print Assumptions C03_attr_carrier_irrelevant.

(** With lawful field comparisons `cmp` is a total order: cmp a a = Equal,
    cmp b a is the reverse of cmp a b, and the transitivity table holds
    ([comp_trans r1 r2 r3]: r1 = Equal -> r3 = r2, r2 = Equal -> r3 = r1,
    r1 = r2 -> r3 = r1).  [discr_inj]: distinct variants declare distinct
    discriminants (rustc E0081); it holds of every struct request and of an
    enum request whose [discriminant_values] have no duplicate. *)
Theorem C03_total_order :
  forall (I : interp) c,
    (field_cmp_refl I -> forall a, ovalue_ok c a = true -> spec_cmp I c a a = Some Eq) /\
    (field_cmp_antisym I -> forall a b, ovalue_ok c a = true -> ovalue_ok c b = true ->
       exists r, spec_cmp I c a b = Some r /\ spec_cmp I c b a = Some (CompOpp r)) /\
    (field_cmp_trans I -> discr_inj c ->
       forall a b z, ovalue_ok c a = true -> ovalue_ok c b = true -> ovalue_ok c z = true ->
       exists r1 r2 r3, spec_cmp I c a b = Some r1 /\ spec_cmp I c b z = Some r2 /\
                        spec_cmp I c a z = Some r3 /\ comp_trans r1 r2 r3).
Proof.
  intros I c. split; [|split].
  - intros H a. exact (cmp_refl I c a H).
  - intros H a b. exact (cmp_antisym I c a b H).
  - intros H Hi a b z. exact (cmp_trans I c a b z H Hi).
Qed.
Print Assumptions C03_total_order.

Theorem C03_discr_inj_holds :
  (forall l, discr_inj [(None, (0%Z, l))]) /\
  (forall ds ls, NoDup (map snd ds) -> discr_inj (zip_cfg ds ls)).
Proof. split; [exact discr_inj_struct|exact discr_inj_zip]. Qed.
Print Assumptions C03_discr_inj_holds.

(** Non-vacuity: a struct with five fields educed with both traits, the
    field attributes spread over `Ord(..)` and `PartialOrd(..)` entries:
    a: rank = 2; b: PartialOrd(rank = -1); c: ignored; d: method m, rank = "1";
    e: no attribute (rank isize::MIN + 4).  Visiting order: e, b, d, a. *)
Module Example.
  Definition educe (ts : toks) : attr := {| a_path := ["educe"]; a_meta := AMList Paren ts |}.
  Definition fld (n : option string) (ts : toks) : field :=
    {| f_attrs := [educe ts]; f_name := n; f_ty := [I "u8"] |}.
  Definition fld0 (n : option string) : field := {| f_attrs := []; f_name := n; f_ty := [I "u8"] |}.
  Definition int (z : Z) (s : string) : tt := TLit (LKInt z "") s.
  Definition nog : generics :=
    {| g_params := []; g_trailing := false; g_where := []; g_where_trailing := false |}.
  Definition flds : fields :=
    FNamed
      [ fld (Some "a") [I "Ord"; G Paren [I "rank"; P "="; int 2 "2"]];
        fld (Some "b") [I "PartialOrd"; G Paren [I "rank"; P "="; P "-"; int 1 "1"]];
        fld (Some "c") [I "Ord"; G Paren [I "ignore"]];
        fld (Some "d") [I "Ord"; G Paren [I "method"; G Paren [I "m"]; P ",";
                                          I "rank"; P "="; TStr """1""" "1" (Some [int 1 "1"])]];
        fld0 (Some "e") ].
  Definition d : dinput :=
    {| d_attrs := [educe [I "Ord"; P ","; I "PartialOrd"]]; d_name := "S"; d_generics := nog;
       d_data := DStruct flds |}.
  Definition both : list trait := [TOrd; TPartialOrd].
  Definition m : meta := MPath {| mp_lead := false; mp_segs := ["Ord"] |}.

  (** field types: integers, with 99 playing NaN for partial_cmp; the method
      `m` compares in REVERSE (so argument order is visible) *)
  Definition I0 : interp :=
    {| i_ne := fun _ _ => true; i_eq := fun _ _ => false;
       i_cmp := fun x y => match x, y with VAtom a, VAtom b => Z.compare a b | _, _ => Eq end;
       i_partial_cmp := fun x y => match x, y with
                                   | VAtom a, VAtom b =>
                                       if Z.eqb a 99 || Z.eqb b 99 then None else Some (Z.compare a b)
                                   | _, _ => None
                                   end;
       i_user := fun _ args => match args with
                               | [VAtom a; VAtom b] => VOrd (Z.compare b a)
                               | _ => VOrd Eq
                               end;
       i_size_of_self := 0;
       i_clone := fun v => v;
       i_clone_from := fun _ v => v;
       i_into := fun v => v;
       i_default := fun _ => VUnit |}.
  Definition I1 : interp :=
    {| i_ne := i_ne I0; i_eq := i_eq I0; i_cmp := i_cmp I0; i_partial_cmp := i_partial_cmp I0;
       i_user := fun p args => VOpt (Some (i_user I0 p args));
       i_size_of_self := i_size_of_self I0;
       i_clone := i_clone I0;
       i_clone_from := i_clone_from I0;
       i_into := i_into I0;
       i_default := i_default I0 |}.

  Definition val (a b c d e : Z) : value :=
    VData None [("a", VAtom a); ("b", VAtom b); ("c", VAtom c); ("d", VAtom d); ("e", VAtom e)].

  Definition items := match expand_ord all_traits both d m with Ok l => l | _ => [] end.
  Definition c := match ord_cfg all_traits (own_ord all_traits both) both d with Ok c => c | _ => [] end.

  Example visiting_order :
    option_map (fun e => map fst (visit_order (snd e))) (oc_get None c) = Some ["e"; "b"; "d"; "a"].
  Proof. vm_compute. reflexivity. Qed.

  Example typed : omethods_typed false I0 c.
  Proof.
    intros vn dd l Hin k fa x y Hk mm Hm.
    exists (Some (match x, y with VAtom a, VAtom b => Z.compare b a | _, _ => Eq end)).
    split; [|discriminate].
    destruct x as [| | | | |a| | | | | |]; try reflexivity.
    destruct y as [| | | | |b| | | | | |]; reflexivity.
  Qed.

  Example hypotheses_hold :
    data_wf (d_data d) /\
    expand_ord all_traits both d m = Ok items /\
    ord_cfg all_traits (own_ord all_traits both) both d = Ok c /\
    ovalue_ok c (val 1 2 3 4 5) = true /\ ovalue_ok c (val 1 2 9 7 5) = true /\
    List.length items = 2.
  Proof.
    split.
    - cbn. split.
      + intros f Hf. repeat (destruct Hf as [<-|Hf]; [discriminate|]). destruct Hf.
      + vm_compute. repeat constructor; cbn; intuition discriminate.
    - repeat split; vm_compute; reflexivity.
  Qed.

  (** e and b equal; c ignored (3 vs 9); d decided by m(4, 7) = cmp(7, 4) = Greater;
      a would say Less but is ranked last *)
  Example computes :
    option_map (fun it => run_cmp I0 it (val 1 2 3 4 5) (val 0 2 9 7 5)) (hd_error items)
      = Some (Some Gt) /\
    spec_cmp I0 c (val 1 2 3 4 5) (val 0 2 9 7 5) = Some Gt /\
    option_map (fun it => run_cmp I0 it (val 1 2 3 4 5) (val 0 2 9 4 5)) (hd_error items)
      = Some (Some Gt) /\
    spec_cmp I0 c (val 1 2 3 4 5) (val 0 2 9 4 5) = Some Gt /\
    option_map (fun it => run_cmp I0 it (val 1 2 3 4 5) (val 1 2 9 4 5)) (hd_error items)
      = Some (Some Eq) /\
    (* the companion PartialOrd impl, `Ord::cmp` on the type itself being the emitted `cmp` *)
    match items with
    | [ito; itp] => run_partial_cmp (tie I0 ito) itp (val 1 2 3 4 5) (val 0 2 9 7 5) = Some (Some Gt) /\
                    run_cmp (tie I0 ito) ito (val 1 2 3 4 5) (val 0 2 9 7 5) = Some Gt /\
                    fields_opaque (val 1 2 3 4 5) = true
    | _ => False
    end.
  Proof. repeat split; vm_compute; reflexivity. Qed.

  (** the PartialOrd handler alone (Ord not educed), same fields with the
      attributes on `PartialOrd(..)`: a NaN-like `e` (visited first) gives
      None; a NaN-like `a` (visited last) is not reached when `d` decides *)
  Definition pfld (n : option string) (ts : toks) : field := fld n (I "PartialOrd" :: ts).
  Definition dp : dinput :=
    {| d_attrs := [educe [I "PartialOrd"]]; d_name := "S"; d_generics := nog;
       d_data := DStruct (FNamed
         [ pfld (Some "a") [G Paren [I "rank"; G Paren [int 2 "2"]]];
           pfld (Some "b") [G Paren [I "rank"; G Paren [P "-"; int 1 "1"]]];
           pfld (Some "c") [P "="; I "false"];
           pfld (Some "d") [G Paren [I "method"; G Paren [I "m"]; P ","; I "rank"; P "="; int 1 "1"]];
           fld0 (Some "e") ]) |}.
  Definition mp : meta := MPath {| mp_lead := false; mp_segs := ["PartialOrd"] |}.
  Definition pitems := match expand_partial_ord all_traits [TPartialOrd] dp mp with Ok l => l | _ => [] end.
  Definition pc := match ord_cfg all_traits (trait_eqb TPartialOrd) [TPartialOrd] dp with
                   | Ok c => c | _ => [] end.

  Example partial_typed : omethods_typed true I1 pc.
  Proof.
    intros vn dd l Hin k fa x y Hk mm Hm.
    exists (Some (match x, y with VAtom a, VAtom b => Z.compare b a | _, _ => Eq end)).
    split; [|discriminate].
    destruct x as [| | | | |a| | | | | |]; try reflexivity.
    destruct y as [| | | | |b| | | | | |]; reflexivity.
  Qed.

  Example partial_hypotheses_hold :
    expand_partial_ord all_traits [TPartialOrd] dp mp = Ok pitems /\
    ord_cfg all_traits (trait_eqb TPartialOrd) [TPartialOrd] dp = Ok pc /\
    ovalue_ok pc (val 1 2 3 4 5) = true /\ List.length pitems = 1 /\
    option_map (fun e => map fst (visit_order (snd e))) (oc_get None pc) = Some ["e"; "b"; "d"; "a"].
  Proof. repeat split; vm_compute; reflexivity. Qed.

  Example partial_computes :
    option_map (fun it => run_partial_cmp I1 it (val 1 2 3 4 99) (val 0 2 9 7 5)) (hd_error pitems)
      = Some (Some None) /\
    spec_partial_cmp I1 pc (val 1 2 3 4 99) (val 0 2 9 7 5) = Some None /\
    option_map (fun it => run_partial_cmp I1 it (val 99 2 3 4 5) (val 0 2 9 7 5)) (hd_error pitems)
      = Some (Some (Some Gt)) /\
    spec_partial_cmp I1 pc (val 99 2 3 4 5) (val 0 2 9 7 5) = Some (Some Gt) /\
    option_map (fun it => run_partial_cmp I1 it (val 99 2 3 4 5) (val 0 2 9 4 5)) (hd_error pitems)
      = Some (Some None).
  Proof. repeat split; vm_compute; reflexivity. Qed.
End Example.
