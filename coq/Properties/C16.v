(** * C16 — expansion is deterministic

    The model [expand : features -> dinput -> outcome (list item)] is a FUNCTION of the enabled
    features and the input tokens: equal inputs give equal outputs, in every process, on every
    run.  What has to be shown is that the real macro is such a function too, i.e. that it reads
    nothing else.  Two things could make it read something else:

    (a) iteration over a randomly seeded hash container while emitting.  The scanner T3 lists every
        HashMap / HashSet of the source and every iteration over one ([Sources.hash_iterations]).
        On the current tree there is exactly one: `trait_meta_map.keys().copied().collect()` in
        lib.rs builds the list [traits] in random order.  The model receives that list as
        [traits] and the theorems below show the handlers use it through membership only, so
        its order cannot matter.  (The Into target map, iterated while emitting impls, was the
        one that mattered; it was repaired and is an ordered Vec now.)
    (b) ambient inputs: environment, time, files, statics, thread-locals, RandomState.  The scanner
        T3b must find none.
    (c) the build profile of the macro crate itself (debug assertions): T3c, reviewed inventory.

    K1 compares the real token stream with the model's (Into impls in written order), and the
    check additionally expands every case several times in one process and in fresh processes. *)
From Coq Require Import List String Permutation.
From Educe.Gen Require Sources.
From Educe.Model Require Inventory.
From Educe.Model Require Import Driver.
Import ListNotations.

Theorem C16_function :
  forall (F : features) (d d' : dinput), d = d' -> expand F d = expand F d'.
Proof. intros F d d' ->. reflexivity. Qed.

(** membership in a trait list does not depend on its order *)
Lemma has_trait_perm t l l' : Permutation l l' -> has_trait t l = has_trait t l'.
Proof.
  intros H. unfold has_trait. induction H; cbn [existsb].
  - reflexivity.
  - rewrite IHPermutation. reflexivity.
  - destruct (trait_eqb t y), (trait_eqb t x); reflexivity.
  - congruence.
Qed.

(** the generic attribute scanner sees [traits] through membership only *)
Theorem C16_scan_order_irrelevant :
  forall A F own (build : meta -> outcome A) traits traits' attrs,
    (forall t, has_trait t traits = has_trait t traits') ->
    scan_attrs F own build traits attrs = scan_attrs F own build traits' attrs.
Proof.
  intros A F own build traits traits' attrs H.
  unfold scan_attrs.
  assert (Hm : forall acc m, scan_meta F own build traits acc m = scan_meta F own build traits' acc m).
  { intros acc m. unfold scan_meta. destruct (trait_from_path F (meta_path m)); [|reflexivity].
    rewrite H. reflexivity. }
  assert (Hf : forall ms acc, foldM (scan_meta F own build traits) acc ms = foldM (scan_meta F own build traits') acc ms).
  { induction ms as [|m r IH]; intros acc; cbn [foldM]; [reflexivity|].
    rewrite Hm. destruct (scan_meta F own build traits' acc m); cbn [bind]; auto. }
  assert (Ha : forall acc a, scan_attr F own build traits acc a = scan_attr F own build traits' acc a).
  { intros acc a. unfold scan_attr. destruct (is_educe a); [|reflexivity].
    destruct (a_meta a); try reflexivity.
    destruct (parse_metas ts); cbn [bind]; auto. }
  generalize (@None A). induction attrs as [|a r IH]; intros acc; cbn [foldM]; [reflexivity|].
  rewrite Ha. destruct (scan_attr F own build traits' acc a); cbn [bind]; auto.
Qed.
Print Assumptions C16_scan_order_irrelevant.

Theorem C16_unordered_iterations_reviewed : Sources.hash_iterations = Inventory.hash_iterations.
Proof. vm_compute. reflexivity. Qed.
Theorem C16_hash_containers_reviewed : Sources.hash_decls = Inventory.hash_decls.
Proof. vm_compute. reflexivity. Qed.
Theorem C16_no_ambient_inputs : Sources.ambient = [].
Proof. reflexivity. Qed.
Print Assumptions C16_no_ambient_inputs.

(** (c) code that exists under one build profile only (debug assertions, `cfg!` of anything but a feature):
    the scanner T3c lists every such expression with its full text; the reviewed inventory holds the
    `debug_assert!(meta.path().is_ident("<Trait>"))` checks only, which read their argument and have no
    effect on the output.  (The check also expands every case with the macro built under the release
    profile and compares.) *)
Theorem C16_profile_code_reviewed : Sources.profile_code = Inventory.profile_code.
Proof. vm_compute. reflexivity. Qed.
Print Assumptions C16_profile_code_reviewed.
