(** * C18 (continued) — enabled traits generate the same code as the all-features build;
      naming a disabled trait is rejected at every level

    [F] (the enabled cargo features) enters the model through
      - [trait_from_path F] : the resolution of the trait names written in the attributes,
      - [has_trait t F && has_trait t traits] : the couplings (a trait that is educed is enabled),
      - [if has_trait t F] in [run_handler] / the Into dispatch (the handler is compiled in),
      - and ONE more place, found by this proof: ord/mod.rs `supertraits` adds `Self: PartialOrd`
        to the automatic bound of the Ord impl under `#[cfg(feature = "PartialOrd")]` when
        PartialOrd is not educed.  So with the feature Ord enabled and the feature PartialOrd
        disabled, `#[educe(Ord)]` generates a DIFFERENT where-clause than the all-features build
        ([C18_ord_bound_depends_on_feature] below).  The property text's "given the same coupled
        partners are present" has to be read as covering this: the theorem needs the FEATURE
        PartialOrd whenever Ord is educed without PartialOrd.

    Statements only; proofs in Proofs/P_C16.v (congruence, function by function),
    Proofs/P_C18.v (same code) and Proofs/P_C18b.v (rejection). *)
From Coq Require Import List String Bool.
From Educe.Proofs Require Import P_C16 P_C18 P_C18b.
Import ListNotations.

(** ** what "the input names trait t" means *)
Theorem C18_named_in_def :
  (forall a, attr_metas a =
     if is_educe a then
       match a_meta a with
       | AMList _ ts => match parse_metas ts with Ok ms => ms | _ => [] end
       | _ => []
       end
     else []) /\
  (forall attrs, attrs_metas attrs = flat_map attr_metas attrs) /\
  (forall dd, data_attr_lists dd =
     match dd with
     | DStruct fs => map f_attrs (fields_list fs)
     | DEnum vs => flat_map (fun v => v_attrs v :: map f_attrs (fields_list (v_fields v))) vs
     | DUnion fs => map f_attrs fs
     end) /\
  (forall d, all_metas d = attrs_metas (d_attrs d) ++ flat_map attrs_metas (data_attr_lists (d_data d))) /\
  (forall t m, meta_names t m =
     match get_ident (meta_path m) with Some s => String.eqb s (trait_name t) | None => false end) /\
  (forall d t, named_in d t = existsb (meta_names t) (all_metas d)) /\
  (forall d t, named_at_type d t = existsb (meta_names t) (attrs_metas (d_attrs d))).
Proof. repeat split. Qed.

(** ** same code *)
Theorem C18_same_code :
  forall (F : features) (d : dinput),
    (forall t, named_in d t = true -> has_trait t F = true) ->
    (named_at_type d TOrd = true -> named_at_type d TPartialOrd = false ->
     has_trait TPartialOrd F = true) ->
    expand F d = expand all_traits d.
Proof. exact same_code. Qed.
Print Assumptions C18_same_code.

(** for a feature set that enables PartialOrd whenever it enables Ord, the first hypothesis suffices *)
Theorem C18_same_code_closed_features :
  forall (F : features) (d : dinput),
    (has_trait TOrd F = true -> has_trait TPartialOrd F = true) ->
    (forall t, named_in d t = true -> has_trait t F = true) ->
    expand F d = expand all_traits d.
Proof.
  intros F d HF Hn. apply same_code; [exact Hn|].
  intros Ho _. apply HF. apply Hn. apply named_at_type_in. exact Ho.
Qed.
Print Assumptions C18_same_code_closed_features.

(** the congruence behind it, handler by handler: two feature sets that resolve the scanned
    paths alike and agree on the educed traits give the same outcome *)
Theorem C18_handler_congruence :
  forall (F F' : features) (traits : list trait) (d : dinput),
    (forall t, has_trait t traits = true -> has_trait t F = has_trait t F') ->
    data_ok (path_agree F F') (d_data d) ->
    Forall (fun th => (fst th = TOrd -> ord_feature_agree F F' traits) ->
                      forall m, snd th F traits d m = snd th F' traits d m) handlers
    /\ forall ms, expand_into F traits d ms = expand_into F' traits d ms.
Proof.
  intros F F' tr d HF Hd. split.
  - exact (cg_handlers_gen F F' tr tr (fun _ => eq_refl) HF d Hd).
  - intros ms. exact (cg_expand_into F F' tr tr (fun _ => eq_refl) d ms Hd).
Qed.
Print Assumptions C18_handler_congruence.

Theorem C18_congruence_defs :
  (forall F F' m, path_agree F F' m <->
                  trait_from_path F (meta_path m) = trait_from_path F' (meta_path m)) /\
  (forall F F' tr, ord_feature_agree F F' tr <->
                   (has_trait TPartialOrd tr = false ->
                    has_trait TPartialOrd F = has_trait TPartialOrd F')) /\
  (forall Q dd, data_ok Q dd <->
     match dd with
     | DStruct fs => Forall (fun f => Forall Q (attrs_metas (f_attrs f))) (fields_list fs)
     | DEnum vs => Forall (fun v => Forall Q (attrs_metas (v_attrs v)) /\
                                    Forall (fun f => Forall Q (attrs_metas (f_attrs f)))
                                           (fields_list (v_fields v))) vs
     | DUnion fs => Forall (fun f => Forall Q (attrs_metas (f_attrs f))) fs
     end).
Proof. repeat split; intros H; try exact H; destruct dd; exact H. Qed.

(** ** rejection at every level *)

(** contrapositive form: a successful expansion names enabled traits only — at the type level,
    on every variant and on every field of the input (all of them: every handler that succeeds
    has scanned every variant- and field-level attribute list, [expand_scanned]) *)
Theorem C18_disabled_rejected_everywhere :
  forall (F : features) (d : dinput) (items : list item),
    expand F d = Ok items -> forall t, named_in d t = true -> has_trait t F = true.
Proof. exact rejected_everywhere. Qed.
Print Assumptions C18_disabled_rejected_everywhere.

(** in more detail: every meta resolves under F; below the type level to a trait educed on the type *)
Theorem C18_all_metas_resolved :
  forall (F : features) (d : dinput) (items : list item),
    expand F d = Ok items ->
    exists tm, foldM (collect_attr F) [] (d_attrs d) = Ok tm /\
      (forall m, In m (attrs_metas (d_attrs d)) ->
                 exists t, trait_from_path F (meta_path m) = Some t) /\
      (forall m, In m (flat_map attrs_metas (data_attr_lists (d_data d))) ->
                 exists t, trait_from_path F (meta_path m) = Some t /\ has_trait t (map fst tm) = true).
Proof. exact expand_all_resolved. Qed.
Print Assumptions C18_all_metas_resolved.

(** error form, per meta: wherever a scanner reaches a meta naming a disabled trait it stops
    with "unsupported trait" (type level: [C18.C18_disabled_rejected]) *)
Theorem C18_disabled_rejected_by_scanners :
  forall (F : features) (traits : list trait) (m : meta) (t : trait),
    meta_names t m = true -> has_trait t F = false ->
    (forall A own (build : meta -> outcome A) acc,
        scan_meta F own build traits acc m = Err E_unsupported_trait) /\
    (forall acc, into_collect_meta F traits acc m = Err E_unsupported_trait) /\
    (forall acc, collect_meta F acc m = Err E_unsupported_trait).
Proof.
  intros F tr m t Hn Hf. split; [|split].
  - intros A own build acc. exact (scan_meta_disabled F own build tr acc m t Hn Hf).
  - intros acc. exact (into_collect_meta_disabled F tr acc m t Hn Hf).
  - intros acc. unfold collect_meta. rewrite (tfp_disabled F m t Hn Hf). reflexivity.
Qed.
Print Assumptions C18_disabled_rejected_by_scanners.

Module Example.
  Definition educe (ts : toks) : attr := {| a_path := ["educe"]; a_meta := AMList Paren ts |}.
  Definition fld (n : option string) (ts ty : toks) : field :=
    {| f_attrs := [educe ts]; f_name := n; f_ty := ty |}.
  Definition fld0 (n : option string) (ty : toks) : field := {| f_attrs := []; f_name := n; f_ty := ty |}.
  Definition u8 : toks := [I "u8"].
  Definition gT : generics :=
    {| g_params := [GType "T" [] None]; g_trailing := false; g_where := []; g_where_trailing := false |}.

  (** an enum educing Debug, Clone, PartialEq, Hash with attributes at variant and field level *)
  Definition d : dinput :=
    {| d_attrs := [educe [I "Debug"; P ","; I "Clone"]; educe [I "PartialEq"; P ","; I "Hash"]];
       d_name := "E"; d_generics := gT;
       d_data := DEnum
         [ {| v_attrs := [educe [I "Debug"; G Paren [I "name"; P "="; I "AA"]]]; v_name := "A";
              v_discr := None;
              v_fields := FNamed
                [fld (Some "x") [I "Hash"; G Paren [I "ignore"]; P ",";
                                 I "Debug"; G Paren [I "name"; P "="; I "xx"]] [I "T"];
                 fld (Some "y") [I "PartialEq"; G Paren [I "ignore"]] u8;
                 fld0 (Some "z") u8] |};
           {| v_attrs := []; v_name := "B"; v_discr := None;
              v_fields := FUnnamed [fld None [I "Clone"; G Paren [I "method"; G Paren [I "f"]]] u8] |} ] |}.
  Definition F4 : features := [TDebug; TClone; TPartialEq; THash].

  Example named : map (named_in d) all_traits
                  = [true; true; false; true; false; false; false; true; false; false; false; false].
  Proof. vm_compute. reflexivity. Qed.

  Example hyp1 : forall t, named_in d t = true -> has_trait t F4 = true.
  Proof. intros t; destruct t; vm_compute; congruence. Qed.
  Example hyp2 : named_at_type d TOrd = true -> named_at_type d TPartialOrd = false ->
                 has_trait TPartialOrd F4 = true.
  Proof. vm_compute. congruence. Qed.

  Example same : expand F4 d = expand all_traits d.
  Proof. exact (C18_same_code F4 d hyp1 hyp2). Qed.
  Example both_compute : exists its, expand F4 d = Ok its /\ expand all_traits d = Ok its
                                     /\ List.length its = 4.
  Proof. eexists. split; [vm_compute; reflexivity|split; vm_compute; reflexivity]. Qed.

  (** Hash disabled: the field-level `Hash(ignore)` on A.x is refused although the type-level
      attribute would have been refused first here; with Hash removed from the type level too the
      field-level meta alone is what is rejected *)
  Definition d' : dinput :=
    {| d_attrs := [educe [I "Debug"; P ","; I "Clone"]; educe [I "PartialEq"]];
       d_name := d_name d; d_generics := d_generics d; d_data := d_data d |}.
  Definition F3 : features := [TDebug; TClone; TPartialEq].
  Example field_level_rejected : named_at_type d' THash = false /\ named_in d' THash = true
                                 /\ expand F3 d' = Err E_unsupported_trait.
  Proof. repeat split; vm_compute; reflexivity. Qed.

  (** ** the exception: the Ord impl depends on the FEATURE PartialOrd *)
  Definition dord : dinput :=
    {| d_attrs := [educe [I "Ord"]]; d_name := "S"; d_generics := gT;
       d_data := DStruct (FUnnamed [fld0 None [I "T"]]) |}.
  Definition where_of (o : outcome (list item)) : list (list string) :=
    match o with Ok [it] => map flat (g_where (i_generics it)) | _ => [] end.

  Example C18_ord_bound_depends_on_feature :
    (forall t, named_in dord t = true -> has_trait t [TOrd] = true)
    /\ where_of (expand [TOrd] dord)
       = [["T"; ":"; ":"; ":"; "core"; ":"; ":"; "cmp"; ":"; ":"; "Ord"];
          ["Self"; ":"; ":"; ":"; "core"; ":"; ":"; "cmp"; ":"; ":"; "Eq"]]
    /\ where_of (expand all_traits dord)
       = [["T"; ":"; ":"; ":"; "core"; ":"; ":"; "cmp"; ":"; ":"; "Ord"];
          ["Self"; ":"; ":"; ":"; "core"; ":"; ":"; "cmp"; ":"; ":"; "Eq"];
          ["Self"; ":"; ":"; ":"; "core"; ":"; ":"; "cmp"; ":"; ":"; "PartialOrd"]]
    /\ expand [TOrd] dord <> expand all_traits dord.
  Proof.
    split; [intros t; destruct t; vm_compute; congruence|].
    split; [vm_compute; reflexivity|]. split; [vm_compute; reflexivity|].
    intros H. apply (f_equal where_of) in H. vm_compute in H. discriminate H.
  Qed.
  (** with the feature PartialOrd enabled as well, the theorem applies *)
  Example ord_same : expand [TPartialOrd; TOrd] dord = expand all_traits dord.
  Proof.
    apply C18_same_code; [intros t; destruct t; vm_compute; congruence|vm_compute; congruence].
  Qed.
End Example.
