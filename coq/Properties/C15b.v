(** * C15b — joint acceptance: no trait's request is refused because of another trait's presence

    C15 (Properties/C15.v) is one-directional: the whole request accepted => the request
    restricted to a partner-closed set of traits is accepted, with the kept traits' items.
    This file is the OTHER direction.  For every feature set [F] and input [d]:

      if  the type-level attributes collect to a NON-EMPTY trait map [tm]
          ([foldM (collect_attr F) [] (d_attrs d) = Ok tm], [tm <> []]),
      and [metas_educed F d = true] : every `#[educe(..)]` list attribute anywhere in [d] (type,
          variants, fields) parses and each of its metas names an enabled trait that is educed at
          type level (that is: the validation-only scanner — [scan_attrs] with no own trait —
          accepts every attribute list),
      and for every educed trait [t] the request restricted to [t] and its coupled partner is
          accepted ([expand F (restrict (keep_for t) d) = Ok _]),
      then the whole request is accepted, and its items are, handler by handler in the fixed order
          of lib.rs, the items that handler produced in the expansion restricted to its own trait.

    Both added hypotheses are necessary (counterexamples [need_*] below) and jointly satisfiable
    ([sat_*]).  [metas_educed] is stated on parsed metas; the classifiers of Spec/Invalid.v
    ([invalid_trait_not_educed], [invalid_attr_unknown_trait]) do not fit: they are computed on
    [educe_metas], which is silent about an attribute whose tokens do not parse, and such an
    attribute is exactly one of the counterexamples ([need_metas_educed_syn]).

    Proofs: P_C15d.v (scanners: restricted = whole as OUTCOMES under validity), P_C15d_a..g.v (the
    twelve handlers, each an equality [expand_X F tr' (restrict keep d) m = expand_X F tr d m]
    under validity), P_C15e.v (driver), P_C15f.v (assembly). *)
From Coq Require Import List String Bool.
From Educe.Proofs Require Import P_C15f.
Import ListNotations.

(** ** the hypothesis, unfolded *)
Theorem C15b_metas_educed_def :
  (forall F tr attrs, attrs_valid F tr attrs =
     match scan_attrs F (fun _ => false) (fun _ : meta => Ok Datatypes.tt) tr attrs with
     | Ok _ => true | _ => false end) /\
  (forall F tr f, field_valid F tr f = attrs_valid F tr (f_attrs f)) /\
  (forall F tr v, variant_valid F tr v =
     attrs_valid F tr (v_attrs v) && forallb (field_valid F tr) (fields_list (v_fields v))) /\
  (forall F tr dd, data_valid F tr dd =
     match dd with
     | DStruct fs => forallb (field_valid F tr) (fields_list fs)
     | DEnum vs => forallb (variant_valid F tr) vs
     | DUnion fs => forallb (field_valid F tr) fs
     end) /\
  (forall F d, metas_educed F d =
     match foldM (collect_attr F) [] (d_attrs d) with
     | Ok tm => attrs_valid F (map fst tm) (d_attrs d) && data_valid F (map fst tm) (d_data d)
     | _ => false
     end).
Proof. repeat split; reflexivity. Qed.

(** the type-level conjunct holds whenever the collection succeeds (a type-level meta names an
    enabled trait, which is thereby educed): [metas_educed] is a condition on the variant- and
    field-level attributes only *)
Theorem C15b_metas_educed_data :
  forall F d tm, foldM (collect_attr F) [] (d_attrs d) = Ok tm ->
                 metas_educed F d = data_valid F (map fst tm) (d_data d).
Proof. exact metas_educed_data. Qed.
Print Assumptions C15b_metas_educed_data.

(** ** the scanners: under validity the restricted scan IS the whole scan (success or refusal) *)
Theorem C15b_scan_both_ways :
  forall (F : features) (keep : trait -> bool) (traits traits' : list trait),
    (forall t, keep t = true -> has_trait t traits' = has_trait t traits) ->
    (forall A (own own' : trait -> bool) (build : meta -> outcome A) attrs,
        (forall t, own t = true -> keep t = true) ->
        (forall t, keep t = true -> own' t = own t) ->
        attrs_valid F traits attrs = true ->
        scan_attrs F own' build traits' (restrict_attrs keep attrs) = scan_attrs F own build traits attrs)
    /\ (forall attrs, keep TInto = true -> attrs_valid F traits attrs = true ->
        into_collect F traits' (restrict_attrs keep attrs) = into_collect F traits attrs).
Proof.
  intros F keep tr tr' Htr. split.
  - intros A own own' build attrs. exact (scan_rev F keep tr tr' Htr own own' build attrs).
  - intros attrs. exact (into_collect_rev F keep tr tr' Htr attrs).
Qed.
Print Assumptions C15b_scan_both_ways.

(** ** handler by handler: on a valid input, accepted on the restriction => accepted on the whole
       (the proofs give more: the two outcomes are EQUAL, refusals included) *)
Theorem C15b_handlers_both_ways :
  forall (F : features) (d : dinput) (tm : tmap),
    foldM (collect_attr F) [] (d_attrs d) = Ok tm -> metas_educed F d = true ->
    (forall t h, In (t, h) handlers -> forall m its,
        h F (map fst (fk (keep_for t) tm)) (restrict (keep_for t) d) m = Ok its ->
        h F (map fst tm) d m = Ok its)
    /\ (forall ms its,
        expand_into F (map fst (fk (keep_for TInto) tm)) (restrict (keep_for TInto) d) ms = Ok its ->
        expand_into F (map fst tm) d ms = Ok its).
Proof.
  intros F d tm Hc Hm. pose proof (metas_educed_v F d tm Hc Hm) as Hv. split.
  - intros t h Hin. exact (all_reflect F d tm Hv t h Hin).
  - exact (into_reflect F d tm Hv).
Qed.
Print Assumptions C15b_handlers_both_ways.

(** ** joint acceptance *)
Theorem C15_joint_acceptance :
  forall (F : features) (d : dinput) (tm : tmap),
    foldM (collect_attr F) [] (d_attrs d) = Ok tm ->
    tm <> [] ->
    metas_educed F d = true ->
    (forall t, In t (map fst tm) -> exists its, expand F (restrict (keep_for t) d) = Ok its) ->
    exists items, expand F d = Ok items.
Proof. exact joint_acceptance. Qed.
Print Assumptions C15_joint_acceptance.

(** the items of an accepted request: [ps] lists, in the order of the handlers (then Into), each
    handler's items tagged by its trait; [items] is their concatenation; the part tagged [t] is
    the part tagged [t] of the expansion restricted to [t] and its partner (whose parts carry the
    same tags in the same order, those of the other traits being empty — C15_restrict) *)
Theorem C15_joint_items :
  forall (F : features) (d : dinput) (items : list item),
    expand F d = Ok items ->
    exists ps, expand_parts F d = Ok ps /\ items = parts_items ps
      /\ map fst ps = map fst handlers ++ [TInto]
      /\ forall t its, In (t, its) ps ->
           exists psr, expand_parts F (restrict (keep_for t) d) = Ok psr
                       /\ map fst psr = map fst ps /\ In (t, its) psr.
Proof. exact joint_items. Qed.
Print Assumptions C15_joint_items.

Module Tests.
  Definition educe (ts : toks) : attr := {| a_path := ["educe"]; a_meta := AMList Paren ts |}.
  Definition fld (n : option string) (ts ty : toks) : field :=
    {| f_attrs := [educe ts]; f_name := n; f_ty := ty |}.
  Definition fld0 (n : option string) (ty : toks) : field := {| f_attrs := []; f_name := n; f_ty := ty |}.
  Definition u8 : toks := [I "u8"].
  Definition u16 : toks := [I "u16"].
  Definition g0 : generics :=
    {| g_params := []; g_trailing := false; g_where := []; g_where_trailing := false |}.
  Definition gT : generics :=
    {| g_params := [GType "T" [] None]; g_trailing := false; g_where := []; g_where_trailing := false |}.
  Definition is_ok {A} (o : outcome A) : bool := match o with Ok _ => true | _ => false end.

  Definition collected (F : features) (d : dinput) : bool :=
    match foldM (collect_attr F) [] (d_attrs d) with Ok tm => negb (is_nil tm) | _ => false end.
  Definition each_accepted (F : features) (d : dinput) : bool :=
    match foldM (collect_attr F) [] (d_attrs d) with
    | Ok tm => forallb (fun t => is_ok (expand F (restrict (keep_for t) d))) (map fst tm)
    | _ => false
    end.
  (** (type level collects to a non-empty map, every restriction accepted, metas_educed, whole accepted) *)
  Definition verdict (F : features) (d : dinput) : bool * bool * bool * bool :=
    (collected F d, each_accepted F d, metas_educed F d, is_ok (expand F d)).
  Definition outcome_tag {A} (o : outcome A) : string :=
    match o with Ok _ => "Ok" | Err e => err_name e | Panic _ => "Panic" | OutOfDomain w => w end.

  Definition mk (attrs : list attr) (g : generics) (dd : data) : dinput :=
    {| d_attrs := attrs; d_name := "S"; d_generics := g; d_data := dd |}.
  Definition ign (t : string) : toks := [I t; G Paren [I "ignore"]].

  (* 1 struct, three traits, field attrs of each *)
  Definition t1 := mk [educe [I "Debug"; P ","; I "Clone"; P ","; I "PartialEq"]] g0
    (DStruct (FNamed [fld (Some "a") (ign "Debug" ++ [P ","] ++ ign "PartialEq") u8;
                      fld (Some "b") [I "Clone"; G Paren [I "method"; G Paren [I "f"]]] u8;
                      fld0 (Some "c") u8])).
  (* 2 enum, five traits, variant + field attrs *)
  Definition t2 := mk [educe [I "Debug"; P ","; I "Clone"]; educe [I "PartialEq"; P ","; I "Eq"; P ","; I "Hash"]] gT
    (DEnum [ {| v_attrs := [educe [I "Debug"; G Paren [I "name"; P "="; I "AA"]]]; v_name := "A"; v_discr := None;
                v_fields := FNamed [fld (Some "x") (ign "Hash" ++ [P ","; I "Debug"; G Paren [I "name"; P "="; I "xx"]]) [I "T"];
                                    fld (Some "y") (ign "Debug" ++ [P ","] ++ ign "PartialEq") u8;
                                    fld0 (Some "z") u8] |};
             {| v_attrs := []; v_name := "B"; v_discr := None;
                v_fields := FUnnamed [fld None [I "Clone"; G Paren [I "method"; G Paren [I "f"]]] u8;
                                      fld None [I "Eq"; G Paren [I "method"; G Paren [I "g"]]] [I "T"]] |} ]).
  (* 3 union *)
  Definition t3 := mk [educe [I "Debug"; G Paren [I "unsafe"]; P ","; I "PartialEq"; G Paren [I "unsafe"]; P ",";
                              I "Hash"; G Paren [I "unsafe"]; P ","; I "Clone"; P ","; I "Copy"]] g0
    (DUnion [fld0 (Some "a") u8; fld0 (Some "b") u16]).
  (* 4 Into targets *)
  Definition t4 := mk [educe [I "Into"; G Paren [I "u8"]; P ","; I "Into"; G Paren [I "u16"]; P ","; I "Debug"]] g0
    (DStruct (FNamed [fld (Some "a") ([I "Into"; G Paren [I "u8"]; P ","] ++ ign "Debug") u8; fld0 (Some "b") u16])).
  (* 5 a field attribute for a trait that is not educed *)
  Definition t5 := mk [educe [I "Debug"]] g0 (DStruct (FNamed [fld (Some "x") (ign "Hash") u8])).
  (* 6 a field attribute of a not-educed trait that does not even parse *)
  Definition t6 := mk [educe [I "Clone"]] g0 (DStruct (FNamed [fld (Some "x") [I "Debug"; I "foo"] u8])).
  (* 6b the same, the trait educed *)
  Definition t6b := mk [educe [I "Clone"; P ","; I "Debug"]] g0 (DStruct (FNamed [fld (Some "x") [I "Debug"; I "foo"] u8])).
  (* 7 `#[educe]` not a list: on a field (ignored), on the type (refused by the collection) *)
  Definition bare : attr := {| a_path := ["educe"]; a_meta := AMPath |}.
  Definition t7 := mk [educe [I "Debug"; P ","; I "Clone"]] g0
    (DStruct (FNamed [{| f_attrs := [bare; educe (ign "Debug")]; f_name := Some "x"; f_ty := u8 |}])).
  Definition t7b := mk [bare; educe [I "Debug"]] g0 (DStruct (FNamed [fld0 (Some "x") u8])).
  (* 8 `#[educe()]` / no educe attribute at all *)
  Definition t8 := mk [educe []] g0 (DStruct (FNamed [fld0 (Some "x") u8])).
  Definition t8b := mk [] g0 (DStruct (FNamed [fld (Some "x") (ign "Debug") u8])).
  (* 9 trailing commas *)
  Definition t9 := mk [educe [I "Debug"; P ","; I "Hash"; P ","]] g0
    (DStruct (FUnnamed [fld None (ign "Debug" ++ [P ","] ++ ign "Hash" ++ [P ","]) u8; fld0 None u8])).
  (* 10 the same trait twice on a field *)
  Definition t10 := mk [educe [I "Debug"; P ","; I "Hash"]] g0
    (DStruct (FNamed [fld (Some "x") (ign "Debug" ++ [P ","] ++ ign "Debug") u8; fld0 (Some "y") u8])).
  (* 11 a disabled feature named on a field *)
  Definition noHash : features := filter (fun t => negb (trait_eqb t THash)) all_traits.
  (* 12 an unknown trait on a field *)
  Definition t12 := mk [educe [I "Debug"; P ","; I "Clone"]] g0 (DStruct (FNamed [fld (Some "x") [I "Foo"] u8])).
  (* 13 the couplings *)
  Definition t13 := mk [educe [I "PartialEq"; P ","; I "Eq"; P ","; I "PartialOrd"; P ","; I "Ord"; P ","; I "Clone"; P ","; I "Copy"]] g0
    (DEnum [ {| v_attrs := []; v_name := "A"; v_discr := None;
                v_fields := FNamed [fld (Some "x") (ign "Ord" ++ [P ","] ++ ign "PartialEq" ++ [P ","; I "Clone"; G Paren [I "method"; G Paren [I "f"]]]) u8;
                                    fld (Some "y") [I "PartialOrd"; G Paren [I "rank"; P "="; TLit (LKInt 1 "") "1"]] u8] |};
             {| v_attrs := []; v_name := "B"; v_discr := None; v_fields := FUnit |} ]).
  (* 14 Default, Deref, DerefMut *)
  Definition t14 := mk [educe [I "Default"; P ","; I "Deref"; P ","; I "DerefMut"]] g0
    (DStruct (FNamed [fld (Some "a") [I "Deref"; P ","; I "DerefMut"] u8;
                      fld (Some "b") [I "Default"; P "="; TLit (LKInt 7 "") "7"] u8])).
  (* 15 Deref with two candidate fields: refused in its own restriction, and as a whole *)
  Definition t15 := mk [educe [I "Debug"; P ","; I "Deref"]] g0
    (DStruct (FNamed [fld0 (Some "a") u8; fld0 (Some "b") u8])).


  (** (type level collects to a non-empty map, every restriction accepted, metas_educed, whole
      accepted) — with all three hypotheses the whole is accepted; no counterexample found *)
  Example verdicts :
    map (verdict all_traits) [t1; t2; t3; t4; t7; t9; t13; t14]
    = repeat (true, true, true, true) 8.
  Proof. vm_compute. reflexivity. Qed.
  (** one restriction refused (unparsable own meta / reused trait / unknown trait / Deref
      ambiguity): the whole is refused as well *)
  Example verdicts_refused :
    map (fun d => (verdict all_traits d, outcome_tag (expand all_traits d))) [t6b; t10; t12; t15]
    = [((true, false, false, false), "E_syn"); ((true, false, true, false), "E_reuse_trait");
       ((true, false, false, false), "E_unsupported_trait"); ((true, false, true, false), "E_deref_none")].
  Proof. vm_compute. reflexivity. Qed.
  (** `#[educe]` that is not a list: refused on the type by the collection, ignored on a field ([t7]) *)
  Example bare_type : verdict all_traits t7b = (false, false, false, false)
                      /\ expand all_traits t7b = Err E_educe_format.
  Proof. split; vm_compute; reflexivity. Qed.

  (** *** necessity of [metas_educed] *)
  (** a field attribute of a trait that is not educed: deleted by every restriction, so every
      restriction is accepted; every scanner of the whole request refuses it *)
  Example need_metas_educed_not_used :
    verdict all_traits t5 = (true, true, false, false) /\ expand all_traits t5 = Err E_trait_not_used.
  Proof. split; vm_compute; reflexivity. Qed.
  (** the same with tokens that do not parse (`#[educe(Debug foo)]`, Debug not educed) *)
  Example need_metas_educed_syn :
    verdict all_traits t6 = (true, true, false, false) /\ expand all_traits t6 = Err E_syn.
  Proof. split; vm_compute; reflexivity. Qed.
  (** the same with a trait whose feature is disabled *)
  Example need_metas_educed_disabled :
    verdict noHash t5 = (true, true, false, false) /\ expand noHash t5 = Err E_unsupported_trait.
  Proof. split; vm_compute; reflexivity. Qed.

  (** *** necessity of [tm <> []]: `#[educe()]` — nothing to restrict to, [metas_educed] holds,
      the request is refused *)
  Example need_nonempty :
    foldM (collect_attr all_traits) [] (d_attrs t8) = Ok []
    /\ metas_educed all_traits t8 = true
    /\ (forall t, In t (map fst (@nil (trait * list meta))) ->
          exists its, expand all_traits (restrict (keep_for t) t8) = Ok its)
    /\ expand all_traits t8 = Err E_not_set_up.
  Proof.
    split; [vm_compute; reflexivity|]. split; [vm_compute; reflexivity|].
    split; [intros t []|vm_compute; reflexivity].
  Qed.

  (** *** the hypotheses are satisfiable: five traits on a generic enum, variant and field
      attributes of four of them *)
  Example sat_hypotheses :
    exists tm, foldM (collect_attr all_traits) [] (d_attrs t2) = Ok tm
      /\ map fst tm = [TDebug; TClone; TPartialEq; TEq; THash]
      /\ tm <> []
      /\ metas_educed all_traits t2 = true
      /\ (forall t, In t (map fst tm) ->
            exists its, expand all_traits (restrict (keep_for t) t2) = Ok its).
  Proof.
    eexists. split; [vm_compute; reflexivity|]. split; [reflexivity|]. split; [discriminate|].
    split; [vm_compute; reflexivity|]. intros t Hin. cbn [map fst In] in Hin.
    repeat (destruct Hin as [<-|Hin]; [eexists; vm_compute; reflexivity|]). destruct Hin.
  Qed.
  Example sat_conclusion : exists items, expand all_traits t2 = Ok items.
  Proof.
    destruct sat_hypotheses as [tm [Hc [_ [Hne [Hm Heach]]]]].
    exact (C15_joint_acceptance all_traits t2 tm Hc Hne Hm Heach).
  Qed.
  (** the same with Into targets, and with the three couplings on one enum *)
  Example sat_into_couplings :
    map (verdict all_traits) [t4; t13] = [(true, true, true, true); (true, true, true, true)].
  Proof. vm_compute. reflexivity. Qed.
End Tests.
