(** * C06 — Debug renders the effective shape exactly like core::fmt's builders

    Statements only; each is closed by [exact] of a lemma proved in
    Proofs/P_C06*.v and followed by [Print Assumptions].

    Reading guide.  [expand_debug F traits d m] is the model of
    src/trait_handlers/debug (tied to /repo by K1).  [run_fmt I it v] runs the
    `fmt` method of the emitted impl [it] on the value [v] with an OPAQUE
    formatter in the semantics of Sem/Interp.v and returns the sequence of
    core::fmt builder calls it makes ([EvBuilderNew] = `f.debug_struct(name)` /
    `f.debug_tuple(name)` / `f.debug_map()`, [EvBuilderField] / [EvBuilderEntry]
    = `builder.field(..)` / `builder.entry(&Educe__RawString(key), ..)`,
    [EvBuilderFinish], [EvWriteStr]); a value handed to a builder is recorded
    as [FADebug x] (the field's value, through its own Debug) or [FAVia m x]
    (through the user's `method = m`).  Because the formatter is opaque the
    statements hold for every formatter state.  [debug_cfg_of] is the request
    as read from the attributes; [debug_shape] (Spec/SpecDebug.v) is the
    effective shape written from the property statement; [builder_program] is
    the canonical call sequence rendering a shape; [debug_string alt render]
    is its text under Sem/Fmt.v's transcription of core::fmt::builders
    ([alt] = `{:#?}`), [render] being what each value's own formatting writes. *)
From Educe.Proofs Require Import P_C06d.

(** Running the emitted `fmt` on any value of any struct / enum performs
    exactly the builder calls of the value's effective shape. *)
Theorem C06_builder_program :
  forall (I : interp) F traits d m items c v,
    data_wf (d_data d) ->
    expand_debug F traits d m = Ok items ->
    debug_cfg_of F traits d m = Ok c ->
    dbg_value_ok c v = true ->
    exists it rest sh, items = it :: rest /\ debug_shape c v = Some sh /\
                       run_fmt I it v = Some (builder_program sh).
Proof. exact builder_program_correct. Qed.
Print Assumptions C06_builder_program.

(** (the struct case needs nothing about the item's well-formedness) *)
Theorem C06_builder_program_struct :
  forall (I : interp) F traits d m fs items c v,
    d_data d = DStruct fs ->
    expand_debug F traits d m = Ok items ->
    debug_cfg_of F traits d m = Ok c ->
    dbg_value_ok c v = true ->
    exists it rest sh, items = it :: rest /\ debug_shape c v = Some sh /\
                       run_fmt I it v = Some (builder_program sh).
Proof. exact struct_builder_program. Qed.
Print Assumptions C06_builder_program_struct.

(** The request can always be read when the expansion succeeds (struct / enum),
    so [c] above exists. *)
Theorem C06_cfg_total :
  forall F traits d m items,
    expand_debug F traits d m = Ok items ->
    (forall fs, d_data d <> DUnion fs) ->
    exists c, debug_cfg_of F traits d m = Ok c.
Proof. exact debug_cfg_total. Qed.
Print Assumptions C06_cfg_total.

(** The `Educe__DebugField` wrapper: `let arg = ..;` binds a value that, when
    formatted with ANY formatter [fm], calls the user's method with (the field
    reference, fm); a builder handed `&arg` records "field value via method". *)
Theorem C06_method_wrapper :
  forall (I : interp) ig ty sty wc m fe en r s v s1,
    eval I en fe s = (RVal v, s1) ->
    let w := debug_field_val m v in
    eval_block (eval I) en (EDebugFieldArg ig ty sty wc m fe :: r) s =
      eval_block (eval I) (("arg", w) :: en) r s1 /\
    (forall fm s', eval I (("arg", w) :: en) (ERef (EVar "arg")) s' = (RVal (VRefTmp w), s') /\
                   debug_fmt I (VRefTmp w) fm s' = call_user I m [v; fm] s') /\
    (forall st x, strip st v = Some x -> fmt_arg_of st (VRefTmp w) = Some (FAVia m x)).
Proof. exact method_wrapper. Qed.
Print Assumptions C06_method_wrapper.

(** ... and in the shape (hence in the builder program) every shown field with
    `method = m` is "its value via m" under its effective key. *)
Theorem C06_method_field :
  forall fs xs sf fc m x,
    shown_fields fs xs = Some sf ->
    In fc fs -> df_ignore (fc_attr fc) = false -> df_method (fc_attr fc) = Some m ->
    lookup (fc_store fc) xs = Some x ->
    In (effective_key fc, FAVia m x) sf.
Proof. exact shape_method_field. Qed.
Print Assumptions C06_method_field.

(** With no educe parameters (bare `Debug`, no `#[educe]` attribute on any
    variant or field) the builder program is the one `#[derive(Debug)]` is
    specified to run: `debug_struct(Name)` / `debug_tuple(Name)`, one `field`
    per field under its own name, `finish`; for an enum the name is the
    variant's, a unit variant writes its name.  (A unit STRUCT is the one
    difference in calls — `debug_struct(Name).finish()` instead of
    `write_str(Name)` — and none in text: [C06_same_text_as_derive].)
    Keys are the identifiers as `stringify!` spells them: `r#type` stays
    "r#type" where the derive prints "type" — the statement's "for ordinary
    identifiers". *)
Theorem C06_same_as_derive :
  forall F traits d p c v,
    debug_cfg_of F traits d (MPath p) = Ok c ->
    plain_data (d_data d) -> data_wf (d_data d) ->
    d_data d <> DStruct FUnit ->
    option_map builder_program (debug_shape c v) =
    option_map builder_program (derive_debug_shape d v).
Proof. exact same_as_derive. Qed.
Print Assumptions C06_same_as_derive.

Theorem C06_unit_struct_program :
  forall F traits d p c,
    debug_cfg_of F traits d (MPath p) = Ok c -> d_data d = DStruct FUnit ->
    option_map builder_program (debug_shape c (VData None [])) =
      Some [EvBuilderNew BStruct (d_name d); EvBuilderFinish] /\
    option_map builder_program (derive_debug_shape d (VData None [])) = Some [EvWriteStr (d_name d)].
Proof. exact unit_struct_program. Qed.
Print Assumptions C06_unit_struct_program.

(** The builder program of a shape writes exactly [debug_string], in compact
    and in alternate mode (Sem/Fmt.v is a transcription of core::fmt::builders
    and is trusted; K2 validates it against rustc). *)
Theorem C06_string_of_program :
  forall alt render sh,
    run_events alt render None (builder_program sh) = Some (debug_string alt render sh).
Proof. exact string_of_program. Qed.
Print Assumptions C06_string_of_program.

(** [debug_string] in closed form: `Name { k: v, k: v }`, `{k: v, k: v}`,
    `Name(v, v)` with `(v,)` for a nameless 1-tuple; in pretty mode one
    PadAdapter-indented `k: v,\n` group per field between `Name {\n` / `{\n` /
    `Name(\n` and the closing bracket; the name alone without shown fields. *)
Theorem C06_string_forms :
  forall render,
    (forall n k0 a0 r,
       debug_string false render (ShFields (Some n) SStruct ((k0, a0) :: r)) =
       n ^^ " { " ^^ k0 ^^ ": " ^^ render a0
         ^^ sconcat (map (fun '(k, a) => ", " ^^ k ^^ ": " ^^ render a) r) ^^ " }") /\
    (forall k0 a0 r,
       debug_string false render (ShFields None SStruct ((k0, a0) :: r)) =
       "{" ^^ k0 ^^ ": " ^^ render a0
         ^^ sconcat (map (fun '(k, a) => ", " ^^ k ^^ ": " ^^ render a) r) ^^ "}") /\
    (forall name k0 a0 r,
       debug_string false render (ShFields name STuple ((k0, a0) :: r)) =
       shown_name name ^^ "(" ^^ render a0
         ^^ sconcat (map (fun '(_, a) => ", " ^^ render a) r)
         ^^ (if is_nil r && is_empty (shown_name name) then "," else "") ^^ ")") /\
    (forall n fs, fs <> [] ->
       debug_string true render (ShFields (Some n) SStruct fs) =
       n ^^ " {" ^^ nl
         ^^ sconcat (map (fun '(k, a) => indent (k ^^ ": " ^^ render a ^^ "," ^^ nl)) fs) ^^ "}") /\
    (forall fs, fs <> [] ->
       debug_string true render (ShFields None SStruct fs) =
       "{" ^^ nl ^^ sconcat (map (fun '(k, a) => indent (k ^^ ": " ^^ render a ^^ "," ^^ nl)) fs) ^^ "}") /\
    (forall name fs, fs <> [] ->
       debug_string true render (ShFields name STuple fs) =
       shown_name name ^^ "(" ^^ nl
         ^^ sconcat (map (fun '(_, a) => indent (render a ^^ "," ^^ nl)) fs) ^^ ")") /\
    (forall alt name style,
       debug_string alt render (ShFields name style []) =
       match style, name with SStruct, None => "{}" | _, _ => shown_name name end).
Proof.
  intros render. repeat split.
  - exact (compact_struct render).
  - exact (compact_map render).
  - exact (compact_tuple render).
  - exact (pretty_struct render).
  - exact (pretty_map render).
  - exact (pretty_tuple render).
  - exact (no_fields render).
Qed.
Print Assumptions C06_string_forms.

(** `{:?}` / `{:#?}` of the emitted impl. *)
Theorem C06_string :
  forall (I : interp) F traits alt render d m items c v,
    data_wf (d_data d) ->
    expand_debug F traits d m = Ok items ->
    debug_cfg_of F traits d m = Ok c ->
    dbg_value_ok c v = true ->
    exists it rest sh tr,
      items = it :: rest /\ debug_shape c v = Some sh /\ run_fmt I it v = Some tr /\
      run_events alt render None tr = Some (debug_string alt render sh).
Proof. intros I F traits alt render. exact (debug_text I F traits alt render). Qed.
Print Assumptions C06_string.

(** No parameters: the text is the derive's, for both modes, unit structs included. *)
Theorem C06_same_text_as_derive :
  forall F traits alt render d p c v,
    debug_cfg_of F traits d (MPath p) = Ok c ->
    plain_data (d_data d) -> data_wf (d_data d) ->
    option_map (debug_string alt render) (debug_shape c v) =
    option_map (debug_string alt render) (derive_debug_shape d v).
Proof. exact same_text_as_derive. Qed.
Print Assumptions C06_same_text_as_derive.

(** Non-vacuity.  An enum whose own name is enabled and renamed (`name(Enum)`),
    with
    - a tuple variant shown struct-style (`named_field = true`) and renamed, with an
      ignored field, a field renamed to `key` and a method field (key `_3`),
    - a braced variant shown tuple-style (`named_field = false`) with its name disabled,
    - a braced variant with the raw identifier `r#type`,
    - a unit variant;
    and a nameless struct (bare map form / `("")` tuple form). *)
Module Example.
  Definition educe (ts : toks) : attr := {| a_path := ["educe"]; a_meta := AMList Paren ts |}.
  Definition dbg (ts : toks) : list attr := [educe [I "Debug"; G Paren ts]].
  Definition fld (n : option string) (attrs : list attr) : field :=
    {| f_attrs := attrs; f_name := n; f_ty := [I "u8"] |}.
  Definition g0 : generics :=
    {| g_params := []; g_trailing := false; g_where := []; g_where_trailing := false |}.
  Definition d : dinput :=
    {| d_attrs := []; d_name := "E"; d_generics := g0;
       d_data := DEnum
         [ {| v_attrs := dbg [I "name"; G Paren [I "Renamed"]; P ","; I "named_field"; P "="; I "true"];
              v_name := "T"; v_discr := None;
              v_fields := FUnnamed [fld None []; fld None (dbg [I "ignore"]);
                                    fld None (dbg [I "name"; G Paren [I "key"]]);
                                    fld None (dbg [I "method"; G Paren [I "fmt_x"]])] |};
           {| v_attrs := dbg [I "name"; P "="; I "false"; P ","; I "named_field"; P "="; I "false"];
              v_name := "N"; v_discr := None;
              v_fields := FNamed [fld (Some "x") []; fld (Some "y") []] |};
           {| v_attrs := []; v_name := "R"; v_discr := None;
              v_fields := FNamed [fld (Some "r#type") []] |};
           {| v_attrs := []; v_name := "U"; v_discr := None; v_fields := FUnit |} ] |}.
  Definition m : meta :=
    MList {| mp_lead := false; mp_segs := ["Debug"] |} Paren [I "name"; G Paren [I "Enum"]].
  Definition I0 : interp :=
    {| i_ne := fun _ _ => true; i_eq := fun _ _ => false; i_cmp := fun _ _ => Eq;
       i_partial_cmp := fun _ _ => None; i_user := fun _ _ => VUnit;
       i_size_of_self := 0;
       i_clone := fun v => v;
       i_clone_from := fun _ v => v;
       i_into := fun v => v;
       i_default := fun _ => VUnit |}.
  Definition items := match expand_debug all_traits [TDebug] d m with Ok l => l | _ => [] end.
  Definition c := match debug_cfg_of all_traits [TDebug] d m with
                  | Ok c => c | _ => {| dc_enum_name := None; dc_variants := [] |} end.
  Definition vT : value := VData (Some "T") [("0", VAtom 10); ("1", VAtom 11); ("2", VAtom 12); ("3", VAtom 13)].
  Definition vN : value := VData (Some "N") [("x", VAtom 1); ("y", VAtom 2)].
  Definition vR : value := VData (Some "R") [("r#type", VAtom 5)].
  Definition vU : value := VData (Some "U") [].

  Example hypotheses_hold :
    data_wf (d_data d) /\
    expand_debug all_traits [TDebug] d m = Ok items /\
    debug_cfg_of all_traits [TDebug] d m = Ok c /\
    dbg_value_ok c vT = true /\ dbg_value_ok c vN = true /\ dbg_value_ok c vR = true /\
    dbg_value_ok c vU = true /\ items <> [].
  Proof.
    split.
    - cbn. intros v [<-|[<-|[<-|[<-|[]]]]]; cbn.
      + intros f [<-|[<-|[<-|[<-|[]]]]]; reflexivity.
      + split; [intros f [<-|[<-|[]]]; discriminate|].
        repeat constructor; cbn; intuition discriminate.
      + split; [intros f [<-|[]]; discriminate|]. repeat constructor; cbn; intuition.
      + exact Logic.I.
    - repeat split; try (vm_compute; reflexivity). vm_compute. discriminate.
  Qed.

  Definition fmt_x : toks := [I "fmt_x"].
  Example computes :
    (* struct style on a tuple variant, renamed under the renamed enum name; field 1 ignored;
       keys _0, key, _3; field 3 through the method *)
    option_map (fun it => run_fmt I0 it vT) (hd_error items) =
      Some (Some [EvBuilderNew BStruct "Enum::Renamed";
                  EvBuilderField (Some "_0") (FADebug (VAtom 10));
                  EvBuilderField (Some "key") (FADebug (VAtom 12));
                  EvBuilderField (Some "_3") (FAVia fmt_x (VAtom 13));
                  EvBuilderFinish]) /\
    option_map builder_program (debug_shape c vT) =
      Some [EvBuilderNew BStruct "Enum::Renamed";
            EvBuilderField (Some "_0") (FADebug (VAtom 10));
            EvBuilderField (Some "key") (FADebug (VAtom 12));
            EvBuilderField (Some "_3") (FAVia fmt_x (VAtom 13));
            EvBuilderFinish] /\
    (* tuple style on a braced variant, variant name disabled: the enum's name alone *)
    option_map (fun it => run_fmt I0 it vN) (hd_error items) =
      Some (Some [EvBuilderNew BTuple "Enum"; EvBuilderField None (FADebug (VAtom 1));
                  EvBuilderField None (FADebug (VAtom 2)); EvBuilderFinish]) /\
    option_map builder_program (debug_shape c vN) =
      Some [EvBuilderNew BTuple "Enum"; EvBuilderField None (FADebug (VAtom 1));
            EvBuilderField None (FADebug (VAtom 2)); EvBuilderFinish] /\
    (* a raw identifier keeps its r# in the key *)
    option_map (fun it => run_fmt I0 it vR) (hd_error items) =
      Some (Some [EvBuilderNew BStruct "Enum::R"; EvBuilderField (Some "r#type") (FADebug (VAtom 5));
                  EvBuilderFinish]) /\
    option_map (fun it => run_fmt I0 it vU) (hd_error items) = Some (Some [EvWriteStr "Enum::U"]) /\
    option_map builder_program (debug_shape c vU) = Some [EvWriteStr "Enum::U"].
  Proof. repeat split; vm_compute; reflexivity. Qed.

  (** text: values print as `a<n>`; a method field prints two lines in pretty
      mode, so PadAdapter's re-indentation shows *)
  Definition render (alt : bool) (a : fmt_arg) : string :=
    match a with
    | FADebug (VAtom n) => "a" ^^ decZ n
    | FAVia _ (VAtom n) => if alt then "m" ^^ nl ^^ decZ n else "m" ^^ decZ n
    | _ => "?"
    end.
  Definition text (alt : bool) (v : value) : option string :=
    option_map (debug_string alt (render alt)) (debug_shape c v).

  Example texts :
    text false vT = Some "Enum::Renamed { _0: a10, key: a12, _3: m13 }" /\
    text true vT = Some ("Enum::Renamed {" ^^ nl ^^
                         "    _0: a10," ^^ nl ^^
                         "    key: a12," ^^ nl ^^
                         "    _3: m" ^^ nl ^^
                         "    13," ^^ nl ^^ "}") /\
    text false vN = Some "Enum(a1, a2)" /\
    text true vN = Some ("Enum(" ^^ nl ^^ "    a1," ^^ nl ^^ "    a2," ^^ nl ^^ ")") /\
    text false vU = Some "Enum::U" /\ text true vU = Some "Enum::U".
  Proof. repeat split; vm_compute; reflexivity. Qed.

  (** a struct with its name disabled: the bare map form, and the `("")`-named
      tuple form with its `(v,)` quirk *)
  Definition ds (fs : fields) : dinput :=
    {| d_attrs := []; d_name := "S"; d_generics := g0; d_data := DStruct fs |}.
  Definition mfalse (nf : string) : meta :=
    MList {| mp_lead := false; mp_segs := ["Debug"] |} Paren
          [I "name"; P "="; I "false"; P ","; I "named_field"; P "="; I nf].
  Definition shape_of (dd : dinput) (mm : meta) (v : value) : option shape :=
    match debug_cfg_of all_traits [TDebug] dd mm with Ok c => debug_shape c v | _ => None end.
  Definition run_of (dd : dinput) (mm : meta) (v : value) : option (list event) :=
    match expand_debug all_traits [TDebug] dd mm with
    | Ok (it :: _) => run_fmt I0 it v
    | _ => None
    end.
  Definition s2 : dinput := ds (FNamed [fld (Some "a") []; fld (Some "b") (dbg [I "ignore"]); fld (Some "c") []]).
  Definition v2 : value := VData None [("a", VAtom 1); ("b", VAtom 2); ("c", VAtom 3)].
  Definition s1 : dinput := ds (FUnnamed [fld None []]).
  Definition v1 : value := VData None [("0", VAtom 7)].

  Example nameless :
    run_of s2 (mfalse "true") v2 =
      Some [EvBuilderNew BMap ""; EvBuilderEntry "a" (FADebug (VAtom 1));
            EvBuilderEntry "c" (FADebug (VAtom 3)); EvBuilderFinish] /\
    run_of s2 (mfalse "true") v2 = option_map builder_program (shape_of s2 (mfalse "true") v2) /\
    option_map (debug_string false (render false)) (shape_of s2 (mfalse "true") v2) = Some "{a: a1, c: a3}" /\
    option_map (debug_string true (render true)) (shape_of s2 (mfalse "true") v2)
      = Some ("{" ^^ nl ^^ "    a: a1," ^^ nl ^^ "    c: a3," ^^ nl ^^ "}") /\
    run_of s1 (mfalse "false") v1 =
      Some [EvBuilderNew BTuple ""; EvBuilderField None (FADebug (VAtom 7)); EvBuilderFinish] /\
    option_map (debug_string false (render false)) (shape_of s1 (mfalse "false") v1) = Some "(a7,)" /\
    option_map (debug_string true (render true)) (shape_of s1 (mfalse "false") v1)
      = Some ("(" ^^ nl ^^ "    a7," ^^ nl ^^ ")").
  Proof. repeat split; vm_compute; reflexivity. Qed.
End Example.
