(** * C18 — every subset of trait features builds and behaves like the full build

    The domain of feature sets is finite (4096 subsets of twelve features), so computed
    proofs ARE proofs here: [forallb ... = true] by [vm_compute], lifted by [forallb_forall].
    The gate data ([Sources.gated_refs], [Sources.mod_gates], [Sources.empty_features_gate]) is
    regenerated from /repo/src by tools/scan_features.py on every run. *)
From Coq Require Import List String Bool.
From Educe.Gen Require Import Sources.
From Educe.Spec Require Import Features.
From Educe.Model Require Import Driver.
Import ListNotations.

(** For every non-empty feature set F (any sub-list of the twelve), every reference to a
    feature-gated module / enum variant / helper occurs in a context that is compiled under F
    only if the referenced item is. *)
Theorem C18_refs_enabled :
  forall F, In F (subsets twelve) -> F <> [] ->
  forall r, In r gated_refs -> ref_ok F r = true.
Proof.
  assert (H : all_refs_ok = true) by (vm_compute; reflexivity).
  intros F HF Hne r Hr. unfold all_refs_ok in H.
  rewrite forallb_forall in H. specialize (H F HF).
  destruct F as [|f F']; [congruence|]. cbn [nonempty negb orb] in H.
  rewrite forallb_forall in H. exact (H r Hr).
Qed.
Print Assumptions C18_refs_enabled.

(** The `compile_error!` gate is exactly "no trait feature enabled". *)
Theorem C18_empty_refused :
  forall F, In F (subsets twelve) ->
  eval_cond false F empty_features_gate = negb (nonempty F).
Proof.
  assert (H : empty_gate_exact = true) by (vm_compute; reflexivity).
  intros F HF. unfold empty_gate_exact in H. rewrite forallb_forall in H.
  apply Bool.eqb_prop. exact (H F HF).
Qed.
Print Assumptions C18_empty_refused.

(** no file of /repo/src lies outside the module tree the scanner walked *)
Theorem C18_scan_complete : files_outside_module_tree = [].
Proof. reflexivity. Qed.

(** Naming a disabled trait at the type level is rejected as unsupported, for every input. *)
Theorem C18_disabled_rejected :
  forall (F : features) acc m t,
    get_ident (meta_path m) = Some (trait_name t) -> has_trait t F = false ->
    collect_meta F acc m = Err E_unsupported_trait.
Proof.
  intros F acc m t Hid Hf. unfold collect_meta, trait_from_path. rewrite Hid.
  assert (Ht : trait_of_name (trait_name t) = Some t) by (destruct t; reflexivity).
  rewrite Ht, Hf. reflexivity.
Qed.
Print Assumptions C18_disabled_rejected.

(** non-vacuity: the sets quantified over are the 4096 subsets; the reference list is not empty *)
Example C18_domain : List.length (subsets twelve) = 4096 /\ gated_refs <> [].
Proof. split; [vm_compute; reflexivity|discriminate]. Qed.
