(** * C01, the converse, continued — field-level documented attributes are accepted

    [Properties/C01.v] states the acceptance of the bare flag(s) on a type WITHOUT field attributes.
    Here: `#[educe(T)]` on a type whose fields carry either no attribute or exactly
    `#[educe(T(ignore))]` ([ign_data T], Proofs/P_C01h.v) -- or, further down, also
    `#[educe(T(method(f)))]` ([fa_data T]) --, for the five traits whose field attribute
    knows `ignore`.  The side condition is [flag_accepted T] of C01.v, UNCHANGED: no combination of
    ignored fields is refused -- in particular a struct / a variant ALL of whose fields are
    ignored is accepted (for Debug its name is still shown, so the "unit struct without a name"
    refusal cannot fire).

      PartialEq, Hash     any struct / enum              (a union is refused: it needs `unsafe`)
      PartialOrd, Ord     any struct; an enum whose discriminants are integer literals
      Debug               any struct; any enum with at least one variant

    STILL MISSING for the full converse: the other parameters (`name`, `rename`, `rank`, `bound`,
    `unsafe`, `named_field`, `expression`, `flag`, `Into(T)`, `method` with a path of several
    segments / generic arguments, the spellings `method = f` and `method = "f"`, `T = false`,
    `ignore = true`); field attributes on Clone / Default / Deref / Into; variant attributes;
    field attributes combined with SEVERAL educed traits (only `#[educe(T)]` alone here); several
    attributes or several parameters on one field; other `#[..]` attributes (`doc`, `repr`). *)
From Coq Require Import List String Bool.
From Educe.Proofs Require Import P_C01h.
Import ListNotations.
Open Scope string_scope.

Theorem C01_accepted_partial_eq_ignore :
  forall (F : features) (d : dinput),
    has_trait TPartialEq F = true ->
    d_attrs d = [educe_flag "PartialEq"] ->
    ign_data TPartialEq (d_data d) ->
    (forall fs, d_data d <> DUnion fs) ->
    exists items, expand F d = Ok items.
Proof.
  intros F d HF Ha Hp Hu. apply (expand_accepts_flag_ignore F d TPartialEq Logic.I HF Ha Hp).
  cbn [flag_accepted]. destruct (d_data d) as [fs|vs|fs]; [exact Logic.I|exact Logic.I|]. apply (Hu fs). reflexivity.
Qed.
Print Assumptions C01_accepted_partial_eq_ignore.

Theorem C01_accepted_hash_ignore :
  forall (F : features) (d : dinput),
    has_trait THash F = true ->
    d_attrs d = [educe_flag "Hash"] ->
    ign_data THash (d_data d) ->
    (forall fs, d_data d <> DUnion fs) ->
    exists items, expand F d = Ok items.
Proof.
  intros F d HF Ha Hp Hu. apply (expand_accepts_flag_ignore F d THash Logic.I HF Ha Hp).
  cbn [flag_accepted]. destruct (d_data d) as [fs|vs|fs]; [exact Logic.I|exact Logic.I|]. apply (Hu fs). reflexivity.
Qed.
Print Assumptions C01_accepted_hash_ignore.

Theorem C01_accepted_partial_ord_ignore :
  forall (F : features) (d : dinput),
    has_trait TPartialOrd F = true ->
    d_attrs d = [educe_flag "PartialOrd"] ->
    ign_data TPartialOrd (d_data d) ->
    flag_accepted TPartialOrd (d_data d) ->
    exists items, expand F d = Ok items.
Proof. intros F d. exact (expand_accepts_flag_ignore F d TPartialOrd Logic.I). Qed.
Print Assumptions C01_accepted_partial_ord_ignore.

Theorem C01_accepted_ord_ignore :
  forall (F : features) (d : dinput),
    has_trait TOrd F = true ->
    d_attrs d = [educe_flag "Ord"] ->
    ign_data TOrd (d_data d) ->
    flag_accepted TOrd (d_data d) ->
    exists items, expand F d = Ok items.
Proof. intros F d. exact (expand_accepts_flag_ignore F d TOrd Logic.I). Qed.
Print Assumptions C01_accepted_ord_ignore.

Theorem C01_accepted_debug_ignore :
  forall (F : features) (d : dinput),
    has_trait TDebug F = true ->
    d_attrs d = [educe_flag "Debug"] ->
    ign_data TDebug (d_data d) ->
    flag_accepted TDebug (d_data d) ->
    exists items, expand F d = Ok items.
Proof. intros F d. exact (expand_accepts_flag_ignore F d TDebug Logic.I). Qed.
Print Assumptions C01_accepted_debug_ignore.

(** the five at once *)
Theorem C01_accepted_ignore :
  forall (F : features) (d : dinput) (t : trait),
    ignorable t -> has_trait t F = true ->
    d_attrs d = [educe_flag (trait_name t)] ->
    ign_data t (d_data d) -> flag_accepted t (d_data d) ->
    exists items, expand F d = Ok items.
Proof. exact expand_accepts_flag_ignore. Qed.
Print Assumptions C01_accepted_ignore.

(** ** `ignore` and `method(f)` mixed: each field carries nothing, `#[educe(T(ignore))]`, or
    `#[educe(T(method(f)))]` with [f] one identifier that [syn::Path::parse] accepts as a segment
    ([path_seg_ok f]: not a keyword, or one of `self` `Self` `super` `crate`) -- [fa_data T].
    Same side condition [flag_accepted T] again: a field with a method keeps its default rank in
    PartialOrd / Ord, so no rank collision can arise. *)
Theorem C01_accepted_ignore_or_method :
  forall (F : features) (d : dinput) (t : trait),
    ignorable t -> has_trait t F = true ->
    d_attrs d = [educe_flag (trait_name t)] ->
    fa_data t (d_data d) -> flag_accepted t (d_data d) ->
    exists items, expand F d = Ok items.
Proof. exact expand_accepts_flag_fattr. Qed.
Print Assumptions C01_accepted_ignore_or_method.

Theorem C01_ignore_is_ignore_or_method : forall t d, ign_data t d -> fa_data t d.
Proof. exact ign_fa_data. Qed.
Print Assumptions C01_ignore_is_ignore_or_method.

(** it generalises the field part of [C01_documented_accepted_partial] *)
Theorem C01_plain_is_ignore : forall t d, plain_data d -> ign_data t d.
Proof. exact plain_ign_data. Qed.
Print Assumptions C01_plain_is_ignore.

Module Example.
  Definition fld (attrs : list attr) (n : option string) (ty : toks) : field :=
    {| f_attrs := attrs; f_name := n; f_ty := ty |}.
  Definition no_generics : generics :=
    {| g_params := []; g_trailing := false; g_where := []; g_where_trailing := false |}.
  Definition mk (t : trait) (dt : data) : dinput :=
    {| d_attrs := [educe_flag (trait_name t)]; d_name := "T"; d_generics := no_generics; d_data := dt |}.

  (** struct T { #[educe(X(ignore))] a: u8, #[educe(X(ignore))] b: u8 }  -- ALL fields ignored *)
  Definition s_all (t : trait) : data :=
    DStruct (FNamed [fld [educe_ignore t] (Some "a") [I "u8"]; fld [educe_ignore t] (Some "b") [I "u8"]]).
  (** enum T { A { #[educe(X(ignore))] a: u8 }, B(#[educe(X(ignore))] u8, u8), C } *)
  Definition e_some (t : trait) : data :=
    DEnum [{| v_attrs := []; v_name := "A";
              v_fields := FNamed [fld [educe_ignore t] (Some "a") [I "u8"]]; v_discr := None |};
           {| v_attrs := []; v_name := "B";
              v_fields := FUnnamed [fld [educe_ignore t] None [I "u8"]; fld [] None [I "u8"]];
              v_discr := None |};
           {| v_attrs := []; v_name := "C"; v_fields := FUnit; v_discr := None |}].

  Lemma s_all_ign t : ign_data t (s_all t).
  Proof. intros f [<-|[<-|[]]]; right; reflexivity. Qed.
  Lemma e_some_ign t : ign_data t (e_some t).
  Proof.
    intros v [<-|[<-|[<-|[]]]]; (split; [reflexivity|]); cbn; intros f Hf;
      repeat (destruct Hf as [<-|Hf]; [first [right; reflexivity|left; reflexivity]|]); destruct Hf.
  Qed.

  (** the theorems apply (non-vacuity) .. *)
  Example accepted_all_ignored :
    (exists its, expand all_traits (mk TDebug (s_all TDebug)) = Ok its) /\
    (exists its, expand all_traits (mk TPartialEq (s_all TPartialEq)) = Ok its) /\
    (exists its, expand all_traits (mk TOrd (e_some TOrd)) = Ok its) /\
    (exists its, expand all_traits (mk THash (e_some THash)) = Ok its) /\
    (exists its, expand all_traits (mk TPartialOrd (e_some TPartialOrd)) = Ok its).
  Proof.
    repeat split.
    - apply C01_accepted_debug_ignore; [reflexivity|reflexivity|apply s_all_ign|exact Logic.I].
    - apply C01_accepted_partial_eq_ignore; [reflexivity|reflexivity|apply s_all_ign|discriminate].
    - apply C01_accepted_ord_ignore; [reflexivity|reflexivity|apply e_some_ign|].
      eexists. vm_compute. reflexivity.
    - apply C01_accepted_hash_ignore; [reflexivity|reflexivity|apply e_some_ign|discriminate].
    - apply C01_accepted_partial_ord_ignore; [reflexivity|reflexivity|apply e_some_ign|].
      eexists. vm_compute. reflexivity.
  Qed.

  (** struct T { #[educe(X(method(f)))] a: u8, #[educe(X(ignore))] b: u8, c: u8 } *)
  Definition s_mixed (t : trait) (f : string) : data :=
    DStruct (FNamed [fld [educe_method t f] (Some "a") [I "u8"];
                     fld [educe_ignore t] (Some "b") [I "u8"]; fld [] (Some "c") [I "u8"]]).
  Lemma s_mixed_fa t f : path_seg_ok f = true -> fa_data t (s_mixed t f).
  Proof.
    intros H g [<-|[<-|[<-|[]]]].
    - right. exists (FMethod f). split; [exact H|reflexivity].
    - right. exists FIgnore. split; [exact Logic.I|reflexivity].
    - left. reflexivity.
  Qed.
  Example accepted_mixed :
    (exists its, expand all_traits (mk TDebug (s_mixed TDebug "fmt")) = Ok its) /\
    (exists its, expand all_traits (mk TOrd (s_mixed TOrd "cmp")) = Ok its) /\
    (exists its, expand all_traits (mk THash (s_mixed THash "hash")) = Ok its).
  Proof.
    repeat split.
    - apply (C01_accepted_ignore_or_method all_traits _ TDebug);
        [exact Logic.I|reflexivity|reflexivity|apply s_mixed_fa; reflexivity|exact Logic.I].
    - apply (C01_accepted_ignore_or_method all_traits _ TOrd);
        [exact Logic.I|reflexivity|reflexivity|apply s_mixed_fa; reflexivity|exact Logic.I].
    - apply (C01_accepted_ignore_or_method all_traits _ THash);
        [exact Logic.I|reflexivity|reflexivity|apply s_mixed_fa; reflexivity|exact Logic.I].
  Qed.
  (** [path_seg_ok] is needed: a keyword is not a path *)
  Example refused_method_keyword :
    expand all_traits (mk TDebug (s_mixed TDebug "fn")) = Err E_syn /\
    expand all_traits (mk TOrd (s_mixed TOrd "true")) = Err E_syn /\
    expand all_traits (mk THash (s_mixed THash "_")) = Err E_syn.
  Proof. vm_compute. repeat split; reflexivity. Qed.

  (** .. and the hypotheses are needed: the attribute of ANOTHER trait than the educed one is
      refused (`trait_not_used`), `ignore` is not known to Clone, a union is refused *)
  Example refused_outside :
    expand all_traits (mk TDebug (s_all THash)) = Err E_trait_not_used /\
    expand all_traits (mk TClone (s_all TClone)) = Err E_attr_format /\
    expand all_traits (mk THash (DUnion [fld [educe_ignore THash] (Some "a") [I "u8"]]))
      = Err E_union_without_unsafe.
  Proof. vm_compute. repeat split; reflexivity. Qed.
End Example.
