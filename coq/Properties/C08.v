(** * C08 — Default builds exactly the designated value

    Statements only; each is closed by [exact] of a lemma proved in
    Proofs/P_C08.v and followed by [Print Assumptions].

    Reading guide.  [expand_default F traits d m] is the model of
    src/trait_handlers/default (tied to /repo by K1); it emits the Default
    impl and, when `new` is set, an inherent impl with `pub fn new() -> Self`.
    [run_default I it] / [run_new I it] run the `default` / `new` function of
    an emitted item in the semantics of Sem/Interp.v, where [I : interp]
    gives ARBITRARY behaviour to `::core::convert::Into::into` ([i_into]) and
    to `<ty as ::core::default::Default>::default()` ([i_default], indexed by
    the type's tokens); a user expression is opaque and evaluates to
    [VTok tokens].  [default_cfg] is the request as read from the attributes
    with the expressions kept as the user wrote them (per field: key, type,
    optional expression; or a type-level expression; whether `new` is set);
    [spec_default] is the meaning written from the property statement, with
    the Into conversion decided by [needs_into] (the literal is not of the
    field type's natural kind; a type-level literal is always converted).
    Structs, enums and unions. *)
From Educe.Proofs Require Import P_C08.

(** `T::default()` is the designated value, and the items emitted are the
    Default impl followed by the inherent `new` exactly when `new` is set. *)
Theorem C08_default :
  forall (I : interp) F traits d m items c,
    expand_default F traits d m = Ok items ->
    default_cfg F traits d m = Ok c ->
    exists it,
      items = it :: (if dc_new c then [new_item d (i_generics it)] else []) /\
      i_self it = d_name d /\ i_trait it = Some (rpath_toks default_trait) /\
      run_default I it = Some (spec_default I c).
Proof. exact default_correct. Qed.
Print Assumptions C08_default.

(** The request is readable whenever the handler succeeds: the hypothesis
    [default_cfg .. = Ok c] costs nothing. *)
Theorem C08_cfg_total :
  forall F traits d m items,
    expand_default F traits d m = Ok items -> exists c, default_cfg F traits d m = Ok c.
Proof. exact default_cfg_total. Qed.
Print Assumptions C08_cfg_total.

(** The analysis stage used by [default_cfg] (expressions as written) is the
    model's own analysis: the model's attributes are these, with
    [auto_adjust_expr] applied to the expression. *)
Theorem C08_analysis_is_the_models :
  (forall ef en ee eb m,
     build_dtattr ef en ee eb m = let* r := build_dtraw ef en ee eb m in Ok (adjust_t r)) /\
  (forall F traits ef ee f,
     default_field_attr F traits ef ee f
     = let* r := default_field_raw F traits ef ee f in Ok (adjust_f (f_ty f) r)) /\
  (forall F traits fs,
     select_field F traits fs = let* x := select_field_raw F traits fs in Ok (adjust_sel x)).
Proof.
  split; [exact build_dtattr_raw|]. split; [exact default_field_attr_raw|exact select_field_raw_eq].
Qed.
Print Assumptions C08_analysis_is_the_models.

(** Which variant is built ([default_cfg] takes it from [select_variant]): when
    the analysis sees flag [b_i] on variant [v_i] (and, for an unflagged
    variant of an enum with several variants, no Default attribute on its
    fields), the selection is [spec_select]: the only variant, or the unique
    flagged one; none flagged => Err E_default_no_variant, several =>
    Err E_default_multi_variants. *)
Theorem C08_selection :
  forall F traits vs bs,
    Forall2 (variant_seen F traits (List.length vs)) vs bs ->
    select_variant F traits vs = spec_select (combine vs bs).
Proof. exact selection_correct. Qed.
Print Assumptions C08_selection.

(** Conversely, whenever a variant is selected every variant was seen, so the
    selected one is the only variant or the unique flagged one. *)
Theorem C08_selection_ok :
  forall F traits vs v,
    select_variant F traits vs = Ok v ->
    exists bs, Forall2 (variant_seen F traits (List.length vs)) vs bs /\
               spec_select (combine vs bs) = Ok v.
Proof. exact selection_ok. Qed.
Print Assumptions C08_selection_ok.

(** [spec_select] (and [spec_select_field]) unfolded over the list. *)
Theorem C08_spec_select :
  forall A e0 e2 (l : list (A * bool)),
    (forall v, spec_select_with e0 e2 l = Ok v ->
       (exists b, l = [(v, b)]) \/
       (exists pre post, l = pre ++ (v, true) :: post /\
                         forallb (fun vb => negb (snd vb)) pre = true /\
                         forallb (fun vb => negb (snd vb)) post = true)) /\
    (List.length l <> 1 ->
     (filter (fun vb => snd vb) l = [] -> spec_select_with e0 e2 l = Err e0) /\
     (2 <= List.length (filter (fun vb => snd vb) l) -> spec_select_with e0 e2 l = Err e2)).
Proof.
  intros A e0 e2 l. split.
  - intros v. exact (spec_select_ok e0 e2 l v).
  - exact (spec_select_errors e0 e2 l).
Qed.
Print Assumptions C08_spec_select.

(** Unions: the field built is the only field, or the unique one carrying the
    flag or an expression; none => Err E_default_no_field, several =>
    Err E_default_multi_fields. *)
Theorem C08_selection_union :
  forall F traits fs rs,
    fields_seen F traits fs rs ->
    select_field_raw F traits fs = spec_select_field (marked fs rs).
Proof. exact field_selection_correct. Qed.
Print Assumptions C08_selection_union.

(** The inherent `new()` (emitted iff `new` is set, see [C08_default]) has the
    body `<Self as ::core::default::Default>::default()`; so, `Default` for
    Self being the impl emitted next to it, `T::new()` returns what
    `T::default()` returns. *)
Theorem C08_new_is_default :
  forall (I : interp) d g,
    i_trait (new_item d g) = None /\ i_self (new_item d g) = d_name d /\
    i_generics (new_item d g) = g /\
    find_fn "new" (new_item d g)
    = Some [ECall (EQPath [TIdent "Self"] default_trait "default") []] /\
    run_new I (new_item d g) = Some (i_default I [TIdent "Self"]) /\
    (forall it, run_default I it = Some (i_default I [TIdent "Self"]) ->
                run_new I (new_item d g) = run_default I it).
Proof.
  intros I d g. destruct (new_correct I d g) as [H1 [H2 [H3 [H4 H5]]]].
  repeat split; try assumption. intros it Hit. rewrite Hit. exact H5.
Qed.
Print Assumptions C08_new_is_default.

(** Non-vacuity: an enum whose SECOND variant carries the flag; its tuple
    fields: an integer literal for a `u64` (natural kind: spliced), the same
    literal for an `f64` (converted with Into), a field without expression
    (its type's default), an opaque expression; then `new` together with a
    type-level literal on a struct (always converted). *)
Module Example.
  Definition educe (ts : toks) : attr := {| a_path := ["educe"]; a_meta := AMList Paren ts |}.
  Definition fld (n : option string) (ty : string) (ts : toks) : field :=
    {| f_attrs := [educe ts]; f_name := n; f_ty := [I ty] |}.
  Definition fld0 (n : option string) (ty : string) : field :=
    {| f_attrs := []; f_name := n; f_ty := [I ty] |}.
  Definition one : tt := TLit (LKInt 1 "") "1".
  Definition variants : list variant :=
    [ {| v_attrs := []; v_name := "A"; v_discr := None; v_fields := FUnit |};
      {| v_attrs := [educe [I "Default"]]; v_name := "T"; v_discr := None;
         v_fields := FUnnamed [fld None "u64" [I "Default"; P "="; one];
                               fld None "f64" [I "Default"; P "="; one];
                               fld0 None "String";
                               fld None "Vec" [I "Default"; G Paren [I "expression"; P "="; I "make"; G Paren []]]] |};
      {| v_attrs := []; v_name := "N"; v_discr := None; v_fields := FNamed [fld0 (Some "x") "u8"] |} ].
  Definition gen0 := {| g_params := []; g_trailing := false; g_where := []; g_where_trailing := false |}.
  Definition d : dinput :=
    {| d_attrs := [educe [I "Default"]]; d_name := "E"; d_generics := gen0; d_data := DEnum variants |}.
  Definition m : meta := MPath {| mp_lead := false; mp_segs := ["Default"] |}.
  Definition I0 : interp :=
    {| i_ne := fun _ _ => true; i_eq := fun _ _ => false;
       i_cmp := fun _ _ => Eq; i_partial_cmp := fun _ _ => None;
       i_user := fun _ _ => VUnit; i_clone := fun v => v; i_clone_from := fun _ v => v;
       i_into := fun v => VData (Some "into") [("0", v)];
       i_default := fun ty => VData (Some "default") [("0", VTok ty)];
       i_size_of_self := 0 |}.
  Definition items := match expand_default all_traits [TDefault] d m with Ok l => l | _ => [] end.
  Definition c := match default_cfg all_traits [TDefault] d m with
                  | Ok c => c | _ => {| dc_new := false; dc_body := DRData None [] |} end.
  Definition expected : value :=
    VData (Some "T")
      [("0", VTok [one]);
       ("1", VData (Some "into") [("0", VTok [one])]);
       ("2", VData (Some "default") [("0", VTok [I "String"])]);
       ("3", VTok [I "make"; G Paren []])].

  Example hypotheses_hold :
    expand_default all_traits [TDefault] d m = Ok items /\
    default_cfg all_traits [TDefault] d m = Ok c /\ List.length items = 1.
  Proof. repeat split; vm_compute; reflexivity. Qed.

  Example computes :
    option_map (run_default I0) (hd_error items) = Some (Some expected) /\
    spec_default I0 c = expected /\
    match select_variant all_traits [TDefault] variants with Ok v => v_name v | _ => "" end = "T".
  Proof. repeat split; vm_compute; reflexivity. Qed.

  (** the hypotheses of [C08_selection] hold with flags [false; true; false] *)
  Example selection_hypotheses :
    Forall2 (variant_seen all_traits [TDefault] (List.length variants)) variants [false; true; false] /\
    spec_select (combine variants [false; true; false]) = select_variant all_traits [TDefault] variants.
  Proof.
    split; [|vm_compute; reflexivity].
    repeat constructor; try (vm_compute; reflexivity); intros; try discriminate; vm_compute; reflexivity.
  Qed.

  (** `new` and a type-level literal on a struct: the literal is converted,
      the field is not consulted, and `new()` is emitted *)
  Definition ds : dinput :=
    {| d_attrs := []; d_name := "S"; d_generics := gen0;
       d_data := DStruct (FNamed [fld0 (Some "a") "u8"; fld0 (Some "b") "u8"; fld0 (Some "c") "u8"]) |}.
  Definition ms : meta :=
    MList {| mp_lead := false; mp_segs := ["Default"] |} Paren
          [I "new"; P ","; I "expression"; P "="; one].
  Definition items_s := match expand_default all_traits [TDefault] ds ms with Ok l => l | _ => [] end.
  Definition cs := match default_cfg all_traits [TDefault] ds ms with
                   | Ok c => c | _ => {| dc_new := false; dc_body := DRData None [] |} end.
  Example new_computes :
    expand_default all_traits [TDefault] ds ms = Ok items_s /\
    default_cfg all_traits [TDefault] ds ms = Ok cs /\
    dc_new cs = true /\ List.length items_s = 2 /\
    option_map (run_default I0) (hd_error items_s)
    = Some (Some (VData (Some "into") [("0", VTok [one])])) /\
    spec_default I0 cs = VData (Some "into") [("0", VTok [one])] /\
    option_map (run_new I0) (nth_error items_s 1)
    = Some (Some (i_default I0 [I "Self"])).
  Proof. repeat split; vm_compute; reflexivity. Qed.
End Example.
