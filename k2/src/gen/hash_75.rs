// hash_75
#![allow(dead_code, unused_variables, unused_mut, unused_imports, non_shorthand_field_patterns, clippy::all)]
use crate::support::*;
use educe::Educe;
use core::cmp::Ordering;
#[derive(Educe)]
#[educe(Hash)]
pub enum T { Some { #[educe(Hash(method = "m_hash"))] f: A<0>, #[educe(Hash = false)] size: A<0> }, C { state: A<0> } }
pub fn values() -> Vec<T> { vec![T::Some { f: A(0), size: A(0) }, T::Some { f: A(0), size: A(1) }, T::Some { f: A(0), size: A(7) }, T::Some { f: A(1), size: A(0) }, T::Some { f: A(1), size: A(1) }, T::Some { f: A(1), size: A(7) }, T::Some { f: A(7), size: A(0) }, T::Some { f: A(7), size: A(1) }, T::Some { f: A(7), size: A(7) }, T::C { state: A(0) }, T::C { state: A(1) }, T::C { state: A(7) }] }
pub fn show(x: &T) -> String { #[allow(unused_variables)] match x { T::Some { f: p0, size: p1 } => format!("Some({},{})", sv(p0), sv(p1)), T::C { state: p0 } => format!("C({})", sv(p0)) } }
pub fn o_hash(x: &T) -> Vec<String> { let mut e = Rec::default(); match x { T::Some { f: p0, size: p1 } => { ::core::hash::Hash::hash(&0usize, &mut e); m_hash(p0, &mut e); }, T::C { state: p0 } => { ::core::hash::Hash::hash(&1usize, &mut e); ::core::hash::Hash::hash(p0, &mut e); } } e.0 }
pub fn run(out: &mut Out) { let vs = values(); for a in &vs { let mut g = Rec::default(); ::core::hash::Hash::hash(a, &mut g); let e = o_hash(a); out.check(g.0 == e, "hash_75", "hash", || format!("hash({}) fed {:?} expected {:?}", show(a), g.0, e)); } }
