// ordlayout_53
#![allow(dead_code, unused_variables, unused_mut, unused_imports, non_shorthand_field_patterns, clippy::all)]
use crate::support::*;
use core::cmp::Ordering;
pub mod ty {
    #![deny(warnings)]
    #![allow(dead_code, unused_imports, non_snake_case)]
    use crate::support::{A, B, C, Good, Bad, m_eq, m_cmp, m_pcmp, m_hash, m_fmt, m_clone, m_clone_c, m_into, g_eq, g_cmp, g_pcmp, g_hash, g_fmt};
    use educe::Educe;
#[derive(Educe)]
#[repr(i64)]
#[educe(PartialEq, Ord, Eq)]
pub enum T { V1 {  }, None(::core::num::NonZeroU8, i64) = 127, Zed { #[educe(Ord(rank("-1")))] self_data: i64, r#type: u8 } = 255 }
}
pub use ty::T;
impl PartialOrd for T { fn partial_cmp(&self, o: &Self) -> Option<Ordering> { Some(::core::cmp::Ord::cmp(self, o)) } }
pub fn values() -> Vec<T> { vec![T::V1 {  }, T::None(::core::num::NonZeroU8::new(1).unwrap(), -5), T::None(::core::num::NonZeroU8::new(1).unwrap(), 0), T::None(::core::num::NonZeroU8::new(1).unwrap(), 9), T::None(::core::num::NonZeroU8::new(200).unwrap(), -5), T::None(::core::num::NonZeroU8::new(200).unwrap(), 0), T::None(::core::num::NonZeroU8::new(200).unwrap(), 9), T::Zed { self_data: -5, r#type: 0 }, T::Zed { self_data: -5, r#type: 100 }, T::Zed { self_data: -5, r#type: 200 }, T::Zed { self_data: 0, r#type: 0 }, T::Zed { self_data: 0, r#type: 100 }, T::Zed { self_data: 0, r#type: 200 }, T::Zed { self_data: 9, r#type: 0 }, T::Zed { self_data: 9, r#type: 100 }, T::Zed { self_data: 9, r#type: 200 }] }
pub fn show(x: &T) -> String { #[allow(unused_variables)] match x { T::V1 {  } => format!("V1()"), T::None(p0, p1) => format!("None({},{})", sv(p0), sv(p1)), T::Zed { self_data: p0, r#type: p1 } => format!("Zed({},{})", sv(p0), sv(p1)) } }
pub fn o_disc(x: &T) -> i128 { match x { T::V1 {  } => 0, T::None(_, _) => 127, T::Zed { self_data: _, r#type: _ } => 255 } }
pub fn o_cmp(a: &T, b: &T) -> Ordering { match (a, b) { (T::V1 {  }, T::V1 {  }) => {  Ordering::Equal }, (T::None(a0, a1), T::None(b0, b1)) => { let c = ::core::cmp::Ord::cmp(a0, b0); if c != Ordering::Equal { return c; } let c = ::core::cmp::Ord::cmp(a1, b1); if c != Ordering::Equal { return c; } Ordering::Equal }, (T::Zed { self_data: a0, r#type: a1 }, T::Zed { self_data: b0, r#type: b1 }) => { let c = ::core::cmp::Ord::cmp(a1, b1); if c != Ordering::Equal { return c; } let c = ::core::cmp::Ord::cmp(a0, b0); if c != Ordering::Equal { return c; } Ordering::Equal }, _ => o_disc(a).cmp(&o_disc(b)) } }
#[repr(C)] pub struct Wrap { pub pre: u8, pub x: T, pub post: [u8; 9] }
pub fn wrap(i: usize, n: u8) -> Wrap { Wrap { pre: n, x: values().swap_remove(i), post: [n; 9] } }
pub fn run(out: &mut Out) { let vs = values(); for (i, a) in vs.iter().enumerate() { for (j, b) in vs.iter().enumerate() { let e = o_cmp(a, b); let g = ::core::cmp::Ord::cmp(a, b); out.check(g == e, "ordlayout_53", "cmp", || format!("cmp({}, {}) = {:?} expected {:?}", show(a), show(b), g, e)); for n in [0u8, 1, 0x7f, 0x80, 0xff] { let wa = wrap(i, n); let wb = wrap(j, !n); let g = ::core::cmp::Ord::cmp(&wa.x, &wb.x); let e = o_cmp(a, b); out.check(g == e, "ordlayout_53", "cmp_neighbours", || format!("cmp({}, {}) with neighbour bytes {} = {:?} expected {:?}", show(a), show(b), n, g, e)); } } } }
