// into_31
#![allow(dead_code, unused_variables, unused_mut, unused_imports, non_shorthand_field_patterns, clippy::all)]
use crate::support::*;
use educe::Educe;
use core::cmp::Ordering;
#[derive(Educe)]
#[educe(Into(B<2>))]
pub struct T { #[educe(Into(B<2>))] size: A<0>, state: A<1>, data: A<1> }
pub fn values() -> Vec<T> { vec![T { size: A(7), state: A(1), data: A(0) }, T { size: A(1), state: A(0), data: A(1) }, T { size: A(1), state: A(1), data: A(7) }, T { size: A(7), state: A(1), data: A(7) }, T { size: A(0), state: A(1), data: A(7) }, T { size: A(7), state: A(0), data: A(1) }, T { size: A(0), state: A(0), data: A(0) }, T { size: A(1), state: A(0), data: A(7) }, T { size: A(0), state: A(0), data: A(1) }, T { size: A(1), state: A(1), data: A(0) }, T { size: A(7), state: A(7), data: A(7) }, T { size: A(1), state: A(0), data: A(0) }] }
pub fn show(x: &T) -> String { #[allow(unused_variables)] match x { T { size: p0, state: p1, data: p2 } => format!("T({},{},{})", sv(p0), sv(p1), sv(p2)) } }
pub fn o_into_0(x: T) -> B<2> { match x { T { size: p0, state: _, data: _ } => ::core::convert::Into::into(p0) } }
pub fn run(out: &mut Out) { let n = values().len(); for i in 0..n { let a = values().swap_remove(i); let shown = show(&a); let g: B<2> = ::core::convert::Into::into(a); let e = o_into_0(values().swap_remove(i)); out.check(sv(&g) == sv(&e), "into_31", "into", || format!("Into::<B<2>>::into({}) = {} expected {}", shown, sv(&g), sv(&e))); } }
