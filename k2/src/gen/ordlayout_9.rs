// ordlayout_9
#![allow(dead_code, unused_variables, unused_mut, unused_imports, non_shorthand_field_patterns, clippy::all)]
use crate::support::*;
use educe::Educe;
use core::cmp::Ordering;
#[derive(Educe)]
#[repr(i64)]
#[educe(Eq, PartialOrd, PartialEq, Ord)]
pub enum T { Zed, V1(), A, Unit { c: u8, #[educe(Ord(rank("-3")))] size: char } = 1000 }

pub fn values() -> Vec<T> { vec![T::Zed, T::V1(), T::A, T::Unit { c: 0, size: 'a' }, T::Unit { c: 0, size: 'z' }, T::Unit { c: 100, size: 'a' }, T::Unit { c: 100, size: 'z' }, T::Unit { c: 200, size: 'a' }, T::Unit { c: 200, size: 'z' }] }
pub fn show(x: &T) -> String { #[allow(unused_variables)] match x { T::Zed => format!("Zed()"), T::V1() => format!("V1()"), T::A => format!("A()"), T::Unit { c: p0, size: p1 } => format!("Unit({},{})", sv(p0), sv(p1)) } }
pub fn o_disc(x: &T) -> i128 { match x { T::Zed => 0, T::V1() => 1, T::A => 2, T::Unit { c: _, size: _ } => 1000 } }
pub fn o_cmp(a: &T, b: &T) -> Ordering { match (a, b) { (T::Zed, T::Zed) => {  Ordering::Equal }, (T::V1(), T::V1()) => {  Ordering::Equal }, (T::A, T::A) => {  Ordering::Equal }, (T::Unit { c: a0, size: a1 }, T::Unit { c: b0, size: b1 }) => { let c = ::core::cmp::Ord::cmp(a0, b0); if c != Ordering::Equal { return c; } let c = ::core::cmp::Ord::cmp(a1, b1); if c != Ordering::Equal { return c; } Ordering::Equal }, _ => o_disc(a).cmp(&o_disc(b)) } }
#[repr(C)] pub struct Wrap { pub pre: u8, pub x: T, pub post: [u8; 9] }
pub fn wrap(i: usize, n: u8) -> Wrap { Wrap { pre: n, x: values().swap_remove(i), post: [n; 9] } }
pub fn run(out: &mut Out) { let vs = values(); for (i, a) in vs.iter().enumerate() { for (j, b) in vs.iter().enumerate() { let e = o_cmp(a, b); let g = ::core::cmp::Ord::cmp(a, b); out.check(g == e, "ordlayout_9", "cmp", || format!("cmp({}, {}) = {:?} expected {:?}", show(a), show(b), g, e)); let g2 = ::core::cmp::PartialOrd::partial_cmp(a, b); out.check(g2 == Some(e), "ordlayout_9", "partial_is_some_cmp", || format!("partial_cmp({}, {}) = {:?} expected Some({:?})", show(a), show(b), g2, e)); for n in [0u8, 1, 0x7f, 0x80, 0xff] { let wa = wrap(i, n); let wb = wrap(j, !n); let g = ::core::cmp::Ord::cmp(&wa.x, &wb.x); let e = o_cmp(a, b); out.check(g == e, "ordlayout_9", "cmp_neighbours", || format!("cmp({}, {}) with neighbour bytes {} = {:?} expected {:?}", show(a), show(b), n, g, e)); } } } }
