// default_0
#![allow(dead_code, unused_variables, unused_mut, unused_imports, non_shorthand_field_patterns, clippy::all)]
use crate::support::*;
use educe::Educe;
use core::cmp::Ordering;
#[derive(Educe)]
#[educe(Default(new))]
pub struct T { #[educe(Default(expression(A(9))))] source: A<0>, b: A<0> }
pub fn show(x: &T) -> String { #[allow(unused_variables)] match x { T { source: p0, b: p1 } => format!("T({},{})", sv(p0), sv(p1)) } }
pub fn o_default() -> T { T { source: A(9), b: A(40) } }
pub fn run(out: &mut Out) { let g = <T as ::core::default::Default>::default(); let e = o_default(); out.check(show(&g) == show(&e), "default_0", "default", || format!("default() = {} expected {}", show(&g), show(&e))); let g = T::new(); let e = o_default(); out.check(show(&g) == show(&e), "default_0", "new", || format!("new() = {} expected {}", show(&g), show(&e))); }
