// eq_41
#![allow(dead_code, unused_variables, unused_mut, unused_imports, non_shorthand_field_patterns, clippy::all)]
use crate::support::*;
use educe::Educe;
use core::cmp::Ordering;
#[derive(Educe)]
#[educe(PartialEq)]
pub enum T { C, A { state: A<0>, #[educe(PartialEq(method = m_eq))] x: A<0> }, B, Zed }
pub fn values() -> Vec<T> { vec![T::C, T::A { state: A(0), x: A(0) }, T::A { state: A(0), x: A(1) }, T::A { state: A(0), x: A(7) }, T::A { state: A(1), x: A(0) }, T::A { state: A(1), x: A(1) }, T::A { state: A(1), x: A(7) }, T::A { state: A(7), x: A(0) }, T::A { state: A(7), x: A(1) }, T::A { state: A(7), x: A(7) }, T::B, T::Zed] }
pub fn show(x: &T) -> String { #[allow(unused_variables)] match x { T::C => format!("C()"), T::A { state: p0, x: p1 } => format!("A({},{})", sv(p0), sv(p1)), T::B => format!("B()"), T::Zed => format!("Zed()") } }
pub fn o_eq(a: &T, b: &T) -> bool { match (a, b) { (T::C, T::C) => true, (T::A { state: a0, x: a1 }, T::A { state: b0, x: b1 }) => (a0 == b0) && m_eq(a1, b1), (T::B, T::B) => true, (T::Zed, T::Zed) => true, _ => false } }
pub fn run(out: &mut Out) { let vs = values(); for a in &vs { for b in &vs { let e = o_eq(a, b); out.check((a == b) == e, "eq_41", "eq", || format!("{} == {} expected {}", show(a), show(b), e)); out.check((a != b) == !e, "eq_41", "ne", || format!("{} != {} expected {}", show(a), show(b), !e)); } } }
