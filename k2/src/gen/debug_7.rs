// debug_7
#![allow(dead_code, unused_variables, unused_mut, unused_imports, non_shorthand_field_patterns, clippy::all)]
use crate::support::*;
use educe::Educe;
use core::cmp::Ordering;
#[derive(Educe)]
#[educe(Debug(rename = false))]
pub enum T { Zed(#[educe(Debug(ignore = true))] A<0>, #[educe(Debug(ignore(true)))] A<0>), #[educe(Debug(name = false))] C(A<0>, A<1>, A<2>, #[educe(Debug(method(m_fmt)))] A<3>), A(A<0>, A<0>) }
pub fn values() -> Vec<T> { vec![T::Zed(A(1), A(0)), T::Zed(A(1), A(1)), T::Zed(A(0), A(1)), T::Zed(A(7), A(7)), T::Zed(A(7), A(0)), T::Zed(A(0), A(7)), T::Zed(A(7), A(1)), T::Zed(A(1), A(7)), T::C(A(0), A(0), A(1), A(0)), T::C(A(0), A(0), A(1), A(1)), T::C(A(7), A(0), A(0), A(7)), T::C(A(7), A(1), A(7), A(1)), T::C(A(1), A(0), A(7), A(0)), T::C(A(0), A(7), A(1), A(0)), T::C(A(7), A(1), A(1), A(7)), T::C(A(0), A(7), A(7), A(7)), T::A(A(1), A(0)), T::A(A(0), A(0)), T::A(A(7), A(0)), T::A(A(1), A(1)), T::A(A(0), A(7)), T::A(A(1), A(7)), T::A(A(7), A(7)), T::A(A(7), A(1))] }
pub fn show(x: &T) -> String { #[allow(unused_variables)] match x { T::Zed(p0, p1) => format!("Zed({},{})", sv(p0), sv(p1)), T::C(p0, p1, p2, p3) => format!("C({},{},{},{})", sv(p0), sv(p1), sv(p2), sv(p3)), T::A(p0, p1) => format!("A({},{})", sv(p0), sv(p1)) } }
pub fn o_fmt(x: &T, f: &mut ::core::fmt::Formatter<'_>) -> ::core::fmt::Result { match x { T::Zed(p0, p1) => f.debug_tuple("Zed").finish(), T::C(p0, p1, p2, p3) => f.debug_tuple("").field(p0).field(p1).field(p2).field(&Wm(p3)).finish(), T::A(p0, p1) => f.debug_tuple("A").field(p0).field(p1).finish() } }

pub fn run(out: &mut Out) { let vs = values(); for a in &vs { let g = format!("{:?}", a); let e = format!("{:?}", Fm(|f: &mut ::core::fmt::Formatter<'_>| o_fmt(a, f))); out.check(g == e, "debug_7", "debug", || format!("{{:?}} of {} = {:?} expected {:?}", show(a), g, e)); let g = format!("{:#?}", a); let e = format!("{:#?}", Fm(|f: &mut ::core::fmt::Formatter<'_>| o_fmt(a, f))); out.check(g == e, "debug_7", "debug_alt", || format!("{{:#?}} of {} = {:?} expected {:?}", show(a), g, e)); let g = format!("{:8?}", a); let e = format!("{:8?}", Fm(|f: &mut ::core::fmt::Formatter<'_>| o_fmt(a, f))); out.check(g == e, "debug_7", "debug_width", || format!("{{:8?}} of {} = {:?} expected {:?}", show(a), g, e)); }  }
