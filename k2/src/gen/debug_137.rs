// debug_137
#![allow(dead_code, unused_variables, unused_mut, unused_imports, non_shorthand_field_patterns, clippy::all)]
use crate::support::*;
use educe::Educe;
use core::cmp::Ordering;
#[derive(Educe)]
#[educe(Debug(rename("Zz")))]
pub enum T { #[educe(Debug(name = false))] Some, #[educe(Debug(name = "Ren"))] Zed { #[educe(Debug(method = "m_fmt", name(k0)))] rr_type: A<0>, #[educe(Debug = false)] size: A<1>, data: A<2>, c: A<3> }, Unit }
pub fn values() -> Vec<T> { vec![T::Some, T::Zed { rr_type: A(0), size: A(1), data: A(7), c: A(1) }, T::Zed { rr_type: A(0), size: A(1), data: A(0), c: A(7) }, T::Zed { rr_type: A(1), size: A(0), data: A(1), c: A(7) }, T::Zed { rr_type: A(0), size: A(7), data: A(7), c: A(0) }, T::Zed { rr_type: A(7), size: A(1), data: A(1), c: A(1) }, T::Zed { rr_type: A(0), size: A(0), data: A(1), c: A(1) }, T::Zed { rr_type: A(7), size: A(7), data: A(7), c: A(0) }, T::Zed { rr_type: A(7), size: A(0), data: A(7), c: A(7) }, T::Unit] }
pub fn show(x: &T) -> String { #[allow(unused_variables)] match x { T::Some => format!("Some()"), T::Zed { rr_type: p0, size: p1, data: p2, c: p3 } => format!("Zed({},{},{},{})", sv(p0), sv(p1), sv(p2), sv(p3)), T::Unit => format!("Unit()") } }
pub fn o_fmt(x: &T, f: &mut ::core::fmt::Formatter<'_>) -> ::core::fmt::Result { match x { T::Some => f.write_str("Zz"), T::Zed { rr_type: p0, size: p1, data: p2, c: p3 } => f.debug_struct("Zz::Ren").field("k0", &Wm(p0)).field("data", p2).field("c", p3).finish(), T::Unit => f.write_str("Zz::Unit") } }

pub fn run(out: &mut Out) { let vs = values(); for a in &vs { let g = format!("{:?}", a); let e = format!("{:?}", Fm(|f: &mut ::core::fmt::Formatter<'_>| o_fmt(a, f))); out.check(g == e, "debug_137", "debug", || format!("{{:?}} of {} = {:?} expected {:?}", show(a), g, e)); let g = format!("{:#?}", a); let e = format!("{:#?}", Fm(|f: &mut ::core::fmt::Formatter<'_>| o_fmt(a, f))); out.check(g == e, "debug_137", "debug_alt", || format!("{{:#?}} of {} = {:?} expected {:?}", show(a), g, e)); let g = format!("{:8?}", a); let e = format!("{:8?}", Fm(|f: &mut ::core::fmt::Formatter<'_>| o_fmt(a, f))); out.check(g == e, "debug_137", "debug_width", || format!("{{:8?}} of {} = {:?} expected {:?}", show(a), g, e)); }  }
