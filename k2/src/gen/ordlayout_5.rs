// ordlayout_5
#![allow(dead_code, unused_variables, unused_mut, unused_imports, non_shorthand_field_patterns, clippy::all)]
use crate::support::*;
use educe::Educe;
use core::cmp::Ordering;
#[derive(Educe)]
#[repr(i32)]
#[educe(Ord, Eq, PartialOrd, PartialEq)]
pub enum T { None(bool, i64, #[educe(PartialOrd(rank = "8"))] ()) = 200, B { data: u8, f: i64 }, A() = -1, C { #[educe(PartialOrd(rank = 8i64))] r#type: Option<u8>, y: &'static u8 } = -5 }

pub fn values() -> Vec<T> { vec![T::None(false, -5, ()), T::None(false, 0, ()), T::None(false, 9, ()), T::None(true, -5, ()), T::None(true, 0, ()), T::None(true, 9, ()), T::B { data: 0, f: -5 }, T::B { data: 0, f: 0 }, T::B { data: 0, f: 9 }, T::B { data: 100, f: -5 }, T::B { data: 100, f: 0 }, T::B { data: 100, f: 9 }, T::B { data: 200, f: -5 }, T::B { data: 200, f: 0 }, T::B { data: 200, f: 9 }, T::A(), T::C { r#type: None, y: &3u8 }, T::C { r#type: None, y: &200u8 }, T::C { r#type: Some(0), y: &3u8 }, T::C { r#type: Some(0), y: &200u8 }, T::C { r#type: Some(255), y: &3u8 }, T::C { r#type: Some(255), y: &200u8 }] }
pub fn show(x: &T) -> String { #[allow(unused_variables)] match x { T::None(p0, p1, p2) => format!("None({},{},{})", sv(p0), sv(p1), sv(p2)), T::B { data: p0, f: p1 } => format!("B({},{})", sv(p0), sv(p1)), T::A() => format!("A()"), T::C { r#type: p0, y: p1 } => format!("C({},{})", sv(p0), sv(p1)) } }
pub fn o_disc(x: &T) -> i128 { match x { T::None(_, _, _) => 200, T::B { data: _, f: _ } => 201, T::A() => -1, T::C { r#type: _, y: _ } => -5 } }
pub fn o_cmp(a: &T, b: &T) -> Ordering { match (a, b) { (T::None(a0, a1, a2), T::None(b0, b1, b2)) => { let c = ::core::cmp::Ord::cmp(a0, b0); if c != Ordering::Equal { return c; } let c = ::core::cmp::Ord::cmp(a1, b1); if c != Ordering::Equal { return c; } let c = ::core::cmp::Ord::cmp(a2, b2); if c != Ordering::Equal { return c; } Ordering::Equal }, (T::B { data: a0, f: a1 }, T::B { data: b0, f: b1 }) => { let c = ::core::cmp::Ord::cmp(a0, b0); if c != Ordering::Equal { return c; } let c = ::core::cmp::Ord::cmp(a1, b1); if c != Ordering::Equal { return c; } Ordering::Equal }, (T::A(), T::A()) => {  Ordering::Equal }, (T::C { r#type: a0, y: a1 }, T::C { r#type: b0, y: b1 }) => { let c = ::core::cmp::Ord::cmp(a1, b1); if c != Ordering::Equal { return c; } let c = ::core::cmp::Ord::cmp(a0, b0); if c != Ordering::Equal { return c; } Ordering::Equal }, _ => o_disc(a).cmp(&o_disc(b)) } }
#[repr(C)] pub struct Wrap { pub pre: u8, pub x: T, pub post: [u8; 9] }
pub fn wrap(i: usize, n: u8) -> Wrap { Wrap { pre: n, x: values().swap_remove(i), post: [n; 9] } }
pub fn run(out: &mut Out) { let vs = values(); for (i, a) in vs.iter().enumerate() { for (j, b) in vs.iter().enumerate() { let e = o_cmp(a, b); let g = ::core::cmp::Ord::cmp(a, b); out.check(g == e, "ordlayout_5", "cmp", || format!("cmp({}, {}) = {:?} expected {:?}", show(a), show(b), g, e)); let g2 = ::core::cmp::PartialOrd::partial_cmp(a, b); out.check(g2 == Some(e), "ordlayout_5", "partial_is_some_cmp", || format!("partial_cmp({}, {}) = {:?} expected Some({:?})", show(a), show(b), g2, e)); for n in [0u8, 1, 0x7f, 0x80, 0xff] { let wa = wrap(i, n); let wb = wrap(j, !n); let g = ::core::cmp::Ord::cmp(&wa.x, &wb.x); let e = o_cmp(a, b); out.check(g == e, "ordlayout_5", "cmp_neighbours", || format!("cmp({}, {}) with neighbour bytes {} = {:?} expected {:?}", show(a), show(b), n, g, e)); } } } }
