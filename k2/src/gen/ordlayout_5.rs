// ordlayout_5
#![allow(dead_code, unused_variables, unused_mut, unused_imports, non_shorthand_field_patterns, clippy::all)]
use crate::support::*;
use educe::Educe;
use core::cmp::Ordering;
#[derive(Educe)]
#[educe(PartialEq, Eq, PartialOrd)]
pub enum T { A, None, V1 { #[educe(PartialOrd(rank = 1))] state: bool }, Zed }

pub fn values() -> Vec<T> { vec![T::A, T::None, T::V1 { state: false }, T::V1 { state: true }, T::Zed] }
pub fn show(x: &T) -> String { #[allow(unused_variables)] match x { T::A => format!("A()"), T::None => format!("None()"), T::V1 { state: p0 } => format!("V1({})", sv(p0)), T::Zed => format!("Zed()") } }
pub fn o_disc(x: &T) -> i128 { match x { T::A => 0, T::None => 1, T::V1 { state: _ } => 2, T::Zed => 3 } }
pub fn o_pcmp(a: &T, b: &T) -> Option<Ordering> { match (a, b) { (T::A, T::A) => {  Some(Ordering::Equal) }, (T::None, T::None) => {  Some(Ordering::Equal) }, (T::V1 { state: a0 }, T::V1 { state: b0 }) => { match ::core::cmp::PartialOrd::partial_cmp(a0, b0) { Some(Ordering::Equal) => (), x => return x } Some(Ordering::Equal) }, (T::Zed, T::Zed) => {  Some(Ordering::Equal) }, _ => Some(o_disc(a).cmp(&o_disc(b))) } }
#[repr(C)] pub struct Wrap { pub pre: u8, pub x: T, pub post: [u8; 9] }
pub fn wrap(i: usize, n: u8) -> Wrap { Wrap { pre: n, x: values().swap_remove(i), post: [n; 9] } }
pub fn run(out: &mut Out) { let vs = values(); for (i, a) in vs.iter().enumerate() { for (j, b) in vs.iter().enumerate() { let e = o_pcmp(a, b); let g = ::core::cmp::PartialOrd::partial_cmp(a, b); out.check(g == e, "ordlayout_5", "partial_cmp", || format!("partial_cmp({}, {}) = {:?} expected {:?}", show(a), show(b), g, e)); for n in [0u8, 1, 0x7f, 0x80, 0xff] { let wa = wrap(i, n); let wb = wrap(j, !n); let g = ::core::cmp::PartialOrd::partial_cmp(&wa.x, &wb.x); let e = o_pcmp(a, b); out.check(g == e, "ordlayout_5", "cmp_neighbours", || format!("cmp({}, {}) with neighbour bytes {} = {:?} expected {:?}", show(a), show(b), n, g, e)); } } } }
