// debug_141
#![allow(dead_code, unused_variables, unused_mut, unused_imports, non_shorthand_field_patterns, clippy::all)]
use crate::support::*;
use educe::Educe;
use core::cmp::Ordering;
#[derive(Educe)]
#[educe(Debug(name = "Zz", named_field(false)))]
pub struct T { builder: A<0>, #[educe(Debug(method = m_fmt))] f: A<0> }
pub fn values() -> Vec<T> { vec![T { builder: A(0), f: A(0) }, T { builder: A(0), f: A(1) }, T { builder: A(0), f: A(7) }, T { builder: A(1), f: A(0) }, T { builder: A(1), f: A(1) }, T { builder: A(1), f: A(7) }, T { builder: A(7), f: A(0) }, T { builder: A(7), f: A(1) }, T { builder: A(7), f: A(7) }] }
pub fn show(x: &T) -> String { #[allow(unused_variables)] match x { T { builder: p0, f: p1 } => format!("T({},{})", sv(p0), sv(p1)) } }
pub fn o_fmt(x: &T, f: &mut ::core::fmt::Formatter<'_>) -> ::core::fmt::Result { match x { T { builder: p0, f: p1 } => f.debug_tuple("Zz").field(p0).field(&Wm(p1)).finish() } }

pub fn run(out: &mut Out) { let vs = values(); for a in &vs { let g = format!("{:?}", a); let e = format!("{:?}", Fm(|f: &mut ::core::fmt::Formatter<'_>| o_fmt(a, f))); out.check(g == e, "debug_141", "debug", || format!("{{:?}} of {} = {:?} expected {:?}", show(a), g, e)); let g = format!("{:#?}", a); let e = format!("{:#?}", Fm(|f: &mut ::core::fmt::Formatter<'_>| o_fmt(a, f))); out.check(g == e, "debug_141", "debug_alt", || format!("{{:#?}} of {} = {:?} expected {:?}", show(a), g, e)); let g = format!("{:8?}", a); let e = format!("{:8?}", Fm(|f: &mut ::core::fmt::Formatter<'_>| o_fmt(a, f))); out.check(g == e, "debug_141", "debug_width", || format!("{{:8?}} of {} = {:?} expected {:?}", show(a), g, e)); }  }
