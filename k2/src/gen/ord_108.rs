// ord_108
#![allow(dead_code, unused_variables, unused_mut, unused_imports, non_shorthand_field_patterns, clippy::all)]
use crate::support::*;
use educe::Educe;
use core::cmp::Ordering;
#[derive(Educe)]
#[educe(PartialOrd, Eq, PartialEq)]
pub enum T { Some, C(#[educe(PartialOrd(method = "m_pcmp"))] A<0>, #[educe(PartialOrd(rank("-1"), method = "m_pcmp"))] A<1>), None(A<0>, #[educe(PartialOrd(rank("-3")))] A<1>), A() }

pub fn values() -> Vec<T> { vec![T::Some, T::C(A(0), A(0)), T::C(A(0), A(1)), T::C(A(0), A(7)), T::C(A(1), A(0)), T::C(A(1), A(1)), T::C(A(1), A(7)), T::C(A(7), A(0)), T::C(A(7), A(1)), T::C(A(7), A(7)), T::None(A(0), A(0)), T::None(A(0), A(1)), T::None(A(0), A(7)), T::None(A(1), A(0)), T::None(A(1), A(1)), T::None(A(1), A(7)), T::None(A(7), A(0)), T::None(A(7), A(1)), T::None(A(7), A(7)), T::A()] }
pub fn show(x: &T) -> String { #[allow(unused_variables)] match x { T::Some => format!("Some()"), T::C(p0, p1) => format!("C({},{})", sv(p0), sv(p1)), T::None(p0, p1) => format!("None({},{})", sv(p0), sv(p1)), T::A() => format!("A()") } }
pub fn o_disc(x: &T) -> i128 { match x { T::Some => 0, T::C(_, _) => 1, T::None(_, _) => 2, T::A() => 3 } }
pub fn o_pcmp(a: &T, b: &T) -> Option<Ordering> { match (a, b) { (T::Some, T::Some) => {  Some(Ordering::Equal) }, (T::C(a0, a1), T::C(b0, b1)) => { match m_pcmp(a0, b0) { Some(Ordering::Equal) => (), x => return x } match m_pcmp(a1, b1) { Some(Ordering::Equal) => (), x => return x } Some(Ordering::Equal) }, (T::None(a0, a1), T::None(b0, b1)) => { match ::core::cmp::PartialOrd::partial_cmp(a0, b0) { Some(Ordering::Equal) => (), x => return x } match ::core::cmp::PartialOrd::partial_cmp(a1, b1) { Some(Ordering::Equal) => (), x => return x } Some(Ordering::Equal) }, (T::A(), T::A()) => {  Some(Ordering::Equal) }, _ => Some(o_disc(a).cmp(&o_disc(b))) } }
pub fn run(out: &mut Out) { let vs = values(); for (i, a) in vs.iter().enumerate() { for (j, b) in vs.iter().enumerate() { let e = o_pcmp(a, b); let g = ::core::cmp::PartialOrd::partial_cmp(a, b); out.check(g == e, "ord_108", "partial_cmp", || format!("partial_cmp({}, {}) = {:?} expected {:?}", show(a), show(b), g, e)); } } }
