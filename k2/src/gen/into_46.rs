// into_46
#![allow(dead_code, unused_variables, unused_mut, unused_imports, non_shorthand_field_patterns, clippy::all)]
use crate::support::*;
use educe::Educe;
use core::cmp::Ordering;
#[derive(Educe)]
#[educe(Into(A<0>), Into(B<1>), Into(B<0>))]
pub enum T { A { #[educe(Into(B<0>, method = "m_into"))] r#type: A<3>, #[educe(Into(A<0>))] arg: A<0>, #[educe(Into(B<1>))] source: A<0> }, Some { #[educe(Into(B<0>))] b: A<0>, #[educe(Into(B<1>))] a: A<3> }, None(#[educe(Into(B<0>))] A<0>, #[educe(Into(B<1>))] A<2>) }
pub fn values() -> Vec<T> { vec![T::A { r#type: A(7), arg: A(0), source: A(7) }, T::A { r#type: A(1), arg: A(0), source: A(1) }, T::A { r#type: A(7), arg: A(7), source: A(1) }, T::A { r#type: A(7), arg: A(1), source: A(7) }, T::Some { b: A(7), a: A(0) }, T::Some { b: A(1), a: A(7) }, T::Some { b: A(7), a: A(7) }, T::Some { b: A(7), a: A(1) }, T::None(A(0), A(1)), T::None(A(1), A(1)), T::None(A(7), A(0)), T::None(A(1), A(7))] }
pub fn show(x: &T) -> String { #[allow(unused_variables)] match x { T::A { r#type: p0, arg: p1, source: p2 } => format!("A({},{},{})", sv(p0), sv(p1), sv(p2)), T::Some { b: p0, a: p1 } => format!("Some({},{})", sv(p0), sv(p1)), T::None(p0, p1) => format!("None({},{})", sv(p0), sv(p1)) } }
pub fn o_into_0(x: T) -> A<0> { match x { T::A { r#type: _, arg: p1, source: _ } => p1, T::Some { b: p0, a: _ } => p0, T::None(p0, _) => p0 } }
pub fn o_into_1(x: T) -> B<1> { match x { T::A { r#type: _, arg: _, source: p2 } => ::core::convert::Into::into(p2), T::Some { b: _, a: p1 } => ::core::convert::Into::into(p1), T::None(_, p1) => ::core::convert::Into::into(p1) } }
pub fn o_into_2(x: T) -> B<0> { match x { T::A { r#type: p0, arg: _, source: _ } => m_into(p0), T::Some { b: p0, a: _ } => ::core::convert::Into::into(p0), T::None(p0, _) => ::core::convert::Into::into(p0) } }
pub fn run(out: &mut Out) { let n = values().len(); for i in 0..n { let a = values().swap_remove(i); let shown = show(&a); let g: A<0> = ::core::convert::Into::into(a); let e = o_into_0(values().swap_remove(i)); out.check(sv(&g) == sv(&e), "into_46", "into", || format!("Into::<A<0>>::into({}) = {} expected {}", shown, sv(&g), sv(&e))); } for i in 0..n { let a = values().swap_remove(i); let shown = show(&a); let g: B<1> = ::core::convert::Into::into(a); let e = o_into_1(values().swap_remove(i)); out.check(sv(&g) == sv(&e), "into_46", "into", || format!("Into::<B<1>>::into({}) = {} expected {}", shown, sv(&g), sv(&e))); } for i in 0..n { let a = values().swap_remove(i); let shown = show(&a); let g: B<0> = ::core::convert::Into::into(a); let e = o_into_2(values().swap_remove(i)); out.check(sv(&g) == sv(&e), "into_46", "into", || format!("Into::<B<0>>::into({}) = {} expected {}", shown, sv(&g), sv(&e))); } }
