// ordlayout_78
#![allow(dead_code, unused_variables, unused_mut, unused_imports, non_shorthand_field_patterns, clippy::all)]
use crate::support::*;
use educe::Educe;
use core::cmp::Ordering;
#[derive(Educe)]
#[educe(PartialOrd, Eq, PartialEq)]
pub enum T { Zed { _0: u8, c: &'static u8 }, V1 { #[educe(PartialOrd(rank(3)))] source: Option<u8>, b: i64 } }

pub fn values() -> Vec<T> { vec![T::Zed { _0: 0, c: &3u8 }, T::Zed { _0: 0, c: &200u8 }, T::Zed { _0: 100, c: &3u8 }, T::Zed { _0: 100, c: &200u8 }, T::Zed { _0: 200, c: &3u8 }, T::Zed { _0: 200, c: &200u8 }, T::V1 { source: None, b: -5 }, T::V1 { source: None, b: 0 }, T::V1 { source: None, b: 9 }, T::V1 { source: Some(0), b: -5 }, T::V1 { source: Some(0), b: 0 }, T::V1 { source: Some(0), b: 9 }, T::V1 { source: Some(255), b: -5 }, T::V1 { source: Some(255), b: 0 }, T::V1 { source: Some(255), b: 9 }] }
pub fn show(x: &T) -> String { #[allow(unused_variables)] match x { T::Zed { _0: p0, c: p1 } => format!("Zed({},{})", sv(p0), sv(p1)), T::V1 { source: p0, b: p1 } => format!("V1({},{})", sv(p0), sv(p1)) } }
pub fn o_disc(x: &T) -> i128 { match x { T::Zed { _0: _, c: _ } => 0, T::V1 { source: _, b: _ } => 1 } }
pub fn o_pcmp(a: &T, b: &T) -> Option<Ordering> { match (a, b) { (T::Zed { _0: a0, c: a1 }, T::Zed { _0: b0, c: b1 }) => { match ::core::cmp::PartialOrd::partial_cmp(a0, b0) { Some(Ordering::Equal) => (), x => return x } match ::core::cmp::PartialOrd::partial_cmp(a1, b1) { Some(Ordering::Equal) => (), x => return x } Some(Ordering::Equal) }, (T::V1 { source: a0, b: a1 }, T::V1 { source: b0, b: b1 }) => { match ::core::cmp::PartialOrd::partial_cmp(a1, b1) { Some(Ordering::Equal) => (), x => return x } match ::core::cmp::PartialOrd::partial_cmp(a0, b0) { Some(Ordering::Equal) => (), x => return x } Some(Ordering::Equal) }, _ => Some(o_disc(a).cmp(&o_disc(b))) } }
#[repr(C)] pub struct Wrap { pub pre: u8, pub x: T, pub post: [u8; 9] }
pub fn wrap(i: usize, n: u8) -> Wrap { Wrap { pre: n, x: values().swap_remove(i), post: [n; 9] } }
pub fn run(out: &mut Out) { let vs = values(); for (i, a) in vs.iter().enumerate() { for (j, b) in vs.iter().enumerate() { let e = o_pcmp(a, b); let g = ::core::cmp::PartialOrd::partial_cmp(a, b); out.check(g == e, "ordlayout_78", "partial_cmp", || format!("partial_cmp({}, {}) = {:?} expected {:?}", show(a), show(b), g, e)); for n in [0u8, 1, 0x7f, 0x80, 0xff] { let wa = wrap(i, n); let wb = wrap(j, !n); let g = ::core::cmp::PartialOrd::partial_cmp(&wa.x, &wb.x); let e = o_pcmp(a, b); out.check(g == e, "ordlayout_78", "cmp_neighbours", || format!("cmp({}, {}) with neighbour bytes {} = {:?} expected {:?}", show(a), show(b), n, g, e)); } } } }
