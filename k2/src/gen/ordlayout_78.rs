// ordlayout_78
#![allow(dead_code, unused_variables, unused_mut, unused_imports, non_shorthand_field_patterns, clippy::all)]
use crate::support::*;
use core::cmp::Ordering;
pub mod ty {
    #![deny(warnings)]
    #![allow(dead_code, unused_imports, non_snake_case)]
    use crate::support::{A, B, C, Good, Bad, m_eq, m_cmp, m_pcmp, m_hash, m_fmt, m_clone, m_clone_c, m_into, g_eq, g_cmp, g_pcmp, g_hash, g_fmt};
    use educe::Educe;
#[derive(Educe)]
#[repr(C, u8)]
#[educe(Debug)]
#[educe(PartialOrd, Eq, PartialEq)]
pub enum T { None { #[educe(Debug(ignore = false))] x: (), #[educe(PartialOrd(rank = 0x5))] size: bool }, Some(#[educe(PartialOrd(rank(-3)))] char, #[educe(PartialOrd(ignore(false), rank("-6")))] (), i64) }
}
pub use ty::T;

pub fn values() -> Vec<T> { vec![T::None { x: (), size: false }, T::None { x: (), size: true }, T::Some('a', (), -5), T::Some('a', (), 0), T::Some('a', (), 9), T::Some('z', (), -5), T::Some('z', (), 0), T::Some('z', (), 9)] }
pub fn show(x: &T) -> String { #[allow(unused_variables)] match x { T::None { x: p0, size: p1 } => format!("None({},{})", sv(p0), sv(p1)), T::Some(p0, p1, p2) => format!("Some({},{},{})", sv(p0), sv(p1), sv(p2)) } }
pub fn o_disc(x: &T) -> i128 { match x { T::None { x: _, size: _ } => 0, T::Some(_, _, _) => 1 } }
pub fn o_pcmp(a: &T, b: &T) -> Option<Ordering> { match (a, b) { (T::None { x: a0, size: a1 }, T::None { x: b0, size: b1 }) => { match ::core::cmp::PartialOrd::partial_cmp(a0, b0) { Some(Ordering::Equal) => (), x => return x } match ::core::cmp::PartialOrd::partial_cmp(a1, b1) { Some(Ordering::Equal) => (), x => return x } Some(Ordering::Equal) }, (T::Some(a0, a1, a2), T::Some(b0, b1, b2)) => { match ::core::cmp::PartialOrd::partial_cmp(a2, b2) { Some(Ordering::Equal) => (), x => return x } match ::core::cmp::PartialOrd::partial_cmp(a1, b1) { Some(Ordering::Equal) => (), x => return x } match ::core::cmp::PartialOrd::partial_cmp(a0, b0) { Some(Ordering::Equal) => (), x => return x } Some(Ordering::Equal) }, _ => Some(o_disc(a).cmp(&o_disc(b))) } }
#[repr(C)] pub struct Wrap { pub pre: u8, pub x: T, pub post: [u8; 9] }
pub fn wrap(i: usize, n: u8) -> Wrap { Wrap { pre: n, x: values().swap_remove(i), post: [n; 9] } }
pub fn run(out: &mut Out) { let vs = values(); for (i, a) in vs.iter().enumerate() { for (j, b) in vs.iter().enumerate() { let e = o_pcmp(a, b); let g = ::core::cmp::PartialOrd::partial_cmp(a, b); out.check(g == e, "ordlayout_78", "partial_cmp", || format!("partial_cmp({}, {}) = {:?} expected {:?}", show(a), show(b), g, e)); for n in [0u8, 1, 0x7f, 0x80, 0xff] { let wa = wrap(i, n); let wb = wrap(j, !n); let g = ::core::cmp::PartialOrd::partial_cmp(&wa.x, &wb.x); let e = o_pcmp(a, b); out.check(g == e, "ordlayout_78", "cmp_neighbours", || format!("cmp({}, {}) with neighbour bytes {} = {:?} expected {:?}", show(a), show(b), n, g, e)); } } } }
