// hash_0
#![allow(dead_code, unused_variables, unused_mut, unused_imports, non_shorthand_field_patterns, clippy::all)]
use crate::support::*;
use educe::Educe;
use core::cmp::Ordering;
#[derive(Educe)]
#[educe(Hash)]
pub enum T { V1, Unit { builder: A<0> }, C, A }
pub fn values() -> Vec<T> { vec![T::V1, T::Unit { builder: A(0) }, T::Unit { builder: A(1) }, T::Unit { builder: A(7) }, T::C, T::A] }
pub fn show(x: &T) -> String { #[allow(unused_variables)] match x { T::V1 => format!("V1()"), T::Unit { builder: p0 } => format!("Unit({})", sv(p0)), T::C => format!("C()"), T::A => format!("A()") } }
pub fn o_hash(x: &T) -> Vec<String> { let mut e = Rec::default(); match x { T::V1 => { ::core::hash::Hash::hash(&0usize, &mut e); }, T::Unit { builder: p0 } => { ::core::hash::Hash::hash(&1usize, &mut e); ::core::hash::Hash::hash(p0, &mut e); }, T::C => { ::core::hash::Hash::hash(&2usize, &mut e); }, T::A => { ::core::hash::Hash::hash(&3usize, &mut e); } } e.0 }
pub fn run(out: &mut Out) { let vs = values(); for a in &vs { let mut g = Rec::default(); ::core::hash::Hash::hash(a, &mut g); let e = o_hash(a); out.check(g.0 == e, "hash_0", "hash", || format!("hash({}) fed {:?} expected {:?}", show(a), g.0, e)); } }
