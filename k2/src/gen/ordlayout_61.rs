// ordlayout_61
#![allow(dead_code, unused_variables, unused_mut, unused_imports, non_shorthand_field_patterns, clippy::all)]
use crate::support::*;
use educe::Educe;
use core::cmp::Ordering;
#[derive(Educe)]
#[repr(isize)]
#[educe(Eq, Ord, PartialEq)]
pub enum T { V1 { c: char, other: bool, x: u8 } = 1, B(#[educe(Ord(rank = "5"))] u8, &'static u8, Option<u8>) = 1000, C = 255, None = 2 }
impl PartialOrd for T { fn partial_cmp(&self, o: &Self) -> Option<Ordering> { Some(::core::cmp::Ord::cmp(self, o)) } }
pub fn values() -> Vec<T> { vec![T::V1 { c: 'z', other: false, x: 0 }, T::V1 { c: 'a', other: false, x: 0 }, T::V1 { c: 'a', other: true, x: 0 }, T::V1 { c: 'a', other: false, x: 100 }, T::V1 { c: 'a', other: true, x: 200 }, T::V1 { c: 'a', other: false, x: 200 }, T::V1 { c: 'z', other: true, x: 0 }, T::V1 { c: 'z', other: false, x: 200 }, T::V1 { c: 'z', other: false, x: 100 }, T::B(100, &3u8, None), T::B(0, &200u8, None), T::B(200, &3u8, Some(0)), T::B(0, &3u8, None), T::B(100, &200u8, Some(255)), T::B(200, &3u8, None), T::B(200, &200u8, Some(255)), T::B(200, &3u8, Some(255)), T::B(100, &3u8, Some(255)), T::C, T::None] }
pub fn show(x: &T) -> String { #[allow(unused_variables)] match x { T::V1 { c: p0, other: p1, x: p2 } => format!("V1({},{},{})", sv(p0), sv(p1), sv(p2)), T::B(p0, p1, p2) => format!("B({},{},{})", sv(p0), sv(p1), sv(p2)), T::C => format!("C()"), T::None => format!("None()") } }
pub fn o_disc(x: &T) -> i128 { match x { T::V1 { c: _, other: _, x: _ } => 1, T::B(_, _, _) => 1000, T::C => 255, T::None => 2 } }
pub fn o_cmp(a: &T, b: &T) -> Ordering { match (a, b) { (T::V1 { c: a0, other: a1, x: a2 }, T::V1 { c: b0, other: b1, x: b2 }) => { let c = ::core::cmp::Ord::cmp(a0, b0); if c != Ordering::Equal { return c; } let c = ::core::cmp::Ord::cmp(a1, b1); if c != Ordering::Equal { return c; } let c = ::core::cmp::Ord::cmp(a2, b2); if c != Ordering::Equal { return c; } Ordering::Equal }, (T::B(a0, a1, a2), T::B(b0, b1, b2)) => { let c = ::core::cmp::Ord::cmp(a1, b1); if c != Ordering::Equal { return c; } let c = ::core::cmp::Ord::cmp(a2, b2); if c != Ordering::Equal { return c; } let c = ::core::cmp::Ord::cmp(a0, b0); if c != Ordering::Equal { return c; } Ordering::Equal }, (T::C, T::C) => {  Ordering::Equal }, (T::None, T::None) => {  Ordering::Equal }, _ => o_disc(a).cmp(&o_disc(b)) } }
#[repr(C)] pub struct Wrap { pub pre: u8, pub x: T, pub post: [u8; 9] }
pub fn wrap(i: usize, n: u8) -> Wrap { Wrap { pre: n, x: values().swap_remove(i), post: [n; 9] } }
pub fn run(out: &mut Out) { let vs = values(); for (i, a) in vs.iter().enumerate() { for (j, b) in vs.iter().enumerate() { let e = o_cmp(a, b); let g = ::core::cmp::Ord::cmp(a, b); out.check(g == e, "ordlayout_61", "cmp", || format!("cmp({}, {}) = {:?} expected {:?}", show(a), show(b), g, e)); for n in [0u8, 1, 0x7f, 0x80, 0xff] { let wa = wrap(i, n); let wb = wrap(j, !n); let g = ::core::cmp::Ord::cmp(&wa.x, &wb.x); let e = o_cmp(a, b); out.check(g == e, "ordlayout_61", "cmp_neighbours", || format!("cmp({}, {}) with neighbour bytes {} = {:?} expected {:?}", show(a), show(b), n, g, e)); } } } }
