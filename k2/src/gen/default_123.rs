// default_123
#![allow(dead_code, unused_variables, unused_mut, unused_imports, non_shorthand_field_patterns, clippy::all)]
use crate::support::*;
use educe::Educe;
use core::cmp::Ordering;
#[derive(Educe)]
#[educe(Default)]
pub enum T { #[educe(Default)] Zed {  } }
pub fn show(x: &T) -> String { #[allow(unused_variables)] match x { T::Zed {  } => format!("Zed()") } }
pub fn o_default() -> T { T::Zed {  } }
pub fn run(out: &mut Out) { let g = <T as ::core::default::Default>::default(); let e = o_default(); out.check(show(&g) == show(&e), "default_123", "default", || format!("default() = {} expected {}", show(&g), show(&e))); }
