// hash_85
#![allow(dead_code, unused_variables, unused_mut, unused_imports, non_shorthand_field_patterns, clippy::all)]
use crate::support::*;
use educe::Educe;
use core::cmp::Ordering;
#[derive(Educe)]
#[educe(Hash)]
pub enum T { Some { c: A<0>, b: A<1> }, A { #[educe(Hash(method("m_hash")))] builder: A<0> } }
pub fn values() -> Vec<T> { vec![T::Some { c: A(0), b: A(0) }, T::Some { c: A(0), b: A(1) }, T::Some { c: A(0), b: A(7) }, T::Some { c: A(1), b: A(0) }, T::Some { c: A(1), b: A(1) }, T::Some { c: A(1), b: A(7) }, T::Some { c: A(7), b: A(0) }, T::Some { c: A(7), b: A(1) }, T::Some { c: A(7), b: A(7) }, T::A { builder: A(0) }, T::A { builder: A(1) }, T::A { builder: A(7) }] }
pub fn show(x: &T) -> String { #[allow(unused_variables)] match x { T::Some { c: p0, b: p1 } => format!("Some({},{})", sv(p0), sv(p1)), T::A { builder: p0 } => format!("A({})", sv(p0)) } }
pub fn o_hash(x: &T) -> Vec<String> { let mut e = Rec::default(); match x { T::Some { c: p0, b: p1 } => { ::core::hash::Hash::hash(&0usize, &mut e); ::core::hash::Hash::hash(p0, &mut e); ::core::hash::Hash::hash(p1, &mut e); }, T::A { builder: p0 } => { ::core::hash::Hash::hash(&1usize, &mut e); m_hash(p0, &mut e); } } e.0 }
pub fn run(out: &mut Out) { let vs = values(); for a in &vs { let mut g = Rec::default(); ::core::hash::Hash::hash(a, &mut g); let e = o_hash(a); out.check(g.0 == e, "hash_85", "hash", || format!("hash({}) fed {:?} expected {:?}", show(a), g.0, e)); } }
