// ordlayout_134
#![allow(dead_code, unused_variables, unused_mut, unused_imports, non_shorthand_field_patterns, clippy::all)]
use crate::support::*;
use core::cmp::Ordering;
pub mod ty {
    #![deny(warnings)]
    #![allow(dead_code, unused_imports, non_snake_case)]
    use crate::support::{A, B, C, Good, Bad, m_eq, m_cmp, m_pcmp, m_hash, m_fmt, m_clone, m_clone_c, m_into, g_eq, g_cmp, g_pcmp, g_hash, g_fmt};
    use educe::Educe;
#[derive(Educe)]
#[repr(C, u8)]
#[educe(Eq, PartialEq, PartialOrd)]
#[educe(Debug)]
pub enum T { C((), #[educe(PartialOrd(ignore(false)))] char, #[educe(Debug(ignore = true))] #[educe(PartialOrd(rank = -1))] Option<u8>), Zed { #[educe(PartialOrd(rank(1)), Debug = false)] builder: u8, #[educe(PartialOrd(rank = 0x3), Debug(ignore))] arg: i64 }, None, Some() }
}
pub use ty::T;

pub fn values() -> Vec<T> { vec![T::C((), 'a', None), T::C((), 'a', Some(0)), T::C((), 'a', Some(255)), T::C((), 'z', None), T::C((), 'z', Some(0)), T::C((), 'z', Some(255)), T::Zed { builder: 0, arg: -5 }, T::Zed { builder: 0, arg: 0 }, T::Zed { builder: 0, arg: 9 }, T::Zed { builder: 100, arg: -5 }, T::Zed { builder: 100, arg: 0 }, T::Zed { builder: 100, arg: 9 }, T::Zed { builder: 200, arg: -5 }, T::Zed { builder: 200, arg: 0 }, T::Zed { builder: 200, arg: 9 }, T::None, T::Some()] }
pub fn show(x: &T) -> String { #[allow(unused_variables)] match x { T::C(p0, p1, p2) => format!("C({},{},{})", sv(p0), sv(p1), sv(p2)), T::Zed { builder: p0, arg: p1 } => format!("Zed({},{})", sv(p0), sv(p1)), T::None => format!("None()"), T::Some() => format!("Some()") } }
pub fn o_disc(x: &T) -> i128 { match x { T::C(_, _, _) => 0, T::Zed { builder: _, arg: _ } => 1, T::None => 2, T::Some() => 3 } }
pub fn o_pcmp(a: &T, b: &T) -> Option<Ordering> { match (a, b) { (T::C(a0, a1, a2), T::C(b0, b1, b2)) => { match ::core::cmp::PartialOrd::partial_cmp(a0, b0) { Some(Ordering::Equal) => (), x => return x } match ::core::cmp::PartialOrd::partial_cmp(a1, b1) { Some(Ordering::Equal) => (), x => return x } match ::core::cmp::PartialOrd::partial_cmp(a2, b2) { Some(Ordering::Equal) => (), x => return x } Some(Ordering::Equal) }, (T::Zed { builder: a0, arg: a1 }, T::Zed { builder: b0, arg: b1 }) => { match ::core::cmp::PartialOrd::partial_cmp(a0, b0) { Some(Ordering::Equal) => (), x => return x } match ::core::cmp::PartialOrd::partial_cmp(a1, b1) { Some(Ordering::Equal) => (), x => return x } Some(Ordering::Equal) }, (T::None, T::None) => {  Some(Ordering::Equal) }, (T::Some(), T::Some()) => {  Some(Ordering::Equal) }, _ => Some(o_disc(a).cmp(&o_disc(b))) } }
#[repr(C)] pub struct Wrap { pub pre: u8, pub x: T, pub post: [u8; 9] }
pub fn wrap(i: usize, n: u8) -> Wrap { Wrap { pre: n, x: values().swap_remove(i), post: [n; 9] } }
pub fn run(out: &mut Out) { let vs = values(); for (i, a) in vs.iter().enumerate() { for (j, b) in vs.iter().enumerate() { let e = o_pcmp(a, b); let g = ::core::cmp::PartialOrd::partial_cmp(a, b); out.check(g == e, "ordlayout_134", "partial_cmp", || format!("partial_cmp({}, {}) = {:?} expected {:?}", show(a), show(b), g, e)); for n in [0u8, 1, 0x7f, 0x80, 0xff] { let wa = wrap(i, n); let wb = wrap(j, !n); let g = ::core::cmp::PartialOrd::partial_cmp(&wa.x, &wb.x); let e = o_pcmp(a, b); out.check(g == e, "ordlayout_134", "cmp_neighbours", || format!("cmp({}, {}) with neighbour bytes {} = {:?} expected {:?}", show(a), show(b), n, g, e)); } } } }
