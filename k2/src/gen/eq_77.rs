// eq_77
#![allow(dead_code, unused_variables, unused_mut, unused_imports, non_shorthand_field_patterns, clippy::all)]
use crate::support::*;
use educe::Educe;
use core::cmp::Ordering;
#[derive(Educe)]
#[educe(PartialEq, Eq)]
pub enum T { Unit(A<0>, #[educe(PartialEq(method = "m_eq"))] A<1>), Some { source: A<0>, builder: A<1>, f: A<0>, #[educe(Eq(ignore(true)))] y: A<3> }, V1, None }
pub fn values() -> Vec<T> { vec![T::Unit(A(0), A(0)), T::Unit(A(0), A(1)), T::Unit(A(0), A(7)), T::Unit(A(1), A(0)), T::Unit(A(1), A(1)), T::Unit(A(1), A(7)), T::Unit(A(7), A(0)), T::Unit(A(7), A(1)), T::Unit(A(7), A(7)), T::Some { source: A(0), builder: A(7), f: A(0), y: A(0) }, T::Some { source: A(0), builder: A(7), f: A(1), y: A(7) }, T::Some { source: A(7), builder: A(1), f: A(0), y: A(0) }, T::Some { source: A(7), builder: A(7), f: A(1), y: A(1) }, T::Some { source: A(7), builder: A(7), f: A(0), y: A(1) }, T::Some { source: A(0), builder: A(7), f: A(1), y: A(1) }, T::Some { source: A(0), builder: A(7), f: A(0), y: A(7) }, T::Some { source: A(1), builder: A(1), f: A(1), y: A(7) }, T::Some { source: A(7), builder: A(0), f: A(1), y: A(1) }, T::Some { source: A(0), builder: A(7), f: A(1), y: A(0) }, T::Some { source: A(0), builder: A(0), f: A(0), y: A(0) }, T::Some { source: A(1), builder: A(0), f: A(7), y: A(0) }, T::V1, T::None] }
pub fn show(x: &T) -> String { #[allow(unused_variables)] match x { T::Unit(p0, p1) => format!("Unit({},{})", sv(p0), sv(p1)), T::Some { source: p0, builder: p1, f: p2, y: p3 } => format!("Some({},{},{},{})", sv(p0), sv(p1), sv(p2), sv(p3)), T::V1 => format!("V1()"), T::None => format!("None()") } }
pub fn o_eq(a: &T, b: &T) -> bool { match (a, b) { (T::Unit(a0, a1), T::Unit(b0, b1)) => (a0 == b0) && m_eq(a1, b1), (T::Some { source: a0, builder: a1, f: a2, y: a3 }, T::Some { source: b0, builder: b1, f: b2, y: b3 }) => (a0 == b0) && (a1 == b1) && (a2 == b2), (T::V1, T::V1) => true, (T::None, T::None) => true, _ => false } }
pub fn run(out: &mut Out) { let vs = values(); for a in &vs { for b in &vs { let e = o_eq(a, b); out.check((a == b) == e, "eq_77", "eq", || format!("{} == {} expected {}", show(a), show(b), e)); out.check((a != b) == !e, "eq_77", "ne", || format!("{} != {} expected {}", show(a), show(b), !e)); } } }
