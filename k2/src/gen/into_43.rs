// into_43
#![allow(dead_code, unused_variables, unused_mut, unused_imports, non_shorthand_field_patterns, clippy::all)]
use crate::support::*;
use educe::Educe;
use core::cmp::Ordering;
#[derive(Educe)]
#[educe(Into(B<0>), Into(B<1>), Into(B<2>))]
pub enum T { C(A<1>, #[educe(Into(B<1>))] A<1>, #[educe(Into(B<0>))] #[educe(Into(B<2>))] A<0>), None(#[educe(Into(B<0>))] A<0>, #[educe(Into(B<1>, method = "m_into"))] A<0>, #[educe(Into(B<2>, method = "m_into"))] A<1>) }
pub fn values() -> Vec<T> { vec![T::C(A(1), A(0), A(7)), T::C(A(1), A(7), A(0)), T::C(A(1), A(1), A(7)), T::C(A(0), A(0), A(1)), T::C(A(1), A(7), A(1)), T::C(A(7), A(1), A(0)), T::None(A(7), A(0), A(1)), T::None(A(0), A(0), A(1)), T::None(A(1), A(7), A(1)), T::None(A(0), A(7), A(1)), T::None(A(7), A(0), A(7)), T::None(A(0), A(1), A(1))] }
pub fn show(x: &T) -> String { #[allow(unused_variables)] match x { T::C(p0, p1, p2) => format!("C({},{},{})", sv(p0), sv(p1), sv(p2)), T::None(p0, p1, p2) => format!("None({},{},{})", sv(p0), sv(p1), sv(p2)) } }
pub fn o_into_0(x: T) -> B<0> { match x { T::C(_, _, p2) => ::core::convert::Into::into(p2), T::None(p0, _, _) => ::core::convert::Into::into(p0) } }
pub fn o_into_1(x: T) -> B<1> { match x { T::C(_, p1, _) => ::core::convert::Into::into(p1), T::None(_, p1, _) => m_into(p1) } }
pub fn o_into_2(x: T) -> B<2> { match x { T::C(_, _, p2) => ::core::convert::Into::into(p2), T::None(_, _, p2) => m_into(p2) } }
pub fn run(out: &mut Out) { let n = values().len(); for i in 0..n { let a = values().swap_remove(i); let shown = show(&a); let g: B<0> = ::core::convert::Into::into(a); let e = o_into_0(values().swap_remove(i)); out.check(sv(&g) == sv(&e), "into_43", "into", || format!("Into::<B<0>>::into({}) = {} expected {}", shown, sv(&g), sv(&e))); } for i in 0..n { let a = values().swap_remove(i); let shown = show(&a); let g: B<1> = ::core::convert::Into::into(a); let e = o_into_1(values().swap_remove(i)); out.check(sv(&g) == sv(&e), "into_43", "into", || format!("Into::<B<1>>::into({}) = {} expected {}", shown, sv(&g), sv(&e))); } for i in 0..n { let a = values().swap_remove(i); let shown = show(&a); let g: B<2> = ::core::convert::Into::into(a); let e = o_into_2(values().swap_remove(i)); out.check(sv(&g) == sv(&e), "into_43", "into", || format!("Into::<B<2>>::into({}) = {} expected {}", shown, sv(&g), sv(&e))); } }
