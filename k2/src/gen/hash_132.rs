// hash_132
#![allow(dead_code, unused_variables, unused_mut, unused_imports, non_shorthand_field_patterns, clippy::all)]
use crate::support::*;
use educe::Educe;
use core::cmp::Ordering;
#[derive(Educe)]
#[educe(Hash)]
pub enum T { Some(), None, V1, A { #[educe(Hash(method = "m_hash"))] size: A<0>, builder: A<1>, r#type: A<2>, _0: A<3> } }
pub fn values() -> Vec<T> { vec![T::Some(), T::None, T::V1, T::A { size: A(7), builder: A(0), r#type: A(7), _0: A(7) }, T::A { size: A(7), builder: A(1), r#type: A(0), _0: A(1) }, T::A { size: A(0), builder: A(0), r#type: A(0), _0: A(0) }, T::A { size: A(0), builder: A(0), r#type: A(1), _0: A(7) }, T::A { size: A(1), builder: A(1), r#type: A(0), _0: A(0) }, T::A { size: A(1), builder: A(0), r#type: A(1), _0: A(0) }, T::A { size: A(7), builder: A(0), r#type: A(1), _0: A(7) }, T::A { size: A(7), builder: A(0), r#type: A(7), _0: A(1) }, T::A { size: A(1), builder: A(7), r#type: A(0), _0: A(0) }, T::A { size: A(7), builder: A(7), r#type: A(1), _0: A(7) }, T::A { size: A(0), builder: A(0), r#type: A(7), _0: A(0) }, T::A { size: A(0), builder: A(7), r#type: A(7), _0: A(1) }] }
pub fn show(x: &T) -> String { #[allow(unused_variables)] match x { T::Some() => format!("Some()"), T::None => format!("None()"), T::V1 => format!("V1()"), T::A { size: p0, builder: p1, r#type: p2, _0: p3 } => format!("A({},{},{},{})", sv(p0), sv(p1), sv(p2), sv(p3)) } }
pub fn o_hash(x: &T) -> Vec<String> { let mut e = Rec::default(); match x { T::Some() => { ::core::hash::Hash::hash(&0usize, &mut e); }, T::None => { ::core::hash::Hash::hash(&1usize, &mut e); }, T::V1 => { ::core::hash::Hash::hash(&2usize, &mut e); }, T::A { size: p0, builder: p1, r#type: p2, _0: p3 } => { ::core::hash::Hash::hash(&3usize, &mut e); m_hash(p0, &mut e); ::core::hash::Hash::hash(p1, &mut e); ::core::hash::Hash::hash(p2, &mut e); ::core::hash::Hash::hash(p3, &mut e); } } e.0 }
pub fn run(out: &mut Out) { let vs = values(); for a in &vs { let mut g = Rec::default(); ::core::hash::Hash::hash(a, &mut g); let e = o_hash(a); out.check(g.0 == e, "hash_132", "hash", || format!("hash({}) fed {:?} expected {:?}", show(a), g.0, e)); } }
