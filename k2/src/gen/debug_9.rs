// debug_9
#![allow(dead_code, unused_variables, unused_mut, unused_imports, non_shorthand_field_patterns, clippy::all)]
use crate::support::*;
use educe::Educe;
use core::cmp::Ordering;
#[derive(Educe)]
#[educe(Debug(name = true, named_field = false))]
pub struct T { #[educe(Debug(ignore(true)))] arg: A<0>, a: A<1>, #[educe(Debug = false)] state: A<2> }
pub fn values() -> Vec<T> { vec![T { arg: A(1), a: A(7), state: A(0) }, T { arg: A(1), a: A(7), state: A(7) }, T { arg: A(1), a: A(0), state: A(7) }, T { arg: A(7), a: A(7), state: A(7) }, T { arg: A(7), a: A(1), state: A(1) }, T { arg: A(0), a: A(7), state: A(0) }, T { arg: A(0), a: A(0), state: A(7) }, T { arg: A(0), a: A(7), state: A(1) }, T { arg: A(1), a: A(7), state: A(1) }, T { arg: A(0), a: A(0), state: A(1) }, T { arg: A(7), a: A(1), state: A(0) }, T { arg: A(0), a: A(1), state: A(7) }, T { arg: A(7), a: A(0), state: A(0) }, T { arg: A(7), a: A(1), state: A(7) }, T { arg: A(0), a: A(1), state: A(0) }, T { arg: A(1), a: A(0), state: A(0) }, T { arg: A(1), a: A(1), state: A(0) }, T { arg: A(1), a: A(1), state: A(1) }, T { arg: A(7), a: A(0), state: A(1) }, T { arg: A(1), a: A(1), state: A(7) }, T { arg: A(1), a: A(0), state: A(1) }, T { arg: A(7), a: A(7), state: A(1) }, T { arg: A(0), a: A(1), state: A(1) }, T { arg: A(7), a: A(7), state: A(0) }] }
pub fn show(x: &T) -> String { #[allow(unused_variables)] match x { T { arg: p0, a: p1, state: p2 } => format!("T({},{},{})", sv(p0), sv(p1), sv(p2)) } }
pub fn o_fmt(x: &T, f: &mut ::core::fmt::Formatter<'_>) -> ::core::fmt::Result { match x { T { arg: p0, a: p1, state: p2 } => f.debug_tuple("T").field(p1).finish() } }

pub fn run(out: &mut Out) { let vs = values(); for a in &vs { let g = format!("{:?}", a); let e = format!("{:?}", Fm(|f: &mut ::core::fmt::Formatter<'_>| o_fmt(a, f))); out.check(g == e, "debug_9", "debug", || format!("{{:?}} of {} = {:?} expected {:?}", show(a), g, e)); let g = format!("{:#?}", a); let e = format!("{:#?}", Fm(|f: &mut ::core::fmt::Formatter<'_>| o_fmt(a, f))); out.check(g == e, "debug_9", "debug_alt", || format!("{{:#?}} of {} = {:?} expected {:?}", show(a), g, e)); let g = format!("{:8?}", a); let e = format!("{:8?}", Fm(|f: &mut ::core::fmt::Formatter<'_>| o_fmt(a, f))); out.check(g == e, "debug_9", "debug_width", || format!("{{:8?}} of {} = {:?} expected {:?}", show(a), g, e)); }  }
