// default_66
#![allow(dead_code, unused_variables, unused_mut, unused_imports, non_shorthand_field_patterns, clippy::all)]
use crate::support::*;
use educe::Educe;
use core::cmp::Ordering;
#[derive(Educe)]
#[educe(Default)]
pub struct T { #[educe(Default(expr = A(9)))] builder: A<0>, y: A<0>, c: f32, #[educe(Default(expression(1.5)))] data: f32 }
pub fn show(x: &T) -> String { #[allow(unused_variables)] match x { T { builder: p0, y: p1, c: p2, data: p3 } => format!("T({},{},{},{})", sv(p0), sv(p1), sv(p2), sv(p3)) } }
pub fn o_default() -> T { T { builder: A(9), y: A(40), c: 0f32, data: 1.5f32 } }
pub fn run(out: &mut Out) { let g = <T as ::core::default::Default>::default(); let e = o_default(); out.check(show(&g) == show(&e), "default_66", "default", || format!("default() = {} expected {}", show(&g), show(&e))); }
