// ord_115
#![allow(dead_code, unused_variables, unused_mut, unused_imports, non_shorthand_field_patterns, clippy::all)]
use crate::support::*;
use educe::Educe;
use core::cmp::Ordering;
#[derive(Educe)]
#[educe(Eq, PartialOrd, PartialEq)]
pub enum T { A { #[educe(PartialOrd(ignore = true))] f: A<0>, #[educe(PartialOrd(ignore = true))] state: A<0> }, C { #[educe(PartialOrd(rank = "+7", method = m_pcmp))] _0: A<0>, size: A<1> } }

pub fn values() -> Vec<T> { vec![T::A { f: A(0), state: A(0) }, T::A { f: A(0), state: A(1) }, T::A { f: A(0), state: A(7) }, T::A { f: A(1), state: A(0) }, T::A { f: A(1), state: A(1) }, T::A { f: A(1), state: A(7) }, T::A { f: A(7), state: A(0) }, T::A { f: A(7), state: A(1) }, T::A { f: A(7), state: A(7) }, T::C { _0: A(0), size: A(0) }, T::C { _0: A(0), size: A(1) }, T::C { _0: A(0), size: A(7) }, T::C { _0: A(1), size: A(0) }, T::C { _0: A(1), size: A(1) }, T::C { _0: A(1), size: A(7) }, T::C { _0: A(7), size: A(0) }, T::C { _0: A(7), size: A(1) }, T::C { _0: A(7), size: A(7) }] }
pub fn show(x: &T) -> String { #[allow(unused_variables)] match x { T::A { f: p0, state: p1 } => format!("A({},{})", sv(p0), sv(p1)), T::C { _0: p0, size: p1 } => format!("C({},{})", sv(p0), sv(p1)) } }
pub fn o_disc(x: &T) -> i128 { match x { T::A { f: _, state: _ } => 0, T::C { _0: _, size: _ } => 1 } }
pub fn o_pcmp(a: &T, b: &T) -> Option<Ordering> { match (a, b) { (T::A { f: a0, state: a1 }, T::A { f: b0, state: b1 }) => {  Some(Ordering::Equal) }, (T::C { _0: a0, size: a1 }, T::C { _0: b0, size: b1 }) => { match ::core::cmp::PartialOrd::partial_cmp(a1, b1) { Some(Ordering::Equal) => (), x => return x } match m_pcmp(a0, b0) { Some(Ordering::Equal) => (), x => return x } Some(Ordering::Equal) }, _ => Some(o_disc(a).cmp(&o_disc(b))) } }
pub fn run(out: &mut Out) { let vs = values(); for (i, a) in vs.iter().enumerate() { for (j, b) in vs.iter().enumerate() { let e = o_pcmp(a, b); let g = ::core::cmp::PartialOrd::partial_cmp(a, b); out.check(g == e, "ord_115", "partial_cmp", || format!("partial_cmp({}, {}) = {:?} expected {:?}", show(a), show(b), g, e)); } } }
