// into_73
#![allow(dead_code, unused_variables, unused_mut, unused_imports, non_shorthand_field_patterns, clippy::all)]
use crate::support::*;
use educe::Educe;
use core::cmp::Ordering;
#[derive(Educe)]
#[educe(Into(A<0>))]
pub enum T { A { a: A<0> }, Zed { #[educe(Into(A<0>))] state: A<0>, arg: A<0> }, Some(A<0>), None { c: A<0>, other: A<3>, _0: A<3> } }
pub fn values() -> Vec<T> { vec![T::A { a: A(0) }, T::A { a: A(1) }, T::A { a: A(7) }, T::Zed { state: A(7), arg: A(1) }, T::Zed { state: A(1), arg: A(0) }, T::Zed { state: A(1), arg: A(1) }, T::Some(A(0)), T::Some(A(1)), T::Some(A(7)), T::None { c: A(1), other: A(1), _0: A(7) }, T::None { c: A(0), other: A(0), _0: A(0) }, T::None { c: A(0), other: A(7), _0: A(7) }] }
pub fn show(x: &T) -> String { #[allow(unused_variables)] match x { T::A { a: p0 } => format!("A({})", sv(p0)), T::Zed { state: p0, arg: p1 } => format!("Zed({},{})", sv(p0), sv(p1)), T::Some(p0) => format!("Some({})", sv(p0)), T::None { c: p0, other: p1, _0: p2 } => format!("None({},{},{})", sv(p0), sv(p1), sv(p2)) } }
pub fn o_into_0(x: T) -> A<0> { match x { T::A { a: p0 } => p0, T::Zed { state: p0, arg: _ } => p0, T::Some(p0) => p0, T::None { c: p0, other: _, _0: _ } => p0 } }
pub fn run(out: &mut Out) { let n = values().len(); for i in 0..n { let a = values().swap_remove(i); let shown = show(&a); let g: A<0> = ::core::convert::Into::into(a); let e = o_into_0(values().swap_remove(i)); out.check(sv(&g) == sv(&e), "into_73", "into", || format!("Into::<A<0>>::into({}) = {} expected {}", shown, sv(&g), sv(&e))); } }
