// hash_40
#![allow(dead_code, unused_variables, unused_mut, unused_imports, non_shorthand_field_patterns, clippy::all)]
use crate::support::*;
use educe::Educe;
use core::cmp::Ordering;
#[derive(Educe)]
#[educe(Hash)]
pub enum T { Unit, V1 { size: A<0>, #[educe(Hash(method("m_hash")))] other: A<1>, #[educe(Hash(method = "m_hash"))] f: A<2> }, Zed { _0: A<0> } }
pub fn values() -> Vec<T> { vec![T::Unit, T::V1 { size: A(1), other: A(0), f: A(7) }, T::V1 { size: A(7), other: A(0), f: A(1) }, T::V1 { size: A(7), other: A(7), f: A(1) }, T::V1 { size: A(1), other: A(7), f: A(0) }, T::V1 { size: A(0), other: A(7), f: A(1) }, T::V1 { size: A(0), other: A(7), f: A(0) }, T::V1 { size: A(7), other: A(0), f: A(0) }, T::V1 { size: A(0), other: A(1), f: A(7) }, T::V1 { size: A(7), other: A(7), f: A(7) }, T::V1 { size: A(0), other: A(1), f: A(0) }, T::V1 { size: A(7), other: A(1), f: A(0) }, T::V1 { size: A(7), other: A(1), f: A(1) }, T::V1 { size: A(0), other: A(7), f: A(7) }, T::V1 { size: A(1), other: A(1), f: A(0) }, T::V1 { size: A(7), other: A(0), f: A(7) }, T::V1 { size: A(7), other: A(7), f: A(0) }, T::Zed { _0: A(0) }, T::Zed { _0: A(1) }, T::Zed { _0: A(7) }] }
pub fn show(x: &T) -> String { #[allow(unused_variables)] match x { T::Unit => format!("Unit()"), T::V1 { size: p0, other: p1, f: p2 } => format!("V1({},{},{})", sv(p0), sv(p1), sv(p2)), T::Zed { _0: p0 } => format!("Zed({})", sv(p0)) } }
pub fn o_hash(x: &T) -> Vec<String> { let mut e = Rec::default(); match x { T::Unit => { ::core::hash::Hash::hash(&0usize, &mut e); }, T::V1 { size: p0, other: p1, f: p2 } => { ::core::hash::Hash::hash(&1usize, &mut e); ::core::hash::Hash::hash(p0, &mut e); m_hash(p1, &mut e); m_hash(p2, &mut e); }, T::Zed { _0: p0 } => { ::core::hash::Hash::hash(&2usize, &mut e); ::core::hash::Hash::hash(p0, &mut e); } } e.0 }
pub fn run(out: &mut Out) { let vs = values(); for a in &vs { let mut g = Rec::default(); ::core::hash::Hash::hash(a, &mut g); let e = o_hash(a); out.check(g.0 == e, "hash_40", "hash", || format!("hash({}) fed {:?} expected {:?}", show(a), g.0, e)); } }
