// default_2
#![allow(dead_code, unused_variables, unused_mut, unused_imports, non_shorthand_field_patterns, clippy::all)]
use crate::support::*;
use educe::Educe;
use core::cmp::Ordering;
#[derive(Educe)]
#[educe(Default)]
pub enum T { #[educe(Default)] C, Unit { other: &'static str, r#type: u16, size: i64, state: i64 }, Zed(f64, u64), None(u16, char, i64) }
pub fn show(x: &T) -> String { #[allow(unused_variables)] match x { T::C => format!("C()"), T::Unit { other: p0, r#type: p1, size: p2, state: p3 } => format!("Unit({},{},{},{})", sv(p0), sv(p1), sv(p2), sv(p3)), T::Zed(p0, p1) => format!("Zed({},{})", sv(p0), sv(p1)), T::None(p0, p1, p2) => format!("None({},{},{})", sv(p0), sv(p1), sv(p2)) } }
pub fn o_default() -> T { T::C }
pub fn run(out: &mut Out) { let g = <T as ::core::default::Default>::default(); let e = o_default(); out.check(show(&g) == show(&e), "default_2", "default", || format!("default() = {} expected {}", show(&g), show(&e))); }
