// default_35
#![allow(dead_code, unused_variables, unused_mut, unused_imports, non_shorthand_field_patterns, clippy::all)]
use crate::support::*;
use educe::Educe;
use core::cmp::Ordering;
#[derive(Educe)]
#[educe(Default)]
pub struct T(i64, u16);
pub fn show(x: &T) -> String { #[allow(unused_variables)] match x { T(p0, p1) => format!("T({},{})", sv(p0), sv(p1)) } }
pub fn o_default() -> T { T(0i64, 0u16) }
pub fn run(out: &mut Out) { let g = <T as ::core::default::Default>::default(); let e = o_default(); out.check(show(&g) == show(&e), "default_35", "default", || format!("default() = {} expected {}", show(&g), show(&e))); }
