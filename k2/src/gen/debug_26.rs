// debug_26
#![allow(dead_code, unused_variables, unused_mut, unused_imports, non_shorthand_field_patterns, clippy::all)]
use crate::support::*;
use educe::Educe;
use core::cmp::Ordering;
#[derive(Educe)]
#[educe(Debug)]
pub enum T { Unit }
pub fn values() -> Vec<T> { vec![T::Unit] }
pub fn show(x: &T) -> String { #[allow(unused_variables)] match x { T::Unit => format!("Unit()") } }
pub fn o_fmt(x: &T, f: &mut ::core::fmt::Formatter<'_>) -> ::core::fmt::Result { match x { T::Unit => f.write_str("Unit") } }

pub fn run(out: &mut Out) { let vs = values(); for a in &vs { let g = format!("{:?}", a); let e = format!("{:?}", Fm(|f: &mut ::core::fmt::Formatter<'_>| o_fmt(a, f))); out.check(g == e, "debug_26", "debug", || format!("{{:?}} of {} = {:?} expected {:?}", show(a), g, e)); let g = format!("{:#?}", a); let e = format!("{:#?}", Fm(|f: &mut ::core::fmt::Formatter<'_>| o_fmt(a, f))); out.check(g == e, "debug_26", "debug_alt", || format!("{{:#?}} of {} = {:?} expected {:?}", show(a), g, e)); let g = format!("{:8?}", a); let e = format!("{:8?}", Fm(|f: &mut ::core::fmt::Formatter<'_>| o_fmt(a, f))); out.check(g == e, "debug_26", "debug_width", || format!("{{:8?}} of {} = {:?} expected {:?}", show(a), g, e)); }  }
