// ordlayout_85
#![allow(dead_code, unused_variables, unused_mut, unused_imports, non_shorthand_field_patterns, clippy::all)]
use crate::support::*;
use core::cmp::Ordering;
pub mod ty {
    #![deny(warnings)]
    #![allow(dead_code, unused_imports, non_snake_case)]
    use crate::support::{A, B, C, Good, Bad, m_eq, m_cmp, m_pcmp, m_hash, m_fmt, m_clone, m_clone_c, m_into, g_eq, g_cmp, g_pcmp, g_hash, g_fmt};
    use educe::Educe;
#[derive(Educe)]
#[educe(Debug)]
#[educe(PartialOrd, PartialEq, Eq)]
pub enum T { B { #[educe(Debug(ignore = false))] #[educe(PartialOrd(rank = 5))] a: Option<u8>, #[educe(PartialOrd(ignore = false), Debug(name = zz0))] size: i64 }, None(::core::num::NonZeroU8, #[educe(Debug(ignore), PartialOrd(rank(3)))] char, #[educe(PartialOrd(rank("4")))] &'static u8), V1 }
}
pub use ty::T;

pub fn values() -> Vec<T> { vec![T::B { a: None, size: -5 }, T::B { a: None, size: 0 }, T::B { a: None, size: 9 }, T::B { a: Some(0), size: -5 }, T::B { a: Some(0), size: 0 }, T::B { a: Some(0), size: 9 }, T::B { a: Some(255), size: -5 }, T::B { a: Some(255), size: 0 }, T::B { a: Some(255), size: 9 }, T::None(::core::num::NonZeroU8::new(1).unwrap(), 'a', &3u8), T::None(::core::num::NonZeroU8::new(1).unwrap(), 'a', &200u8), T::None(::core::num::NonZeroU8::new(1).unwrap(), 'z', &3u8), T::None(::core::num::NonZeroU8::new(1).unwrap(), 'z', &200u8), T::None(::core::num::NonZeroU8::new(200).unwrap(), 'a', &3u8), T::None(::core::num::NonZeroU8::new(200).unwrap(), 'a', &200u8), T::None(::core::num::NonZeroU8::new(200).unwrap(), 'z', &3u8), T::None(::core::num::NonZeroU8::new(200).unwrap(), 'z', &200u8), T::V1] }
pub fn show(x: &T) -> String { #[allow(unused_variables)] match x { T::B { a: p0, size: p1 } => format!("B({},{})", sv(p0), sv(p1)), T::None(p0, p1, p2) => format!("None({},{},{})", sv(p0), sv(p1), sv(p2)), T::V1 => format!("V1()") } }
pub fn o_disc(x: &T) -> i128 { match x { T::B { a: _, size: _ } => 0, T::None(_, _, _) => 1, T::V1 => 2 } }
pub fn o_pcmp(a: &T, b: &T) -> Option<Ordering> { match (a, b) { (T::B { a: a0, size: a1 }, T::B { a: b0, size: b1 }) => { match ::core::cmp::PartialOrd::partial_cmp(a1, b1) { Some(Ordering::Equal) => (), x => return x } match ::core::cmp::PartialOrd::partial_cmp(a0, b0) { Some(Ordering::Equal) => (), x => return x } Some(Ordering::Equal) }, (T::None(a0, a1, a2), T::None(b0, b1, b2)) => { match ::core::cmp::PartialOrd::partial_cmp(a0, b0) { Some(Ordering::Equal) => (), x => return x } match ::core::cmp::PartialOrd::partial_cmp(a1, b1) { Some(Ordering::Equal) => (), x => return x } match ::core::cmp::PartialOrd::partial_cmp(a2, b2) { Some(Ordering::Equal) => (), x => return x } Some(Ordering::Equal) }, (T::V1, T::V1) => {  Some(Ordering::Equal) }, _ => Some(o_disc(a).cmp(&o_disc(b))) } }
#[repr(C)] pub struct Wrap { pub pre: u8, pub x: T, pub post: [u8; 9] }
pub fn wrap(i: usize, n: u8) -> Wrap { Wrap { pre: n, x: values().swap_remove(i), post: [n; 9] } }
pub fn run(out: &mut Out) { let vs = values(); for (i, a) in vs.iter().enumerate() { for (j, b) in vs.iter().enumerate() { let e = o_pcmp(a, b); let g = ::core::cmp::PartialOrd::partial_cmp(a, b); out.check(g == e, "ordlayout_85", "partial_cmp", || format!("partial_cmp({}, {}) = {:?} expected {:?}", show(a), show(b), g, e)); for n in [0u8, 1, 0x7f, 0x80, 0xff] { let wa = wrap(i, n); let wb = wrap(j, !n); let g = ::core::cmp::PartialOrd::partial_cmp(&wa.x, &wb.x); let e = o_pcmp(a, b); out.check(g == e, "ordlayout_85", "cmp_neighbours", || format!("cmp({}, {}) with neighbour bytes {} = {:?} expected {:?}", show(a), show(b), n, g, e)); } } } }
