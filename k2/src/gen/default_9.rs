// default_9
#![allow(dead_code, unused_variables, unused_mut, unused_imports, non_shorthand_field_patterns, clippy::all)]
use crate::support::*;
use educe::Educe;
use core::cmp::Ordering;
#[derive(Educe)]
#[educe(Default)]
pub enum T { #[educe(Default)] C { #[educe(Default(expr(1.5)))] builder: f64, #[educe(Default(expression(true)))] state: bool }, Zed(u16), None { x: f64, data: i64 } }
pub fn show(x: &T) -> String { #[allow(unused_variables)] match x { T::C { builder: p0, state: p1 } => format!("C({},{})", sv(p0), sv(p1)), T::Zed(p0) => format!("Zed({})", sv(p0)), T::None { x: p0, data: p1 } => format!("None({},{})", sv(p0), sv(p1)) } }
pub fn o_default() -> T { T::C { builder: 1.5f64, state: true } }
pub fn run(out: &mut Out) { let g = <T as ::core::default::Default>::default(); let e = o_default(); out.check(show(&g) == show(&e), "default_9", "default", || format!("default() = {} expected {}", show(&g), show(&e))); }
