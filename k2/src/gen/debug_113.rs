// debug_113
#![allow(dead_code, unused_variables, unused_mut, unused_imports, non_shorthand_field_patterns, clippy::all)]
use crate::support::*;
use educe::Educe;
use core::cmp::Ordering;
#[derive(Educe)]
#[educe(Debug(name = ""))]
pub enum T { #[educe(Debug(name = "Ren"))] None { #[educe(Debug(method = "m_fmt"))] _0: A<0>, data: A<1> }, #[educe(Debug(name(Ren)))] Some() }
pub fn values() -> Vec<T> { vec![T::None { _0: A(0), data: A(0) }, T::None { _0: A(0), data: A(1) }, T::None { _0: A(0), data: A(7) }, T::None { _0: A(1), data: A(0) }, T::None { _0: A(1), data: A(1) }, T::None { _0: A(1), data: A(7) }, T::None { _0: A(7), data: A(0) }, T::None { _0: A(7), data: A(1) }, T::None { _0: A(7), data: A(7) }, T::Some()] }
pub fn show(x: &T) -> String { #[allow(unused_variables)] match x { T::None { _0: p0, data: p1 } => format!("None({},{})", sv(p0), sv(p1)), T::Some() => format!("Some()") } }
pub fn o_fmt(x: &T, f: &mut ::core::fmt::Formatter<'_>) -> ::core::fmt::Result { match x { T::None { _0: p0, data: p1 } => f.debug_struct("Ren").field("_0", &Wm(p0)).field("data", p1).finish(), T::Some() => f.debug_tuple("Ren").finish() } }

pub fn run(out: &mut Out) { let vs = values(); for a in &vs { let g = format!("{:?}", a); let e = format!("{:?}", Fm(|f: &mut ::core::fmt::Formatter<'_>| o_fmt(a, f))); out.check(g == e, "debug_113", "debug", || format!("{{:?}} of {} = {:?} expected {:?}", show(a), g, e)); let g = format!("{:#?}", a); let e = format!("{:#?}", Fm(|f: &mut ::core::fmt::Formatter<'_>| o_fmt(a, f))); out.check(g == e, "debug_113", "debug_alt", || format!("{{:#?}} of {} = {:?} expected {:?}", show(a), g, e)); let g = format!("{:8?}", a); let e = format!("{:8?}", Fm(|f: &mut ::core::fmt::Formatter<'_>| o_fmt(a, f))); out.check(g == e, "debug_113", "debug_width", || format!("{{:8?}} of {} = {:?} expected {:?}", show(a), g, e)); }  }
