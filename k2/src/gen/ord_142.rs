// ord_142
#![allow(dead_code, unused_variables, unused_mut, unused_imports, non_shorthand_field_patterns, clippy::all)]
use crate::support::*;
use core::cmp::Ordering;
pub mod ty {
    #![deny(warnings)]
    #![allow(dead_code, unused_imports, non_snake_case)]
    use crate::support::{A, B, C, Good, Bad, m_eq, m_cmp, m_pcmp, m_hash, m_fmt, m_clone, m_clone_c, m_into, g_eq, g_cmp, g_pcmp, g_hash, g_fmt};
    use educe::Educe;
#[derive(Educe)]
#[educe(Ord, PartialEq, Eq)]
#[educe(Debug)]
pub struct T(#[educe(Debug(ignore))] #[educe(Ord(rank(-3)))] pub A<0>, #[educe(Ord(method = m_cmp))] pub A<0>, #[educe(Ord(rank = 3))] pub A<0>, pub A<0>);
}
pub use ty::T;
impl PartialOrd for T { fn partial_cmp(&self, o: &Self) -> Option<Ordering> { Some(::core::cmp::Ord::cmp(self, o)) } }
pub fn values() -> Vec<T> { vec![T(A(7), A(1), A(7), A(0)), T(A(1), A(0), A(1), A(1)), T(A(0), A(0), A(0), A(1)), T(A(7), A(1), A(7), A(1)), T(A(1), A(1), A(0), A(7)), T(A(1), A(1), A(1), A(1)), T(A(7), A(0), A(7), A(7)), T(A(1), A(0), A(7), A(7)), T(A(1), A(0), A(7), A(1)), T(A(7), A(7), A(7), A(7)), T(A(0), A(7), A(7), A(0)), T(A(7), A(7), A(7), A(0)), T(A(7), A(7), A(1), A(7)), T(A(0), A(7), A(7), A(7)), T(A(7), A(0), A(1), A(7)), T(A(7), A(0), A(1), A(1)), T(A(1), A(7), A(0), A(7)), T(A(0), A(7), A(1), A(0)), T(A(7), A(0), A(1), A(0)), T(A(1), A(1), A(0), A(1)), T(A(0), A(7), A(1), A(1)), T(A(0), A(1), A(7), A(0)), T(A(7), A(1), A(0), A(0)), T(A(7), A(1), A(7), A(7)), T(A(7), A(0), A(0), A(0)), T(A(0), A(1), A(1), A(7)), T(A(0), A(0), A(0), A(7)), T(A(0), A(0), A(1), A(7)), T(A(1), A(7), A(0), A(1)), T(A(7), A(7), A(1), A(0)), T(A(1), A(1), A(1), A(7)), T(A(7), A(7), A(0), A(1)), T(A(7), A(1), A(0), A(7)), T(A(1), A(1), A(7), A(7)), T(A(0), A(1), A(0), A(0)), T(A(7), A(1), A(1), A(7))] }
pub fn show(x: &T) -> String { #[allow(unused_variables)] match x { T(p0, p1, p2, p3) => format!("T({},{},{},{})", sv(p0), sv(p1), sv(p2), sv(p3)) } }
pub fn o_disc(x: &T) -> i128 { match x { T(_, _, _, _) => 0 } }
pub fn o_cmp(a: &T, b: &T) -> Ordering { match (a, b) { (T(a0, a1, a2, a3), T(b0, b1, b2, b3)) => { let c = m_cmp(a1, b1); if c != Ordering::Equal { return c; } let c = ::core::cmp::Ord::cmp(a3, b3); if c != Ordering::Equal { return c; } let c = ::core::cmp::Ord::cmp(a0, b0); if c != Ordering::Equal { return c; } let c = ::core::cmp::Ord::cmp(a2, b2); if c != Ordering::Equal { return c; } Ordering::Equal } } }
pub fn run(out: &mut Out) { let vs = values(); for (i, a) in vs.iter().enumerate() { for (j, b) in vs.iter().enumerate() { let e = o_cmp(a, b); let g = ::core::cmp::Ord::cmp(a, b); out.check(g == e, "ord_142", "cmp", || format!("cmp({}, {}) = {:?} expected {:?}", show(a), show(b), g, e)); } } }
