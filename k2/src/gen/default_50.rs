// default_50
#![allow(dead_code, unused_variables, unused_mut, unused_imports, non_shorthand_field_patterns, clippy::all)]
use crate::support::*;
use educe::Educe;
use core::cmp::Ordering;
#[derive(Educe)]
#[educe(Default(new(true)))]
pub struct T { f: f32, r#type: u64, y: i64 }
pub fn show(x: &T) -> String { #[allow(unused_variables)] match x { T { f: p0, r#type: p1, y: p2 } => format!("T({},{},{})", sv(p0), sv(p1), sv(p2)) } }
pub fn o_default() -> T { T { f: 0f32, r#type: 0u64, y: 0i64 } }
pub fn run(out: &mut Out) { let g = <T as ::core::default::Default>::default(); let e = o_default(); out.check(show(&g) == show(&e), "default_50", "default", || format!("default() = {} expected {}", show(&g), show(&e))); let g = T::new(); let e = o_default(); out.check(show(&g) == show(&e), "default_50", "new", || format!("new() = {} expected {}", show(&g), show(&e))); }
