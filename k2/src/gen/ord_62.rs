// ord_62
#![allow(dead_code, unused_variables, unused_mut, unused_imports, non_shorthand_field_patterns, clippy::all)]
use crate::support::*;
use core::cmp::Ordering;
pub mod ty {
    #![deny(warnings)]
    #![allow(dead_code, unused_imports, non_snake_case)]
    use crate::support::{A, B, C, Good, Bad, m_eq, m_cmp, m_pcmp, m_hash, m_fmt, m_clone, m_clone_c, m_into, g_eq, g_cmp, g_pcmp, g_hash, g_fmt};
    use educe::Educe;
#[derive(Educe)]
#[educe(PartialEq, Ord, Eq, PartialOrd)]
pub enum T { None, Unit { #[educe(Ord(rank("-4")))] r#type: A<0>, #[educe(Ord(method(m_cmp)))] state: A<1>, #[educe(Ord(rank = "-2"))] data: A<2>, #[educe(Ord(rank = "+6", method(m_cmp)))] f: A<0> } }
}
pub use ty::T;

pub fn values() -> Vec<T> { vec![T::None, T::Unit { r#type: A(1), state: A(7), data: A(0), f: A(1) }, T::Unit { r#type: A(7), state: A(1), data: A(7), f: A(7) }, T::Unit { r#type: A(0), state: A(7), data: A(1), f: A(7) }, T::Unit { r#type: A(1), state: A(7), data: A(0), f: A(0) }, T::Unit { r#type: A(7), state: A(1), data: A(0), f: A(0) }, T::Unit { r#type: A(1), state: A(7), data: A(7), f: A(7) }, T::Unit { r#type: A(7), state: A(7), data: A(0), f: A(7) }, T::Unit { r#type: A(7), state: A(7), data: A(1), f: A(7) }, T::Unit { r#type: A(1), state: A(7), data: A(1), f: A(0) }, T::Unit { r#type: A(7), state: A(7), data: A(0), f: A(0) }, T::Unit { r#type: A(7), state: A(7), data: A(1), f: A(0) }, T::Unit { r#type: A(1), state: A(7), data: A(7), f: A(1) }, T::Unit { r#type: A(1), state: A(0), data: A(0), f: A(7) }, T::Unit { r#type: A(0), state: A(7), data: A(1), f: A(0) }, T::Unit { r#type: A(7), state: A(1), data: A(0), f: A(7) }, T::Unit { r#type: A(1), state: A(1), data: A(0), f: A(7) }, T::Unit { r#type: A(1), state: A(0), data: A(7), f: A(1) }, T::Unit { r#type: A(0), state: A(1), data: A(1), f: A(7) }] }
pub fn show(x: &T) -> String { #[allow(unused_variables)] match x { T::None => format!("None()"), T::Unit { r#type: p0, state: p1, data: p2, f: p3 } => format!("Unit({},{},{},{})", sv(p0), sv(p1), sv(p2), sv(p3)) } }
pub fn o_disc(x: &T) -> i128 { match x { T::None => 0, T::Unit { r#type: _, state: _, data: _, f: _ } => 1 } }
pub fn o_cmp(a: &T, b: &T) -> Ordering { match (a, b) { (T::None, T::None) => {  Ordering::Equal }, (T::Unit { r#type: a0, state: a1, data: a2, f: a3 }, T::Unit { r#type: b0, state: b1, data: b2, f: b3 }) => { let c = m_cmp(a1, b1); if c != Ordering::Equal { return c; } let c = ::core::cmp::Ord::cmp(a0, b0); if c != Ordering::Equal { return c; } let c = ::core::cmp::Ord::cmp(a2, b2); if c != Ordering::Equal { return c; } let c = m_cmp(a3, b3); if c != Ordering::Equal { return c; } Ordering::Equal }, _ => o_disc(a).cmp(&o_disc(b)) } }
pub fn run(out: &mut Out) { let vs = values(); for (i, a) in vs.iter().enumerate() { for (j, b) in vs.iter().enumerate() { let e = o_cmp(a, b); let g = ::core::cmp::Ord::cmp(a, b); out.check(g == e, "ord_62", "cmp", || format!("cmp({}, {}) = {:?} expected {:?}", show(a), show(b), g, e)); let g2 = ::core::cmp::PartialOrd::partial_cmp(a, b); out.check(g2 == Some(e), "ord_62", "partial_is_some_cmp", || format!("partial_cmp({}, {}) = {:?} expected Some({:?})", show(a), show(b), g2, e)); } } }
