// default_135
#![allow(dead_code, unused_variables, unused_mut, unused_imports, non_shorthand_field_patterns, clippy::all)]
use crate::support::*;
use educe::Educe;
use core::cmp::Ordering;
#[derive(Educe)]
#[educe(Default)]
pub struct T { #[educe(Default = 1.5)] data: f32, #[educe(Default = 'x')] x: char }
pub fn show(x: &T) -> String { #[allow(unused_variables)] match x { T { data: p0, x: p1 } => format!("T({},{})", sv(p0), sv(p1)) } }
pub fn o_default() -> T { T { data: 1.5f32, x: 'x' } }
pub fn run(out: &mut Out) { let g = <T as ::core::default::Default>::default(); let e = o_default(); out.check(show(&g) == show(&e), "default_135", "default", || format!("default() = {} expected {}", show(&g), show(&e))); }
