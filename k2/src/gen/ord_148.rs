// ord_148
#![allow(dead_code, unused_variables, unused_mut, unused_imports, non_shorthand_field_patterns, clippy::all)]
use crate::support::*;
use core::cmp::Ordering;
pub mod ty {
    #![deny(warnings)]
    #![allow(dead_code, unused_imports, non_snake_case)]
    use crate::support::{A, B, C, Good, Bad, m_eq, m_cmp, m_pcmp, m_hash, m_fmt, m_clone, m_clone_c, m_into, g_eq, g_cmp, g_pcmp, g_hash, g_fmt};
    use educe::Educe;
#[derive(Educe)]
#[repr(u64)]
#[educe(Debug)]
#[educe(Eq, PartialOrd, PartialEq)]
pub enum T { B { #[educe(Debug(name = zz3))] #[educe(PartialOrd(rank = 6))] b: A<0>, #[educe(PartialOrd(ignore))] source: A<0>, #[educe(PartialOrd(rank = "1"), Debug(ignore = true))] c: A<0> } = 9223372036854775808 }
}
pub use ty::T;

pub fn values() -> Vec<T> { vec![T::B { b: A(0), source: A(0), c: A(0) }, T::B { b: A(0), source: A(0), c: A(1) }, T::B { b: A(0), source: A(0), c: A(7) }, T::B { b: A(0), source: A(1), c: A(0) }, T::B { b: A(0), source: A(1), c: A(1) }, T::B { b: A(0), source: A(1), c: A(7) }, T::B { b: A(0), source: A(7), c: A(0) }, T::B { b: A(0), source: A(7), c: A(1) }, T::B { b: A(0), source: A(7), c: A(7) }, T::B { b: A(1), source: A(0), c: A(0) }, T::B { b: A(1), source: A(0), c: A(1) }, T::B { b: A(1), source: A(0), c: A(7) }, T::B { b: A(1), source: A(1), c: A(0) }, T::B { b: A(1), source: A(1), c: A(1) }, T::B { b: A(1), source: A(1), c: A(7) }, T::B { b: A(1), source: A(7), c: A(0) }, T::B { b: A(1), source: A(7), c: A(1) }, T::B { b: A(1), source: A(7), c: A(7) }, T::B { b: A(7), source: A(0), c: A(0) }, T::B { b: A(7), source: A(0), c: A(1) }, T::B { b: A(7), source: A(0), c: A(7) }, T::B { b: A(7), source: A(1), c: A(0) }, T::B { b: A(7), source: A(1), c: A(1) }, T::B { b: A(7), source: A(1), c: A(7) }, T::B { b: A(7), source: A(7), c: A(0) }, T::B { b: A(7), source: A(7), c: A(1) }, T::B { b: A(7), source: A(7), c: A(7) }] }
pub fn show(x: &T) -> String { #[allow(unused_variables)] match x { T::B { b: p0, source: p1, c: p2 } => format!("B({},{},{})", sv(p0), sv(p1), sv(p2)) } }
pub fn o_disc(x: &T) -> i128 { match x { T::B { b: _, source: _, c: _ } => 9223372036854775808 } }
pub fn o_pcmp(a: &T, b: &T) -> Option<Ordering> { match (a, b) { (T::B { b: a0, source: a1, c: a2 }, T::B { b: b0, source: b1, c: b2 }) => { match ::core::cmp::PartialOrd::partial_cmp(a2, b2) { Some(Ordering::Equal) => (), x => return x } match ::core::cmp::PartialOrd::partial_cmp(a0, b0) { Some(Ordering::Equal) => (), x => return x } Some(Ordering::Equal) } } }
pub fn run(out: &mut Out) { let vs = values(); for (i, a) in vs.iter().enumerate() { for (j, b) in vs.iter().enumerate() { let e = o_pcmp(a, b); let g = ::core::cmp::PartialOrd::partial_cmp(a, b); out.check(g == e, "ord_148", "partial_cmp", || format!("partial_cmp({}, {}) = {:?} expected {:?}", show(a), show(b), g, e)); } } }
