// eq_21
#![allow(dead_code, unused_variables, unused_mut, unused_imports, non_shorthand_field_patterns, clippy::all)]
use crate::support::*;
use educe::Educe;
use core::cmp::Ordering;
#[derive(Educe)]
#[educe(PartialEq)]
pub enum T { None(A<0>, #[educe(PartialEq(ignore(true)))] A<1>), A { data: A<0>, x: A<1> } }
pub fn values() -> Vec<T> { vec![T::None(A(0), A(0)), T::None(A(0), A(1)), T::None(A(0), A(7)), T::None(A(1), A(0)), T::None(A(1), A(1)), T::None(A(1), A(7)), T::None(A(7), A(0)), T::None(A(7), A(1)), T::None(A(7), A(7)), T::A { data: A(0), x: A(0) }, T::A { data: A(0), x: A(1) }, T::A { data: A(0), x: A(7) }, T::A { data: A(1), x: A(0) }, T::A { data: A(1), x: A(1) }, T::A { data: A(1), x: A(7) }, T::A { data: A(7), x: A(0) }, T::A { data: A(7), x: A(1) }, T::A { data: A(7), x: A(7) }] }
pub fn show(x: &T) -> String { #[allow(unused_variables)] match x { T::None(p0, p1) => format!("None({},{})", sv(p0), sv(p1)), T::A { data: p0, x: p1 } => format!("A({},{})", sv(p0), sv(p1)) } }
pub fn o_eq(a: &T, b: &T) -> bool { match (a, b) { (T::None(a0, a1), T::None(b0, b1)) => (a0 == b0), (T::A { data: a0, x: a1 }, T::A { data: b0, x: b1 }) => (a0 == b0) && (a1 == b1), _ => false } }
pub fn run(out: &mut Out) { let vs = values(); for a in &vs { for b in &vs { let e = o_eq(a, b); out.check((a == b) == e, "eq_21", "eq", || format!("{} == {} expected {}", show(a), show(b), e)); out.check((a != b) == !e, "eq_21", "ne", || format!("{} != {} expected {}", show(a), show(b), !e)); } } }
