// deref_51
#![allow(dead_code, unused_variables, unused_mut, unused_imports, non_shorthand_field_patterns, clippy::all)]
use crate::support::*;
use educe::Educe;
use core::cmp::Ordering;
#[derive(Educe)]
#[educe(Deref)]
pub enum T { Unit { size: A<2>, #[educe(Deref)] state: A<2> }, A(A<2>, A<2>, #[educe(Deref)] A<2>, A<0>), Zed { #[educe(Deref)] b: A<2>, f: A<0> }, None { x: A<1>, b: A<2>, #[educe(Deref)] c: A<2>, y: A<2> } }
pub fn values() -> Vec<T> { vec![T::Unit { size: A(7), state: A(1) }, T::Unit { size: A(0), state: A(0) }, T::Unit { size: A(1), state: A(7) }, T::Unit { size: A(1), state: A(0) }, T::A(A(7), A(1), A(7), A(1)), T::A(A(0), A(0), A(1), A(7)), T::A(A(7), A(1), A(0), A(7)), T::A(A(1), A(1), A(1), A(1)), T::Zed { b: A(1), f: A(0) }, T::Zed { b: A(0), f: A(0) }, T::Zed { b: A(1), f: A(7) }, T::Zed { b: A(0), f: A(7) }, T::None { x: A(0), b: A(1), c: A(1), y: A(0) }, T::None { x: A(1), b: A(1), c: A(1), y: A(0) }, T::None { x: A(7), b: A(0), c: A(7), y: A(1) }, T::None { x: A(1), b: A(0), c: A(7), y: A(7) }] }
pub fn show(x: &T) -> String { #[allow(unused_variables)] match x { T::Unit { size: p0, state: p1 } => format!("Unit({},{})", sv(p0), sv(p1)), T::A(p0, p1, p2, p3) => format!("A({},{},{},{})", sv(p0), sv(p1), sv(p2), sv(p3)), T::Zed { b: p0, f: p1 } => format!("Zed({},{})", sv(p0), sv(p1)), T::None { x: p0, b: p1, c: p2, y: p3 } => format!("None({},{},{},{})", sv(p0), sv(p1), sv(p2), sv(p3)) } }
pub fn o_deref(x: &T) -> *const A<2> { match x { T::Unit { size: _, state: p1 } => p1 as *const A<2>, T::A(_, _, p2, _) => p2 as *const A<2>, T::Zed { b: p0, f: _ } => p0 as *const A<2>, T::None { x: _, b: _, c: p2, y: _ } => p2 as *const A<2> } }
pub fn run(out: &mut Out) { let vs = values(); for a in &vs { let g = ::core::ops::Deref::deref(a) as *const A<2>; let e = o_deref(a); out.check(g == e, "deref_51", "deref", || format!("&*{} has another address than the designated field", show(a))); } }
