// debug_42
#![allow(dead_code, unused_variables, unused_mut, unused_imports, non_shorthand_field_patterns, clippy::all)]
use crate::support::*;
use educe::Educe;
use core::cmp::Ordering;
#[derive(Educe)]
#[educe(Debug(name(false)))]
pub enum T { C, #[educe(Debug(named_field(false)))] Some { #[educe(Debug(ignore(true)))] state: A<0> }, #[educe(Debug(name = false))] None { #[educe(Debug(name = "k0", method = m_fmt))] f: A<0>, #[educe(Debug = k1)] x: A<1>, #[educe(Debug(name(k2)))] c: A<2>, a: A<0> }, Unit { #[educe(Debug(method = "m_fmt"))] builder: A<0> } }
pub fn values() -> Vec<T> { vec![T::C, T::Some { state: A(0) }, T::Some { state: A(1) }, T::Some { state: A(7) }, T::None { f: A(0), x: A(1), c: A(7), a: A(1) }, T::None { f: A(0), x: A(1), c: A(0), a: A(1) }, T::None { f: A(7), x: A(7), c: A(7), a: A(7) }, T::None { f: A(0), x: A(0), c: A(0), a: A(7) }, T::None { f: A(1), x: A(0), c: A(7), a: A(7) }, T::None { f: A(1), x: A(1), c: A(7), a: A(1) }, T::Unit { builder: A(0) }, T::Unit { builder: A(1) }, T::Unit { builder: A(7) }] }
pub fn show(x: &T) -> String { #[allow(unused_variables)] match x { T::C => format!("C()"), T::Some { state: p0 } => format!("Some({})", sv(p0)), T::None { f: p0, x: p1, c: p2, a: p3 } => format!("None({},{},{},{})", sv(p0), sv(p1), sv(p2), sv(p3)), T::Unit { builder: p0 } => format!("Unit({})", sv(p0)) } }
pub fn o_fmt(x: &T, f: &mut ::core::fmt::Formatter<'_>) -> ::core::fmt::Result { match x { T::C => f.write_str("C"), T::Some { state: p0 } => f.debug_tuple("Some").finish(), T::None { f: p0, x: p1, c: p2, a: p3 } => f.debug_map().entry(&Raw("k0"), &Wm(p0)).entry(&Raw("k1"), p1).entry(&Raw("k2"), p2).entry(&Raw("a"), p3).finish(), T::Unit { builder: p0 } => f.debug_struct("Unit").field("builder", &Wm(p0)).finish() } }

pub fn run(out: &mut Out) { let vs = values(); for a in &vs { let g = format!("{:?}", a); let e = format!("{:?}", Fm(|f: &mut ::core::fmt::Formatter<'_>| o_fmt(a, f))); out.check(g == e, "debug_42", "debug", || format!("{{:?}} of {} = {:?} expected {:?}", show(a), g, e)); let g = format!("{:#?}", a); let e = format!("{:#?}", Fm(|f: &mut ::core::fmt::Formatter<'_>| o_fmt(a, f))); out.check(g == e, "debug_42", "debug_alt", || format!("{{:#?}} of {} = {:?} expected {:?}", show(a), g, e)); let g = format!("{:8?}", a); let e = format!("{:8?}", Fm(|f: &mut ::core::fmt::Formatter<'_>| o_fmt(a, f))); out.check(g == e, "debug_42", "debug_width", || format!("{{:8?}} of {} = {:?} expected {:?}", show(a), g, e)); }  }
