// default_91
#![allow(dead_code, unused_variables, unused_mut, unused_imports, non_shorthand_field_patterns, clippy::all)]
use crate::support::*;
use educe::Educe;
use core::cmp::Ordering;
#[derive(Educe)]
#[educe(Default(expr(T::Some), new = true))]
pub enum T { Some }
pub fn show(x: &T) -> String { #[allow(unused_variables)] match x { T::Some => format!("Some()") } }
pub fn o_default() -> T { T::Some }
pub fn run(out: &mut Out) { let g = <T as ::core::default::Default>::default(); let e = o_default(); out.check(show(&g) == show(&e), "default_91", "default", || format!("default() = {} expected {}", show(&g), show(&e))); let g = T::new(); let e = o_default(); out.check(show(&g) == show(&e), "default_91", "new", || format!("new() = {} expected {}", show(&g), show(&e))); }
