// ordlayout_145
#![allow(dead_code, unused_variables, unused_mut, unused_imports, non_shorthand_field_patterns, clippy::all)]
use crate::support::*;
use educe::Educe;
use core::cmp::Ordering;
#[derive(Educe)]
#[repr(isize)]
#[educe(Eq, PartialEq, Ord)]
pub enum T { B, Unit(Option<u8>, #[educe(Ord(rank = "-2"))] bool) = 1000, C { #[educe(Ord(rank = 7i64))] arg: (), #[educe(Ord(rank("8")))] state: char }, Some }
impl PartialOrd for T { fn partial_cmp(&self, o: &Self) -> Option<Ordering> { Some(::core::cmp::Ord::cmp(self, o)) } }
pub fn values() -> Vec<T> { vec![T::B, T::Unit(None, false), T::Unit(None, true), T::Unit(Some(0), false), T::Unit(Some(0), true), T::Unit(Some(255), false), T::Unit(Some(255), true), T::C { arg: (), state: 'a' }, T::C { arg: (), state: 'z' }, T::Some] }
pub fn show(x: &T) -> String { #[allow(unused_variables)] match x { T::B => format!("B()"), T::Unit(p0, p1) => format!("Unit({},{})", sv(p0), sv(p1)), T::C { arg: p0, state: p1 } => format!("C({},{})", sv(p0), sv(p1)), T::Some => format!("Some()") } }
pub fn o_disc(x: &T) -> i128 { match x { T::B => 0, T::Unit(_, _) => 1000, T::C { arg: _, state: _ } => 1001, T::Some => 1002 } }
pub fn o_cmp(a: &T, b: &T) -> Ordering { match (a, b) { (T::B, T::B) => {  Ordering::Equal }, (T::Unit(a0, a1), T::Unit(b0, b1)) => { let c = ::core::cmp::Ord::cmp(a0, b0); if c != Ordering::Equal { return c; } let c = ::core::cmp::Ord::cmp(a1, b1); if c != Ordering::Equal { return c; } Ordering::Equal }, (T::C { arg: a0, state: a1 }, T::C { arg: b0, state: b1 }) => { let c = ::core::cmp::Ord::cmp(a0, b0); if c != Ordering::Equal { return c; } let c = ::core::cmp::Ord::cmp(a1, b1); if c != Ordering::Equal { return c; } Ordering::Equal }, (T::Some, T::Some) => {  Ordering::Equal }, _ => o_disc(a).cmp(&o_disc(b)) } }
#[repr(C)] pub struct Wrap { pub pre: u8, pub x: T, pub post: [u8; 9] }
pub fn wrap(i: usize, n: u8) -> Wrap { Wrap { pre: n, x: values().swap_remove(i), post: [n; 9] } }
pub fn run(out: &mut Out) { let vs = values(); for (i, a) in vs.iter().enumerate() { for (j, b) in vs.iter().enumerate() { let e = o_cmp(a, b); let g = ::core::cmp::Ord::cmp(a, b); out.check(g == e, "ordlayout_145", "cmp", || format!("cmp({}, {}) = {:?} expected {:?}", show(a), show(b), g, e)); for n in [0u8, 1, 0x7f, 0x80, 0xff] { let wa = wrap(i, n); let wb = wrap(j, !n); let g = ::core::cmp::Ord::cmp(&wa.x, &wb.x); let e = o_cmp(a, b); out.check(g == e, "ordlayout_145", "cmp_neighbours", || format!("cmp({}, {}) with neighbour bytes {} = {:?} expected {:?}", show(a), show(b), n, g, e)); } } } }
