// ordlayout_140
#![allow(dead_code, unused_variables, unused_mut, unused_imports, non_shorthand_field_patterns, clippy::all)]
use crate::support::*;
use educe::Educe;
use core::cmp::Ordering;
#[derive(Educe)]
#[repr(C)]
#[educe(PartialOrd, Eq, Ord, PartialEq)]
pub enum T { Unit(#[educe(Ord(rank(6)))] bool, #[educe(Ord(rank = 7i64))] char, #[educe(Ord(rank = "+4"))] i64), Zed { _0: Option<u8>, data: u8 }, C }

pub fn values() -> Vec<T> { vec![T::Unit(false, 'a', -5), T::Unit(false, 'a', 0), T::Unit(false, 'a', 9), T::Unit(false, 'z', -5), T::Unit(false, 'z', 0), T::Unit(false, 'z', 9), T::Unit(true, 'a', -5), T::Unit(true, 'a', 0), T::Unit(true, 'a', 9), T::Unit(true, 'z', -5), T::Unit(true, 'z', 0), T::Unit(true, 'z', 9), T::Zed { _0: None, data: 0 }, T::Zed { _0: None, data: 100 }, T::Zed { _0: None, data: 200 }, T::Zed { _0: Some(0), data: 0 }, T::Zed { _0: Some(0), data: 100 }, T::Zed { _0: Some(0), data: 200 }, T::Zed { _0: Some(255), data: 0 }, T::Zed { _0: Some(255), data: 100 }, T::Zed { _0: Some(255), data: 200 }, T::C] }
pub fn show(x: &T) -> String { #[allow(unused_variables)] match x { T::Unit(p0, p1, p2) => format!("Unit({},{},{})", sv(p0), sv(p1), sv(p2)), T::Zed { _0: p0, data: p1 } => format!("Zed({},{})", sv(p0), sv(p1)), T::C => format!("C()") } }
pub fn o_disc(x: &T) -> i128 { match x { T::Unit(_, _, _) => 0, T::Zed { _0: _, data: _ } => 1, T::C => 2 } }
pub fn o_cmp(a: &T, b: &T) -> Ordering { match (a, b) { (T::Unit(a0, a1, a2), T::Unit(b0, b1, b2)) => { let c = ::core::cmp::Ord::cmp(a2, b2); if c != Ordering::Equal { return c; } let c = ::core::cmp::Ord::cmp(a0, b0); if c != Ordering::Equal { return c; } let c = ::core::cmp::Ord::cmp(a1, b1); if c != Ordering::Equal { return c; } Ordering::Equal }, (T::Zed { _0: a0, data: a1 }, T::Zed { _0: b0, data: b1 }) => { let c = ::core::cmp::Ord::cmp(a0, b0); if c != Ordering::Equal { return c; } let c = ::core::cmp::Ord::cmp(a1, b1); if c != Ordering::Equal { return c; } Ordering::Equal }, (T::C, T::C) => {  Ordering::Equal }, _ => o_disc(a).cmp(&o_disc(b)) } }
#[repr(C)] pub struct Wrap { pub pre: u8, pub x: T, pub post: [u8; 9] }
pub fn wrap(i: usize, n: u8) -> Wrap { Wrap { pre: n, x: values().swap_remove(i), post: [n; 9] } }
pub fn run(out: &mut Out) { let vs = values(); for (i, a) in vs.iter().enumerate() { for (j, b) in vs.iter().enumerate() { let e = o_cmp(a, b); let g = ::core::cmp::Ord::cmp(a, b); out.check(g == e, "ordlayout_140", "cmp", || format!("cmp({}, {}) = {:?} expected {:?}", show(a), show(b), g, e)); let g2 = ::core::cmp::PartialOrd::partial_cmp(a, b); out.check(g2 == Some(e), "ordlayout_140", "partial_is_some_cmp", || format!("partial_cmp({}, {}) = {:?} expected Some({:?})", show(a), show(b), g2, e)); for n in [0u8, 1, 0x7f, 0x80, 0xff] { let wa = wrap(i, n); let wb = wrap(j, !n); let g = ::core::cmp::Ord::cmp(&wa.x, &wb.x); let e = o_cmp(a, b); out.check(g == e, "ordlayout_140", "cmp_neighbours", || format!("cmp({}, {}) with neighbour bytes {} = {:?} expected {:?}", show(a), show(b), n, g, e)); } } } }
