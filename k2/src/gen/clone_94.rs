// clone_94
#![allow(dead_code, unused_variables, unused_mut, unused_imports, non_shorthand_field_patterns, clippy::all)]
use crate::support::*;
use educe::Educe;
use core::cmp::Ordering;
#[derive(Educe)]
#[educe(Clone, Copy)]
pub enum T { C, Some(C<0>, C<0>) }
pub fn values() -> Vec<T> { vec![T::C, T::Some(C(0), C(0)), T::Some(C(0), C(1)), T::Some(C(0), C(2)), T::Some(C(1), C(0)), T::Some(C(1), C(1)), T::Some(C(1), C(2)), T::Some(C(2), C(0)), T::Some(C(2), C(1)), T::Some(C(2), C(2))] }
pub fn show(x: &T) -> String { #[allow(unused_variables)] match x { T::C => format!("C()"), T::Some(p0, p1) => format!("Some({},{})", sv(p0), sv(p1)) } }
pub fn o_clone(x: &T) -> T { match x { T::C => T::C, T::Some(p0, p1) => T::Some(C(p0.0), C(p1.0)) } }
pub fn o_log(x: &T) -> Vec<String> { match x { T::C => vec![], T::Some(p0, p1) => vec![] } }
pub fn run(out: &mut Out) { let vs = values(); for a in &vs { let _ = take_log(); let g = ::core::clone::Clone::clone(a); let l = take_log(); let e = o_clone(a); out.check(show(&g) == show(&e), "clone_94", "clone", || format!("clone({}) = {} expected {}", show(a), show(&g), show(&e))); let el = o_log(a); out.check(l == el, "clone_94", "clone_calls", || format!("clone({}) called {:?} expected {:?}", show(a), l, el)); } let n = vs.len(); for i in 0..n { for j in 0..n { let mut x = values().swap_remove(i); let shown = show(&x); ::core::clone::Clone::clone_from(&mut x, &vs[j]); let e = o_clone(&vs[j]); out.check(show(&x) == show(&e), "clone_94", "clone_from", || format!("{}.clone_from({}) = {} expected {}", shown, show(&vs[j]), show(&x), show(&e))); } }  fn is_copy<X: Copy>() {} is_copy::<T>(); }
