// deref_47
#![allow(dead_code, unused_variables, unused_mut, unused_imports, non_shorthand_field_patterns, clippy::all)]
use crate::support::*;
use educe::Educe;
use core::cmp::Ordering;
#[derive(Educe)]
#[educe(Deref)]
pub enum T { V1 { data: A<1>, r#type: A<2>, #[educe(Deref)] b: A<1>, f: A<0> }, B { #[educe(Deref)] a: A<1>, size: A<1> }, A { size: A<1>, a: A<2>, builder: A<1>, #[educe(Deref)] x: A<1> } }
pub fn values() -> Vec<T> { vec![T::V1 { data: A(0), r#type: A(1), b: A(1), f: A(1) }, T::V1 { data: A(1), r#type: A(1), b: A(0), f: A(1) }, T::V1 { data: A(0), r#type: A(1), b: A(1), f: A(0) }, T::V1 { data: A(1), r#type: A(0), b: A(1), f: A(7) }, T::V1 { data: A(1), r#type: A(0), b: A(7), f: A(0) }, T::B { a: A(1), size: A(1) }, T::B { a: A(1), size: A(7) }, T::B { a: A(0), size: A(1) }, T::B { a: A(7), size: A(1) }, T::B { a: A(0), size: A(0) }, T::A { size: A(1), a: A(1), builder: A(0), x: A(1) }, T::A { size: A(1), a: A(1), builder: A(7), x: A(1) }, T::A { size: A(0), a: A(0), builder: A(1), x: A(1) }, T::A { size: A(1), a: A(7), builder: A(1), x: A(0) }, T::A { size: A(1), a: A(0), builder: A(1), x: A(7) }] }
pub fn show(x: &T) -> String { #[allow(unused_variables)] match x { T::V1 { data: p0, r#type: p1, b: p2, f: p3 } => format!("V1({},{},{},{})", sv(p0), sv(p1), sv(p2), sv(p3)), T::B { a: p0, size: p1 } => format!("B({},{})", sv(p0), sv(p1)), T::A { size: p0, a: p1, builder: p2, x: p3 } => format!("A({},{},{},{})", sv(p0), sv(p1), sv(p2), sv(p3)) } }
pub fn o_deref(x: &T) -> *const A<1> { match x { T::V1 { data: _, r#type: _, b: p2, f: _ } => p2 as *const A<1>, T::B { a: p0, size: _ } => p0 as *const A<1>, T::A { size: _, a: _, builder: _, x: p3 } => p3 as *const A<1> } }
pub fn run(out: &mut Out) { let vs = values(); for a in &vs { let g = ::core::ops::Deref::deref(a) as *const A<1>; let e = o_deref(a); out.check(g == e, "deref_47", "deref", || format!("&*{} has another address than the designated field", show(a))); } }
