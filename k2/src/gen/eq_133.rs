// eq_133
#![allow(dead_code, unused_variables, unused_mut, unused_imports, non_shorthand_field_patterns, clippy::all)]
use crate::support::*;
use educe::Educe;
use core::cmp::Ordering;
#[derive(Educe)]
#[educe(PartialEq)]
pub enum T { B(#[educe(PartialEq(ignore))] A<0>, #[educe(PartialEq(ignore(true)))] A<0>, #[educe(PartialEq(ignore))] A<0>), None(#[educe(PartialEq(ignore))] A<0>) }
pub fn values() -> Vec<T> { vec![T::B(A(7), A(0), A(0)), T::B(A(0), A(7), A(1)), T::B(A(7), A(1), A(0)), T::B(A(1), A(1), A(7)), T::B(A(7), A(0), A(7)), T::B(A(1), A(7), A(0)), T::B(A(7), A(7), A(0)), T::B(A(0), A(0), A(0)), T::B(A(0), A(1), A(7)), T::B(A(0), A(0), A(1)), T::B(A(0), A(7), A(7)), T::B(A(1), A(1), A(0)), T::B(A(7), A(1), A(1)), T::B(A(0), A(7), A(0)), T::B(A(7), A(7), A(1)), T::B(A(1), A(1), A(1)), T::B(A(1), A(7), A(7)), T::B(A(7), A(0), A(1)), T::B(A(7), A(7), A(7)), T::B(A(1), A(0), A(7)), T::B(A(1), A(0), A(0)), T::B(A(7), A(1), A(7)), T::B(A(1), A(7), A(1)), T::B(A(0), A(1), A(1)), T::None(A(0)), T::None(A(1)), T::None(A(7))] }
pub fn show(x: &T) -> String { #[allow(unused_variables)] match x { T::B(p0, p1, p2) => format!("B({},{},{})", sv(p0), sv(p1), sv(p2)), T::None(p0) => format!("None({})", sv(p0)) } }
pub fn o_eq(a: &T, b: &T) -> bool { match (a, b) { (T::B(a0, a1, a2), T::B(b0, b1, b2)) => true, (T::None(a0), T::None(b0)) => true, _ => false } }
pub fn run(out: &mut Out) { let vs = values(); for a in &vs { for b in &vs { let e = o_eq(a, b); out.check((a == b) == e, "eq_133", "eq", || format!("{} == {} expected {}", show(a), show(b), e)); out.check((a != b) == !e, "eq_133", "ne", || format!("{} != {} expected {}", show(a), show(b), !e)); } } }
