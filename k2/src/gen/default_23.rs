// default_23
#![allow(dead_code, unused_variables, unused_mut, unused_imports, non_shorthand_field_patterns, clippy::all)]
use crate::support::*;
use educe::Educe;
use core::cmp::Ordering;
#[derive(Educe)]
#[educe(Default(new = true))]
pub enum T { C(f64, u16, char, u8), #[educe(Default)] V1(u8) }
pub fn show(x: &T) -> String { #[allow(unused_variables)] match x { T::C(p0, p1, p2, p3) => format!("C({},{},{},{})", sv(p0), sv(p1), sv(p2), sv(p3)), T::V1(p0) => format!("V1({})", sv(p0)) } }
pub fn o_default() -> T { T::V1(0u8) }
pub fn run(out: &mut Out) { let g = <T as ::core::default::Default>::default(); let e = o_default(); out.check(show(&g) == show(&e), "default_23", "default", || format!("default() = {} expected {}", show(&g), show(&e))); let g = T::new(); let e = o_default(); out.check(show(&g) == show(&e), "default_23", "new", || format!("new() = {} expected {}", show(&g), show(&e))); }
