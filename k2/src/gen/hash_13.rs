// hash_13
#![allow(dead_code, unused_variables, unused_mut, unused_imports, non_shorthand_field_patterns, clippy::all)]
use crate::support::*;
use educe::Educe;
use core::cmp::Ordering;
#[derive(Educe)]
#[educe(Hash)]
pub struct T { #[educe(Hash(method = "m_hash"))] b: A<0>, f: A<1> }
pub fn values() -> Vec<T> { vec![T { b: A(0), f: A(0) }, T { b: A(0), f: A(1) }, T { b: A(0), f: A(7) }, T { b: A(1), f: A(0) }, T { b: A(1), f: A(1) }, T { b: A(1), f: A(7) }, T { b: A(7), f: A(0) }, T { b: A(7), f: A(1) }, T { b: A(7), f: A(7) }] }
pub fn show(x: &T) -> String { #[allow(unused_variables)] match x { T { b: p0, f: p1 } => format!("T({},{})", sv(p0), sv(p1)) } }
pub fn o_hash(x: &T) -> Vec<String> { let mut e = Rec::default(); match x { T { b: p0, f: p1 } => { m_hash(p0, &mut e); ::core::hash::Hash::hash(p1, &mut e); } } e.0 }
pub fn run(out: &mut Out) { let vs = values(); for a in &vs { let mut g = Rec::default(); ::core::hash::Hash::hash(a, &mut g); let e = o_hash(a); out.check(g.0 == e, "hash_13", "hash", || format!("hash({}) fed {:?} expected {:?}", show(a), g.0, e)); } }
