// default_132
#![allow(dead_code, unused_variables, unused_mut, unused_imports, non_shorthand_field_patterns, clippy::all)]
use crate::support::*;
use educe::Educe;
use core::cmp::Ordering;
#[derive(Educe)]
#[educe(Default(new = true))]
pub enum T { Zed { x: f64, f: f64 }, #[educe(Default)] Some { #[educe(Default = "hi")] data: String, state: &'static str, arg: String }, A { c: f64 } }
pub fn show(x: &T) -> String { #[allow(unused_variables)] match x { T::Zed { x: p0, f: p1 } => format!("Zed({},{})", sv(p0), sv(p1)), T::Some { data: p0, state: p1, arg: p2 } => format!("Some({},{},{})", sv(p0), sv(p1), sv(p2)), T::A { c: p0 } => format!("A({})", sv(p0)) } }
pub fn o_default() -> T { T::Some { data: String::from("hi"), state: "", arg: String::new() } }
pub fn run(out: &mut Out) { let g = <T as ::core::default::Default>::default(); let e = o_default(); out.check(show(&g) == show(&e), "default_132", "default", || format!("default() = {} expected {}", show(&g), show(&e))); let g = T::new(); let e = o_default(); out.check(show(&g) == show(&e), "default_132", "new", || format!("new() = {} expected {}", show(&g), show(&e))); }
