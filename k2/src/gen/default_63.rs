// default_63
#![allow(dead_code, unused_variables, unused_mut, unused_imports, non_shorthand_field_patterns, clippy::all)]
use crate::support::*;
use educe::Educe;
use core::cmp::Ordering;
#[derive(Educe)]
#[educe(Default)]
pub enum T { Zed(u16, bool) }
pub fn show(x: &T) -> String { #[allow(unused_variables)] match x { T::Zed(p0, p1) => format!("Zed({},{})", sv(p0), sv(p1)) } }
pub fn o_default() -> T { T::Zed(0u16, false) }
pub fn run(out: &mut Out) { let g = <T as ::core::default::Default>::default(); let e = o_default(); out.check(show(&g) == show(&e), "default_63", "default", || format!("default() = {} expected {}", show(&g), show(&e))); }
