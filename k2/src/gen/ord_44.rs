// ord_44
#![allow(dead_code, unused_variables, unused_mut, unused_imports, non_shorthand_field_patterns, clippy::all)]
use crate::support::*;
use educe::Educe;
use core::cmp::Ordering;
#[derive(Educe)]
#[educe(PartialOrd, PartialEq, Eq, Ord)]
pub struct T { #[educe(Ord(method = m_cmp))] x: A<0>, #[educe(Ord(method = "m_cmp"))] state: A<1>, #[educe(Ord(rank = "+2"))] f: A<2> }

pub fn values() -> Vec<T> { vec![T { x: A(0), state: A(0), f: A(0) }, T { x: A(0), state: A(0), f: A(1) }, T { x: A(0), state: A(0), f: A(7) }, T { x: A(0), state: A(1), f: A(0) }, T { x: A(0), state: A(1), f: A(1) }, T { x: A(0), state: A(1), f: A(7) }, T { x: A(0), state: A(7), f: A(0) }, T { x: A(0), state: A(7), f: A(1) }, T { x: A(0), state: A(7), f: A(7) }, T { x: A(1), state: A(0), f: A(0) }, T { x: A(1), state: A(0), f: A(1) }, T { x: A(1), state: A(0), f: A(7) }, T { x: A(1), state: A(1), f: A(0) }, T { x: A(1), state: A(1), f: A(1) }, T { x: A(1), state: A(1), f: A(7) }, T { x: A(1), state: A(7), f: A(0) }, T { x: A(1), state: A(7), f: A(1) }, T { x: A(1), state: A(7), f: A(7) }, T { x: A(7), state: A(0), f: A(0) }, T { x: A(7), state: A(0), f: A(1) }, T { x: A(7), state: A(0), f: A(7) }, T { x: A(7), state: A(1), f: A(0) }, T { x: A(7), state: A(1), f: A(1) }, T { x: A(7), state: A(1), f: A(7) }, T { x: A(7), state: A(7), f: A(0) }, T { x: A(7), state: A(7), f: A(1) }, T { x: A(7), state: A(7), f: A(7) }] }
pub fn show(x: &T) -> String { #[allow(unused_variables)] match x { T { x: p0, state: p1, f: p2 } => format!("T({},{},{})", sv(p0), sv(p1), sv(p2)) } }
pub fn o_disc(x: &T) -> i128 { match x { T { x: _, state: _, f: _ } => 0 } }
pub fn o_cmp(a: &T, b: &T) -> Ordering { match (a, b) { (T { x: a0, state: a1, f: a2 }, T { x: b0, state: b1, f: b2 }) => { let c = m_cmp(a0, b0); if c != Ordering::Equal { return c; } let c = m_cmp(a1, b1); if c != Ordering::Equal { return c; } let c = ::core::cmp::Ord::cmp(a2, b2); if c != Ordering::Equal { return c; } Ordering::Equal } } }
pub fn run(out: &mut Out) { let vs = values(); for (i, a) in vs.iter().enumerate() { for (j, b) in vs.iter().enumerate() { let e = o_cmp(a, b); let g = ::core::cmp::Ord::cmp(a, b); out.check(g == e, "ord_44", "cmp", || format!("cmp({}, {}) = {:?} expected {:?}", show(a), show(b), g, e)); let g2 = ::core::cmp::PartialOrd::partial_cmp(a, b); out.check(g2 == Some(e), "ord_44", "partial_is_some_cmp", || format!("partial_cmp({}, {}) = {:?} expected Some({:?})", show(a), show(b), g2, e)); } } }
