// debug_124
#![allow(dead_code, unused_variables, unused_mut, unused_imports, non_shorthand_field_patterns, clippy::all)]
use crate::support::*;
use educe::Educe;
use core::cmp::Ordering;
#[derive(Educe)]
#[educe(Debug(name(true)))]
pub struct T { #[educe(Debug(rename = k0, method(m_fmt)))] b: A<0>, builder: A<1> }
pub fn values() -> Vec<T> { vec![T { b: A(0), builder: A(0) }, T { b: A(0), builder: A(1) }, T { b: A(0), builder: A(7) }, T { b: A(1), builder: A(0) }, T { b: A(1), builder: A(1) }, T { b: A(1), builder: A(7) }, T { b: A(7), builder: A(0) }, T { b: A(7), builder: A(1) }, T { b: A(7), builder: A(7) }] }
pub fn show(x: &T) -> String { #[allow(unused_variables)] match x { T { b: p0, builder: p1 } => format!("T({},{})", sv(p0), sv(p1)) } }
pub fn o_fmt(x: &T, f: &mut ::core::fmt::Formatter<'_>) -> ::core::fmt::Result { match x { T { b: p0, builder: p1 } => f.debug_struct("T").field("k0", &Wm(p0)).field("builder", p1).finish() } }

pub fn run(out: &mut Out) { let vs = values(); for a in &vs { let g = format!("{:?}", a); let e = format!("{:?}", Fm(|f: &mut ::core::fmt::Formatter<'_>| o_fmt(a, f))); out.check(g == e, "debug_124", "debug", || format!("{{:?}} of {} = {:?} expected {:?}", show(a), g, e)); let g = format!("{:#?}", a); let e = format!("{:#?}", Fm(|f: &mut ::core::fmt::Formatter<'_>| o_fmt(a, f))); out.check(g == e, "debug_124", "debug_alt", || format!("{{:#?}} of {} = {:?} expected {:?}", show(a), g, e)); let g = format!("{:8?}", a); let e = format!("{:8?}", Fm(|f: &mut ::core::fmt::Formatter<'_>| o_fmt(a, f))); out.check(g == e, "debug_124", "debug_width", || format!("{{:8?}} of {} = {:?} expected {:?}", show(a), g, e)); }  }
