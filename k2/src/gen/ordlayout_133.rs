// ordlayout_133
#![allow(dead_code, unused_variables, unused_mut, unused_imports, non_shorthand_field_patterns, clippy::all)]
use crate::support::*;
use educe::Educe;
use core::cmp::Ordering;
#[derive(Educe)]
#[repr(i64)]
#[educe(PartialEq, PartialOrd, Eq)]
pub enum T { Some() = 1000, Unit = 200, C(char, #[educe(PartialOrd(rank("6")))] i64, u8) = 128, V1 {  } = 3 }

pub fn values() -> Vec<T> { vec![T::Some(), T::Unit, T::C('z', 9, 100), T::C('a', 0, 200), T::C('a', 0, 0), T::C('a', 9, 0), T::C('z', -5, 200), T::C('a', 0, 100), T::C('z', 9, 200), T::C('a', -5, 100), T::C('z', 0, 200), T::V1 {  }] }
pub fn show(x: &T) -> String { #[allow(unused_variables)] match x { T::Some() => format!("Some()"), T::Unit => format!("Unit()"), T::C(p0, p1, p2) => format!("C({},{},{})", sv(p0), sv(p1), sv(p2)), T::V1 {  } => format!("V1()") } }
pub fn o_disc(x: &T) -> i128 { match x { T::Some() => 1000, T::Unit => 200, T::C(_, _, _) => 128, T::V1 {  } => 3 } }
pub fn o_pcmp(a: &T, b: &T) -> Option<Ordering> { match (a, b) { (T::Some(), T::Some()) => {  Some(Ordering::Equal) }, (T::Unit, T::Unit) => {  Some(Ordering::Equal) }, (T::C(a0, a1, a2), T::C(b0, b1, b2)) => { match ::core::cmp::PartialOrd::partial_cmp(a0, b0) { Some(Ordering::Equal) => (), x => return x } match ::core::cmp::PartialOrd::partial_cmp(a2, b2) { Some(Ordering::Equal) => (), x => return x } match ::core::cmp::PartialOrd::partial_cmp(a1, b1) { Some(Ordering::Equal) => (), x => return x } Some(Ordering::Equal) }, (T::V1 {  }, T::V1 {  }) => {  Some(Ordering::Equal) }, _ => Some(o_disc(a).cmp(&o_disc(b))) } }
#[repr(C)] pub struct Wrap { pub pre: u8, pub x: T, pub post: [u8; 9] }
pub fn wrap(i: usize, n: u8) -> Wrap { Wrap { pre: n, x: values().swap_remove(i), post: [n; 9] } }
pub fn run(out: &mut Out) { let vs = values(); for (i, a) in vs.iter().enumerate() { for (j, b) in vs.iter().enumerate() { let e = o_pcmp(a, b); let g = ::core::cmp::PartialOrd::partial_cmp(a, b); out.check(g == e, "ordlayout_133", "partial_cmp", || format!("partial_cmp({}, {}) = {:?} expected {:?}", show(a), show(b), g, e)); for n in [0u8, 1, 0x7f, 0x80, 0xff] { let wa = wrap(i, n); let wb = wrap(j, !n); let g = ::core::cmp::PartialOrd::partial_cmp(&wa.x, &wb.x); let e = o_pcmp(a, b); out.check(g == e, "ordlayout_133", "cmp_neighbours", || format!("cmp({}, {}) with neighbour bytes {} = {:?} expected {:?}", show(a), show(b), n, g, e)); } } } }
